(* DESIGN-ROUND FEASIBILITY SPIKE. Not part of the verification machinery: no check builds or uses
   this file. It backs DESIGN.md section 6 (C08): the graph-theoretic core of the exactness proof. *)
From Coq Require Import List Arith Lia Bool.
Import ListNotations.

(* Set-level heart of Bacon-Rajan trial deletion, as implemented with adjusted counts:
   V  = unfreed objects, E = their out-edges (multi-edges allowed), ext = external handles,
   rc v = ext v + (in-edges from V)            -- the collector's contract (WF)
   G  = everything reachable from the purple roots (the gray region), closed under E
   adj v = in-edges from G                      -- what mark_gray accumulates
   X  = { v in G | rc v > adj v }               -- where scan calls scan_black
   white = G \ reach X.                          -- what collect_white frees
   Safety: white objects are not reachable from any external handle.
   Completeness: if every unreachable object lies in G, every unreachable object of G is white. *)
Section Trial.
  Variable V : list nat.
  Variable E : nat -> list nat.
  Variable ext : nat -> nat.
  Variable G : list nat.
  Hypothesis G_sub : forall v, In v G -> In v V.
  Hypothesis G_nodup : NoDup G.
  Hypothesis V_nodup : NoDup V.
  Hypothesis G_closed : forall u t, In u G -> In t (E u) -> In t G.
  Hypothesis V_closed : forall u t, In u V -> In t (E u) -> In t V.

  Definition cin (S : list nat) (v : nat) : nat := list_sum (map (fun u => count_occ Nat.eq_dec (E u) v) S).
  Definition rc v := ext v + cin V v.
  Definition adj v := cin G v.
  Definition X v := In v G /\ rc v > adj v.

  Inductive path : nat -> nat -> Prop :=
  | p_refl v : path v v
  | p_step u t v : In t (E u) -> path t v -> path u v.
  Definition live v := exists e, In e V /\ ext e > 0 /\ path e v.

  Lemma path_trans a b c : path a b -> path b c -> path a c.
  Proof. induction 1; auto. intros; eapply p_step; eauto. Qed.

  Lemma cin_app S1 S2 v : cin (S1 ++ S2) v = cin S1 v + cin S2 v.
  Proof. unfold cin. rewrite map_app, list_sum_app. reflexivity. Qed.

  Lemma cin_pos S v : cin S v > 0 -> exists u, In u S /\ In v (E u).
  Proof.
    unfold cin. induction S as [|u S IH]; simpl; [lia|]. intros H.
    destruct (count_occ Nat.eq_dec (E u) v) eqn:C.
    - destruct IH as (w & Hw & Hv); [lia|]. exists w; auto.
    - exists u; split; auto. apply (count_occ_In Nat.eq_dec). lia.
  Qed.

  Lemma cin_In S u v : In u S -> In v (E u) -> cin S v > 0.
  Proof.
    unfold cin. induction S as [|w S IH]; simpl; [tauto|]. intros [->|H] Hv.
    - apply (count_occ_In Nat.eq_dec) in Hv. lia.
    - specialize (IH H Hv). lia.
  Qed.

  (* split the in-edges from V into those from G and those from V \ G *)
  Definition rest := filter (fun u => negb (existsb (Nat.eqb u) G)) V.
  Lemma in_rest u : In u rest <-> In u V /\ ~ In u G.
  Proof.
    unfold rest. rewrite filter_In. split; intros [A B]; split; auto.
    - intro HG. rewrite negb_true_iff in B.
      assert (existsb (Nat.eqb u) G = true) by (apply existsb_exists; exists u; split; auto; apply Nat.eqb_refl).
      congruence.
    - rewrite negb_true_iff. destruct (existsb (Nat.eqb u) G) eqn:Ex; auto.
      apply existsb_exists in Ex as (w & Hw & Eq). apply Nat.eqb_eq in Eq; subst. contradiction.
  Qed.

  Lemma cin_perm_split : forall v, cin V v = cin G v + cin rest v.
  Proof.
    intros v. unfold cin.
    (* sum over V of f = sum over G of f + sum over V\G of f, since G is a NoDup subset of the NoDup V *)
    set (f := fun u => count_occ Nat.eq_dec (E u) v).
    assert (H : forall (A B : list nat), NoDup A -> NoDup B -> (forall x, In x B -> In x A) ->
              list_sum (map f A) = list_sum (map f B) + list_sum (map f (filter (fun u => negb (existsb (Nat.eqb u) B)) A))).
    { induction A as [|a A IH]; intros B NA NB Sub.
      - destruct B as [|b B]; simpl; auto. exfalso. apply (Sub b). simpl; auto.
      - inversion NA as [|? ? Ha NA']; subst.
        destruct (in_dec Nat.eq_dec a B) as [HB|HB].
        + (* a in B: remove it from B *)
          destruct (in_split _ _ HB) as (B1 & B2 & ->).
          assert (NB' : NoDup (B1 ++ B2)) by (eapply NoDup_remove_1; eauto).
          assert (Na' : ~ In a (B1 ++ B2)) by (eapply NoDup_remove_2; eauto).
          assert (Sub' : forall x, In x (B1 ++ B2) -> In x A).
          { intros x Hx. assert (In x (B1 ++ a :: B2)) by (apply in_or_app; apply in_app_or in Hx; simpl; tauto).
            destruct (Sub x H); auto. subst. contradiction. }
          specialize (IH (B1 ++ B2) NA' NB' Sub').
          simpl. assert (Ex : existsb (Nat.eqb a) (B1 ++ a :: B2) = true).
          { apply existsb_exists. exists a; split; auto. apply Nat.eqb_refl. }
          rewrite Ex; simpl.
          assert (Fe : filter (fun u => negb (existsb (Nat.eqb u) (B1 ++ a :: B2))) A = filter (fun u => negb (existsb (Nat.eqb u) (B1 ++ B2))) A).
          { apply filter_ext_in. intros u Hu. f_equal. rewrite !existsb_app. simpl.
            destruct (Nat.eqb_spec u a); [subst; contradiction|]. reflexivity. }
          rewrite Fe, IH. rewrite !map_app, !list_sum_app. simpl. lia.
        + simpl. assert (Ex : existsb (Nat.eqb a) B = false).
          { destruct (existsb (Nat.eqb a) B) eqn:Ex; auto. apply existsb_exists in Ex as (w & Hw & Eq).
            apply Nat.eqb_eq in Eq; subst; contradiction. }
          rewrite Ex; simpl.
          assert (Sub' : forall x, In x B -> In x A).
          { intros x Hx. destruct (Sub x Hx); auto. subst; contradiction. }
          rewrite (IH B NA' NB Sub'). lia. }
    apply H; auto.
  Qed.

  Lemma ext_or_outside v : rc v > adj v -> ext v > 0 \/ exists u, In u V /\ ~ In u G /\ In v (E u).
  Proof.
    unfold rc, adj. rewrite cin_perm_split. intros H.
    destruct (ext v) eqn:Ev; [right|left; lia].
    destruct (cin_pos rest v) as (u & Hu & Hv); [lia|]. apply in_rest in Hu as [A B]. eauto.
  Qed.

  (* first entry of a path into G *)
  Lemma enter_G e v : path e v -> In e V -> In v G ->
    In e G \/ exists u w, In u V /\ ~ In u G /\ In w (E u) /\ In w G /\ path w v.
  Proof.
    induction 1 as [v | u t v Ht P IH]; intros HV HG; auto.
    destruct (in_dec Nat.eq_dec u G) as [|NG]; auto.
    destruct (IH (V_closed _ _ HV Ht) HG) as [TG | (a & b & A)].
    - right. exists u, t. auto.
    - right. exists a, b. auto.
  Qed.

  Theorem trial_safe v : In v G -> (forall x, X x -> ~ path x v) -> ~ live v.
  Proof.
    intros HG NoX (e & HV & He & P).
    destruct (enter_G e v P HV HG) as [EG | (u & w & Hu & NuG & Hw & HwG & Pw)].
    - apply (NoX e); auto. split; auto. unfold rc, adj. rewrite cin_perm_split. lia.
    - apply (NoX w); auto. split; auto. unfold rc, adj. rewrite cin_perm_split.
      assert (cin rest w > 0) by (eapply cin_In; eauto; apply in_rest; auto). lia.
  Qed.

  Theorem trial_complete :
    (forall g, In g V -> ~ live g -> In g G) ->
    forall v, In v G -> ~ live v -> forall x, X x -> ~ path x v.
  Proof.
    intros All v HG NL x [HxG Hx] P.
    destruct (ext_or_outside x Hx) as [Ex | (u & Hu & NuG & Hin)].
    - apply NL. exists x; split; auto.
    - apply NuG. apply All; auto. intros (e & He & Ee & Pe).
      apply NL. exists e; split; auto. split; auto.
      eapply path_trans; eauto. eapply p_step; eauto.
  Qed.
End Trial.
Print Assumptions trial_safe.
Print Assumptions trial_complete.
