(* DESIGN-ROUND FEASIBILITY SPIKE. Not part of the verification machinery: no check builds or uses
   this file. It backs the cost estimates in DESIGN.md section 6 (C08, C16): the generic guarded walk that
   all six recursive collector walks instantiate, with termination, exact tracer-callback count and the
   reachability characterisation. To be superseded by coq/Proofs/Walk.v in the build round. *)
From Coq Require Import List Arith Lia Bool.
Import ListNotations.

Section Walk.
  Variable obj : Type.
  Variable edges : obj -> list nat.
  Variable guard : obj -> bool.
  Variable enter : obj -> obj.
  Hypothesis enter_off : forall o, guard (enter o) = false.
  Hypothesis enter_edges : forall o, edges (enter o) = edges o.

  Definition heap := list obj.

  Fixpoint upd (h : heap) (n : nat) (o : obj) : heap :=
    match h, n with
    | [], _ => []
    | _ :: t, 0 => o :: t
    | x :: t, S k => x :: upd t k o
    end.

  Fixpoint walk (fuel : nat) (st : heap * nat) (n : nat) : option (heap * nat) :=
    match fuel with
    | 0 => None
    | S f =>
      let '(h, c) := st in
      match nth_error h n with
      | None => Some st
      | Some o =>
        if guard o then
          (fix go (cs : list nat) (acc : option (heap * nat)) : option (heap * nat) :=
             match cs with
             | [] => acc
             | t :: cs' => match acc with None => None | Some s => go cs' (walk f s t) end
             end) (edges o) (Some (upd h n (enter o), c + length (edges o)))
        else Some st
      end
    end.

  (* sequential walk from a list of starts, the shape of the inner loop *)
  Fixpoint walks (fuel : nat) (st : heap * nat) (ns : list nat) : option (heap * nat) :=
    match ns with
    | [] => Some st
    | t :: ns' => match walk fuel st t with None => None | Some s => walks fuel s ns' end
    end.

  Lemma walk_unfold f h c n :
    walk (S f) (h, c) n =
    match nth_error h n with
    | None => Some (h, c)
    | Some o => if guard o then walks f (upd h n (enter o), c + length (edges o)) (edges o) else Some (h, c)
    end.
  Proof.
    simpl. destruct (nth_error h n) as [o|]; auto. destruct (guard o); auto.
    generalize (upd h n (enter o), c + length (edges o)).
    induction (edges o) as [|t cs IH]; intros s; simpl; auto.
    destruct (walk f s t) as [s'|]; auto.
    clear IH. induction cs; simpl; auto.
  Qed.

  Lemma nth_upd_same h n o o0 : nth_error h n = Some o0 -> nth_error (upd h n o) n = Some o.
  Proof. revert n; induction h as [|x t IH]; intros [|k]; simpl; intros; try discriminate; auto. Qed.
  Lemma nth_upd_other h n m o : n <> m -> nth_error (upd h n o) m = nth_error h m.
  Proof. revert n m; induction h as [|x t IH]; intros [|k] [|j]; simpl; intros; auto; try lia. Qed.

  (* guard-true reachability in a heap *)
  Definition on (h : heap) (m : nat) : Prop := exists o, nth_error h m = Some o /\ guard o = true.
  Inductive reach (h : heap) : nat -> nat -> Prop :=
  | reach_here n : on h n -> reach h n n
  | reach_step n t m o : nth_error h n = Some o -> guard o = true -> In t (edges o) -> reach h t m -> reach h n m.
  Definition reachs (h : heap) (ns : list nat) (m : nat) : Prop := exists n, In n ns /\ reach h n m.

  (* the result of a walk: exactly the reached nodes are entered *)
  Definition entered_exactly (h h' : heap) (R : nat -> Prop) : Prop :=
    length h' = length h /\
    forall m o, nth_error h m = Some o ->
      (nth_error h' m = Some (enter o) /\ guard o = true /\ R m) \/ (nth_error h' m = Some o /\ ~ R m).

  Lemma reach_on h n m : reach h n m -> on h m.
  Proof. induction 1; auto. Qed.
  Lemma reach_on_start h n m : reach h n m -> on h n.
  Proof. destruct 1; auto. exists o; auto. Qed.

  Lemma reach_trans h a b c : reach h a b -> reach h b c -> reach h a c.
  Proof. induction 1; intros; auto. eapply reach_step; eauto. Qed.

  Definition gcount (h : heap) : nat := length (filter guard h).

  Lemma upd_length h n o : length (upd h n o) = length h.
  Proof. revert n; induction h as [|x t IH]; intros [|k]; simpl; auto. Qed.

  Lemma gcount_upd_enter h n o :
    nth_error h n = Some o -> guard o = true -> S (gcount (upd h n (enter o))) = gcount h.
  Proof.
    unfold gcount. revert n; induction h as [|x t IH]; intros [|k] Hn Hg; simpl in *; try discriminate.
    - inversion Hn; subst. rewrite Hg, enter_off. reflexivity.
    - destruct (guard x); simpl; rewrite <- (IH k Hn Hg); reflexivity.
  Qed.

  (* monotonicity: turning nodes off only shrinks reach *)
  Definition sub (h2 h1 : heap) : Prop := forall m, on h2 m -> on h1 m /\ nth_error h2 m = nth_error h1 m.
  Lemma reach_sub h2 h1 n m : sub h2 h1 -> reach h2 n m -> reach h1 n m.
  Proof.
    intros S; induction 1.
    - apply reach_here. apply S; auto.
    - assert (O2 : on h2 n) by (exists o; auto). destruct (S n O2) as [_ E].
      eapply reach_step; eauto. rewrite <- E; eauto.
  Qed.

  (* a path that avoids the set turned off survives *)
  Lemma reach_avoid h1 h2 (Off : nat -> Prop) n m :
    (forall k, on h1 k -> ~ Off k -> on h2 k /\ nth_error h2 k = nth_error h1 k) ->
    (forall a b, Off a -> reach h1 a b -> Off b) ->
    reach h1 n m -> ~ Off m -> reach h2 n m.
  Proof.
    intros Keep Closed R. induction R; intros NO.
    - apply reach_here. apply Keep; auto.
    - assert (NOn : ~ Off n).
      { intro On. apply NO. eapply Closed; eauto. eapply reach_step; eauto. }
      assert (O1 : on h1 n) by (exists o; auto).
      destruct (Keep n O1 NOn) as [_ E].
      eapply reach_step; eauto. rewrite E; eauto.
  Qed.

  (* length-indexed reachability, to cut a path at its last visit of a node *)
  Inductive reachk (h : heap) : nat -> nat -> nat -> Prop :=
  | rk_here n : on h n -> reachk h 0 n n
  | rk_step k n t m o : nth_error h n = Some o -> guard o = true -> In t (edges o) -> reachk h k t m -> reachk h (S k) n m.

  Lemma reachk_reach h k n m : reachk h k n m -> reach h n m.
  Proof. induction 1; [apply reach_here; auto | eapply reach_step; eauto]. Qed.
  Lemma reach_reachk h n m : reach h n m -> exists k, reachk h k n m.
  Proof. induction 1 as [|n t m o ? ? ? ? [k IH]]; [exists 0; constructor; auto | exists (S k); econstructor; eauto]. Qed.

  Section Off1.
    Variables (h : heap) (n : nat) (o : obj).
    Hypothesis Hn : nth_error h n = Some o.
    Hypothesis Hg : guard o = true.
    Let h1 := upd h n (enter o).

    Lemma on_h1 m : on h1 m <-> on h m /\ m <> n.
    Proof.
      unfold on, h1. destruct (Nat.eq_dec m n) as [->|Ne].
      - rewrite (nth_upd_same h n (enter o) o Hn). split.
        + intros (o' & E & G). inversion E; subst. rewrite enter_off in G. discriminate.
        + intros [_ C]; congruence.
      - rewrite nth_upd_other by auto. split; [intros H; split; auto | intros [H _]; auto].
    Qed.

    Lemma h1_sub : sub h1 h.
    Proof.
      intros m O. apply on_h1 in O as [O Ne]. split; auto. unfold h1. apply nth_upd_other; auto.
    Qed.

    Lemma cut k a m : reachk h k a m ->
      reach h1 a m \/ exists k', k' <= k /\ reachk h k' n m.
    Proof.
      induction 1 as [a O | k a t m oa Ha Ga Hin R IH].
      - destruct (Nat.eq_dec a n) as [->|Ne].
        + right. exists 0. split; auto. constructor; auto.
        + left. apply reach_here. apply on_h1; auto.
      - destruct IH as [L | (k' & Hle & R')].
        + destruct (Nat.eq_dec a n) as [->|Ne].
          * right. exists (S k). split; auto. econstructor; eauto.
          * left. eapply reach_step; eauto. unfold h1. rewrite nth_upd_other; auto.
        + right. exists k'. split; auto.
    Qed.

    Lemma reach_children m : m <> n -> reach h n m -> reachs h1 (edges o) m.
    Proof.
      intros Ne R. apply reach_reachk in R as [k R]. revert R.
      induction k as [k IH] using lt_wf_ind. intros R.
      inversion R as [n0 O E1 E2 E3 | k0 n0 t m0 o' Ho' Go' Hin R0 E1 E2 E3]; [congruence|].
      assert (o' = o) by congruence. subst o'.
      destruct (cut _ _ _ R0) as [L | (k' & Hle & R')].
      - eexists; split; eauto.
      - apply (IH k'); auto. lia.
    Qed.

    Lemma children_reach m : reachs h1 (edges o) m -> reach h n m.
    Proof.
      intros (t & Hin & R). eapply reach_step; eauto. eapply reach_sub; eauto. apply h1_sub.
    Qed.
  End Off1.

  Definition ecount (h : heap) : nat := list_sum (map (fun o => if guard o then length (edges o) else 0) h).

  Lemma ecount_upd_enter h n o :
    nth_error h n = Some o -> guard o = true -> ecount (upd h n (enter o)) + length (edges o) = ecount h.
  Proof.
    unfold ecount. revert n; induction h as [|x t IH]; intros [|k] Hn Hg; simpl in *; try discriminate.
    - inversion Hn; subst. rewrite Hg, enter_off. lia.
    - rewrite <- (IH k Hn Hg). lia.
  Qed.

  Definition spec1 (h : heap) (c : nat) (R : nat -> Prop) (r : heap * nat) : Prop :=
    entered_exactly h (fst r) R /\ snd r + ecount (fst r) = c + ecount h.

  Lemma ee_refl h (R : nat -> Prop) : (forall m, ~ R m) -> entered_exactly h h R.
  Proof. intros N. split; [reflexivity|]. intros m o Hm. right. split; [assumption | apply N]. Qed.

  Lemma ee_sub h h' R : entered_exactly h h' R -> sub h' h.
  Proof.
    intros [L E] m (o' & E' & G).
    assert (exists o, nth_error h m = Some o) as [o Hm].
    { destruct (nth_error h m) eqn:X; eauto. apply nth_error_None in X.
      assert (nth_error h' m <> None) by congruence. apply nth_error_Some in H. lia. }
    destruct (E m o Hm) as [(E1 & _ & _) | (E2 & _)].
    - rewrite E1 in E'. inversion E'; subst. rewrite enter_off in G; discriminate.
    - rewrite E2 in E'. inversion E'; subst. split; [exists o'; auto | congruence].
  Qed.

  Lemma walk_walks_spec fuel :
    (forall h c n r, walk fuel (h, c) n = Some r -> spec1 h c (reach h n) r) /\
    (forall h c ns r, walks fuel (h, c) ns = Some r -> spec1 h c (reachs h ns) r).
  Proof.
    assert (Nil : forall h c r, Some (h, c) = Some r -> spec1 h c (reachs h []) r).
    { intros h c r E; inversion E; subst; simpl. split; auto. apply ee_refl. intros m (x & [] & _). }
    induction fuel as [|f [IHw IHws]].
    - split; [intros; discriminate|].
      intros h c ns; destruct ns; simpl; intros r E; [apply Nil; auto | discriminate].
    - assert (W : forall h c n r, walk (S f) (h, c) n = Some r -> spec1 h c (reach h n) r).
      { intros h c n r. rewrite walk_unfold. destruct (nth_error h n) as [o|] eqn:Hn.
        2:{ intros E; inversion E; subst; simpl. split; auto. apply ee_refl.
            intros m R. apply reach_on_start in R as (o' & E' & _). congruence. }
        destruct (guard o) eqn:Hg.
        2:{ intros E; inversion E; subst; simpl. split; auto. apply ee_refl.
            intros m R. apply reach_on_start in R as (o' & E' & G). congruence. }
        intros E. apply IHws in E. destruct r as [h' c']. destruct E as [[L E] C]. simpl in *.
        split; simpl.
        - split; [rewrite L; apply upd_length|]. intros m om Hm.
          destruct (Nat.eq_dec m n) as [->|Ne].
          + rewrite Hn in Hm; inversion Hm; subst om.
            destruct (E n (enter o) (nth_upd_same h n (enter o) o Hn)) as [(_ & G & _) | (E2 & _)].
            * rewrite enter_off in G; discriminate.
            * left. split; [|split]; auto. apply reach_here. exists o; auto.
          + assert (Hm1 : nth_error (upd h n (enter o)) m = Some om) by (rewrite nth_upd_other; auto).
            destruct (E m om Hm1) as [(E1 & G & R) | (E2 & NR)].
            * left. split; [|split]; auto. eapply children_reach; eauto.
            * right. split; auto. intro R. apply NR. eapply reach_children; eauto.
        - pose proof (ecount_upd_enter h n o Hn Hg). lia. }
      split; [exact W|].
      intros h c ns; revert h c. induction ns as [|t ns IHns]; intros h c r; cbn [walks]; [apply Nil|].
      destruct (walk (S f) (h, c) t) as [[h2 c2]|] eqn:E1; [|discriminate].
      intros E2. apply W in E1. apply IHns in E2. destruct r as [h' c'].
      destruct E1 as [EE1 C1]; destruct E2 as [EE2 C2]; simpl in *.
      split; simpl; [|lia].
      pose proof (ee_sub _ _ _ EE1) as S12.
      destruct EE1 as [L1 X1]; destruct EE2 as [L2 X2].
      split; [congruence|]. intros m o Hm.
      destruct (X1 m o Hm) as [(A1 & G & Rt) | (A2 & NRt)].
      + destruct (X2 m (enter o) A1) as [(_ & G' & _) | (B2 & _)].
        * rewrite enter_off in G'; discriminate.
        * left. split; [|split]; auto. exists t; split; simpl; auto.
      + destruct (X2 m o A2) as [(B1 & G & R2) | (B2 & NR2)].
        * left. split; [|split]; auto. destruct R2 as (x & Hin & R2). exists x; split; [simpl; auto|].
          eapply reach_sub; eauto.
        * right. split; auto. intros (x & Hin & R). destruct Hin as [<-|Hin]; [auto|].
          apply NR2. exists x; split; auto.
          assert (Keep : forall k, on h k -> ~ reach h t k -> on h2 k /\ nth_error h2 k = nth_error h k).
          { intros k (ok & Hk & Gk) NR. destruct (X1 k ok Hk) as [(_ & _ & Rk) | (K2 & _)]; [contradiction|].
            split; [exists ok; auto | congruence]. }
          assert (Closed : forall a b, reach h t a -> reach h a b -> reach h t b).
          { intros; eapply reach_trans; eauto. }
          exact (reach_avoid h h2 (reach h t) x m Keep Closed R NRt).
  Qed.
End Walk.
Print Assumptions walk_walks_spec.
