(* DESIGN-ROUND FEASIBILITY SPIKE. Not part of the verification machinery: no check builds or uses
   this file. It backs DESIGN.md section 6 (C03): an executable model of the raw propagation engine
   (sodium_ctx.rs update_node / end_of_transaction), both as found (orig = true) and with repair F1
   (orig = false); the D1 glitch witness evaluated on both; and the safety half of the C03 theorem for the
   repaired algorithm on every ranked (acyclic) graph. To be superseded by coq/Model/Engine.v and
   coq/Proofs/EngineSafe.v in the build round. *)
From Coq Require Import List Arith Lia Bool.
Import ListNotations.

(* raw engine: nodes with deps (strong, upstream) and dependents (registration order) *)
Record node := { deps : list nat; dependents : list nat; visited : bool; done : bool; changed : bool;
                 fire : option nat }.
Definition graph := list node.
Record st := { g : graph; queue : list nat; log : list nat (* update executions, newest first *) }.

Definition get (gr : graph) (n : nat) : node := nth n gr {| deps := []; dependents := []; visited := true; done := true; changed := false; fire := None |}.
Fixpoint set (gr : graph) (n : nat) (x : node) : graph :=
  match gr, n with [], _ => [] | _ :: t, 0 => x :: t | y :: t, S k => y :: set t k x end.

(* update rule of a derived node: a function of the dependencies' firings; must be None if none fired *)
Definition rule := nat -> list (option nat) -> option nat.

Section E.
  Variable F : rule.
  Variable orig : bool.   (* true = algorithm before repair F1: always walk dependents *)

  Definition run_update (s : st) (n : nat) : st :=
    let x := get (g s) n in
    let r := F n (map (fun d => fire (get (g s) d)) (deps x)) in
    let x' := {| deps := deps x; dependents := dependents x; visited := visited x; done := done x;
                 changed := match r with Some _ => true | None => changed x end;
                 fire := match r with Some _ => r | None => fire x end |} in
    {| g := set (g s) n x'; queue := queue s; log := n :: log s |}.

  Definition mark (s : st) (n : nat) (v d : bool) : st :=
    let x := get (g s) n in
    {| g := set (g s) n {| deps := deps x; dependents := dependents x; visited := v; done := d; changed := changed x; fire := fire x |};
       queue := queue s; log := log s |}.

  Fixpoint update_node (fuel : nat) (s : st) (n : nat) (as_dep : bool) : option st :=
    match fuel with 0 => None | S f =>
      if visited (get (g s) n) then Some s else
      let s1 := mark s n true false in
      let ds := deps (get (g s) n) in
      match fold_left (fun acc d => match acc with None => None | Some a =>
                          if visited (get (g a) d) then Some a else update_node f a d true end) ds (Some s1) with
      | None => None
      | Some s2 =>
        let s3 := if existsb (fun d => changed (get (g s2) d)) ds then run_update s2 n else s2 in
        let s4 := mark s3 n true true in
        if changed (get (g s4) n) then
          if as_dep && negb orig then
            Some {| g := g s4; queue := queue s4 ++ dependents (get (g s4) n); log := log s4 |}
          else
            fold_left (fun acc m => match acc with None => None | Some a => update_node f a m false end)
                      (dependents (get (g s4) n)) (Some s4)
        else Some s4
      end
    end.

  Fixpoint drain (rounds fuel : nat) (s : st) : option st :=
    match rounds with 0 => None | S r =>
      match queue s with
      | [] => Some s
      | q => match fold_left (fun acc n => match acc with None => None | Some a => update_node fuel a n false end) q
                             (Some {| g := g s; queue := []; log := log s |}) with
             | None => None | Some s' => drain r fuel s' end
      end
    end.
End E.


(* ---------------- safety half of C03 for the repaired algorithm ---------------- *)
Lemma get_set_same gr n x : n < length gr -> get (set gr n x) n = x.
Proof. unfold get. revert n; induction gr as [|y t IH]; intros [|k] H; simpl in *; try lia; auto. apply IH; lia. Qed.
Lemma get_set_other gr n m x : n <> m -> get (set gr n x) m = get gr m.
Proof. unfold get. revert n m; induction gr as [|y t IH]; intros [|k] [|j] H; simpl; auto; try lia. Qed.
Lemma set_length gr n x : length (set gr n x) = length gr.
Proof. revert n; induction gr as [|y t IH]; intros [|k]; simpl; auto. Qed.


Lemma fold_opt_inv {A} (P : st -> Prop) (f : st -> A -> option st) l : forall s0 r,
  P s0 -> (forall a x s', In x l -> P a -> f a x = Some s' -> P s') ->
  fold_left (fun acc x => match acc with None => None | Some a => f a x end) l (Some s0) = Some r -> P r.
Proof.
  induction l as [|x l IH]; simpl; intros s0 r P0 Step E.
  - inversion E; subst; auto.
  - destruct (f s0 x) as [s1|] eqn:E1.
    + apply (IH s1 r); auto.
      * eapply Step; eauto.
      * intros a y s' Hy Pa Ea. eapply Step; eauto.
    + exfalso. clear -E. induction l; simpl in *; [discriminate|auto].
Qed.

Lemma fold_opt_inv2 {A} (P : st -> Prop) (Q : A -> st -> Prop) (f : st -> A -> option st) l : forall s0 r,
  P s0 ->
  (forall a x s', In x l -> P a -> f a x = Some s' -> P s' /\ Q x s') ->
  (forall a x y s', In x l -> In y l -> P a -> Q x a -> f a y = Some s' -> Q x s') ->
  fold_left (fun acc x => match acc with None => None | Some a => f a x end) l (Some s0) = Some r ->
  P r /\ forall x, In x l -> Q x r.
Proof.
  induction l as [|x l IH]; simpl; intros s0 r P0 Step Stable E.
  - inversion E; subst; split; auto. intros ? [].
  - destruct (f s0 x) as [s1|] eqn:E1.
    + destruct (Step s0 x s1 (or_introl eq_refl) P0 E1) as [P1 Q1].
      assert (G : forall l' a r', P a -> Q x a -> incl l' l ->
                 fold_left (fun acc x => match acc with None => None | Some a => f a x end) l' (Some a) = Some r' -> Q x r' /\ P r').
      { induction l' as [|y l' IH']; simpl; intros a r' Pa Qa Inc Er.
        - inversion Er; subst; auto.
        - destruct (f a y) as [a'|] eqn:Ea.
          + assert (In y l) by (apply Inc; simpl; auto).
            destruct (Step a y a' (or_intror H) Pa Ea) as [Pa' _].
            apply (IH' a' r'); auto.
            * eapply (Stable a x y a'); simpl; eauto.
            * intros z Hz; apply Inc; simpl; auto.
          + exfalso. clear -Er. induction l'; simpl in *; [discriminate|auto]. }
      destruct (IH s1 r P1) as [Pr Qr]; auto.
      * intros a y s' Hy Pa Ea. apply (Step a y s'); auto.
      * intros a y z s' Hy Hz Pa Qa Ea. apply (Stable a y z s'); auto.
      * split; auto. intros y [<-|Hy]; auto. apply (G l s1 r); auto. apply incl_refl.
    + exfalso. clear -E. induction l; simpl in *; [discriminate|auto].
Qed.

Section Safety.
  Variable F : rule.
  Variables D Dts : nat -> list nat.
  Variable rank : nat -> nat.
  Variable N : nat.
  Hypothesis rank_ok : forall n d, In d (D n) -> rank d < rank n.
  Hypothesis D_range : forall n d, In d (D n) -> d < N.
  Hypothesis Dts_range : forall n d, In d (Dts n) -> d < N.

  Definition shape (gr : graph) :=
    length gr = N /\ forall n, n < N -> deps (get gr n) = D n /\ dependents (get gr n) = Dts n.
  Definition pend (gr : graph) (n : nat) := visited (get gr n) = true /\ done (get gr n) = false.
  Definition clean (gr : graph) (n : nat) := D n <> [] -> fire (get gr n) = None /\ changed (get gr n) = false.
  Definition cons (gr : graph) (n : nat) :=
    D n <> [] ->
    fire (get gr n) = (if existsb (fun d => changed (get gr d)) (D n) then F n (map (fun d => fire (get gr d)) (D n)) else None) /\
    changed (get gr n) = match fire (get gr n) with Some _ => true | None => false end.
  Definition I (gr : graph) :=
    (forall n, n < N -> done (get gr n) = true ->
        visited (get gr n) = true /\ (forall d, In d (D n) -> done (get gr d) = true) /\ cons gr n) /\
    (forall n, n < N -> done (get gr n) = false -> clean gr n).
  Definition ext (gr gr' : graph) :=
    shape gr' /\
    (forall n, n < N -> visited (get gr n) = true -> visited (get gr' n) = true) /\
    (forall n, n < N -> done (get gr n) = true -> get gr' n = get gr n) /\
    (forall n, n < N -> pend gr n -> get gr' n = get gr n) /\
    (forall n, n < N -> pend gr' n -> pend gr n).

  Lemma ext_refl gr : shape gr -> ext gr gr.
  Proof. intros S. unfold ext. intuition. Qed.

  Lemma ext_trans a b c : ext a b -> ext b c -> ext a c.
  Proof.
    intros (S1 & V1 & D1 & K1 & Q1) (S2 & V2 & D2 & K2 & Q2).
    split; [exact S2|]. split; [|split; [|split]].
    - intros n Hn Vn. apply V2; auto.
    - intros n Hn Dn. rewrite D2; auto. rewrite D1; auto.
    - intros n Hn Pn. rewrite K2; auto. unfold pend. rewrite K1; auto.
    - intros n Hn Pn. apply Q1; auto.
  Qed.

  Definition pre (gr : graph) (n : nat) (as_dep : bool) :=
    if as_dep then forall p, p < N -> pend gr p -> rank n < rank p else forall p, p < N -> ~ pend gr p.

  (* changing only the visited/done flags of node n *)
  Definition reflag (x : node) v d := {| deps := deps x; dependents := dependents x; visited := v; done := d; changed := changed x; fire := fire x |}.
  Lemma mark_g s n v d : g (mark s n v d) = set (g s) n (reflag (get (g s) n) v d).
  Proof. reflexivity. Qed.

  Lemma shape_set gr n x : shape gr -> n < N -> deps x = D n -> dependents x = Dts n -> shape (set gr n x).
  Proof.
    intros [L S] Hn E1 E2. split; [rewrite set_length; auto|]. intros m Hm.
    destruct (Nat.eq_dec n m) as [->|Ne]; [rewrite get_set_same by lia; auto | rewrite get_set_other by auto; auto].
  Qed.

  Definition Post (s : st) (n : nat) (s' : st) :=
    I (g s') /\ ext (g s) (g s') /\ visited (get (g s') n) = true /\ (visited (get (g s) n) = false -> done (get (g s') n) = true).

  Theorem update_node_safe : forall fuel s n as_dep s',
    n < N -> shape (g s) -> I (g s) -> pre (g s) n as_dep ->
    update_node F false fuel s n as_dep = Some s' -> Post s n s'.
  Proof.
    induction fuel as [|f IH]; intros s n as_dep s' Hn S Inv Pre E; [discriminate|].
    cbn [update_node] in E.
    destruct (visited (get (g s) n)) eqn:Vn.
    { inversion E; subst s'. split; [exact Inv|]. split; [apply ext_refl; exact S|]. split; [exact Vn|]. intros C; congruence. }
    set (x := get (g s) n) in *.
    assert (Dn_false : done x = false).
    { destruct (done x) eqn:Dx; auto. destruct Inv as [I1 _]. destruct (I1 n Hn Dx) as [V _]. unfold x in *; congruence. }
    destruct S as [L S].
    assert (Lg : n < length (g s)) by lia.
    (* step A: mark pending *)
    remember (mark s n true false) as s1 eqn:Hs1.
    assert (G1 : forall m, get (g s1) m = if Nat.eqb n m then reflag x true false else get (g s) m).
    { intros m. rewrite Hs1, mark_g. destruct (Nat.eqb_spec n m) as [->|Ne];
      [rewrite get_set_same | rewrite get_set_other]; auto. }
    assert (S1 : shape (g s1)).
    { rewrite Hs1, mark_g. apply shape_set; [split; auto| auto | apply S; auto | apply S; auto]. }
    assert (P1 : forall p, p < N -> pend (g s1) p -> p = n \/ pend (g s) p).
    { intros p Hp [A B]. rewrite G1 in A, B. destruct (Nat.eqb_spec n p); auto. right; split; auto. }
    assert (Inv1 : I (g s1)).
    { destruct Inv as [I1 I2]. split.
      - intros m Hm Dm. rewrite G1 in Dm. destruct (Nat.eqb_spec n m) as [->|Ne]; [simpl in Dm; discriminate|].
        destruct (I1 m Hm Dm) as (V & Ds & C). rewrite G1. apply Nat.eqb_neq in Ne; rewrite Ne. split; auto.
        assert (Dsn : forall d, In d (D m) -> d <> n).
        { intros d Hd ->. specialize (Ds n Hd). unfold x in *; congruence. }
        split.
        + intros d Hd. rewrite G1. destruct (Nat.eqb_spec n d) as [->|]; [exfalso; eapply Dsn; eauto|auto].
        + assert (Eq1 : forall l, (forall d, In d l -> d <> n) -> existsb (fun d => changed (get (g s1) d)) l = existsb (fun d => changed (get (g s) d)) l).
          { induction l as [|d l IHl]; simpl; auto. intros Hl. rewrite G1. destruct (Nat.eqb_spec n d) as [->|]; [exfalso; eapply Hl; simpl; eauto|].
            rewrite IHl; [reflexivity|]. intros; apply Hl; simpl; auto. }
          assert (Eq2 : forall l, (forall d, In d l -> d <> n) -> map (fun d => fire (get (g s1) d)) l = map (fun d => fire (get (g s) d)) l).
          { induction l as [|d l IHl]; simpl; auto. intros Hl. rewrite G1. destruct (Nat.eqb_spec n d) as [->|]; [exfalso; eapply Hl; simpl; eauto|].
            rewrite IHl; [reflexivity|]. intros; apply Hl; simpl; auto. }
          assert (Gm : get (g s1) m = get (g s) m) by (rewrite G1, Ne; auto).
          unfold cons in *. intros NE. specialize (C NE).
          rewrite (Eq1 (D m) Dsn), (Eq2 (D m) Dsn), Gm. exact C.
      - intros m Hm Dm NE. rewrite G1 in *. destruct (Nat.eqb_spec n m) as [->|Ne]; simpl.
        + apply (I2 m Hm Dn_false NE).
        + apply (I2 m Hm Dm NE). }
    assert (Xn : D n <> [] -> fire x = None /\ changed x = false).
    { destruct Inv as [_ I2]. apply (I2 n Hn Dn_false). }
    assert (Dx : deps x = D n) by (apply S; auto).
    assert (Dtx : dependents x = Dts n) by (apply S; auto).
    assert (Nn : forall d, In d (D n) -> d <> n).
    { intros d Hd ->. apply rank_ok in Hd. lia. }
    (* step B: the dependencies *)
    cbv zeta in E. rewrite Dx in E.
    match type of E with match ?T with _ => _ end = _ => destruct T as [s2|] eqn:EB end; [|discriminate].
    pose (P := fun a : st => shape (g a) /\ I (g a) /\ ext (g s1) (g a)).
    pose (Q := fun (d : nat) (a : st) => visited (get (g a) d) = true).
    pose (fB := fun (a : st) (d : nat) => if visited (get (g a) d) then Some a else update_node F false f a d true).
    assert (PreB : forall a d, In d (D n) -> P a -> pre (g a) d true).
    { intros a d Hd (Sa & Ia & (_ & _ & _ & _ & Qa)) p Hp Pp.
      destruct (P1 p Hp (Qa p Hp Pp)) as [->|Ps]; [apply rank_ok; auto|].
      destruct as_dep; simpl in Pre.
      - specialize (Pre p Hp Ps). apply rank_ok in Hd. lia.
      - exfalso. eapply Pre; eauto. }
    destruct (fold_opt_inv2 P Q fB (D n) s1 s2) as [(S2 & Inv2 & X12) V2]; auto.
    { split; [|split]; auto. apply ext_refl; auto. }
    { intros a d a' Hd Pa Ea. unfold fB in Ea. destruct (visited (get (g a) d)) eqn:Vd.
      - inversion Ea; subst. split; auto.
      - destruct Pa as (Sa & Ia & Xa).
        destruct (IH a d true a' (D_range _ _ Hd) Sa Ia (PreB a d Hd (conj Sa (conj Ia Xa))) Ea) as (Ia' & Xa' & Va' & _).
        split; [|exact Va']. split; [apply Xa'|]. split; auto. eapply ext_trans; eauto. }
    { intros a d y a' Hd Hy Pa Qa Ea. unfold fB in Ea. destruct (visited (get (g a) y)) eqn:Vy.
      - inversion Ea; subst; auto.
      - destruct Pa as (Sa & Ia & Xa).
        destruct (IH a y true a' (D_range _ _ Hy) Sa Ia (PreB a y Hy (conj Sa (conj Ia Xa))) Ea) as (_ & (_ & Vm & _) & _).
        apply Vm; auto. eapply D_range; eauto. }
    (* step C: all dependencies are done, n is still as we left it *)
    destruct X12 as (_ & V12 & D12 & K12 & Q12).
    assert (Pn1 : pend (g s1) n).
    { split; rewrite G1, Nat.eqb_refl; auto. }
    assert (Gn2 : get (g s2) n = reflag x true false).
    { rewrite K12; auto. rewrite G1, Nat.eqb_refl; auto. }
    assert (DD : forall d, In d (D n) -> done (get (g s2) d) = true).
    { intros d Hd. destruct (done (get (g s2) d)) eqn:Dd; auto. exfalso.
      assert (Pd : pend (g s2) d) by (split; auto; apply V2; auto).
      pose proof (D_range _ _ Hd) as Hdn.
      destruct (P1 d Hdn (Q12 d Hdn Pd)) as [->|Ps]; [eapply Nn; eauto|].
      destruct as_dep; simpl in Pre.
      - specialize (Pre d Hdn Ps). apply rank_ok in Hd. lia.
      - eapply Pre; eauto. }
    (* step D: update and mark done *)
    remember (if existsb (fun d => changed (get (g s2) d)) (D n) then run_update F s2 n else s2) as s3 eqn:Hs3.
    remember (mark s3 n true true) as s4 eqn:Hs4.
    destruct S2 as [L2 S2].
    assert (G3 : forall m, m <> n -> get (g s3) m = get (g s2) m).
    { intros m Ne. rewrite Hs3. destruct (existsb _ _); auto. unfold run_update; simpl. rewrite get_set_other; auto. }
    assert (L3 : length (g s3) = N).
    { rewrite Hs3. destruct (existsb _ _); auto. unfold run_update; simpl. rewrite set_length; auto. }
    assert (G4 : forall m, m <> n -> get (g s4) m = get (g s2) m).
    { intros m Ne. rewrite Hs4, mark_g, get_set_other; auto. }
    assert (G4n : get (g s4) n = reflag (get (g s3) n) true true).
    { rewrite Hs4, mark_g, get_set_same; auto. lia. }
    assert (G3n : deps (get (g s3) n) = D n /\ dependents (get (g s3) n) = Dts n /\
                  (D n <> [] ->
                   fire (get (g s3) n) = (if existsb (fun d => changed (get (g s2) d)) (D n) then F n (map (fun d => fire (get (g s2) d)) (D n)) else None) /\
                   changed (get (g s3) n) = match fire (get (g s3) n) with Some _ => true | None => false end)).
    { rewrite Hs3. destruct (existsb (fun d => changed (get (g s2) d)) (D n)) eqn:Ex.
      - unfold run_update; simpl. rewrite get_set_same by lia. simpl. rewrite Gn2. simpl. rewrite Dx.
        split; auto. split; auto. intros NE. destruct (Xn NE) as [Fx Cx]. rewrite Fx, Cx.
        destruct (F n (map (fun d => fire (get (g s2) d)) (D n))); auto.
      - rewrite Gn2; simpl. split; auto. split; auto. intros NE. destruct (Xn NE) as [Fx Cx]. rewrite Fx, Cx. auto. }
    destruct G3n as (Dn3 & Dtn3 & Cn3).
    assert (S4 : shape (g s4)).
    { rewrite Hs4, mark_g. apply shape_set; auto. split; auto. intros m Hm.
      destruct (Nat.eq_dec m n) as [->|Ne]; [auto | rewrite G3; auto]. }
    assert (EqE : forall l, (forall d, In d l -> d <> n) -> existsb (fun d => changed (get (g s4) d)) l = existsb (fun d => changed (get (g s2) d)) l).
    { induction l as [|d l IHl]; cbn [existsb]; auto. intros Hl. rewrite G4 by (apply Hl; simpl; auto).
      rewrite IHl; [reflexivity|]. intros; apply Hl; simpl; auto. }
    assert (EqM : forall l, (forall d, In d l -> d <> n) -> map (fun d => fire (get (g s4) d)) l = map (fun d => fire (get (g s2) d)) l).
    { induction l as [|d l IHl]; cbn [map]; auto. intros Hl. rewrite G4 by (apply Hl; simpl; auto).
      rewrite IHl; [reflexivity|]. intros; apply Hl; simpl; auto. }
    assert (Inv4 : I (g s4)).
    { destruct Inv2 as [I1 I2]. split.
      - intros m Hm Dm. destruct (Nat.eq_dec m n) as [->|Ne].
        + rewrite G4n. simpl. split; auto. split.
          * intros d Hd. rewrite G4 by (apply Nn; auto). apply DD; auto.
          * intros NE. rewrite (EqE _ Nn), (EqM _ Nn). rewrite G4n; simpl. apply Cn3; auto.
        + rewrite G4 in Dm by auto. destruct (I1 m Hm Dm) as (Vm & Dsm & Cm). rewrite G4 by auto.
          assert (Nm : forall d, In d (D m) -> d <> n).
          { intros d Hd ->. specialize (Dsm n Hd). rewrite Gn2 in Dsm. simpl in Dsm. discriminate. }
          split; auto. split.
          * intros d Hd. rewrite G4 by (apply Nm; auto). auto.
          * intros NE. rewrite (EqE _ Nm), (EqM _ Nm), G4 by auto. apply Cm; auto.
      - intros m Hm Dm NE. destruct (Nat.eq_dec m n) as [->|Ne].
        + rewrite G4n in Dm; simpl in Dm; discriminate.
        + rewrite G4 in * by auto. apply I2; auto. }
    assert (X04 : ext (g s) (g s4)).
    { split; [exact S4|]. split; [|split; [|split]].
      - intros m Hm Vm. destruct (Nat.eq_dec m n) as [->|Ne]; [rewrite G4n; auto|].
        rewrite G4 by auto. apply V12; auto. rewrite G1. apply Nat.eqb_neq in Ne. rewrite Nat.eqb_sym, Ne; auto.
      - intros m Hm Dm. destruct (Nat.eq_dec m n) as [->|Ne]; [unfold x in *; congruence|].
        rewrite G4 by auto. rewrite D12; auto; rewrite G1; apply Nat.eqb_neq in Ne; rewrite Nat.eqb_sym, Ne; auto.
      - intros m Hm [Vm Dm]. destruct (Nat.eq_dec m n) as [->|Ne]; [unfold x in *; congruence|].
        rewrite G4 by auto. rewrite K12; auto; [|split]; rewrite G1; apply Nat.eqb_neq in Ne; rewrite Nat.eqb_sym, Ne; auto.
      - intros m Hm [Vm Dm]. destruct (Nat.eq_dec m n) as [->|Ne]; [rewrite G4n in Dm; simpl in Dm; discriminate|].
        rewrite G4 in * by auto. destruct (P1 m Hm (Q12 m Hm (conj Vm Dm))) as [->|]; [congruence|auto]. }
    (* step E: dependents *)
    assert (Fin : forall s5, g s5 = g s4 -> Post s n s5).
    { intros s5 E5. unfold Post. rewrite E5. split; auto. split; auto. rewrite G4n; simpl. auto. }

    destruct (changed (get (g s4) n)) eqn:Cn4; [|inversion E; subst; apply Fin; auto].
    destruct as_dep; simpl in E.
    { inversion E; subst. apply Fin; auto. }
    pose (PE := fun a : st => shape (g a) /\ I (g a) /\ ext (g s4) (g a)).
    assert (PEr : PE s').
    { eapply (fold_opt_inv PE (fun a m => update_node F false f a m false)); [| |exact E].
      - split; [|split]; auto. apply ext_refl; auto.
      - intros a m a' Hm (Sa & Ia & Xa) Ea.
        assert (Hm' : m < N). { rewrite G4n in Hm. simpl in Hm. rewrite Dtn3 in Hm. eapply Dts_range; eauto. }
        assert (Prm : pre (g a) m false).
        { intros p Hp Pp. destruct Xa as (_ & _ & _ & _ & Qa). destruct X04 as (_ & _ & _ & _ & Q04).
          simpl in Pre. eapply Pre; eauto. }
        destruct (IH a m false a' Hm' Sa Ia Prm Ea) as (Ia' & Xa' & _).
        split; [apply Xa'|]. split; auto. eapply ext_trans; eauto. }
    destruct PEr as (S' & I' & X4').
    split; auto. split; [eapply ext_trans; eauto|].
    destruct X4' as (_ & V4' & D4' & _ & _).
    split.
    - apply V4'; auto. rewrite G4n; auto.
    - intros _. rewrite D4'; auto; rewrite G4n; auto.
  Qed.
End Safety.
Print Assumptions update_node_safe.

(* ---- the D1 witness: s1=0 s2=1 x1=2(s1) x2=3(s2) d=4(x1,x2) n=5(s2,d) ---- *)
Definition mk ds dts ch fr := {| deps := ds; dependents := dts; visited := false; done := false; changed := ch; fire := fr |}.
Definition G0 : graph :=
  [ mk [] [2] true (Some 1); mk [] [3;5] true (Some 2); mk [0] [4] false None; mk [1] [4] false None;
    mk [2;3] [5] false None; mk [1;4] [] false None ].
(* rule: sum of the firing inputs, +100 per node to tell them apart *)
Definition Fsum : rule := fun n ins =>
  let vs := flat_map (fun o => match o with Some v => [v] | None => [] end) ins in
  match vs with [] => None | _ => Some (100 * n + list_sum vs) end.

Definition final (orig : bool) (q : list nat) :=
  match drain Fsum orig 20 20 {| g := G0; queue := q; log := [] |} with
  | Some s => Some (map fire (g s), rev (log s)) | None => None end.

Eval vm_compute in final true [0;1].   (* original, s1 then s2: node 5 computed without d *)
Eval vm_compute in final true [1;0].   (* original, other send order *)
Eval vm_compute in final false [0;1].  (* repaired *)
Eval vm_compute in final false [1;0].
