//! C20: one context shared by several threads.
use crate::Script;
use sodium_rust::{SodiumCtx, StreamSink, Transaction};
use std::io::Write;
use std::panic::{catch_unwind, AssertUnwindSafe};
use std::sync::mpsc::channel;
use std::sync::{Arc, Mutex};

/// Deterministic replay of an interleaving of two threads' bracket/send steps on one context.
/// Script lines: "A {" "A send 1" "B {" "B send 100" "A }" "B }" : each step is executed by its own
/// OS thread (A or B), handed over through channels, so that the transaction closures really are open
/// on both threads at once. The program: sinks sa, sb; listener 0 on sa.merge(sb, +); listener 1 on sa;
/// listener 2 on sb. Output: one line per step with the calls observed during it.
/// "A topen k" opens a scoped transaction (ctx.new_transaction()) on thread A and parks it in slot k;
/// "B tclose k" closes it on thread B (Transaction is Send: a bracket may be handed to another thread).
fn interleaving<W: Write>(script: &Script, out: &mut W) {
    let ctx = SodiumCtx::new();
    let sa: StreamSink<i64> = ctx.new_stream_sink();
    let sb: StreamSink<i64> = ctx.new_stream_sink();
    let log: Arc<Mutex<Vec<String>>> = Arc::new(Mutex::new(Vec::new()));
    let m = sa.stream().merge(&sb.stream(), |a: &i64, b: &i64| a + b);
    let mk = |l: usize| {
        let log = log.clone();
        move |v: &i64| log.lock().unwrap().push(format!("L{}=[{}]", l, v))
    };
    let _l0 = m.listen(mk(0));
    let _l1 = sa.stream().listen(mk(1));
    let _l2 = sb.stream().listen(mk(2));
    // per thread: the list of its steps; the closing "}" step returns from the closure
    let steps: Vec<(char, String)> = script
        .lines
        .iter()
        .skip(1)
        .map(|l| {
            let mut it = l.splitn(2, ' ');
            (it.next().unwrap().chars().next().unwrap(), it.next().unwrap_or("").to_string())
        })
        .collect();
    // a token passes from step to step; each thread runs its own steps when it holds the token
    let (done_tx, done_rx) = channel::<(usize, String)>();
    let parked: Arc<Mutex<std::collections::HashMap<usize, Transaction>>> = Arc::new(Mutex::new(Default::default()));
    let mut txs = std::collections::BTreeMap::new();
    let mut handles = Vec::new();
    for t in ['A', 'B'] {
        let (tx, rx) = channel::<(usize, String)>();
        txs.insert(t, tx);
        let ctx = ctx.clone();
        let sink = if t == 'A' { sa.clone() } else { sb.clone() };
        let done_tx = done_tx.clone();
        let parked = parked.clone();
        handles.push(std::thread::spawn(move || {
            // recursive interpreter: "{" opens a closure transaction and keeps serving steps inside it
            fn serve(
                ctx: &SodiumCtx,
                sink: &StreamSink<i64>,
                rx: &std::sync::mpsc::Receiver<(usize, String)>,
                done: &std::sync::mpsc::Sender<(usize, String)>,
                parked: &Arc<Mutex<std::collections::HashMap<usize, Transaction>>>,
                depth: usize,
            ) -> bool {
                loop {
                    let (i, op) = match rx.recv() {
                        Ok(x) => x,
                        Err(_) => return false,
                    };
                    if op == "{" {
                        let cont = ctx.transaction(|| {
                            done.send((i, "ok".into())).unwrap();
                            serve(ctx, sink, rx, done, parked, depth + 1)
                        });
                        // the step that closed this transaction is acknowledged here, after the close returned
                        done.send((usize::MAX, "closed".into())).unwrap();
                        if !cont {
                            return false;
                        }
                    } else if op == "}" {
                        if depth == 0 {
                            done.send((i, "ok".into())).unwrap();
                            continue;
                        }
                        let _ = i;
                        return true;
                    } else if let Some(v) = op.strip_prefix("send ") {
                        sink.send(v.trim().parse().unwrap());
                        done.send((i, "ok".into())).unwrap();
                    } else if let Some(k) = op.strip_prefix("topen ") {
                        let t = ctx.new_transaction();
                        parked.lock().unwrap().insert(k.trim().parse().unwrap(), t);
                        done.send((i, "ok".into())).unwrap();
                    } else if let Some(k) = op.strip_prefix("tclose ") {
                        let t = parked.lock().unwrap().remove(&k.trim().parse().unwrap());
                        if let Some(t) = t {
                            t.close();
                        }
                        done.send((i, "ok".into())).unwrap();
                    } else if op == "quit" {
                        return false;
                    } else {
                        done.send((i, "ok".into())).unwrap();
                    }
                }
            }
            let _ = catch_unwind(AssertUnwindSafe(|| serve(&ctx, &sink, &rx, &done_tx, &parked, 0)));
        }));
    }
    for (i, (t, op)) in steps.iter().enumerate() {
        txs[t].send((i, op.clone())).unwrap();
        // wait for the acknowledgement of this step ("}" is acknowledged after the close returned)
        let r = done_rx.recv_timeout(std::time::Duration::from_secs(10));
        let calls: Vec<String> = std::mem::take(&mut *log.lock().unwrap());
        let mut calls = calls;
        calls.sort();
        let body = if calls.is_empty() { "-".to_string() } else { calls.join(" ; ") };
        match r {
            Ok(_) => writeln!(out, "{}", body).unwrap(),
            Err(_) => {
                writeln!(out, "HANG").unwrap();
                break;
            }
        }
    }
    for t in ['A', 'B'] {
        let _ = txs[&t].send((0, "quit".into()));
    }
    drop(txs);
    for h in handles {
        let _ = h.join();
    }
}

/// N threads, M transactions each, on one context. `locked`: every transaction is taken under one external
/// mutex (the use the library supports); otherwise brackets may overlap.
/// Program: one sink per thread, all merged with +, accumulated; plus per-sink counters.
/// Output: "sent=<n> delivered=<per-sink counts> total=<accumulated sum> expected=<sum> panics=<k>"
fn stress<W: Write>(n: usize, m: usize, locked: bool, out: &mut W) {
    let ctx = SodiumCtx::new();
    let sinks: Vec<StreamSink<i64>> = (0..n).map(|_| ctx.new_stream_sink()).collect();
    let counts: Arc<Mutex<Vec<u64>>> = Arc::new(Mutex::new(vec![0; n]));
    let sum: Arc<Mutex<i64>> = Arc::new(Mutex::new(0));
    let mut listeners = Vec::new();
    for (i, s) in sinks.iter().enumerate() {
        let counts = counts.clone();
        let sum = sum.clone();
        listeners.push(s.stream().listen(move |v: &i64| {
            counts.lock().unwrap()[i] += 1;
            *sum.lock().unwrap() += *v;
        }));
    }
    // a cyclic structure (accumulator) on a merge of all sinks, sampled by the workers
    let mut merged = sinks[0].stream();
    for s in &sinks[1..] {
        merged = merged.merge(&s.stream(), |a: &i64, b: &i64| a + b);
    }
    let acc = merged.accum(0i64, |a: &i64, s: &i64| a + s);
    let big = Arc::new(Mutex::new(()));
    let panics = Arc::new(Mutex::new(0u32));
    let worker_leaks_total = Arc::new(std::sync::atomic::AtomicU32::new(0));
    let mut hs = Vec::new();
    // every handle a worker needs is cloned BEFORE any worker starts: in the locked variant no operation on
    // the context (a clone counts) may run concurrently with a transaction
    let prepared: Vec<_> = sinks.iter().map(|s| (s.clone(), acc.clone(), ctx.clone())).collect();
    // the main thread settles the collector (a collection with nothing left to do) before it hands the context over
    ctx.transaction(|| {});
    ctx.impl_.collect_cycles();
    ctx.impl_.collect_cycles();
    for (i, (s, acc, ctx)) in prepared.into_iter().enumerate() {
        let big = big.clone();
        let panics = panics.clone();
        let worker_leaks = worker_leaks_total.clone();
        hs.push(std::thread::spawn(move || {
            for k in 0..m {
                let r = catch_unwind(AssertUnwindSafe(|| {
                    let _g = if locked { Some(big.lock().unwrap()) } else { None };
                    ctx.transaction(|| {
                        s.send((i * 1000 + k) as i64);
                        // handle churn inside the transaction
                        let c = s.stream().map(|x: &i64| *x + 1);
                        drop(c);
                    });
                    // a private accumulator (reference cycle) built, used and dropped on this thread
                    if k % 16 == 0 {
                        // under the lock nobody else touches the context: a collection on THIS thread must bring the node
                        // count back to what it was before the accumulator was built
                        let before = if locked {
                            ctx.impl_.collect_cycles();
                            Some(ctx.impl_.node_count())
                        } else {
                            None
                        };
                        let own = s.stream().accum(0i64, |a: &i64, st: &i64| a + st);
                        let _ = own.sample();
                        drop(own);
                        if let Some(b) = before {
                            ctx.impl_.collect_cycles();
                            if ctx.impl_.node_count() != b {
                                worker_leaks.fetch_add(1, std::sync::atomic::Ordering::SeqCst);
                            }
                        }
                    }
                    let _ = acc.sample();
                }));
                if let Err(p) = r {
                    let mut pc = panics.lock().unwrap();
                    if *pc == 0 {
                        eprintln!("first panic in worker {}: {}", i, crate::gc::payload_msg(&p));
                    }
                    *pc += 1;
                }
            }
            // the worker drops its clones (of a cyclic structure too) as its last action, under the lock
            let _g = if locked { Some(big.lock().unwrap()) } else { None };
            drop(acc);
            drop(s);
        }));
    }
    for h in hs {
        let _ = h.join();
    }
    drop(acc);
    drop(merged);
    let expected: i64 = (0..n).map(|i| (0..m).map(|k| (i * 1000 + k) as i64).sum::<i64>()).sum();
    let c = counts.lock().unwrap().clone();
    // tear everything down on the main thread: the accounting must come back to zero
    let leftover = catch_unwind(AssertUnwindSafe(|| {
        for l in &listeners {
            l.unlisten();
        }
        drop(listeners);
        drop(sinks);
        ctx.transaction(|| {});
        ctx.impl_.collect_cycles();
        ctx.impl_.node_count()
    }));
    let (nodes, p2) = match leftover {
        Ok(k) => (k as i64 + worker_leaks_total.load(std::sync::atomic::Ordering::SeqCst) as i64, 0),
        Err(_) => (-1, 1),
    };
    writeln!(
        out,
        "sent={} delivered={:?} total={} expected={} panics={} nodes={}",
        n * m,
        c,
        *sum.lock().unwrap(),
        expected,
        *panics.lock().unwrap() + p2,
        nodes
    )
    .unwrap();
}

pub fn run_script<W: Write>(script: &Script, out: &mut W) {
    writeln!(out, "# {}", script.name).unwrap();
    let first: Vec<&str> = script.lines.first().map(|l| l.split_whitespace().collect()).unwrap_or_default();
    match first.first().copied() {
        Some("interleaving") => interleaving(script, out),
        Some("stress") => {
            let n: usize = first[1].parse().unwrap();
            let m: usize = first[2].parse().unwrap();
            stress(n, m, first[3] == "locked", out)
        }
        _ => writeln!(out, "harness-error bad thr script").unwrap(),
    }
    writeln!(out, "---").unwrap();
}
