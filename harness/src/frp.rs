//! FRP scripts through the public API of sodium-rust. One dynamic value type `V` so that every
//! generic code path is exercised the same way; user functions are a fixed table of codes that
//! mirrors `app1/appP/app2/appN/app_sel` of coq/Spec/Sodium.v.
use crate::Script;
use sodium_rust::{
    lambda1, lambda2, lambda3, lambda4, lambda5, lambda6, Cell, CellLoop, CellSink, Dep, Lazy, Listener, Router, SodiumCtx, Stream, StreamLoop,
    StreamSink, Transaction,
};
use std::collections::{BTreeMap, HashMap};
use std::io::Write;
use std::panic::{catch_unwind, AssertUnwindSafe};
use std::sync::atomic::{AtomicU32, Ordering};
use std::sync::{Arc, Mutex};

const M: i64 = 1000003;
fn norm(z: i64) -> i64 {
    z.rem_euclid(M)
}

#[derive(Clone)]
pub enum V {
    I(i64),
    P(Box<V>, Box<V>),
    L(Vec<V>),
    N,
    S(Box<V>),
    U,
    RS(usize, Stream<V>),
    RC(usize, Cell<V>),
}

fn toint(v: &V) -> i64 {
    match v {
        V::I(z) => *z,
        V::P(a, b) => norm(toint(a) * 31 + toint(b)),
        V::L(l) => l.iter().fold(7, |acc, x| norm(acc * 31 + toint(x))),
        V::N => 0,
        V::S(x) => norm(toint(x) + 1),
        V::U => 0,
        V::RS(h, _) | V::RC(h, _) => 8 * (*h as i64),
    }
}

pub fn show(v: &V) -> String {
    match v {
        V::I(z) => z.to_string(),
        V::P(a, b) => format!("({},{})", show(a), show(b)),
        V::L(l) => format!("[{}]", l.iter().map(show).collect::<Vec<_>>().join(";")),
        V::N => "none".into(),
        V::S(x) => format!("some({})", show(x)),
        V::U => "unit".into(),
        V::RS(h, _) | V::RC(h, _) => format!("@{}", h),
    }
}

fn parse_val(s: &str) -> V {
    let p: Vec<&str> = s.splitn(2, ':').collect();
    match (p[0], p.get(1)) {
        ("none", None) => V::N,
        ("unit", None) => V::U,
        ("some", Some(x)) => V::S(Box::new(V::I(x.parse().unwrap()))),
        ("pair", Some(x)) => {
            let q: Vec<&str> = x.split(',').collect();
            V::P(Box::new(V::I(q[0].parse().unwrap())), Box::new(V::I(q[1].parse().unwrap())))
        }
        ("list", None) => V::L(vec![]),
        ("list", Some(x)) => V::L(x.split(',').map(|a| V::I(a.parse().unwrap())).collect()),
        (x, None) => V::I(x.parse().unwrap()),
        _ => panic!("bad value {}", s),
    }
}

#[derive(Clone)]
enum F1 {
    Add(i64),
    Mul(i64),
    Const(V),
    Id,
    PairSelf,
    Fst,
    Snd,
    SomeIfEven,
    Unsome,
    ToList(usize),
    Sel(Vec<V>),
}

fn app1(f: &F1, v: &V) -> V {
    match f {
        F1::Add(k) => V::I(norm(toint(v) + k)),
        F1::Mul(k) => V::I(norm(toint(v) * k)),
        F1::Const(c) => c.clone(),
        F1::Id => v.clone(),
        F1::PairSelf => V::P(Box::new(v.clone()), Box::new(v.clone())),
        F1::Fst => match v {
            V::P(a, _) => (**a).clone(),
            _ => v.clone(),
        },
        F1::Snd => match v {
            V::P(_, b) => (**b).clone(),
            _ => v.clone(),
        },
        F1::SomeIfEven => {
            if toint(v) % 2 == 0 {
                V::S(Box::new(v.clone()))
            } else {
                V::N
            }
        }
        F1::Unsome => match v {
            V::S(x) => (**x).clone(),
            _ => v.clone(),
        },
        F1::ToList(k) => V::L((0..*k).map(|i| V::I(norm(toint(v) + i as i64))).collect()),
        F1::Sel(hs) => {
            if hs.is_empty() {
                V::U
            } else {
                hs[(toint(v).rem_euclid(hs.len() as i64)) as usize].clone()
            }
        }
    }
}

#[derive(Clone, Copy)]
enum P1 {
    Even,
    Gt(i64),
    Lt(i64),
    True,
    False,
    IsSome,
}
fn app_p(p: P1, v: &V) -> bool {
    match p {
        P1::Even => toint(v) % 2 == 0,
        P1::Gt(k) => k < toint(v),
        P1::Lt(k) => toint(v) < k,
        P1::True => true,
        P1::False => false,
        P1::IsSome => matches!(v, V::S(_)),
    }
}

#[derive(Clone, Copy)]
enum F2 {
    Add,
    Sub,
    Mul10,
    Left,
    Right,
    Pair,
}
fn app2(f: F2, a: &V, b: &V) -> V {
    match f {
        F2::Add => V::I(norm(toint(a) + toint(b))),
        F2::Sub => V::I(norm(toint(a) - toint(b))),
        F2::Mul10 => V::I(norm(10 * toint(a) + toint(b))),
        F2::Left => a.clone(),
        F2::Right => b.clone(),
        F2::Pair => V::P(Box::new(a.clone()), Box::new(b.clone())),
    }
}

#[derive(Clone, Copy)]
enum FN {
    Wsum,
    First,
    Last,
    Tuple,
}
fn tuple_of(l: &[V]) -> V {
    match l.len() {
        0 => V::U,
        1 => l[0].clone(),
        _ => V::P(Box::new(l[0].clone()), Box::new(tuple_of(&l[1..]))),
    }
}
fn app_n(f: FN, l: &[V]) -> V {
    match f {
        FN::Wsum => {
            let mut i = 1i64;
            let mut acc = 0i64;
            for x in l {
                acc = norm(acc + i * toint(x));
                i += 1;
            }
            V::I(acc)
        }
        FN::First => l.first().cloned().unwrap_or(V::U),
        FN::Last => l.last().cloned().unwrap_or(V::U),
        FN::Tuple => tuple_of(l),
    }
}

#[derive(Clone, Copy)]
enum Sel {
    Mod(i64),
    Dup(i64),
    Multi,
}
fn app_sel(s: Sel, v: &V) -> Vec<i64> {
    let x = toint(v);
    match s {
        Sel::Mod(k) => vec![x.rem_euclid(k)],
        Sel::Dup(k) => vec![x.rem_euclid(k), x.rem_euclid(k)],
        Sel::Multi => vec![x.rem_euclid(2), 2 + x.rem_euclid(3), x.rem_euclid(2)],
    }
}

fn parse_p(s: &str) -> P1 {
    let p: Vec<&str> = s.split(':').collect();
    match p[0] {
        "even" => P1::Even,
        "gt" => P1::Gt(p[1].parse().unwrap()),
        "lt" => P1::Lt(p[1].parse().unwrap()),
        "true" => P1::True,
        "false" => P1::False,
        "issome" => P1::IsSome,
        _ => panic!("bad pred {}", s),
    }
}
fn parse_f2(s: &str) -> F2 {
    match s {
        "add" => F2::Add,
        "sub" => F2::Sub,
        "mul10" => F2::Mul10,
        "left" => F2::Left,
        "right" => F2::Right,
        "pair" => F2::Pair,
        _ => panic!("bad f2 {}", s),
    }
}
fn parse_fn(s: &str) -> FN {
    match s {
        "wsum" => FN::Wsum,
        "first" => FN::First,
        "last" => FN::Last,
        "tuple" => FN::Tuple,
        _ => panic!("bad fn {}", s),
    }
}
fn parse_sel(s: &str) -> Sel {
    let p: Vec<&str> = s.split(':').collect();
    match p[0] {
        "mod" => Sel::Mod(p[1].parse().unwrap()),
        "dup" => Sel::Dup(p[1].parse().unwrap()),
        "multi" => Sel::Multi,
        _ => panic!("bad sel {}", s),
    }
}

#[allow(dead_code)]
enum Kept {
    S(Stream<V>),
    C(Cell<V>),
}

enum Obj {
    Stream(Stream<V>),
    Cell(Cell<V>),
    Sink(StreamSink<V>),
    CSink(CellSink<V>),
    SLoop(StreamLoop<V>),
    CLoop(CellLoop<V>),
    Router(Router<V, i64>),
}

enum Ob {
    Call(usize, V),
    Sample(V),
    Forced(V, u32),
    Post(usize, Vec<V>),
    Note(String),
}

pub enum Item {
    Line(usize, String),
    Txn(usize, Vec<Item>, usize),
}

fn parse_items(lines: &[String], pos: &mut usize) -> Vec<Item> {
    let mut out = Vec::new();
    while *pos < lines.len() {
        let l = lines[*pos].trim();
        if l == "{" {
            let open = *pos;
            *pos += 1;
            let inner = parse_items(lines, pos);
            let close = *pos;
            *pos += 1;
            out.push(Item::Txn(open, inner, close));
        } else if l == "}" {
            return out;
        } else {
            out.push(Item::Line(*pos, l.to_string()));
            *pos += 1;
        }
    }
    out
}

pub struct World {
    ctx: SodiumCtx,
    objs: HashMap<usize, Obj>,
    listeners: HashMap<usize, Listener>,
    lazies: HashMap<usize, (Lazy<V>, Arc<AtomicU32>)>,
    txns: HashMap<usize, Transaction>,
    log: Arc<Mutex<Vec<Ob>>>,
    pub out: Vec<(usize, String)>,
    annotate: bool,
    audit_now: bool,
    /// constant cells: (gc id of the private never-firing stream their CellData owns, weak handle on that CellData)
    const_cells: Vec<(u32, u32, std::sync::Weak<dyn std::any::Any + Send + Sync>, sodium_rust::verif::GcNode)>,
    heap_dump: Mutex<String>,
    /// killer listener -> victim listener (listen_u)
    killers: HashMap<usize, usize>,
    /// gc ids of objects whose handles are stored as VALUES (candidates of a `sel:` function): values holding
    /// handles are counted references no tracer reports (known-finding class K5), so they are not audited
    value_held: std::collections::HashSet<u32>,
    /// gc ids of objects captured by user functions (keep:), and whether the script uses Lazy values: an unforced thunk of a
    /// mapped / lifted cell shares the user function, so a Lazy the harness holds may own captured handles it cannot count
    kept_ids: std::collections::HashSet<u32>,
    kept_nodes: Vec<sodium_rust::verif::GcNode>,
    lazy_seen: bool,
}

impl World {
    pub fn new(annotate: bool) -> World {
        World {
            ctx: SodiumCtx::new(),
            objs: HashMap::new(),
            listeners: HashMap::new(),
            lazies: HashMap::new(),
            txns: HashMap::new(),
            log: Arc::new(Mutex::new(Vec::new())),
            out: Vec::new(),
            annotate,
            audit_now: false,
            const_cells: Vec::new(),
            heap_dump: Mutex::new(String::new()),
            killers: HashMap::new(),
            value_held: std::collections::HashSet::new(),
            kept_ids: std::collections::HashSet::new(),
            kept_nodes: Vec::new(),
            lazy_seen: false,
        }
    }

    fn stream(&self, h: usize) -> Stream<V> {
        match self.objs.get(&h) {
            Some(Obj::Stream(s)) => s.clone(),
            Some(Obj::Sink(s)) => s.stream(),
            Some(Obj::SLoop(s)) => s.stream(),
            _ => panic!("harness: slot {} is not a stream", h),
        }
    }

    fn cell(&self, h: usize) -> Cell<V> {
        match self.objs.get(&h) {
            Some(Obj::Cell(c)) => c.clone(),
            Some(Obj::CSink(c)) => c.cell(),
            Some(Obj::CLoop(c)) => c.cell(),
            _ => panic!("harness: slot {} is not a cell", h),
        }
    }

    fn parse_f1(&self, s: &str) -> (F1, Vec<Dep>) {
        let p: Vec<&str> = s.splitn(2, ':').collect();
        let k = || -> i64 { p[1].parse().unwrap() };
        let f = match p[0] {
            "add" => F1::Add(k()),
            "mul" => F1::Mul(k()),
            "const" => F1::Const(V::I(k())),
            "id" => F1::Id,
            "pairself" => F1::PairSelf,
            "fst" => F1::Fst,
            "snd" => F1::Snd,
            "someifeven" => F1::SomeIfEven,
            "unsome" => F1::Unsome,
            "tolist" => F1::ToList(p[1].parse().unwrap()),
            "sel" => {
                let mut vs = Vec::new();
                let mut deps = Vec::new();
                for h in p[1].split(',') {
                    let h: usize = h.parse().unwrap();
                    match self.objs.get(&h) {
                        Some(Obj::Cell(_)) | Some(Obj::CSink(_)) | Some(Obj::CLoop(_)) => {
                            let c = self.cell(h);
                            deps.push(c.to_dep());
                            vs.push(V::RC(h, c));
                        }
                        _ => {
                            let st = self.stream(h);
                            deps.push(st.to_dep());
                            vs.push(V::RS(h, st));
                        }
                    }
                }
                return (F1::Sel(vs), deps);
            }
            _ => panic!("bad f1 {}", s),
        };
        (f, Vec::new())
    }

    fn flush(&mut self, idx: usize) {
        let obs: Vec<Ob> = std::mem::take(&mut *self.log.lock().unwrap());
        let mut calls: BTreeMap<usize, Vec<String>> = BTreeMap::new();
        let mut rest: Vec<String> = Vec::new();
        let mut ann: Vec<String> = Vec::new();
        // raw global order of the calls of this line (for the listener-lifecycle oracle), and censoring of a
        // victim's calls in a line in which its killer was called (unspecified which callback runs first)
        let order: Vec<String> = obs
            .iter()
            .filter_map(|o| if let Ob::Call(l, _) = o { Some(l.to_string()) } else { None })
            .collect();
        if !self.killers.is_empty() && !order.is_empty() {
            ann.push(format!("o={}", order.join(",")));
        }
        let dead: Vec<usize> = self
            .killers
            .iter()
            .filter(|(k, _)| obs.iter().any(|o| matches!(o, Ob::Call(l, _) if l == *k)))
            .map(|(_, v)| *v)
            .collect();
        let obs: Vec<Ob> = obs
            .into_iter()
            .filter(|o| !matches!(o, Ob::Call(l, _) if dead.contains(l)))
            .collect();
        for o in obs {
            match o {
                Ob::Call(l, v) => calls.entry(l).or_default().push(show(&v)),
                Ob::Sample(v) => rest.push(format!("sample {}", show(&v))),
                Ob::Forced(v, runs) => {
                    rest.push(format!("forced {}", show(&v)));
                    ann.push(format!("runs={}", runs));
                }
                Ob::Post(k, vs) => rest.push(format!(
                    "post {} [{}]",
                    k,
                    vs.iter().map(show).collect::<Vec<_>>().join(",")
                )),
                Ob::Note(s) => rest.push(s),
            }
        }
        let mut parts: Vec<String> =
            calls.iter().map(|(l, vs)| format!("L{}=[{}]", l, vs.join(","))).collect();
        parts.extend(rest);
        let mut line = if parts.is_empty() { "-".to_string() } else { parts.join(" ; ") };
        if self.annotate {
            // slots whose own node ran its update closure during this line (hook H4), in order
            let log = self.ctx.impl_.verif_take_update_log();
            if !log.is_empty() {
                let mut by_id: HashMap<u32, usize> = HashMap::new();
                for (slot, o) in &self.objs {
                    let id = match o {
                        Obj::Stream(s) => Some(s.impl_.node.gc_node.verif_id()),
                        Obj::Cell(c) => Some(c.impl_.node.gc_node.verif_id()),
                        Obj::CSink(c) => Some(c.cell().impl_.node.gc_node.verif_id()),
                        Obj::SLoop(l) => Some(l.stream().impl_.node.gc_node.verif_id()),
                        Obj::CLoop(l) => Some(l.cell().impl_.node.gc_node.verif_id()),
                        _ => None,
                    };
                    if let Some(id) = id {
                        let e = by_id.entry(id).or_insert(*slot);
                        if *slot < *e {
                            *e = *slot;
                        }
                    }
                }
                let slots: Vec<String> =
                    log.iter().filter_map(|id| by_id.get(id)).map(|s| s.to_string()).collect();
                ann.push(format!("u={}", slots.join(",")));
            }
            let q = self.ctx.impl_.verif_queue_lengths();
            let mut firing = 0;
            for o in self.objs.values() {
                let st = match o {
                    Obj::Stream(s) => Some(s.clone()),
                    Obj::Sink(s) => Some(s.stream()),
                    Obj::SLoop(s) => Some(s.stream()),
                    Obj::Cell(c) => Some(c.updates()),
                    _ => None,
                };
                if let Some(st) = st {
                    if st.impl_.with_firing_op(|f| f.is_some()) {
                        firing += 1;
                    }
                }
            }
            if q.0 == 0 && self.audit_now {
                ann.push(format!("A={}", self.audit()));
                let hd = std::mem::take(&mut *self.heap_dump.lock().unwrap());
                if !hd.is_empty() {
                    ann.push(format!("H={}", hd));
                }
            }
            ann.push(format!(
                "d={} q={},{},{},{} cc={} ka={} f={} n={}",
                q.0,
                q.1,
                q.2,
                q.3,
                q.4,
                q.6,
                q.5,
                firing,
                self.ctx.impl_.node_count()
            ));
        }
        if !ann.is_empty() {
            line.push_str(" #");
            line.push_str(&ann.join(" "));
        }
        self.out.push((idx, line));
    }

    /// Contract audit (C06/C07): for every collector object reachable from the handles this harness holds,
    /// the strong listeners the context keeps alive and the collector's candidate buffer, the reference count
    /// must equal the handles held on it plus the edges reported to it by the tracers of those objects -
    /// the hypothesis (WF) of the collector theorems, evaluated on the real heap. Returns "ok" or the first
    /// object whose count is not explained.
    fn audit(&self) -> String {
        use sodium_rust::verif::GcNode;
        let mut ext: HashMap<u32, (u32, GcNode)> = HashMap::new();
        let mut extra_in: HashMap<u32, u32> = HashMap::new();
        let mut zero: Vec<GcNode> = Vec::new();
        fn add_to(ext: &mut HashMap<u32, (u32, GcNode)>, g: &GcNode, k: u32) {
            let e = ext.entry(g.verif_id()).or_insert((0, g.clone()));
            e.0 += k;
        }
        let mut pending: Vec<(GcNode, u32)> = Vec::new();
        let mut add = |g: &GcNode| pending.push((g.clone(), 1));
        for o in self.objs.values() {
            match o {
                Obj::Stream(s) => add(&s.impl_.node.gc_node),
                Obj::Cell(c) => add(&c.impl_.node.gc_node),
                Obj::Sink(s) => {
                    let st = s.stream();
                    add(&st.impl_.node.gc_node);
                }
                Obj::CSink(s) => {
                    let c = s.cell();
                    add(&c.impl_.node.gc_node);
                    let u = c.updates();
                    add(&u.impl_.node.gc_node);
                }
                Obj::SLoop(l) => add(&l.impl_.gc_node),
                Obj::CLoop(l) => {
                    let c = l.cell();
                    add(&c.impl_.node.gc_node);
                    // the CellLoop's StreamLoop object is not reachable through the public API: it holds one
                    // reported reference on the loop's stream
                    let u = c.updates();
                    // (one StreamLoop object, however many clones of the CellLoop handle exist)
                    extra_in.insert(u.impl_.node.gc_node.verif_id(), 1);
                    zero.push(u.impl_.node.gc_node.clone());
                }
                Obj::Router(_) => return "skipped".into(),
            }
        }
        for l in self.listeners.values() {
            add(&l.impl_.gc_node);
        }
        let kept: Vec<GcNode> = self.ctx.impl_.with_data(|d| d.keep_alive.iter().map(|l| l.gc_node.clone()).collect());
        for g in &kept {
            add(g);
        }
        for (g, k) in pending {
            add_to(&mut ext, &g, k);
        }
        // a constant cell's CellData owns one reference on its private stream for as long as it lives
        let mut const_owned: HashMap<u32, u32> = HashMap::new();
        for (id, _cell, w, _g) in &self.const_cells {
            if w.upgrade().is_some() {
                *const_owned.entry(*id).or_insert(0) += 1;
            }
        }
        for g in zero {
            add_to(&mut ext, &g, 0);
        }
        // reachable set
        let mut seen: HashMap<u32, GcNode> = HashMap::new();
        let mut stack: Vec<GcNode> = ext.values().map(|x| x.1.clone()).collect();
        stack.extend(self.ctx.impl_.gc_ctx().verif_root_nodes());
        if self.lazy_seen {
            // an object captured by a user function may be alive only through a Lazy the harness holds (the unforced thunk
            // shares the function): not counted itself (see above), but what it references must be explained
            for g in &self.kept_nodes {
                if !g.verif_snapshot().freed {
                    stack.push(g.clone());
                }
            }
        }
        let mut in_edges: HashMap<u32, u32> = HashMap::new();
        while let Some(g) = stack.pop() {
            if seen.contains_key(&g.verif_id()) {
                continue;
            }
            seen.insert(g.verif_id(), g.clone());
            for t in g.verif_edges() {
                *in_edges.entry(t.verif_id()).or_insert(0) += 1;
                stack.push(t);
            }
            // the private stream of a live constant cell is owned by the cell's data (counted in const_owned below)
            for (_private, cell, w, pg) in &self.const_cells {
                if *cell == g.verif_id() && w.upgrade().is_some() {
                    stack.push(pg.clone());
                }
            }
        }
        let mut ids: Vec<u32> = seen.keys().cloned().collect();
        ids.sort();
        if std::env::var("VERIF_HEAP_DUMP").is_ok() {
            // complete table of the reachable heap: id:name:freed:rc:handles:edges (for the heap model's validation)
            let mut rows: Vec<String> = Vec::new();
            for id in &ids {
                let g = &seen[id];
                let sn = g.verif_snapshot();
                let mut es: Vec<String> = g.verif_edges().iter().map(|e| e.verif_id().to_string()).collect();
                // a live constant cell owns one reference on its private stream (released with the cell's data, not
                // reported by a tracer): shown as the edge it behaves as
                for (private, cell, w, _g) in &self.const_cells {
                    if cell == id && w.upgrade().is_some() {
                        es.push(private.to_string());
                    }
                }
                rows.push(format!(
                    "{}:{}:{}:{}:{}:{}",
                    id,
                    format!("{}", g.verif_name()).replace(' ', "_"),
                    sn.freed as u8,
                    sn.ref_count,
                    ext.get(id).map(|x| x.0).unwrap_or(0),
                    es.join(".")
                ));
            }
            *self.heap_dump.lock().unwrap() = rows.join("/");
        }
        for id in ids {
            let g = &seen[&id];
            let sn = g.verif_snapshot();
            let e = ext.get(&id).map(|x| x.0).unwrap_or(0);
            if self.value_held.contains(&id) || (self.lazy_seen && self.kept_ids.contains(&id)) {
                continue;
            }
            let want = e + in_edges.get(&id).cloned().unwrap_or(0) + extra_in.get(&id).cloned().unwrap_or(0)
                + const_owned.get(&id).cloned().unwrap_or(0);
            if sn.freed {
                if e > 0 || in_edges.get(&id).cloned().unwrap_or(0) > 0 {
                    return format!("freed-but-referenced:{}({})", id, g.verif_name());
                }
                continue;
            }
            if sn.ref_count != want {
                return format!("{}({}):rc{}!={}h+{}e", id, g.verif_name(), sn.ref_count, e,
                    want - e).replace(' ', "_");
            }
        }
        "ok".into()
    }

    pub fn run_items(&mut self, items: &[Item]) {
        for it in items {
            match it {
                Item::Line(idx, l) => {
                    self.exec(l);
                    // a collection has just run (explicit gc, or the transaction this line was) and no handle
                    // has been dropped since: the heap contains no garbage awaiting collection
                    let w0 = l.split_whitespace().next().unwrap_or("");
                    self.audit_now = matches!(w0, "gc" | "send" | "tclose" | "tdrop");
                    self.flush(*idx);
                    self.audit_now = false;
                }
                Item::Txn(open, inner, close) => {
                    let ctx = self.ctx.clone();
                    let open = *open;
                    ctx.transaction(|| {
                        self.flush(open);
                        self.run_items(inner);
                    });
                    self.audit_now = true;
                    self.flush(*close);
                    self.audit_now = false;
                }
            }
        }
    }

    fn listen_closure(&self, l: usize) -> impl FnMut(&V) + Send + Sync + 'static {
        let log = self.log.clone();
        move |v: &V| log.lock().unwrap().push(Ob::Call(l, v.clone()))
    }

    fn exec(&mut self, line: &str) {
        let mut w: Vec<&str> = line.split_whitespace().collect();
        // a trailing "keep:X,Y": the user function of this primitive captures handles of slots X, Y (without reading
        // them) and declares them as dependencies (lambdaN(f, deps)): they must be kept alive, traced once each
        if matches!(
            w.first().copied(),
            Some("hold_lazy" | "accum_lazy" | "collect_lazy" | "sample_lazy" | "clone_lazy" | "lazy_new" | "force")
        ) {
            self.lazy_seen = true;
        }
        let mut kept: Vec<Kept> = Vec::new();
        let mut kdeps: Vec<Dep> = Vec::new();
        if let Some(k) = w.last().and_then(|t| t.strip_prefix("keep:")) {
            for h in k.split(',') {
                let h: usize = h.parse().unwrap();
                match self.objs.get(&h) {
                    Some(Obj::Cell(_)) | Some(Obj::CSink(_)) | Some(Obj::CLoop(_)) => {
                        let c = self.cell(h);
                        self.kept_ids.insert(c.impl_.node.gc_node.verif_id());
                        self.kept_nodes.push(c.impl_.node.gc_node.clone());
                        kdeps.push(c.to_dep());
                        kept.push(Kept::C(c));
                    }
                    _ => {
                        let st = self.stream(h);
                        self.kept_ids.insert(st.impl_.node.gc_node.verif_id());
                        self.kept_nodes.push(st.impl_.node.gc_node.clone());
                        kdeps.push(st.to_dep());
                        kept.push(Kept::S(st));
                    }
                }
            }
            w.pop();
        }
        for tok in &w {
            if let Some(hs) = tok.strip_prefix("sel:") {
                for h in hs.split(',') {
                    let h: usize = h.parse().unwrap();
                    let id = match self.objs.get(&h) {
                        Some(Obj::Cell(_)) | Some(Obj::CSink(_)) | Some(Obj::CLoop(_)) => {
                            self.cell(h).impl_.node.gc_node.verif_id()
                        }
                        _ => self.stream(h).impl_.node.gc_node.verif_id(),
                    };
                    self.value_held.insert(id);
                }
            }
        }
        let n = |i: usize| -> usize { w[i].parse().unwrap() };
        let ctx = self.ctx.clone();
        match w[0] {
            "sink" => {
                self.objs.insert(n(1), Obj::Sink(ctx.new_stream_sink()));
            }
            "sink_co" => {
                let f = parse_f2(w[2]);
                self.objs.insert(
                    n(1),
                    Obj::Sink(ctx.new_stream_sink_with_coalescer(move |a: &V, b: &V| app2(f, a, b))),
                );
            }
            "csink" => {
                self.objs.insert(n(1), Obj::CSink(ctx.new_cell_sink(parse_val(w[2]))));
            }
            "const" => {
                let c = ctx.new_cell(parse_val(w[2]));
                let private = c.updates().impl_.node.gc_node.verif_id();
                let data: Arc<dyn std::any::Any + Send + Sync> = c.impl_.data.clone();
                self.const_cells.push((
                    private,
                    c.impl_.node.gc_node.verif_id(),
                    Arc::downgrade(&data),
                    c.updates().impl_.node.gc_node.clone(),
                ));
                self.objs.insert(n(1), Obj::Cell(c));
            }
            "never" => {
                self.objs.insert(n(1), Obj::Stream(ctx.new_stream()));
            }
            "map" => {
                let (f, mut deps) = self.parse_f1(w[3]);
                deps.extend(kdeps);
                let s = self.stream(n(2)).map(lambda1(
                    move |v: &V| {
                        let _ = &kept;
                        app1(&f, v)
                    },
                    deps,
                ));
                self.objs.insert(n(1), Obj::Stream(s));
            }
            "map_to" => {
                let s = self.stream(n(2)).map_to(parse_val(w[3]));
                self.objs.insert(n(1), Obj::Stream(s));
            }
            "filter" => {
                let p = parse_p(w[3]);
                let s = self.stream(n(2)).filter(lambda1(
                    move |v: &V| {
                        let _ = &kept;
                        app_p(p, v)
                    },
                    kdeps,
                ));
                self.objs.insert(n(1), Obj::Stream(s));
            }
            "filter_opt" => {
                // Stream<V> -> Stream<Option<V>> -> filter_option
                let s = self
                    .stream(n(2))
                    .map(|v: &V| match v {
                        V::S(x) => Some((**x).clone()),
                        _ => None,
                    })
                    .filter_option();
                self.objs.insert(n(1), Obj::Stream(s));
            }
            "merge" => {
                let f = parse_f2(w[4]);
                let s = self.stream(n(2)).merge(
                    &self.stream(n(3)),
                    lambda2(
                        move |a: &V, b: &V| {
                            let _ = &kept;
                            app2(f, a, b)
                        },
                        kdeps,
                    ),
                );
                self.objs.insert(n(1), Obj::Stream(s));
            }
            "or_else" => {
                let s = self.stream(n(2)).or_else(&self.stream(n(3)));
                self.objs.insert(n(1), Obj::Stream(s));
            }
            "snapshot" => {
                let f = parse_fn(w[3]);
                let cs: Vec<Cell<V>> = w[4..].iter().map(|x| self.cell(x.parse().unwrap())).collect();
                let s0 = self.stream(n(2));
                let s = match cs.len() {
                    1 => s0.snapshot(&cs[0], lambda2(
                        move |a: &V, b: &V| {
                            let _ = &kept;
                            app_n(f, &[a.clone(), b.clone()])
                        },
                        kdeps,
                    )),
                    2 => s0.snapshot3(&cs[0], &cs[1], lambda3(
                        move |a: &V, b: &V, c: &V| {
                            let _ = &kept;
                            app_n(f, &[a.clone(), b.clone(), c.clone()])
                        },
                        kdeps,
                    )),
                    3 => s0.snapshot4(&cs[0], &cs[1], &cs[2], lambda4(
                        move |a: &V, b: &V, c: &V, d: &V| {
                            let _ = &kept;
                            app_n(f, &[a.clone(), b.clone(), c.clone(), d.clone()])
                        },
                        kdeps,
                    )),
                    4 => s0.snapshot5(
                        &cs[0],
                        &cs[1],
                        &cs[2],
                        &cs[3],
                        lambda5(
                        move |a: &V, b: &V, c: &V, d: &V, e: &V| {
                            let _ = &kept;
                            app_n(f, &[a.clone(), b.clone(), c.clone(), d.clone(), e.clone()])
                        },
                        kdeps,
                    ),
                    ),
                    5 => s0.snapshot6(
                        &cs[0],
                        &cs[1],
                        &cs[2],
                        &cs[3],
                        &cs[4],
                        lambda6(
                        move |a: &V, b: &V, c: &V, d: &V, e: &V, g: &V| {
                            let _ = &kept;
                            app_n(f, &[a.clone(), b.clone(), c.clone(), d.clone(), e.clone(), g.clone()])
                        },
                        kdeps,
                    ),
                    ),
                    _ => panic!("harness: snapshot arity"),
                };
                self.objs.insert(n(1), Obj::Stream(s));
            }
            "map_s" | "map_sl" => {
                // a map whose FUNCTION reads a cell (strictly, or through a Lazy forced on the spot): by property C04
                // such a read sees the pre-transaction value, i.e. the stream equals the snapshot of the cell
                let f = parse_fn(w[3]);
                let c = self.cell(n(4));
                let lazy = w[0] == "map_sl";
                let dep = c.to_dep();
                let s = self.stream(n(2)).map(lambda1(
                    move |a: &V| {
                        let b = if lazy { c.sample_lazy().run() } else { c.sample() };
                        app_n(f, &[a.clone(), b])
                    },
                    vec![dep],
                ));
                self.objs.insert(n(1), Obj::Stream(s));
            }
            "snapshot1" => {
                let s = self.stream(n(2)).snapshot1(&self.cell(n(3)));
                self.objs.insert(n(1), Obj::Stream(s));
            }
            "gate" => {
                // Cell<V> -> Cell<bool> through the public map, then gate
                let cb = self.cell(n(3)).map(|v: &V| toint(v) != 0);
                let s = self.stream(n(2)).gate(&cb);
                self.objs.insert(n(1), Obj::Stream(s));
            }
            "once" => {
                let s = self.stream(n(2)).once();
                self.objs.insert(n(1), Obj::Stream(s));
            }
            "hold" => {
                let c = self.stream(n(2)).hold(parse_val(w[3]));
                self.objs.insert(n(1), Obj::Cell(c));
            }
            "hold_lazy" => {
                let z = self.lazies.get(&n(3)).expect("harness: lazy").0.clone();
                let c = self.stream(n(2)).hold_lazy(z);
                self.objs.insert(n(1), Obj::Cell(c));
            }
            "updates" => {
                let s = self.cell(n(2)).updates();
                self.objs.insert(n(1), Obj::Stream(s));
            }
            "value" => {
                let s = self.cell(n(2)).value();
                self.objs.insert(n(1), Obj::Stream(s));
            }
            "map_c" => {
                let (f, mut deps) = self.parse_f1(w[3]);
                deps.extend(kdeps);
                let c = self.cell(n(2)).map(lambda1(
                    move |v: &V| {
                        let _ = &kept;
                        app1(&f, v)
                    },
                    deps,
                ));
                self.objs.insert(n(1), Obj::Cell(c));
            }
            "map_cmk" => {
                // like map_c with a sel: function, but the function CONSTRUCTS a primitive each time it is called (during
                // propagation, or when the cell's lazy initial value is forced): the selected stream / cell wrapped in a
                // fresh identity map - same denotation as the selected object itself
                let (f, mut deps) = self.parse_f1(w[3]);
                deps.extend(kdeps);
                let c = self.cell(n(2)).map(lambda1(
                    move |v: &V| {
                        let _ = &kept;
                        match app1(&f, v) {
                            V::RS(h, st) => V::RS(h, st.map(|x: &V| x.clone())),
                            V::RC(h, c) => V::RC(h, c.map(|x: &V| x.clone())),
                            x => x,
                        }
                    },
                    deps,
                ));
                self.objs.insert(n(1), Obj::Cell(c));
            }
            "lift" => {
                let f = parse_fn(w[2]);
                let cs: Vec<Cell<V>> = w[3..].iter().map(|x| self.cell(x.parse().unwrap())).collect();
                let c = match cs.len() {
                    2 => cs[0].lift2(&cs[1], lambda2(
                        move |a: &V, b: &V| {
                            let _ = &kept;
                            app_n(f, &[a.clone(), b.clone()])
                        },
                        kdeps,
                    )),
                    3 => cs[0].lift3(&cs[1], &cs[2], lambda3(
                        move |a: &V, b: &V, c: &V| {
                            let _ = &kept;
                            app_n(f, &[a.clone(), b.clone(), c.clone()])
                        },
                        kdeps,
                    )),
                    4 => cs[0].lift4(&cs[1], &cs[2], &cs[3], lambda4(
                        move |a: &V, b: &V, c: &V, d: &V| {
                            let _ = &kept;
                            app_n(f, &[a.clone(), b.clone(), c.clone(), d.clone()])
                        },
                        kdeps,
                    )),
                    5 => cs[0].lift5(
                        &cs[1],
                        &cs[2],
                        &cs[3],
                        &cs[4],
                        lambda5(
                        move |a: &V, b: &V, c: &V, d: &V, e: &V| {
                            let _ = &kept;
                            app_n(f, &[a.clone(), b.clone(), c.clone(), d.clone(), e.clone()])
                        },
                        kdeps,
                    ),
                    ),
                    6 => cs[0].lift6(
                        &cs[1],
                        &cs[2],
                        &cs[3],
                        &cs[4],
                        &cs[5],
                        lambda6(
                        move |a: &V, b: &V, c: &V, d: &V, e: &V, g: &V| {
                            let _ = &kept;
                            app_n(f, &[a.clone(), b.clone(), c.clone(), d.clone(), e.clone(), g.clone()])
                        },
                        kdeps,
                    ),
                    ),
                    _ => panic!("harness: lift arity"),
                };
                self.objs.insert(n(1), Obj::Cell(c));
            }
            "accum" => {
                let f = parse_f2(w[4]);
                let c = self.stream(n(2)).accum(
                    parse_val(w[3]),
                    lambda2(
                        move |a: &V, s: &V| {
                            let _ = &kept;
                            app2(f, a, s)
                        },
                        kdeps,
                    ),
                );
                self.objs.insert(n(1), Obj::Cell(c));
            }
            "accum_lazy" => {
                let f = parse_f2(w[4]);
                let z = self.lazies.get(&n(3)).expect("harness: lazy").0.clone();
                let c = self.stream(n(2)).accum_lazy(z, move |a: &V, s: &V| app2(f, a, s));
                self.objs.insert(n(1), Obj::Cell(c));
            }
            "collect" => {
                let fa = parse_f2(w[4]);
                let fb = parse_f2(w[5]);
                let s = self
                    .stream(n(2))
                    .collect(
                        parse_val(w[3]),
                        lambda2(
                            move |a: &V, s: &V| {
                                let _ = &kept;
                                (app2(fa, a, s), app2(fb, a, s))
                            },
                            kdeps,
                        ),
                    );
                self.objs.insert(n(1), Obj::Stream(s));
            }
            "collect_lazy" => {
                let fa = parse_f2(w[4]);
                let fb = parse_f2(w[5]);
                let z = self.lazies.get(&n(3)).expect("harness: lazy").0.clone();
                let s = self
                    .stream(n(2))
                    .collect_lazy(z, move |a: &V, s: &V| (app2(fa, a, s), app2(fb, a, s)));
                self.objs.insert(n(1), Obj::Stream(s));
            }
            "switch_s" => {
                let cs: Cell<Stream<V>> = self.cell(n(2)).map(|v: &V| match v {
                    V::RS(_, s) => s.clone(),
                    _ => panic!("harness: switch_s over a non-stream value"),
                });
                self.objs.insert(n(1), Obj::Stream(Cell::switch_s(&cs)));
            }
            "switch_c" => {
                let cc: Cell<Cell<V>> = self.cell(n(2)).map(|v: &V| match v {
                    V::RC(_, c) => c.clone(),
                    _ => panic!("harness: switch_c over a non-cell value"),
                });
                self.objs.insert(n(1), Obj::Cell(Cell::switch_c(&cc)));
            }
            "sloop" => {
                self.objs.insert(n(1), Obj::SLoop(ctx.new_stream_loop()));
            }
            "sloop_close" => {
                let s = self.stream(n(2));
                match self.objs.get(&n(1)) {
                    Some(Obj::SLoop(l)) => l.loop_(&s),
                    _ => panic!("harness: not a stream loop"),
                }
            }
            "cloop" => {
                self.objs.insert(n(1), Obj::CLoop(ctx.new_cell_loop()));
            }
            "cloop_close" => {
                let c = self.cell(n(2));
                match self.objs.get(&n(1)) {
                    Some(Obj::CLoop(l)) => l.loop_(&c),
                    _ => panic!("harness: not a cell loop"),
                }
            }
            "defer" => {
                let s = sodium_rust::Operational::defer(&self.stream(n(2)));
                self.objs.insert(n(1), Obj::Stream(s));
            }
            "split" => {
                let s: Stream<Vec<V>> = self.stream(n(2)).map(|v: &V| match v {
                    V::L(l) => l.clone(),
                    x => vec![x.clone()],
                });
                self.objs.insert(n(1), Obj::Stream(s.split()));
            }
            "router" => {
                let sl = parse_sel(w[3]);
                let r = ctx.new_router(&self.stream(n(2)), move |v: &V| app_sel(sl, v));
                self.objs.insert(n(1), Obj::Router(r));
            }
            "route" => {
                let k: i64 = w[3].parse().unwrap();
                let s = match self.objs.get(&n(2)) {
                    Some(Obj::Router(r)) => r.filter_matches(&k),
                    _ => panic!("harness: not a router"),
                };
                self.objs.insert(n(1), Obj::Stream(s));
            }
            "listen" => {
                let l = self.stream(n(2)).listen(self.listen_closure(n(1)));
                self.listeners.insert(n(1), l);
            }
            "listen_u" => {
                // a listener whose callback unlistens listener w[3] (which must exist)
                let victim = n(3);
                let v = self.listeners.get(&victim).expect("harness: listen_u victim");
                let v2 = Listener { impl_: v.impl_.clone() };
                let dep = Dep::new(v2.impl_.gc_node.clone());
                let log = self.log.clone();
                let l = n(1);
                let lst = self.stream(n(2)).listen(lambda1(
                    move |x: &V| {
                        log.lock().unwrap().push(Ob::Call(l, x.clone()));
                        v2.unlisten();
                    },
                    vec![dep],
                ));
                self.killers.insert(l, victim);
                self.listeners.insert(l, lst);
            }
            "listen_weak" => {
                let l = self.stream(n(2)).listen_weak(self.listen_closure(n(1)));
                self.listeners.insert(n(1), l);
            }
            "listen_c" => {
                let l = self.cell(n(2)).listen(self.listen_closure(n(1)));
                self.listeners.insert(n(1), l);
            }
            "listen_cw" => {
                let l = self.cell(n(2)).listen_weak(self.listen_closure(n(1)));
                self.listeners.insert(n(1), l);
            }
            "unlisten" => {
                if let Some(l) = self.listeners.get(&n(1)) {
                    l.unlisten();
                }
            }
            "drop_weak" => {
                self.listeners.remove(&n(1));
                ctx.impl_.collect_cycles();
            }
            "drop_l" => {
                self.listeners.remove(&n(1));
            }
            "tnew" => {
                self.txns.insert(n(1), ctx.new_transaction());
            }
            "tclose" => {
                if let Some(t) = self.txns.get(&n(1)) {
                    t.close();
                }
            }
            "tdrop" => {
                self.txns.remove(&n(1));
            }
            "send" => match self.objs.get(&n(1)) {
                Some(Obj::Sink(s)) => s.send(parse_val(w[2])),
                Some(Obj::CSink(s)) => s.send(parse_val(w[2])),
                _ => panic!("harness: send to a non-sink"),
            },
            "sample" => {
                let v = self.cell(n(1)).sample();
                self.log.lock().unwrap().push(Ob::Sample(v));
            }
            "sample_lazy" => {
                let z = self.cell(n(2)).sample_lazy();
                self.lazies.insert(n(1), (z, Arc::new(AtomicU32::new(0))));
            }
            "lazy_new" => {
                let v = parse_val(w[2]);
                let runs = Arc::new(AtomicU32::new(0));
                let r2 = runs.clone();
                let z = Lazy::new(move || {
                    r2.fetch_add(1, Ordering::SeqCst);
                    v.clone()
                });
                self.lazies.insert(n(1), (z, runs));
            }
            "force" => {
                let (z, runs) = self.lazies.get(&n(1)).expect("harness: lazy");
                let v = z.run();
                self.log.lock().unwrap().push(Ob::Forced(v, runs.load(Ordering::SeqCst)));
            }
            "clone_lazy" => {
                let e = self.lazies.get(&n(1)).expect("harness: lazy");
                let e2 = (e.0.clone(), e.1.clone());
                self.lazies.insert(n(2), e2);
            }
            "post" => {
                let k = n(1);
                let cs: Vec<Cell<V>> = w[2..].iter().map(|x| self.cell(x.parse().unwrap())).collect();
                let log = self.log.clone();
                let ctx2 = ctx.clone();
                ctx.post(move || {
                    let vs: Vec<V> = cs.iter().map(|c| c.sample()).collect();
                    log.lock().unwrap().push(Ob::Post(k, vs));
                    // C14 / C12 probe: a transaction opened from inside a post closure is an outermost transaction; when it
                    // returns, the work it deferred has run (observable only here, so checked here: silent when it holds)
                    let ran = Arc::new(std::sync::atomic::AtomicBool::new(false));
                    {
                        let ran = ran.clone();
                        let ctx3 = ctx2.clone();
                        ctx2.transaction(|| ctx3.post(move || ran.store(true, Ordering::SeqCst)));
                    }
                    if !ran.load(Ordering::SeqCst) {
                        log.lock().unwrap().push(Ob::Note(format!(
                            "panic ReentrantTransactionLeftDeferredWorkPending {}",
                            k
                        )));
                    }
                });
            }
            "clone" => {
                let o = match self.objs.get(&n(1)) {
                    Some(Obj::Stream(s)) => Obj::Stream(s.clone()),
                    Some(Obj::Cell(c)) => Obj::Cell(c.clone()),
                    Some(Obj::Sink(s)) => Obj::Sink(s.clone()),
                    Some(Obj::CSink(s)) => Obj::CSink(s.clone()),
                    Some(Obj::SLoop(s)) => Obj::Stream(s.stream()),
                    Some(Obj::CLoop(s)) => Obj::CLoop(s.clone()),
                    Some(Obj::Router(_)) | None => panic!("harness: clone of slot {}", n(1)),
                };
                self.objs.insert(n(2), o);
            }
            "drop" => {
                self.objs.remove(&n(1));
            }
            "drop_lazies" => self.lazies.clear(),
            "gc" => ctx.impl_.collect_cycles(),
            "nodes" => {}
            _ => panic!("harness: bad frp op {}", line),
        }
        let _ = lambda2::<V, V, V, fn(&V, &V) -> V>;
    }
}

pub fn frp_panic_kind(msg: &str) -> String {
    if msg.contains("StreamLoop already looped") {
        "panic AlreadyLooped".into()
    } else if msg.contains("CellLoop sampled before looped") {
        "panic SampledBeforeLoop".into()
    } else if msg.starts_with("harness:") {
        format!("harness-error {}", msg)
    } else {
        let k = crate::gc::panic_kind(msg);
        k.replace('\n', " ")
    }
}

pub fn run_script<W: Write>(script: &Script, out: &mut W, annotate: bool) {
    writeln!(out, "# {}", script.name).unwrap();
    let mut pos = 0;
    let items = parse_items(&script.lines, &mut pos);
    let mut world = World::new(annotate);
    let r = catch_unwind(AssertUnwindSafe(|| {
        world.run_items(&items);
    }));
    let mut lines: Vec<(usize, String)> = std::mem::take(&mut world.out);
    let panicked = r.is_err();
    if let Err(p) = r {
        // observations already logged for the line that panicked are kept in front of the panic
        let idx = lines.last().map(|x| x.0 + 1).unwrap_or(0);
        lines.push((idx, frp_panic_kind(&crate::gc::payload_msg(&p))));
    }
    lines.sort_by_key(|x| x.0);
    for (_, l) in lines {
        writeln!(out, "{}", l).unwrap();
    }
    writeln!(out, "---").unwrap();
    // a panic inside the library left the world in an undefined state: leak it instead of dropping
    if panicked {
        std::mem::forget(world);
    } else {
        let _ = catch_unwind(AssertUnwindSafe(move || drop(world)));
    }
}

// ---------------------------------------------------------------- several contexts (C19)

fn split_ctx(line: &str) -> (char, String) {
    let c = line.chars().next().unwrap();
    let rest = line[1..].trim_start_matches(':').trim().to_string();
    (c, rest)
}

/// lines "A:op" "B:op" interleaved on ONE thread; every context has its own world
pub fn run_multi<W: Write>(script: &Script, out: &mut W) {
    writeln!(out, "# {}", script.name).unwrap();
    let mut worlds: BTreeMap<char, World> = BTreeMap::new();
    let mut dead: Vec<char> = Vec::new();
    for (idx, line) in script.lines.iter().enumerate() {
        let (c, rest) = split_ctx(line);
        if dead.contains(&c) {
            continue;
        }
        let world = worlds.entry(c).or_insert_with(|| World::new(true));
        let r = catch_unwind(AssertUnwindSafe(|| {
            world.run_items(&[Item::Line(idx, rest.clone())]);
        }));
        let line_out = match r {
            Ok(()) => world.out.pop().map(|x| x.1).unwrap_or_default(),
            Err(p) => {
                dead.push(c);
                frp_panic_kind(&crate::gc::payload_msg(&p))
            }
        };
        writeln!(out, "{}:{}", c, line_out).unwrap();
    }
    writeln!(out, "---").unwrap();
    for (c, w) in worlds {
        if dead.contains(&c) {
            std::mem::forget(w);
        }
    }
}

/// the same scripts, one OS thread per context, all running concurrently
pub fn run_threads<W: Write>(script: &Script, out: &mut W) {
    writeln!(out, "# {}", script.name).unwrap();
    let mut per: BTreeMap<char, Vec<String>> = BTreeMap::new();
    for line in &script.lines {
        let (c, rest) = split_ctx(line);
        per.entry(c).or_default().push(rest);
    }
    let barrier = Arc::new(std::sync::Barrier::new(per.len()));
    let mut handles = Vec::new();
    for (c, lines) in per {
        let barrier = barrier.clone();
        handles.push(std::thread::spawn(move || {
            let mut world = World::new(true);
            let mut outs: Vec<String> = Vec::new();
            barrier.wait();
            let mut dead = false;
            for (idx, l) in lines.iter().enumerate() {
                if dead {
                    break;
                }
                if idx % 3 == 0 {
                    std::thread::yield_now();
                }
                let r = catch_unwind(AssertUnwindSafe(|| {
                    world.run_items(&[Item::Line(idx, l.clone())]);
                }));
                match r {
                    Ok(()) => outs.push(world.out.pop().map(|x| x.1).unwrap_or_default()),
                    Err(p) => {
                        outs.push(frp_panic_kind(&crate::gc::payload_msg(&p)));
                        dead = true;
                    }
                }
            }
            if dead {
                std::mem::forget(world);
            }
            (c, outs)
        }));
    }
    for h in handles {
        let (c, outs) = h.join().unwrap();
        for o in outs {
            writeln!(out, "{}:{}", c, o).unwrap();
        }
    }
    writeln!(out, "---").unwrap();
}
