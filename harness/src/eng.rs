//! C03 scripts: raw `Node`s with recording update closures, driven through the real
//! `end_of_transaction` / `update_node`.
use crate::Script;
use sodium_rust::verif::{IsNode, IsNodeExt, Node, NodeName};
use sodium_rust::SodiumCtx;
use std::io::Write;
use std::panic::{catch_unwind, AssertUnwindSafe};
use std::sync::atomic::Ordering;
use std::sync::{Arc, Mutex};

/// the same rule as `Fmix` in coq/Model/EngineScript.v
fn fmix(n: u64, ins: &[Option<u64>]) -> Option<u64> {
    if ins.iter().any(|x| x.is_some()) {
        let mut acc: u64 = 0;
        for o in ins {
            acc = acc * 3 + match o {
                Some(v) => v + 1,
                None => 0,
            };
        }
        Some((n + acc) % 1009)
    } else {
        None
    }
}

struct Shared {
    fire: Vec<Option<u64>>,
    deps: Vec<Vec<usize>>,
    dem: Vec<Vec<usize>>,
}

pub fn run_script<W: Write>(script: &Script, out: &mut W) {
    writeln!(out, "# {}", script.name).unwrap();
    let ctx = SodiumCtx::new();
    let ictx = ctx.impl_.clone();
    let shared = Arc::new(Mutex::new(Shared {
        fire: Vec::new(),
        deps: Vec::new(),
        dem: Vec::new(),
    }));
    let mut nodes: Vec<Node> = Vec::new();
    for line in &script.lines {
        let w: Vec<&str> = line.split_whitespace().collect();
        let r = catch_unwind(AssertUnwindSafe(|| -> String {
            match w[0] {
                "node" | "noded" => {
                    // node d1 d2 ..            : static dependencies
                    // noded d1 d2 / m1 m2 ..   : static dependencies / nodes demanded from inside the update
                    let mut ds: Vec<usize> = Vec::new();
                    let mut dm: Vec<usize> = Vec::new();
                    let mut in_dm = false;
                    for x in &w[1..] {
                        if *x == "/" {
                            in_dm = true;
                        } else if in_dm {
                            dm.push(x.parse().unwrap());
                        } else {
                            ds.push(x.parse().unwrap());
                        }
                    }
                    if ds.iter().chain(dm.iter()).any(|d| *d >= nodes.len()) {
                        return format!("ok n={}", nodes.len());
                    }
                    let id = nodes.len();
                    let slot: Arc<Mutex<Option<Node>>> = Arc::new(Mutex::new(None));
                    let sh = shared.clone();
                    let slot2 = slot.clone();
                    let dep_nodes: Vec<Box<dyn IsNode + Send + Sync>> =
                        ds.iter().map(|d| nodes[*d].box_clone()).collect();
                    let targets: Vec<Node> = dm.iter().map(|m| nodes[*m].clone()).collect();
                    let ictx2 = ictx.clone();
                    let node = Node::new(
                        &ictx,
                        NodeName::Node(id as u8),
                        move || {
                            let ins: Vec<Option<u64>> = {
                                let sh = sh.lock().unwrap();
                                sh.deps[id].iter().map(|d| sh.fire[*d]).collect()
                            };
                            // like switch_c: when the first static dependency fired, bring the demanded nodes up
                            // to date as dependencies, from inside this update
                            let mut all = ins.clone();
                            if ins.first().map(|x| x.is_some()).unwrap_or(false) {
                                for t in &targets {
                                    ictx2.update_node2(t, true);
                                }
                                let sh = sh.lock().unwrap();
                                for m in &sh.dem[id] {
                                    all.push(sh.fire[*m]);
                                }
                            }
                            if let Some(v) = fmix(id as u64, &all) {
                                sh.lock().unwrap().fire[id] = Some(v);
                                let me = slot2.lock().unwrap();
                                me.as_ref().unwrap().data.changed.store(true, Ordering::SeqCst);
                            }
                        },
                        dep_nodes,
                    );
                    *slot.lock().unwrap() = Some(Node {
                        data: node.data.clone(),
                        gc_node: node.gc_node.clone(),
                        sodium_ctx: node.sodium_ctx.clone(),
                    });
                    std::mem::forget(slot);
                    {
                        let mut sh = shared.lock().unwrap();
                        sh.fire.push(None);
                        sh.deps.push(ds);
                        sh.dem.push(dm);
                    }
                    nodes.push(node);
                    format!("ok n={}", nodes.len())
                }
                "adddep" => {
                    let n: usize = w[1].parse().unwrap();
                    let m: usize = w[2].parse().unwrap();
                    if n < nodes.len() && m < nodes.len() {
                        nodes[n].add_dependency(nodes[m].clone());
                        shared.lock().unwrap().deps[n].push(m);
                    }
                    format!("ok n={}", nodes.len())
                }
                "txn" => {
                    let fs: Vec<(usize, u64)> = w[1..]
                        .iter()
                        .map(|f| {
                            let mut it = f.split(':');
                            (it.next().unwrap().parse().unwrap(), it.next().unwrap().parse().unwrap())
                        })
                        .collect();
                    if fs.iter().any(|(n, _)| *n >= nodes.len()) {
                        return format!("ok n={}", nodes.len());
                    }
                    let _ = ictx.verif_take_update_log();
                    let result: Arc<Mutex<Vec<Option<u64>>>> = Arc::new(Mutex::new(Vec::new()));
                    ictx.transaction(|| {
                        for (n, v) in &fs {
                            shared.lock().unwrap().fire[*n] = Some(*v);
                            nodes[*n].data.changed.store(true, Ordering::SeqCst);
                            let bx = nodes[*n].box_clone();
                            ictx.with_data(|d| d.changed_nodes.push(bx));
                        }
                        // observe the final firings after propagation, before anything is cleared
                        let sh = shared.clone();
                        let res = result.clone();
                        ictx.pre_post(move || {
                            *res.lock().unwrap() = sh.lock().unwrap().fire.clone();
                        });
                    });
                    // what `_send`'s pre_post closure does for streams: clear firing and changed
                    {
                        let mut sh = shared.lock().unwrap();
                        for f in sh.fire.iter_mut() {
                            *f = None;
                        }
                    }
                    for n in &nodes {
                        n.data.changed.store(false, Ordering::SeqCst);
                    }
                    let log = ictx.verif_take_update_log();
                    let fires = result.lock().unwrap().clone();
                    let fs: Vec<String> = fires
                        .iter()
                        .enumerate()
                        .filter_map(|(i, f)| f.map(|v| format!("{}:{}", i, v)))
                        .collect();
                    let lg: Vec<String> = log.iter().map(|x| x.to_string()).collect();
                    format!("log=[{}] fire=[{}]", lg.join(" "), fs.join(" "))
                }
                _ => panic!("bad engine op {}", line),
            }
        }));
        match r {
            Ok(s) => writeln!(out, "{}", s).unwrap(),
            Err(p) => {
                writeln!(out, "{}", crate::gc::panic_kind(&crate::gc::payload_msg(&p))).unwrap();
                break;
            }
        }
    }
    // keep the nodes alive until here; then let them go without running the collector's checks
    std::mem::forget(nodes);
    writeln!(out, "---").unwrap();
}
