//! impl_run: executes operation scripts against the real sodium-rust (hooks on) and prints
//! canonical observation logs, in the same format as the extracted Coq model's driver.
use std::io::{self, BufRead, Write};

mod eng;
mod gc;

pub struct Script {
    pub name: String,
    pub lines: Vec<String>,
}

pub fn read_scripts<R: BufRead>(r: R) -> Vec<Script> {
    let mut out = Vec::new();
    let mut cur: Option<Script> = None;
    for line in r.lines() {
        let line = line.unwrap();
        let line = line.trim();
        if let Some(rest) = line.strip_prefix('#') {
            cur = Some(Script {
                name: rest.trim().to_string(),
                lines: Vec::new(),
            });
        } else if line == "---" {
            if let Some(s) = cur.take() {
                out.push(s);
            }
        } else if !line.is_empty() {
            if let Some(s) = cur.as_mut() {
                s.lines.push(line.to_string());
            }
        }
    }
    out
}

fn main() {
    std::panic::set_hook(Box::new(|_| {}));
    let args: Vec<String> = std::env::args().collect();
    let stdin = io::stdin();
    let stdout = io::stdout();
    let mut out = io::BufWriter::new(stdout.lock());
    match args.get(1).map(|s| s.as_str()) {
        Some("gc-run") => {
            for s in read_scripts(stdin.lock()) {
                gc::run_script(&s, &mut out);
            }
        }
        Some("eng-run") => {
            for s in read_scripts(stdin.lock()) {
                eng::run_script(&s, &mut out);
            }
        }
        _ => {
            eprintln!("usage: impl_run (gc-run | eng-run)");
            std::process::exit(2);
        }
    }
    out.flush().unwrap();
}
