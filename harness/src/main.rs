//! impl_run: executes operation scripts against the real sodium-rust (hooks on) and prints
//! canonical observation logs, in the same format as the extracted Coq model's driver.
use std::io::{self, BufRead, Write};

mod eng;
mod frp;
mod gc;
mod thr;

pub struct Script {
    pub name: String,
    pub lines: Vec<String>,
}

pub fn read_scripts<R: BufRead>(r: R) -> Vec<Script> {
    let mut out = Vec::new();
    let mut cur: Option<Script> = None;
    for line in r.lines() {
        let line = line.unwrap();
        let line = line.trim();
        if let Some(rest) = line.strip_prefix('#') {
            cur = Some(Script {
                name: rest.trim().to_string(),
                lines: Vec::new(),
            });
        } else if line == "---" {
            if let Some(s) = cur.take() {
                out.push(s);
            }
        } else if !line.is_empty() {
            if let Some(s) = cur.as_mut() {
                s.lines.push(line.to_string());
            }
        }
    }
    out
}

fn main() {
    std::panic::set_hook(Box::new(|_| {}));
    let args: Vec<String> = std::env::args().collect();
    let stdin = io::stdin();
    let mode = args.get(1).cloned().unwrap_or_default();
    let scripts = read_scripts(stdin.lock());
    // watchdog: a script that makes no progress for the time limit (a deadlock inside the library, a
    // collection that does not return) is reported as HANG and the process exits with status 3; the
    // driver re-runs the scripts after it in a fresh process
    let limit: u64 = std::env::var("VERIF_SCRIPT_TIMEOUT").ok().and_then(|s| s.parse().ok()).unwrap_or(20);
    let current: std::sync::Arc<std::sync::Mutex<(String, std::time::Instant, bool)>> =
        std::sync::Arc::new(std::sync::Mutex::new((String::new(), std::time::Instant::now(), false)));
    {
        let current = current.clone();
        std::thread::spawn(move || loop {
            std::thread::sleep(std::time::Duration::from_millis(200));
            let c = current.lock().unwrap();
            if c.2 {
                return;
            }
            if !c.0.is_empty() && c.1.elapsed().as_secs() >= limit {
                let so = io::stdout();
                let mut so = so.lock();
                let _ = writeln!(so, "# {}\nHANG\n---", c.0);
                let _ = so.flush();
                std::process::exit(3);
            }
        });
    }
    for s in &scripts {
        {
            let mut c = current.lock().unwrap();
            c.0 = s.name.clone();
            c.1 = std::time::Instant::now();
        }
        let mut buf: Vec<u8> = Vec::new();
        match mode.as_str() {
            "gc-run" => gc::run_script(s, &mut buf),
            "eng-run" => eng::run_script(s, &mut buf),
            "frp-run" => frp::run_script(s, &mut buf, true),
            "frp-heap" => {
                // same as frp-run, with the table of the reachable heap printed at every audited line
                std::env::set_var("VERIF_HEAP_DUMP", "1");
                frp::run_script(s, &mut buf, true)
            }
            "frp-multi" => frp::run_multi(s, &mut buf),
            "frp-threads" => frp::run_threads(s, &mut buf),
            "thr-run" => thr::run_script(s, &mut buf),
            _ => {
                eprintln!("usage: impl_run (gc-run | eng-run | frp-run)");
                std::process::exit(2);
            }
        }
        let so = io::stdout();
        let mut so = so.lock();
        so.write_all(&buf).unwrap();
        so.flush().unwrap();
    }
    current.lock().unwrap().2 = true;
}
