//! C08/C16 scripts: synthetic objects on the real collector (`GcCtx`, `GcNode`).
use crate::Script;
use sodium_rust::verif::{GcCtx, GcNode, NodeName, Tracer};
use std::io::Write;
use std::panic::{catch_unwind, AssertUnwindSafe};
use std::sync::atomic::{AtomicU32, Ordering};
use std::sync::{Arc, Mutex};

struct Obj {
    gc: GcNode,
    edges: Arc<Mutex<Vec<GcNode>>>,
    dtor_runs: Arc<AtomicU32>,
}

fn create(ctx: &GcCtx) -> Obj {
    let edges: Arc<Mutex<Vec<GcNode>>> = Arc::new(Mutex::new(Vec::new()));
    let dtor_runs = Arc::new(AtomicU32::new(0));
    let gc;
    {
        let edges_d = edges.clone();
        let dtor_d = dtor_runs.clone();
        let edges_t = edges.clone();
        gc = GcNode::new(
            ctx,
            NodeName::Node(0),
            move || {
                dtor_d.fetch_add(1, Ordering::SeqCst);
                let es: Vec<GcNode> = std::mem::take(&mut *edges_d.lock().unwrap());
                for e in es {
                    e.dec_ref();
                }
            },
            move |tracer: &mut Tracer| {
                let es: Vec<GcNode> = edges_t.lock().unwrap().clone();
                for e in &es {
                    tracer(e);
                }
            },
        );
    }
    Obj {
        gc,
        edges,
        dtor_runs,
    }
}

pub fn panic_kind(msg: &str) -> String {
    // map the library's panic messages to the model's small enum
    fn first_num(s: &str) -> String {
        s.chars()
            .skip_while(|c| !c.is_ascii_digit())
            .take_while(|c| c.is_ascii_digit())
            .collect()
    }
    if msg.starts_with("ref count adj was larger than ref count for node") {
        format!("panic AdjLarger {}", first_num(msg))
    } else if msg.starts_with("freed node ref count did not drop to zero for node") {
        format!("panic FreedNonZero {}", first_num(msg))
    } else if msg.contains("inc_ref on freed node") {
        format!("panic IncRefFreed {}", first_num(msg))
    } else {
        format!("panic Other {}", msg.replace('\n', " "))
    }
}

pub fn payload_msg(p: &Box<dyn std::any::Any + Send>) -> String {
    if let Some(s) = p.downcast_ref::<&str>() {
        s.to_string()
    } else if let Some(s) = p.downcast_ref::<String>() {
        s.clone()
    } else {
        "?".to_string()
    }
}

fn state_line(ctx: &GcCtx, objs: &[Obj], ext: &[u32]) -> String {
    let mut s = String::new();
    for (i, o) in objs.iter().enumerate() {
        let sn = o.gc.verif_snapshot();
        let col = ['B', 'G', 'P', 'W'][sn.color as usize];
        let es: Vec<String> = if sn.freed {
            // the real tracer is replaced by the empty one when freed
            o.gc.verif_edges().iter().map(|e| e.verif_id().to_string()).collect()
        } else {
            o.gc.verif_edges().iter().map(|e| e.verif_id().to_string()).collect()
        };
        s.push_str(&format!(
            "o{}=F{},rc{},adj{},V{},c{},b{},e[{}],d{} ",
            i,
            sn.freed as u8,
            sn.ref_count,
            sn.ref_count_adj,
            sn.visited as u8,
            col,
            sn.buffered as u8,
            es.join(" "),
            o.dtor_runs.load(Ordering::SeqCst)
        ));
    }
    let j = |v: Vec<u32>| v.iter().map(|x| x.to_string()).collect::<Vec<_>>().join(" ");
    s.push_str(&format!(
        "| roots=[{}] tbf=[{}] tc={} te={} ext=[{}]",
        j(ctx.verif_roots()),
        j(ctx.verif_to_be_freed()),
        ctx.verif_trace_calls(),
        ctx.verif_trace_edges(),
        j(ext.to_vec())
    ));
    s
}

pub fn run_script<W: Write>(script: &Script, out: &mut W) {
    writeln!(out, "# {}", script.name).unwrap();
    let ctx = GcCtx::new();
    let mut objs: Vec<Obj> = Vec::new();
    let mut ext: Vec<u32> = Vec::new();
    for line in &script.lines {
        let w: Vec<&str> = line.split_whitespace().collect();
        let n = |i: usize| -> usize { w[i].parse().unwrap() };
        // validity: the same contract as the model's `svalid`
        let valid = match w[0] {
            "create" | "collect" => true,
            "clone" | "drop" => n(1) < objs.len() && ext[n(1)] > 0,
            "edge" => n(1) < objs.len() && n(2) < objs.len() && ext[n(1)] > 0 && ext[n(2)] > 0,
            "unedge" => {
                n(1) < objs.len() && ext[n(1)] > 0 && n(2) < objs[n(1)].gc.verif_edges().len()
            }
            "upgrade" => n(1) < objs.len(),
            _ => panic!("bad gc op {}", line),
        };
        if !valid {
            writeln!(out, "invalid").unwrap();
            continue;
        }
        let r = catch_unwind(AssertUnwindSafe(|| match w[0] {
            "create" => {
                objs.push(create(&ctx));
                ext.push(1);
            }
            "clone" => {
                objs[n(1)].gc.inc_ref();
                ext[n(1)] += 1;
            }
            "drop" => {
                objs[n(1)].gc.dec_ref();
                ext[n(1)] -= 1;
            }
            "edge" => {
                let b = objs[n(2)].gc.clone();
                b.inc_ref();
                objs[n(1)].edges.lock().unwrap().push(b);
            }
            "unedge" => {
                let b = objs[n(1)].edges.lock().unwrap().remove(n(2));
                b.dec_ref();
            }
            "upgrade" => {
                if objs[n(1)].gc.inc_ref_if_alive() {
                    objs[n(1)].gc.dec_ref();
                }
            }
            "collect" => ctx.collect_cycles(),
            _ => unreachable!(),
        }));
        match r {
            Ok(()) => writeln!(out, "{}", state_line(&ctx, &objs, &ext)).unwrap(),
            Err(p) => {
                writeln!(out, "{}", panic_kind(&payload_msg(&p))).unwrap();
                break;
            }
        }
    }
    writeln!(out, "---").unwrap();
}
