#!/bin/sh
# tools/run_harmless.sh : apply each behaviour-preserving refactoring of harmless/ to /repo in turn and run every check
# (quick tier); every line must say QUIET
cd "$(dirname "$0")/.."
for f in harmless/*.diff; do
  if ! git -C /repo apply --check "$PWD/$f" 2>/dev/null; then echo "$f: patch no longer applies"; continue; fi
  git -C /repo apply "$PWD/$f"
  bad=""
  for p in C01 C02 C03 C04 C05 C06 C07 C08 C09 C10 C11 C12 C13 C14 C15 C16 C17 C18 C19 C20; do
    ./vcheck check $p --tier quick 2>&1 | grep -q "^VIOLATION" && bad="$bad $p"
  done
  git -C /repo checkout -- .
  if [ -z "$bad" ]; then echo "$f: QUIET"; else echo "$f: ALARM in$bad"; fi
done
(cd harness && cargo build --release --offline >/dev/null 2>&1)
