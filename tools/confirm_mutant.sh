#!/bin/sh
# tools/confirm_mutant.sh <worktree> <name> : confirm a seeded change in its scratch worktree and file it under seeded/<name>/
# (demo passes without the change, fails with it; the 49 existing tests pass with it)
W=$1; N=$2
D=$W/deliver
[ -f $D/patch.diff ] || { echo "no patch"; exit 2; }
cd $W && git checkout -q -- . && rm -rf tests
mkdir -p tests
if [ -f $D/demo.rs ]; then cp $D/demo.rs tests/demo.rs; fi
export CARGO_TARGET_DIR=$W/target
A=$(timeout 600 cargo test --offline --test demo 2>&1 | grep -E "^test result" | tail -1)
git apply $D/patch.diff || { echo "patch does not apply"; exit 2; }
B=$(timeout 600 cargo test --offline --test demo 2>&1 | grep -E "^test result|panicked|timed out" | tail -2 | tr '\n' ' ')
C=$(timeout 900 cargo test --offline --lib 2>&1 | grep -E "^test result" | head -1)
git checkout -q -- . ; rm -rf tests
echo "demo without change: $A"
echo "demo with change:    $B"
echo "suite with change:   $C"
mkdir -p /verif/seeded/$N
cp $D/patch.diff /verif/seeded/$N/patch.diff
[ -f $D/demo.rs ] && cp $D/demo.rs /verif/seeded/$N/demo.rs
[ -f $D/meta.json ] && cp $D/meta.json /verif/seeded/$N/agent_meta.json
printf '%s\n%s\n%s\n' "demo without change: $A" "demo with change: $B" "suite with change: $C" > /verif/seeded/$N/confirmed.txt
