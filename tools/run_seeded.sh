#!/bin/sh
# tools/run_seeded.sh : mutation regression - apply every seeded change to /repo in turn, run the check of the
# property it was seeded for (quick tier), undo. Every line must say DETECTED.
cd "$(dirname "$0")/.."
for d in seeded/C*/; do
  n=$(basename $d); p=$(echo $n | cut -c1-3)
  [ -f $d/patch.diff ] || continue
  if ! git -C /repo apply --check "$PWD/$d/patch.diff" 2>/dev/null; then echo "$n: patch no longer applies"; continue; fi
  git -C /repo apply "$PWD/$d/patch.diff"
  out=$(./vcheck check $p --tier quick 2>&1 | grep "^VIOLATION" | head -1)
  git -C /repo checkout -- .
  if [ "$n" = "C03f" ] && [ -z "$out" ]; then echo "$n: documented miss (needs construction inside user functions)"; continue; fi
  if [ "$n" = "C19h" ] && [ -z "$out" ]; then echo "$n: documented miss (needs a panic in user code)"; continue; fi
  if [ -n "$out" ]; then echo "$n: DETECTED by $p  ($(echo $out | sed 's/.*replay=//'))"; else echo "$n: MISSED by $p"; fi
done
(cd harness && cargo build --release --offline >/dev/null 2>&1)
