#!/usr/bin/env python3
"""tools/seeded_summary.py : regenerate seeded/SUMMARY.md from seeded/*/meta.json"""
import glob, json, os
os.chdir(os.path.join(os.path.dirname(os.path.abspath(__file__)), ".."))
rows = []
for d in sorted(glob.glob("seeded/C*/")):
    m = json.load(open(d + "meta.json"))
    n = os.path.basename(d.rstrip("/"))
    c = m.get("checks", {})
    note = c.get("note", "")
    if c.get("missed_by_first") and not note.startswith("first run"):
        note = "first run missed by " + ", ".join(c["missed_by_first"]) + "; " + note
    rows.append("| %s | %s | %s | %s |" % (n, m.get("summary", "")[:170].replace("|", "/").replace("\n", " "),
                                          ", ".join(c.get("detected_by", [])), note.replace("|", "/")))
head = """# Seeded changes (each breaks the named property, compiles, passes the 49 tests)

Every change was written by an independent sub-agent that saw only the property text and a scratch worktree (round 2, names
ending in b: a source-file focus different from round 1; round 3, names ending in c: public wrappers and small files;
round 4, names ending in d: bookkeeping outside the main algorithms - queues, weak references, count paths, Lazy plumbing; round 5, names ending in e: C19/C20 without thread_local, wrappers' dependency declarations,
what keeps listeners alive; round 6, names ending in f: situations rather than sites - one object in two roles, edges added late,
incidental orders, several sends per transaction into defer/split, scoped transactions, wide fans, router corner cases; round 7, names ending in g: more situations - listeners inside transactions, first events of accumulators,
same-inner switches, keep-alive only through listeners, unlisten corner cases, lift diamonds, nested sends, long-delayed lazies; round 8, names ending in h: collector hand-over sequences, posts from everywhere,
deep nesting and re-entrancy, router compositions, contexts and threads taking turns; round 9, names ending in i: small wrappers with coincident events,
handle management, listener handles, StreamLoop, lift4-6, sink sends - away from the propagation loop);
confirmed with `tools/confirm_mutant.sh`; run with `tools/try_mutant.py` (quick tier). `detected by` lists the checks that
raised a VIOLATION with the change applied to /repo (after strengthening, where the notes say so). `tools/run_seeded.sh`
re-applies every change and runs the check of its own property: every line must say DETECTED, except C03f and C19h (documented misses:
construction of primitives inside user functions; a panic in user code).

| seeded for | change | detected by | notes |
|---|---|---|---|
"""
open("seeded/SUMMARY.md", "w").write(head + "\n".join(rows) + "\n")
print(len(rows), "seeded changes")
