#!/bin/sh
# tools/soak.sh <first_seed> <last_seed> : run every check's quick tier under many seeds (unchanged tree must stay quiet)
cd "$(dirname "$0")/.."
[ -n "$VP_RUN_REPO" ] && export VERIF_REPO="$VP_RUN_REPO"
./vcheck setup >/dev/null 2>&1
for s in $(seq $1 $2); do
  for p in C01 C02 C03 C04 C05 C06 C07 C08 C09 C10 C11 C12 C13 C14 C15 C16 C17 C18 C19 C20; do
    out=$(VERIF_SEED=$s ./vcheck check $p --tier quick 2>&1 | grep -v "^KNOWN")
    if [ -n "$out" ]; then
      echo "seed $s $p: $out"
      d=$(echo "$out" | sed -n 's/.*replay=\([^ ]*\).*/\1/p' | head -1)
      [ -n "$d" ] && { cat $d/why.txt | head -3; sed -n '2,80p' $d/script.ops 2>/dev/null | tr '\n' ';'; echo; }
    fi
  done
  echo "seed $s done"
done
