#!/usr/bin/env python3
"""tools/try_mutant.py <patch.diff> [pids...] : apply a seeded change to /repo, run the checks, undo it.
Prints which checks raise a VIOLATION. /repo is always restored (git checkout -- .)."""
import subprocess, sys, os, json, time
patch = os.path.abspath(sys.argv[1])
pids = sys.argv[2:] or ["C%02d" % i for i in range(1, 21)]
tier = os.environ.get("MUT_TIER", "quick")
r = subprocess.run(["git", "-C", "/repo", "apply", "--check", patch])
if r.returncode != 0:
    print("patch does not apply"); sys.exit(2)
subprocess.run(["git", "-C", "/repo", "apply", patch], check=True)
res = {}
try:
    b = subprocess.run("cd /repo && cargo test --offline 2>&1 | grep -E 'test result' | head -1", shell=True, stdout=subprocess.PIPE, text=True)
    print("existing tests with the change:", b.stdout.strip())
    for p in pids:
        t = time.time()
        r = subprocess.run(["./vcheck", "check", p, "--tier", tier], cwd="/verif", stdout=subprocess.PIPE, stderr=subprocess.PIPE, text=True)
        v = [l for l in r.stdout.splitlines() if l.startswith("VIOLATION")]
        res[p] = dict(rc=r.returncode, violation=v[:1], wall=round(time.time() - t, 1))
        print(p, "rc=%d" % r.returncode, v[0] if v else "", flush=True)
        if v and "replay=" in v[0]:
            d = v[0].split("replay=")[1].split()[0]
            w = os.path.join(d, "why.txt")
            if os.path.exists(w):
                print("    ", open(w).read().strip().replace("\n", " ")[:300])
finally:
    subprocess.run(["git", "-C", "/repo", "checkout", "--", "."], check=True)
    subprocess.run("cd /verif/harness && cargo build --release --offline >/dev/null 2>&1", shell=True)
print(json.dumps({p: bool(v["violation"]) for p, v in res.items()}))
