#!/bin/sh
# tools/thorough_some.sh <id>... : thorough tier of the given checks (for background runs: vp run --with-repo -- tools/thorough_some.sh C06 C07)
cd "$(dirname "$0")/.."
[ -n "$VP_RUN_REPO" ] && export VERIF_REPO="$VP_RUN_REPO"
./vcheck setup >/dev/null 2>&1
for p in "$@"; do
  /usr/bin/time -f "$p thorough %es" ./vcheck check $p --tier thorough 2>&1 | grep -v "^KNOWN" | cut -c1-400
done
echo finished
