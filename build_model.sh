#!/bin/sh
# builds the Coq development (full .vo) and the extracted OCaml model driver, relative to this checkout
set -e
ROOT=$(cd "$(dirname "$0")" && pwd)
cd "$ROOT/coq"
coq_makefile -f _CoqProject -o Makefile >/dev/null
timeout 3000 make -j16 2>&1 | grep -v '^COQ\|^CoqMakefile\|^make' || true
mkdir -p "$ROOT/_build/extract"
cd "$ROOT/_build/extract"
cp "$ROOT/coq/Extract/Extract.v" "$ROOT/ocaml/driver.ml" .
timeout 600 coqc -Q "$ROOT/coq/Model" Sodium -Q "$ROOT/coq/Spec" Sodium Extract.v
ocamlfind ocamlopt -package str -linkpkg -O3 -w -a model.mli model.ml driver.ml -o model_run 2>&1 | grep -v "options -O3" || true
