#!/bin/sh
# builds the Coq development (full .vo) and the extracted OCaml model driver
set -e
cd /verif/coq
coq_makefile -f _CoqProject -o Makefile >/dev/null
timeout 3000 make -j16 2>&1 | grep -v '^COQ\|^CoqMakefile\|^make' || true
mkdir -p /verif/_build/extract
cd /verif/_build/extract
cp /verif/coq/Extract/Extract.v /verif/ocaml/driver.ml .
timeout 600 coqc -Q /verif/coq/Model Sodium -Q /verif/coq/Spec Sodium Extract.v
ocamlfind ocamlopt -package str -linkpkg -O3 -w -a model.mli model.ml driver.ml -o model_run 2>&1 | grep -v "options -O3" || true
