(* Driver for the extracted Coq models: parses operation scripts, runs the extracted step
   functions, prints canonical observation logs. Trusted glue (see DESIGN.md section 8). *)
open Model

let rec nat_of_int n = if n <= 0 then O else S (nat_of_int (n - 1))
let rec int_of_nat = function O -> 0 | S k -> 1 + int_of_nat k

let split_ws s = List.filter (fun x -> x <> "") (String.split_on_char ' ' (String.trim s))

(* ---------- reading script files: "# name" starts a script, "---" ends it ---------- *)
let read_scripts ic =
  let scripts = ref [] and cur_name = ref "" and cur = ref [] and in_script = ref false in
  (try
     while true do
       let line = String.trim (input_line ic) in
       if String.length line > 0 && line.[0] = '#' then begin
         cur_name := String.trim (String.sub line 1 (String.length line - 1));
         cur := []; in_script := true end
       else if line = "---" then begin
         scripts := (!cur_name, List.rev !cur) :: !scripts; in_script := false end
       else if line <> "" && !in_script then cur := line :: !cur
     done
   with End_of_file -> ());
  List.rev !scripts

(* ---------- gc scripts ---------- *)
let parse_gop line =
  match split_ws line with
  | ["create"] -> GCreate
  | ["clone"; o] -> GClone (nat_of_int (int_of_string o))
  | ["drop"; o] -> GDrop (nat_of_int (int_of_string o))
  | ["edge"; a; b] -> GAddEdge (nat_of_int (int_of_string a), nat_of_int (int_of_string b))
  | ["unedge"; a; i] -> GRemoveEdge (nat_of_int (int_of_string a), nat_of_int (int_of_string i))
  | ["upgrade"; o] -> GUpgrade (nat_of_int (int_of_string o))
  | ["collect"] -> GCollect
  | _ -> failwith ("bad gc op: " ^ line)

let string_of_gop = function
  | GCreate -> "create"
  | GClone o -> Printf.sprintf "clone %d" (int_of_nat o)
  | GDrop o -> Printf.sprintf "drop %d" (int_of_nat o)
  | GAddEdge (a, b) -> Printf.sprintf "edge %d %d" (int_of_nat a) (int_of_nat b)
  | GRemoveEdge (a, i) -> Printf.sprintf "unedge %d %d" (int_of_nat a) (int_of_nat i)
  | GUpgrade o -> Printf.sprintf "upgrade %d" (int_of_nat o)
  | GCollect -> "collect"

let col_char = function Black -> 'B' | Gray -> 'G' | Purple -> 'P' | White -> 'W'
let b01 b = if b then 1 else 0
let ints l = String.concat " " (List.map (fun n -> string_of_int (int_of_nat n)) l)

let gstate_line (s : sstate) =
  let g = s.g in
  let buf = Buffer.create 128 in
  List.iteri (fun i o ->
      Buffer.add_string buf
        (Printf.sprintf "o%d=F%d,rc%d,adj%d,V%d,c%c,b%d,e[%s],d%d " i (b01 o.freed) (int_of_nat o.rc)
           (int_of_nat o.adj) (b01 o.visited) (col_char o.col) (b01 o.buffered) (ints o.edges)
           (int_of_nat o.dtor_runs))) g.objs;
  Buffer.add_string buf
    (Printf.sprintf "| roots=[%s] tbf=[%s] tc=%d te=%d ext=[%s]" (ints g.roots) (ints g.to_be_freed)
       (int_of_nat g.trace_calls) (int_of_nat g.trace_edges) (ints s.ext));
  Buffer.contents buf

let perr_line = function
  | PAdjLarger id -> Printf.sprintf "panic AdjLarger %d" (int_of_nat id)
  | PFreedNonZero id -> Printf.sprintf "panic FreedNonZero %d" (int_of_nat id)
  | PIncRefFreed id -> Printf.sprintf "panic IncRefFreed %d" (int_of_nat id)

let run_gc_script oc (name, lines) =
  Printf.fprintf oc "# %s\n" name;
  let rec go s = function
    | [] -> ()
    | line :: rest ->
      let op = parse_gop line in
      if not (svalid s op) then begin Printf.fprintf oc "invalid\n"; go s rest end
      else
        match sstep s op with
        | Ok s1 -> Printf.fprintf oc "%s\n" (gstate_line s1); go s1 rest
        | Panic e -> Printf.fprintf oc "%s\n" (perr_line e)
        | OutOfFuel -> Printf.fprintf oc "outoffuel\n"
  in
  go sinit lines;
  Printf.fprintf oc "---\n"

(* exhaustive enumeration of gc scripts: breadth-first over distinct model states, at most
   [nmax] objects, [emax] edges per object, [hmax] handles per object, depth [depth]. Emits one
   script per distinct (state, last op) transition so that every transition of the reachable
   bounded state graph is exercised once on the implementation. *)
let gc_enum nmax emax hmax depth =
  let seen = Hashtbl.create 100003 in
  let emitted = ref 0 in
  let all_ops (s : sstate) =
    let n = List.length s.g.objs in
    let idx = List.init n (fun i -> i) in
    let ops = ref [GCollect] in
    if n < nmax then ops := GCreate :: !ops;
    List.iter (fun o ->
        let eo = int_of_nat (ext_of s (nat_of_int o)) in
        ops := GUpgrade (nat_of_int o) :: !ops;
        if eo > 0 then begin
          ops := GDrop (nat_of_int o) :: !ops;
          if eo < hmax then ops := GClone (nat_of_int o) :: !ops;
          let ne = List.length (List.nth s.g.objs o).edges in
          for i = 0 to ne - 1 do ops := GRemoveEdge (nat_of_int o, nat_of_int i) :: !ops done;
          if ne < emax then
            List.iter (fun b ->
                if int_of_nat (ext_of s (nat_of_int b)) > 0 then
                  ops := GAddEdge (nat_of_int o, nat_of_int b) :: !ops) idx
        end) idx;
    List.rev !ops in
  let key (s : sstate) = gstate_line s in
  let frontier = ref [ (sinit, []) ] in
  Hashtbl.add seen (key sinit) ();
  for _d = 1 to depth do
    let next = ref [] in
    List.iter (fun (s, path) ->
        List.iter (fun op ->
            match sstep s op with
            | Ok s1 ->
              let path1 = op :: path in
              incr emitted;
              Printf.printf "# e%d\n" !emitted;
              List.iter (fun o -> print_endline (string_of_gop o)) (List.rev path1);
              print_endline "---";
              let k = key s1 in
              if not (Hashtbl.mem seen k) then begin
                Hashtbl.add seen k ();
                next := (s1, path1) :: !next
              end
            | _ ->
              incr emitted;
              Printf.printf "# e%d\n" !emitted;
              List.iter (fun o -> print_endline (string_of_gop o)) (List.rev (op :: path));
              print_endline "---") (all_ops s)) !frontier;
    frontier := List.rev !next
  done;
  Printf.eprintf "gc_enum: %d scripts, %d distinct states\n" !emitted (Hashtbl.length seen)

(* ---------- raw engine scripts (C03) ---------- *)
let parse_eop line =
  match split_ws line with
  | "node" :: ds -> ENode (List.map (fun d -> nat_of_int (int_of_string d)) ds)
  | "noded" :: rest ->
    (* noded d1 d2 / m1 m2 : static dependencies / potential demand targets *)
    let rec split acc = function
      | "/" :: t -> (List.rev acc, t)
      | x :: t -> split (x :: acc) t
      | [] -> (List.rev acc, []) in
    let (ds, dm) = split [] rest in
    let nats l = List.map (fun d -> nat_of_int (int_of_string d)) l in
    ENodeD (nats ds, nats dm)
  | ["adddep"; n; m] -> EAddDep (nat_of_int (int_of_string n), nat_of_int (int_of_string m))
  | "txn" :: fs ->
    ETxn (List.map (fun f -> match String.split_on_char ':' f with
        | [n; v] -> (nat_of_int (int_of_string n), nat_of_int (int_of_string v))
        | _ -> failwith "bad fire") fs)
  | _ -> failwith ("bad engine op: " ^ line)

let run_eng_script orig oc (name, lines) =
  Printf.fprintf oc "# %s\n" name;
  let gr = ref [] in
  List.iter (fun line ->
      let (g1, out) = estep orig !gr (parse_eop line) in
      gr := g1;
      match out with
      | None -> Printf.fprintf oc "ok n=%d\n" (List.length g1)
      | Some (lg, fires) ->
        let fs = List.mapi (fun i f -> match f with Some v -> Printf.sprintf "%d:%d" i (int_of_nat v) | None -> "") fires in
        Printf.fprintf oc "log=[%s] fire=[%s]\n" (ints lg) (String.concat " " (List.filter (fun x -> x <> "") fs)))
    lines;
  Printf.fprintf oc "---\n"


(* ---------- FRP scripts against the denotational spec (Spec/Sodium.v) ---------- *)
let rec pos_of_int n = if n <= 1 then XH else if n land 1 = 0 then XO (pos_of_int (n lsr 1)) else XI (pos_of_int (n lsr 1))
let z_of_int n = if n = 0 then Z0 else if n > 0 then Zpos (pos_of_int n) else Zneg (pos_of_int (-n))
let rec int_of_pos = function XH -> 1 | XO p -> 2 * int_of_pos p | XI p -> 2 * int_of_pos p + 1
let int_of_z = function Z0 -> 0 | Zpos p -> int_of_pos p | Zneg p -> - (int_of_pos p)
let nat s = nat_of_int (int_of_string s)
let zz s = z_of_int (int_of_string s)

let rec string_of_val = function
  | VInt z -> string_of_int (int_of_z z)
  | VPair (a, b) -> "(" ^ string_of_val a ^ "," ^ string_of_val b ^ ")"
  | VList l -> "[" ^ String.concat ";" (List.map string_of_val l) ^ "]"
  | VNone -> "none"
  | VSome v -> "some(" ^ string_of_val v ^ ")"
  | VUnit -> "unit"
  | VRef h -> "@" ^ string_of_int (int_of_nat h / 8)

let parse_val s =
  match String.split_on_char ':' s with
  | ["none"] -> VNone
  | ["unit"] -> VUnit
  | ["some"; x] -> VSome (VInt (zz x))
  | ["pair"; x] -> (match String.split_on_char ',' x with [a; b] -> VPair (VInt (zz a), VInt (zz b)) | _ -> failwith "pair")
  | ["list"] -> VList []
  | ["list"; x] -> VList (List.map (fun a -> VInt (zz a)) (String.split_on_char ',' x))
  | [x] -> VInt (zz x)
  | _ -> failwith ("bad value " ^ s)

(* slots: script object slot h <-> spec id 8*h (+ internal offsets); aliases through clone *)
type env = { mutable alias : (int * int) list; mutable csinks : int list; mutable killers : (int * int) list }
let sid env h = try List.assoc h env.alias with Not_found -> 8 * h
let obj env s = nat_of_int (sid env (int_of_string s))

let parse_f1 env s =
  match String.split_on_char ':' s with
  | ["add"; k] -> FAdd (zz k) | ["mul"; k] -> FMul (zz k) | ["const"; k] -> FConst (VInt (zz k))
  | ["id"] -> FId | ["pairself"] -> FPairSelf | ["fst"] -> FFst | ["snd"] -> FSnd
  | ["someifeven"] -> FSomeIfEven | ["unsome"] -> FUnsome | ["tolist"; k] -> FToList (nat k)
  | ["sel"; hs] -> FSel (List.map (fun h -> obj env h) (String.split_on_char ',' hs))
  | _ -> failwith ("bad f1 " ^ s)
let parse_p s =
  match String.split_on_char ':' s with
  | ["even"] -> PEven | ["gt"; k] -> PGt (zz k) | ["lt"; k] -> PLt (zz k)
  | ["true"] -> PTrue | ["false"] -> PFalse | ["issome"] -> PIsSome
  | _ -> failwith ("bad pred " ^ s)
let parse_f2 = function
  | "add" -> GAdd | "sub" -> GSub | "mul10" -> GMul10 | "left" -> GLeft | "right" -> GRight | "pair" -> GPair
  | s -> failwith ("bad f2 " ^ s)
let parse_fn = function
  | "wsum" -> NWsum | "first" -> NFirst | "last" -> NLast | "tuple" -> NTuple
  | s -> failwith ("bad fn " ^ s)
let parse_sel s =
  match String.split_on_char ':' s with
  | ["mod"; k] -> SMod (zz k) | ["dup"; k] -> SDup (zz k) | ["multi"] -> SMulti
  | _ -> failwith ("bad sel " ^ s)

(* one script line -> spec operations *)
(* a trailing "keep:X,Y" (handles captured, not read, by the user function) has no meaning for the specification *)
let strip_keep (w : string list) : string list * string list =
  match List.rev w with
  | last :: rest when String.length last > 5 && String.sub last 0 5 = "keep:" ->
    (List.rev rest, String.split_on_char ',' (String.sub last 5 (String.length last - 5)))
  | _ -> (w, [])

let ops_of_line env line : op list =
  let (w, _) = strip_keep (split_ws line) in
  let n8 h j = nat_of_int (8 * int_of_string h + j) in
  let fresh h = env.alias <- List.remove_assoc (int_of_string h) env.alias in
  match w with
  | ["sink"; h] -> fresh h; [ODef (n8 h 0, DSink None)]
  | ["sink_co"; h; f] -> fresh h; [ODef (n8 h 0, DSink (Some (parse_f2 f)))]
  | ["csink"; h; v] -> fresh h; env.csinks <- int_of_string h :: env.csinks;
    [ODef (n8 h 1, DSink None); OHold (n8 h 0, n8 h 1, parse_val v)]
  | ["const"; h; v] -> fresh h; [OConst (n8 h 0, parse_val v)]
  | ["never"; h] -> fresh h; [ODef (n8 h 0, DNever)]
  | ["map"; h; s; f] -> let d = DMap (obj env s, parse_f1 env f) in fresh h; [ODef (n8 h 0, d)]
  | ["map_to"; h; s; v] -> let d = DMap (obj env s, FConst (parse_val v)) in fresh h; [ODef (n8 h 0, d)]
  | ["filter"; h; s; p] -> let d = DFilter (obj env s, parse_p p) in fresh h; [ODef (n8 h 0, d)]
  | ["filter_opt"; h; s] -> let a = obj env s in fresh h;
    [ODef (n8 h 1, DFilter (a, PIsSome)); ODef (n8 h 0, DMap (n8 h 1, FUnsome))]
  | ["merge"; h; a; b; f] -> let d = DMerge (obj env a, obj env b, parse_f2 f) in fresh h; [ODef (n8 h 0, d)]
  | ["or_else"; h; a; b] -> let d = DMerge (obj env a, obj env b, GLeft) in fresh h; [ODef (n8 h 0, d)]
  | "snapshot" :: h :: s :: f :: cs -> let d = DSnapshot (obj env s, List.map (obj env) cs, parse_fn f) in fresh h; [ODef (n8 h 0, d)]
  | ["snapshot1"; h; s; c] -> let d = DSnapshot (obj env s, [obj env c], NLast) in fresh h; [ODef (n8 h 0, d)]
  (* a map whose function samples a cell (strictly / through a Lazy forced on the spot): specified as the snapshot *)
  | [("map_s" | "map_sl"); h; s; f; c] -> let d = DSnapshot (obj env s, [obj env c], parse_fn f) in fresh h; [ODef (n8 h 0, d)]
  | ["gate"; h; s; c] -> let d = DGate (obj env s, obj env c) in fresh h; [ODef (n8 h 0, d)]
  | ["once"; h; s] -> let d = DOnce (obj env s) in fresh h; [ODef (n8 h 0, d)]
  | ["hold"; h; s; v] -> let a = obj env s in fresh h; [OHold (n8 h 0, a, parse_val v)]
  | ["hold_lazy"; h; s; z] -> let a = obj env s in fresh h; [OHoldLazy (n8 h 0, a, nat z)]
  | ["updates"; h; c] -> let d = DUpdates (obj env c) in fresh h; [ODef (n8 h 0, d)]
  | ["value"; h; c] -> let d = DValue (obj env c) in fresh h; [ODef (n8 h 0, d)]
  | [("map_c" | "map_cmk"); h; c; f] -> let d = DMapC (obj env c, parse_f1 env f) in fresh h; [ODef (n8 h 0, d)]
  | "lift" :: h :: f :: cs -> let d = DLift (List.map (obj env) cs, parse_fn f) in fresh h; [ODef (n8 h 0, d)]
  | ["accum"; h; s; v; f] -> let a = obj env s in fresh h;
    [ODef (n8 h 1, DSLoop); OHold (n8 h 0, n8 h 1, parse_val v);
     ODef (n8 h 2, DSnapshot (a, [n8 h 0], NF2 (parse_f2 f))); OLoopS (n8 h 1, n8 h 2)]
  | ["accum_lazy"; h; s; z; f] -> let a = obj env s in fresh h;
    [ODef (n8 h 1, DSLoop); OHoldLazy (n8 h 0, n8 h 1, nat z);
     ODef (n8 h 2, DSnapshot (a, [n8 h 0], NF2 (parse_f2 f))); OLoopS (n8 h 1, n8 h 2)]
  | ["collect"; h; s; v; fa; fb] -> let a = obj env s in fresh h;
    [ODef (n8 h 1, DSLoop); OHold (n8 h 4, n8 h 1, parse_val v);
     ODef (n8 h 2, DSnapshot (a, [n8 h 4], NPairF2 (parse_f2 fa, parse_f2 fb)));
     ODef (n8 h 0, DMap (n8 h 2, FFst)); ODef (n8 h 3, DMap (n8 h 2, FSnd)); OLoopS (n8 h 1, n8 h 3)]
  | ["collect_lazy"; h; s; z; fa; fb] -> let a = obj env s in fresh h;
    [ODef (n8 h 1, DSLoop); OHoldLazy (n8 h 4, n8 h 1, nat z);
     ODef (n8 h 2, DSnapshot (a, [n8 h 4], NPairF2 (parse_f2 fa, parse_f2 fb)));
     ODef (n8 h 0, DMap (n8 h 2, FFst)); ODef (n8 h 3, DMap (n8 h 2, FSnd)); OLoopS (n8 h 1, n8 h 3)]
  | ["switch_s"; h; c] -> let d = DSwitchS (obj env c) in fresh h; [ODef (n8 h 0, d)]
  | ["switch_c"; h; c] -> let d = DSwitchC (obj env c) in fresh h; [ODef (n8 h 0, d)]
  | ["sloop"; h] -> fresh h; [ODef (n8 h 0, DSLoop)]
  | ["sloop_close"; h; s] -> [OLoopS (obj env h, obj env s)]
  | ["cloop"; h] -> fresh h; [ODef (n8 h 0, DCLoop)]
  | ["cloop_close"; h; c] -> [OLoopC (obj env h, obj env c)]
  | ["defer"; h; s] -> let d = DDefer (obj env s) in fresh h; [ODef (n8 h 0, d)]
  | ["split"; h; s] -> let d = DSplit (obj env s) in fresh h; [ODef (n8 h 0, d)]
  | ["router"; r; s; sl] -> let d = DRouter (obj env s, parse_sel sl) in fresh r; [ODef (n8 r 0, d)]
  | ["route"; h; r; k] -> let d = DRoute (obj env r, zz k) in fresh h; [ODef (n8 h 0, d)]
  | ["listen"; l; s] | ["listen_weak"; l; s] -> [OListen (nat l, obj env s)]
  | ["listen_u"; l; s; v] ->
    (* a listener whose callback unlistens listener v: the specification registers it as a plain listener; the
       driver unlistens v after the line in which l was called, and v's own call in that very transaction is
       unspecified (it depends on which callback runs first) so it is censored on both sides *)
    env.killers <- (int_of_string l, int_of_string v) :: env.killers; [OListen (nat l, obj env s)]
  | [("listen_c" | "listen_cw"); l; c] -> [OListenC (nat l, nat_of_int (8 * (500 + int_of_string l) + 1), obj env c)]
  | ["unlisten"; l] | ["drop_weak"; l] -> [OUnlisten (nat l)]
  | ["{"] -> [OBegin]
  | ["}"] -> [OEnd]
  | ["tnew"; t] -> [OTNew (nat t)]
  | ["tclose"; t] | ["tdrop"; t] -> [OTClose (nat t)]
  | ["send"; h; v] ->
    let i = sid env (int_of_string h) in
    let i = if List.mem (i / 8) env.csinks && i mod 8 = 0 then i + 1 else i in
    [OSend (nat_of_int i, parse_val v)]
  | ["sample"; c] -> [OSample (obj env c)]
  | ["sample_lazy"; z; c] -> [OSampleLazy (nat z, obj env c)]
  | ["lazy_new"; z; v] -> [OLazyNew (nat z, parse_val v)]
  | ["force"; z] -> [OForce (nat z)]
  | ["clone_lazy"; z; z2] -> [OCloneLazy (nat z, nat z2)]
  | "post" :: k :: cs -> [OPostK (nat k, List.map (obj env) cs)]
  | ["clone"; h; h2] -> env.alias <- (int_of_string h2, sid env (int_of_string h)) :: List.remove_assoc (int_of_string h2) env.alias; [ONop]
  | ["drop"; _] | ["gc"] | ["nodes"] | ["drop_l"; _] | ["drop_lazies"] -> [ONop]
  | _ -> failwith ("bad frp op: " ^ line)

let string_of_perr = function
  | SampledBeforeLoop -> "panic SampledBeforeLoop"
  | AlreadyLooped -> "panic AlreadyLooped"
  | Illegal -> "illegal"

(* canonical form of one line's observations: calls grouped per listener (order kept per listener) *)
let canon (os : obs list) : string =
  let calls = Hashtbl.create 7 and rest = ref [] in
  List.iter (function
      | BCall (l, v) ->
        let l = int_of_nat l in
        Hashtbl.replace calls l ((try Hashtbl.find calls l with Not_found -> []) @ [string_of_val v])
      | BSample (h, v) -> rest := !rest @ [Printf.sprintf "sample %s" (string_of_val v)]
      | BForced (z, v) -> rest := !rest @ [Printf.sprintf "forced %s" (string_of_val v)]
      | BPost (k, vs) -> rest := !rest @ [Printf.sprintf "post %d [%s]" (int_of_nat k) (String.concat "," (List.map string_of_val vs))]
      | BPanic e -> rest := !rest @ [string_of_perr e]) os;
  let ls = List.sort compare (Hashtbl.fold (fun l vs acc -> (l, vs) :: acc) calls []) in
  let parts = List.map (fun (l, vs) -> Printf.sprintf "L%d=[%s]" l (String.concat "," vs)) ls @ !rest in
  if parts = [] then "-" else String.concat " ; " parts

(* run a script under a choice prefix; returns output lines and the alternatives met *)
let run_frp_once lines (prefix : int list) : string list * int list =
  let env = { alias = []; csinks = []; killers = [] } in
  let st = ref init_state and out = ref [] and counts = ref [] and choices = ref prefix in
  let stopped = ref false in
  List.iter (fun line ->
      if not !stopped then begin
        let ops = ops_of_line env line in
        let acc = ref [] in
        (* the operations of one line share one transaction when none is open *)
        let wrap = int_of_nat !st.depth = 0 && List.length ops > 1 in
        let ops = if wrap then (OBegin :: ops) @ [OEnd] else ops in
        (try
           List.iter (fun o ->
               match step (List.map nat_of_int !choices) !st o with
               | EV ((st1, os), cs) ->
                 st := st1; acc := !acc @ os;
                 let k = List.length cs in
                 counts := !counts @ List.map int_of_nat cs;
                 let rec drop n l = if n = 0 then l else match l with [] -> [] | _ :: t -> drop (n - 1) t in
                 choices := drop k !choices
               | EErr e -> acc := !acc @ [BPanic e]; stopped := true; raise Exit) ops
         with Exit -> ());
        out := canon !acc :: !out
      end) lines;
  (List.rev !out, !counts)

let run_frp_script oc (name, lines) =
  let results = ref [] in
  let rec explore prefix budget =
    if budget > 0 then begin
      let (out, counts) = run_frp_once lines prefix in
      if not (List.mem out !results) then results := !results @ [out];
      (* next prefix: increment the last position that still has an untried alternative *)
      let n = List.length counts in
      let p = Array.make n 0 in
      List.iteri (fun i c -> if i < n then p.(i) <- c) prefix;
      let ca = Array.of_list counts in
      let i = ref (n - 1) in
      while !i >= 0 && p.(!i) + 1 >= ca.(!i) do decr i done;
      if !i >= 0 then begin
        p.(!i) <- p.(!i) + 1;
        explore (Array.to_list (Array.sub p 0 (!i + 1))) (budget - 1)
      end
    end in
  explore [] 48;
  List.iteri (fun k out ->
      if k = 0 then Printf.fprintf oc "# %s\n" name else Printf.fprintf oc "# %s@%d\n" name k;
      List.iter (fun l -> Printf.fprintf oc "%s\n" l) out;
      Printf.fprintf oc "---\n") !results

(* guided run: every line carries the implementation's observation ("op || expected"); at each line all
   allowed orders of the deferred transactions are explored from every state still compatible with the
   observations so far, and those matching the observation survive. If none matches, the default order's
   output is printed for that line and the run continues from it. *)
let split_expected line =
  let n = String.length line in
  let rec find i = if i + 1 >= n then None else if line.[i] = '|' && line.[i + 1] = '|' then Some i else find (i + 1) in
  match find 0 with
  | Some i -> (String.trim (String.sub line 0 i), Some (String.trim (String.sub line (i + 2) (n - i - 2))))
  | None -> (line, None)

(* calls of a victim listener in a line in which its killer was called are unspecified: drop them *)
let censor (killers : (int * int) list) (os : obs list) : obs list =
  let called l = List.exists (function BCall (l', _) -> int_of_nat l' = l | _ -> false) os in
  let dead = List.filter_map (fun (l, v) -> if called l then Some v else None) killers in
  List.filter (function BCall (l', _) -> not (List.mem (int_of_nat l') dead) | _ -> true) os

let fired_killers (killers : (int * int) list) (os : obs list) : int list =
  let called l = List.exists (function BCall (l', _) -> int_of_nat l' = l | _ -> false) os in
  List.filter_map (fun (l, v) -> if called l then Some v else None) killers

(* observations so far must be compatible with the expected line: per-listener sequences are prefixes,
   samples/forced/posts/panics are among the expected items (multiset inclusion) *)
let parse_expected (e : string) : (int * string list) list * string list =
  if e = "-" then ([], []) else begin
    let parts = List.map String.trim (Str.split (Str.regexp_string " ; ") e) in
    let calls = ref [] and rest = ref [] in
    List.iter (fun p ->
        if String.length p > 1 && p.[0] = 'L' && String.contains p '=' then begin
          let i = String.index p '=' in
          let l = int_of_string (String.sub p 1 (i - 1)) in
          let body = String.sub p (i + 2) (String.length p - i - 3) in
          (* values may contain commas inside parentheses/brackets: split at depth 0 *)
          let vs = ref [] and cur = Buffer.create 16 and depth = ref 0 in
          String.iter (fun c ->
              if c = '(' || c = '[' then incr depth;
              if c = ')' || c = ']' then decr depth;
              if c = ',' && !depth = 0 then begin vs := Buffer.contents cur :: !vs; Buffer.clear cur end
              else Buffer.add_char cur c) body;
          if Buffer.length cur > 0 || body <> "" then vs := Buffer.contents cur :: !vs;
          calls := (l, List.rev !vs) :: !calls
        end else rest := p :: !rest) parts;
    (!calls, !rest)
  end

let rec is_prefix a b = match a, b with
  | [], _ -> true
  | x :: a', y :: b' -> x = y && is_prefix a' b'
  | _ -> false

let victims_ref : int list ref = ref []
let budget_exhausted : bool ref = ref false
let last_annot : string ref = ref ""
let compatible (exp : ((int * string list) list * string list) option) (os : obs list) : bool =
  let os = List.filter (function BCall (l, _) -> not (List.mem (int_of_nat l) !victims_ref) | _ -> true) os in
  match exp with
  | None -> true
  | Some (ecalls, erest) ->
    let calls = Hashtbl.create 7 and ok = ref true and rest = ref erest in
    List.iter (function
        | BCall (l, v) ->
          let l = int_of_nat l in
          Hashtbl.replace calls l ((try Hashtbl.find calls l with Not_found -> []) @ [string_of_val v])
        | o ->
          let s = canon [o] in
          if List.mem s !rest then begin
            let rec rm = function [] -> [] | x :: t -> if x = s then t else x :: rm t in
            rest := rm !rest end
          else ok := false) os;
    Hashtbl.iter (fun l vs ->
        match List.assoc_opt l ecalls with
        | Some evs -> if not (is_prefix vs evs) then ok := false
        | None -> ok := false) calls;
    !ok

(* the operational characterisation proved in Proofs/NetRefine.v (updates_once_after_deps): the update closure
   of a node runs in a transaction iff one of its instantaneous dependencies (Net.ndeps) fired. Evaluated on the
   specification's firings for the definitions whose implementation node is the definition's own node. *)
let comparable (d : def) : bool =
  match d with
  | DMap _ | DFilter _ | DMerge _ | DSnapshot _ | DGate _ | DOnce _ | DHold _ | DMapC _ | DLift _ | DSLoop | DCLoop
  | DSwitchS _ | DSwitchC _ -> true
  | _ -> false

let expected_updates (st1 : state) : (int list * int list) option =
  (* (comparable primary slots, those expected to update), None if something is not evaluable *)
  let inj = st1.sends in
  let fu = f st1 in
  let fired k =
    match alookup st1.defs k with
    | Some d ->
      (match (if is_cell d then upd0 st1 inj fu k else occ st1 inj fu k) with
       | EV (Some _) -> Some true | EV None -> Some false | EErr _ -> None)
    | None -> Some false in
  let ok = ref true and comp = ref [] and exp = ref [] in
  List.iter (fun (k, d) ->
      let k' = int_of_nat k in
      if k' mod 8 = 0 && comparable d then begin
        comp := (k' / 8) :: !comp;
        let ds = ndeps st1 k in
        let any = List.exists (fun dk -> match fired dk with Some b -> b | None -> ok := false; false) ds in
        if any then exp := (k' / 8) :: !exp
      end) st1.defs;
  if !ok then Some (List.sort_uniq compare !comp, List.sort_uniq compare !exp) else None

(* all outcomes of one script line from one state: the operations of the line, then every allowed order
   of the deferred transactions (depth-first, pruned by the expected observation, memoised on states) *)
let line_outcomes env (st0 : state) line (expected : string option) : (state * string * bool) list =
  let ops = ops_of_line env line in
  let wrap = int_of_nat st0.depth = 0 && List.length ops > 1 in
  let ops = if wrap then (OBegin :: ops) @ [OEnd] else ops in
  let exp = match expected with Some e -> (try Some (parse_expected e) with _ -> None) | None -> None in
  let results = ref [] and budget = ref 20000 in
  let seen = Hashtbl.create 97 in
  victims_ref := List.map snd env.killers;
  let upd_ann = ref None and closings = ref 0 in
  let has_switch st = List.exists (fun (_, d) -> match d with DSwitchC _ | DSwitchS _ -> true | _ -> false) st.defs in
  (* after the line: unlisten the victims whose killer was called in it *)
  let finish (st : state) (acc : obs list) : state * string =
    let vs = fired_killers env.killers acc in
    let st' = List.fold_left (fun st v ->
        match step_q st (OUnlisten (nat_of_int v)) with EV ((st1, _), _) -> st1 | EErr _ -> st) st vs in
    (st', canon (censor env.killers acc)) in
  let add r = if not (List.mem r !results) then results := !results @ [r] in
  (* run the deferred queue *)
  let rec drain (st : state) (q : ditem list) (acc : obs list) (k : state -> obs list -> unit) =
    if !budget > 0 then begin
      decr budget;
      match q with
      | [] -> k st acc
      | _ ->
        (* compatibility and the final result depend on the observations only through their canonical form
           (per-listener sequences, multiset of the rest): memoise on that, not on the interleaved list *)
        let cacc = canon acc in
        let key = Hashtbl.hash (st, q, cacc) in
        let full = (st, q, cacc) in
        if not (List.mem full (Hashtbl.find_all seen key)) then begin
          Hashtbl.add seen key full;
          let n = List.length (heads [] q) in
          for i = 0 to n - 1 do
            match defer_one st q (nat_of_int i) with
            | EV ((st1, q1), os) ->
              let acc1 = acc @ os in
              if compatible exp acc1 then drain st1 q1 acc1 k
            | EErr e -> add (st, canon (acc @ [BPanic e]), true)
          done
        end
    end in
  let rec go (st : state) (acc : obs list) = function
    | [] -> let (st', out) = finish st acc in add (st', out, false)
    | o :: rest ->
      (* state in which the outermost transaction closes, if this operation closes it *)
      let closing_state =
        let d = int_of_nat st.depth in
        match o with
        | OBegin | OTNew _ -> None
        | OEnd -> if d = 1 then Some st else None
        | OTClose t -> if d = 1 && alookup st.tdone t = Some false then Some st else None
        | _ -> if d = 0 then (match body (set_depth st (S O)) o with EV (s1, _) -> Some s1 | EErr _ -> None) else None in
      (match step_q st o with
       | EV ((st1, os), q) ->
         (match closing_state with
          | Some cs ->
            incr closings;
            if q = [] then upd_ann := expected_updates cs else upd_ann := None
          | None -> ());
         drain st1 q (acc @ os) (fun st2 acc2 -> go st2 acc2 rest)
       | EErr e -> add (st, canon (acc @ [BPanic e]), true)) in
  go st0 [] ops;
  if !budget <= 0 then budget_exhausted := true;
  let ints_s l = String.concat "," (List.map string_of_int l) in
  let annot out =
    if !closings = 1 then
      (match !upd_ann with
       | Some (comp, exp) -> out ^ " #uc=" ^ ints_s comp ^ " ue=" ^ ints_s exp
       | None -> out)
    else out in
  last_annot := annot "";
  if !results = [] then begin
    (* nothing compatible: report the default order *)
    let rec dflt (st : state) (q : ditem list) (acc : obs list) fuel =
      match q with
      | [] -> (st, acc, false)
      | _ -> if fuel = 0 then (st, acc, false) else
          (match defer_one st q O with
           | EV ((st1, q1), os) -> dflt st1 q1 (acc @ os) (fuel - 1)
           | EErr e -> (st, acc @ [BPanic e], true)) in
    let st = ref st0 and acc = ref [] and stop = ref false in
    List.iter (fun o ->
        if not !stop then
          match step_q !st o with
          | EV ((st1, os), q) ->
            let (s2, a2, sp) = dflt st1 q (!acc @ os) 500 in st := s2; acc := a2; stop := sp
          | EErr e -> acc := !acc @ [BPanic e]; stop := true) ops;
    let (st', out) = finish !st !acc in
    [(st', out, !stop)]
  end else !results

let run_frp_guided oc (name, lines) =
  Printf.fprintf oc "# %s\n" name;
  let env = { alias = []; csinks = []; killers = [] } in
  let cands = ref [init_state] and stopped = ref false in
  List.iter (fun raw ->
      if not !stopped then begin
        let (line, expected) = split_expected raw in
        let saved = (env.alias, env.csinks) in
        let env_of () = env.alias <- fst saved; env.csinks <- snd saved; env in
        budget_exhausted := false;
        let all = List.concat (List.map (fun st -> line_outcomes (env_of ()) st line expected) !cands) in
        let matching = match expected with
          | Some e -> List.filter (fun (_, out, _) -> out = e) all
          | None -> [] in
        let chosen = if matching <> [] then matching else [List.hd all] in
        let (_, out, stop) = List.hd chosen in
        (* the search over allowed orders was cut short and found no match: nothing can be concluded for this
           script (neither agreement nor disagreement); the runner counts it as inconclusive *)
        let (out, stop) =
          if matching = [] && expected <> None && !budget_exhausted then ("inconclusive: order search budget exhausted", true)
          else (out, stop) in
        (* the update-set annotation is computed from the state before the close, which does not depend on the
           order of the deferred transactions of THIS line; with several candidate states it may differ: only
           print it when there is a single candidate *)
        let md = match chosen with (s1, _, _) :: _ -> Printf.sprintf " #md=%d" (int_of_nat s1.depth) | [] -> "" in
        let ua = if List.length !cands = 1 then !last_annot else "" in
        let ua = if ua = "" then md else ua ^ (String.sub md 2 (String.length md - 2) |> fun x -> " " ^ x) in
        Printf.fprintf oc "%s%s\n" out ua;
        if stop then stopped := true;
        let sts = List.fold_left (fun acc (s, _, _) -> if List.mem s acc then acc else acc @ [s]) [] chosen in
        let rec take n l = if n = 0 then [] else match l with [] -> [] | x :: t -> x :: take (n - 1) t in
        cands := take 16 sts
      end) lines;
  Printf.fprintf oc "---\n"


(* ---------- heap model (Model/Heap.v): what each script line allocates on the collector's heap ---------- *)
let oname_str = function
  | NStreamNew -> "Stream::new" | NStreamCo -> "Stream::_new_with_coalescer" | NStreamMap -> "Stream::map"
  | NStreamFilter -> "Stream::filter" | NStreamMerge -> "Stream::merge" | NCellHold -> "Cell::hold"
  | NCellNew -> "Cell::new" | NStreamListen -> "Stream::listen" | NListener -> "Listener::new"
  | NStreamLoop -> "StreamLoop::new"

exception Unsupported of string

let saw_lazy = ref false and saw_keep = ref false
let hops_of_line (line : string) : hop list =
  let (w, keeps) = strip_keep (split_ws line) in
  let keeps = List.map (fun x -> nat_of_int (int_of_string x)) keeps in
  if keeps <> [] then saw_keep := true;
  (match w with ("hold_lazy" | "accum_lazy" | "collect_lazy") :: _ -> saw_lazy := true | _ -> ());
  (* an unforced thunk of a mapped / lifted cell shares the user function with the node: with captured handles AND lazies
     in one program the function's handles can outlive the node that declares them - outside the model *)
  if !saw_lazy && !saw_keep then raise (Unsupported "lazies together with captured handles");
  let n x = nat_of_int (int_of_string x) in
  let nofun f = if String.length f >= 4 && String.sub f 0 4 = "sel:" then raise (Unsupported "function capturing handles") in
  match w with
  | ["sink"; h] -> [HDef (n h, PSink, [], [])]
  | ["sink_co"; h; _] -> [HDef (n h, PSinkCo, [], [])]
  | ["never"; h] -> [HDef (n h, PNever, [], [])]
  | ["csink"; h; _] -> [HDef (n h, PCSink, [], [])]
  | ["const"; h; _] -> [HDef (n h, PConst, [], [])]
  | ["map"; h; s; f] -> nofun f; [HDef (n h, PMap, [n s], keeps)]
  | ["map_to"; h; s; _] -> [HDef (n h, PMap, [n s], keeps)]
  | ["filter"; h; s; _] -> [HDef (n h, PFilter, [n s], keeps)]
  | ["filter_opt"; h; s] -> [HDef (n h, PFilterOpt, [n s], [])]
  | ["merge"; h; a; b; _] | ["or_else"; h; a; b] -> [HDef (n h, PMerge, [n a; n b], keeps)]
  | "snapshot" :: h :: s :: _ :: cs when cs <> [] -> [HDef (n h, PSnapshot, n s :: List.map n cs, keeps)]
  | ["snapshot1"; h; s; c] -> [HDef (n h, PSnapshot, [n s; n c], keeps)]
  | ["gate"; h; s; c] -> [HDef (n h, PGate, [n s; n c], [])]
  | ["hold"; h; s; _] | ["hold_lazy"; h; s; _] -> [HDef (n h, PHold, [n s], [])]
  | ["updates"; h; c] -> [HUpdates (n h, n c)]
  | ["value"; h; c] -> [HDef (n h, PValue, [n c], [])]
  | ["map_c"; h; c; f] -> nofun f; [HDef (n h, PMapC, [n c], keeps)]
  | "lift" :: h :: _ :: cs when List.length cs >= 2 -> [HLift (n h, List.map n cs, keeps)]
  | ["accum"; h; s; _; _] | ["accum_lazy"; h; s; _; _] -> [HDef (n h, PAccum, [n s], keeps)]
  | ["collect"; h; s; _; _; _] | ["collect_lazy"; h; s; _; _; _] -> [HDef (n h, PCollect, [n s], keeps)]
  | ["defer"; h; s] -> [HDef (n h, PDefer, [n s], [])]
  | ["split"; h; s] -> [HDef (n h, PSplit, [n s], [])]
  | ["sloop"; h] -> [HDef (n h, PSLoop, [], [])]
  | ["cloop"; h] -> [HDef (n h, PCLoop, [], [])]
  | ["sloop_close"; l; t] | ["cloop_close"; l; t] -> [HLoop (n l, n t)]
  | ["listen"; l; s] -> [HListen (n l, n s, true)]
  | ["listen_weak"; l; s] -> [HListen (n l, n s, false)]
  | ["listen_c"; l; c] -> [HListenC (n l, n c, true)]
  | ["listen_cw"; l; c] -> [HListenC (n l, n c, false)]
  | ["unlisten"; l] -> [HUnlisten (n l)]
  | ["drop_l"; l] -> [HDropL (n l)]
  | ["drop_weak"; l] -> [HDropL (n l); HCollect]
  | ["clone"; a; b] -> [HClone (n a, n b)]
  | ["drop"; h] -> [HDrop (n h)]
  | ["gc"] -> [HCollect]
  (* Lazy values are not collector objects; without captured handles (keep:) their thunks own no handle either *)
  | ("sample_lazy" | "lazy_new" | "force" | "clone_lazy") :: _ -> saw_lazy := true; [HNop]
  | ("send" | "sample" | "{" | "}" | "tnew" | "tclose" | "tdrop" | "post" | "nodes" | "drop_lazies") :: _ -> [HNop]
  | op :: _ -> raise (Unsupported op)
  | [] -> [HNop]

let heap_view (st : hstate) : string =
  let rows = List.map (fun r ->
      Printf.sprintf "%d:%s:%d:%d:%d:%s" (int_of_nat r.v_id) (oname_str r.v_name) (if r.v_freed then 1 else 0)
        (int_of_nat r.v_rc) (int_of_nat r.v_handles)
        (String.concat "." (List.map string_of_int (List.sort compare (List.map int_of_nat r.v_edges)))))
      (hview st) in
  Printf.sprintf "H=%s n=%d" (String.concat "/" rows) (int_of_nat (live_nodes st))

(* lines carry " || A" where the implementation audited (a collection had just run): the model collects there
   too and prints its view; the last line "teardown" releases everything the model still holds, collects, and
   reports what is left *)
let run_heap_script oc (name, lines) =
  Printf.fprintf oc "# %s\n" name;
  let st = ref hinit and stopped = ref false in
  saw_lazy := false; saw_keep := false;
  let step op =
    match hstep !st op with
    | Ok s1 -> st := s1
    | Panic _ -> stopped := true; Printf.fprintf oc "model-panic\n"
    | OutOfFuel -> stopped := true; Printf.fprintf oc "model-outoffuel\n" in
  List.iter (fun raw ->
      if not !stopped then begin
        let (line, mark) = split_expected raw in
        (try
           List.iter step (hops_of_line line);
           if not !stopped then begin
             if mark <> None then begin
               step HCollect;
               if not !stopped then Printf.fprintf oc "%s\n" (heap_view !st)
             end else Printf.fprintf oc "-\n"
           end
         with Unsupported what -> stopped := true; Printf.fprintf oc "unsupported %s\n" what)
      end) lines;
  if not !stopped then begin
    List.iter step (teardown !st);
    step HCollect;
    if not !stopped then
      Printf.fprintf oc "teardown held=%d n=%d\n" (List.length (held !st)) (int_of_nat (live_nodes !st))
  end;
  Printf.fprintf oc "---\n"

(* ---------- C20: thread schedules on one context, run on the model ---------- *)
let run_thr_script oc (name, lines) =
  Printf.fprintf oc "# %s\n" name;
  (match lines with
   | first :: rest when split_ws first = ["interleaving"] ->
     let sched = List.map (fun l ->
         match split_ws l with
         | [t; "{"] | [t; "topen"; _] -> (t = "B", TBegin)
         | [t; "}"] | [t; "tclose"; _] -> (t = "B", TEnd)
         | [t; "send"; v] -> (t = "B", TSend (zz v))
         | _ -> failwith ("bad thr step " ^ l)) rest in
     (match run_schedule sched with
      | Some os -> List.iter (fun o -> Printf.fprintf oc "%s\n" (canon o)) os
      | None -> Printf.fprintf oc "model-error\n")
   | first :: _ ->
     (match split_ws first with
      | ["stress"; n; m; _] ->
        (* the property: every send delivered exactly once, nothing lost, no panic *)
        let n = int_of_string n and m = int_of_string m in
        let expected = ref 0 in
        for i = 0 to n - 1 do for k = 0 to m - 1 do expected := !expected + i * 1000 + k done done;
        Printf.fprintf oc "sent=%d delivered=[%s] total=%d expected=%d panics=0 nodes=0\n" (n * m)
          (String.concat ", " (List.init n (fun _ -> string_of_int m))) !expected !expected
      | _ -> Printf.fprintf oc "model-error\n")
   | [] -> ());
  Printf.fprintf oc "---\n"

(* seeded random valid gc scripts (all choices from one PRNG state) *)
let gc_rand seed count maxlen nmax emax hmax =
  Random.init seed;
  for k = 1 to count do
    Printf.printf "# r%d_%d\n" seed k;
    let len = 3 + Random.int (Stdlib.max 1 (maxlen - 2)) in
    let s = ref sinit and stop = ref false and i = ref 0 in
    while not !stop && !i < len do
      incr i;
      let n = List.length !s.g.objs in
      let pick () =
        let r = Random.int 100 in
        let o () = nat_of_int (Random.int (Stdlib.max 1 n)) in
        if n = 0 || (r < 14 && n < nmax) then GCreate
        else if r < 24 then GClone (o ())
        else if r < 44 then GDrop (o ())
        else if r < 70 then GAddEdge (o (), o ())
        else if r < 80 then GRemoveEdge (o (), nat_of_int (Random.int (Stdlib.max 1 emax)))
        else if r < 88 then GUpgrade (o ())
        else GCollect in
      let rec valid_pick tries =
        let op = pick () in
        let ok = svalid !s op && (match op with
            | GClone o -> int_of_nat (ext_of !s o) < hmax
            | GAddEdge (a, _) -> List.length (List.nth !s.g.objs (int_of_nat a)).edges < emax
            | _ -> true) in
        if ok || tries = 0 then op else valid_pick (tries - 1) in
      let op = valid_pick 20 in
      print_endline (string_of_gop op);
      (match sstep !s op with Ok s1 -> s := s1 | _ -> stop := true)
    done;
    print_endline "collect";
    print_endline "---"
  done

(* graph families for C16: ladders of diamonds, fans, chains, cyclic variants, of size n; every
   object's handle is dropped except optionally the first; then one collection *)
let gc_family kind n keep =
  Printf.printf "# %s_%d_%s\n" kind n (if keep then "live" else "dead");
  let create k = for _ = 1 to k do print_endline "create" done in
  let edge a b = Printf.printf "edge %d %d\n" a b in
  let total =
    match kind with
    | "ladder" | "ladder_cyc" ->
      (* levels of two objects: (2i+1, 2i+2) both point to both of the next level; 0 is the top *)
      let levels = n in
      create (1 + 2 * levels);
      if levels > 0 then begin edge 0 1; edge 0 2 end;
      for i = 0 to levels - 2 do
        let a = 2 * i + 1 and b = 2 * i + 2 in
        edge a (a + 2); edge a (b + 2); edge b (a + 2); edge b (b + 2)
      done;
      if kind = "ladder_cyc" && levels > 0 then begin edge (2 * levels - 1) 0; edge (2 * levels) 0 end;
      1 + 2 * levels
    | "fan" | "fan_cyc" ->
      create (n + 2);
      for i = 1 to n do edge 0 i; edge i (n + 1) done;
      if kind = "fan_cyc" then edge (n + 1) 0;
      n + 2
    | "chain" | "chain_cyc" ->
      create (n + 1);
      for i = 0 to n - 1 do edge i (i + 1) done;
      if kind = "chain_cyc" then edge n 0;
      n + 1
    | "clique" ->
      create n;
      for i = 0 to n - 1 do for j = 0 to n - 1 do edge i j done done;
      n
    | _ -> failwith "family" in
  for i = total - 1 downto (if keep then 1 else 0) do Printf.printf "drop %d\n" i done;
  print_endline "collect";
  if keep then begin print_endline "drop 0"; print_endline "collect" end;
  print_endline "---"

let () =
  match Array.to_list Sys.argv with
  | _ :: "gc-rand" :: seed :: count :: maxlen :: nmax :: emax :: hmax :: _ ->
    gc_rand (int_of_string seed) (int_of_string count) (int_of_string maxlen) (int_of_string nmax)
      (int_of_string emax) (int_of_string hmax)
  | _ :: "gc-family" :: kind :: n :: keep :: _ ->
    gc_family kind (int_of_string n) (keep = "live")
  | _ :: "eng-run" :: _ ->
    List.iter (run_eng_script false stdout) (read_scripts stdin)
  | _ :: "eng-run-orig" :: _ ->
    List.iter (run_eng_script true stdout) (read_scripts stdin)
  | _ :: "thr-run" :: _ ->
    List.iter (run_thr_script stdout) (read_scripts stdin)
  | _ :: "frp-check" :: _ ->
    List.iter (run_frp_guided stdout) (read_scripts stdin)
  | _ :: "frp-run" :: _ ->
    List.iter (run_frp_script stdout) (read_scripts stdin)
  | _ :: "heap-run" :: _ ->
    List.iter (run_heap_script stdout) (read_scripts stdin)
  | _ :: "gc-run" :: _ ->
    List.iter (run_gc_script stdout) (read_scripts stdin)
  | _ :: "gc-enum" :: n :: e :: h :: d :: _ ->
    gc_enum (int_of_string n) (int_of_string e) (int_of_string h) (int_of_string d)
  | _ -> prerr_endline "usage: model_run (gc-run | gc-enum N E H D)"; exit 2
