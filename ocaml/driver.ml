(* Driver for the extracted Coq models: parses operation scripts, runs the extracted step
   functions, prints canonical observation logs. Trusted glue (see DESIGN.md section 8). *)
open Model

let rec nat_of_int n = if n <= 0 then O else S (nat_of_int (n - 1))
let rec int_of_nat = function O -> 0 | S k -> 1 + int_of_nat k

let split_ws s = List.filter (fun x -> x <> "") (String.split_on_char ' ' (String.trim s))

(* ---------- reading script files: "# name" starts a script, "---" ends it ---------- *)
let read_scripts ic =
  let scripts = ref [] and cur_name = ref "" and cur = ref [] and in_script = ref false in
  (try
     while true do
       let line = String.trim (input_line ic) in
       if String.length line > 0 && line.[0] = '#' then begin
         cur_name := String.trim (String.sub line 1 (String.length line - 1));
         cur := []; in_script := true end
       else if line = "---" then begin
         scripts := (!cur_name, List.rev !cur) :: !scripts; in_script := false end
       else if line <> "" && !in_script then cur := line :: !cur
     done
   with End_of_file -> ());
  List.rev !scripts

(* ---------- gc scripts ---------- *)
let parse_gop line =
  match split_ws line with
  | ["create"] -> GCreate
  | ["clone"; o] -> GClone (nat_of_int (int_of_string o))
  | ["drop"; o] -> GDrop (nat_of_int (int_of_string o))
  | ["edge"; a; b] -> GAddEdge (nat_of_int (int_of_string a), nat_of_int (int_of_string b))
  | ["unedge"; a; i] -> GRemoveEdge (nat_of_int (int_of_string a), nat_of_int (int_of_string i))
  | ["upgrade"; o] -> GUpgrade (nat_of_int (int_of_string o))
  | ["collect"] -> GCollect
  | _ -> failwith ("bad gc op: " ^ line)

let string_of_gop = function
  | GCreate -> "create"
  | GClone o -> Printf.sprintf "clone %d" (int_of_nat o)
  | GDrop o -> Printf.sprintf "drop %d" (int_of_nat o)
  | GAddEdge (a, b) -> Printf.sprintf "edge %d %d" (int_of_nat a) (int_of_nat b)
  | GRemoveEdge (a, i) -> Printf.sprintf "unedge %d %d" (int_of_nat a) (int_of_nat i)
  | GUpgrade o -> Printf.sprintf "upgrade %d" (int_of_nat o)
  | GCollect -> "collect"

let col_char = function Black -> 'B' | Gray -> 'G' | Purple -> 'P' | White -> 'W'
let b01 b = if b then 1 else 0
let ints l = String.concat " " (List.map (fun n -> string_of_int (int_of_nat n)) l)

let gstate_line (s : sstate) =
  let g = s.g in
  let buf = Buffer.create 128 in
  List.iteri (fun i o ->
      Buffer.add_string buf
        (Printf.sprintf "o%d=F%d,rc%d,adj%d,V%d,c%c,b%d,e[%s],d%d " i (b01 o.freed) (int_of_nat o.rc)
           (int_of_nat o.adj) (b01 o.visited) (col_char o.col) (b01 o.buffered) (ints o.edges)
           (int_of_nat o.dtor_runs))) g.objs;
  Buffer.add_string buf
    (Printf.sprintf "| roots=[%s] tbf=[%s] tc=%d te=%d ext=[%s]" (ints g.roots) (ints g.to_be_freed)
       (int_of_nat g.trace_calls) (int_of_nat g.trace_edges) (ints s.ext));
  Buffer.contents buf

let perr_line = function
  | PAdjLarger id -> Printf.sprintf "panic AdjLarger %d" (int_of_nat id)
  | PFreedNonZero id -> Printf.sprintf "panic FreedNonZero %d" (int_of_nat id)
  | PIncRefFreed id -> Printf.sprintf "panic IncRefFreed %d" (int_of_nat id)

let run_gc_script oc (name, lines) =
  Printf.fprintf oc "# %s\n" name;
  let rec go s = function
    | [] -> ()
    | line :: rest ->
      let op = parse_gop line in
      if not (svalid s op) then begin Printf.fprintf oc "invalid\n"; go s rest end
      else
        match sstep s op with
        | Ok s1 -> Printf.fprintf oc "%s\n" (gstate_line s1); go s1 rest
        | Panic e -> Printf.fprintf oc "%s\n" (perr_line e)
        | OutOfFuel -> Printf.fprintf oc "outoffuel\n"
  in
  go sinit lines;
  Printf.fprintf oc "---\n"

(* exhaustive enumeration of gc scripts: breadth-first over distinct model states, at most
   [nmax] objects, [emax] edges per object, [hmax] handles per object, depth [depth]. Emits one
   script per distinct (state, last op) transition so that every transition of the reachable
   bounded state graph is exercised once on the implementation. *)
let gc_enum nmax emax hmax depth =
  let seen = Hashtbl.create 100003 in
  let emitted = ref 0 in
  let all_ops (s : sstate) =
    let n = List.length s.g.objs in
    let idx = List.init n (fun i -> i) in
    let ops = ref [GCollect] in
    if n < nmax then ops := GCreate :: !ops;
    List.iter (fun o ->
        let eo = int_of_nat (ext_of s (nat_of_int o)) in
        ops := GUpgrade (nat_of_int o) :: !ops;
        if eo > 0 then begin
          ops := GDrop (nat_of_int o) :: !ops;
          if eo < hmax then ops := GClone (nat_of_int o) :: !ops;
          let ne = List.length (List.nth s.g.objs o).edges in
          for i = 0 to ne - 1 do ops := GRemoveEdge (nat_of_int o, nat_of_int i) :: !ops done;
          if ne < emax then
            List.iter (fun b ->
                if int_of_nat (ext_of s (nat_of_int b)) > 0 then
                  ops := GAddEdge (nat_of_int o, nat_of_int b) :: !ops) idx
        end) idx;
    List.rev !ops in
  let key (s : sstate) = gstate_line s in
  let frontier = ref [ (sinit, []) ] in
  Hashtbl.add seen (key sinit) ();
  for _d = 1 to depth do
    let next = ref [] in
    List.iter (fun (s, path) ->
        List.iter (fun op ->
            match sstep s op with
            | Ok s1 ->
              let path1 = op :: path in
              incr emitted;
              Printf.printf "# e%d\n" !emitted;
              List.iter (fun o -> print_endline (string_of_gop o)) (List.rev path1);
              print_endline "---";
              let k = key s1 in
              if not (Hashtbl.mem seen k) then begin
                Hashtbl.add seen k ();
                next := (s1, path1) :: !next
              end
            | _ ->
              incr emitted;
              Printf.printf "# e%d\n" !emitted;
              List.iter (fun o -> print_endline (string_of_gop o)) (List.rev (op :: path));
              print_endline "---") (all_ops s)) !frontier;
    frontier := List.rev !next
  done;
  Printf.eprintf "gc_enum: %d scripts, %d distinct states\n" !emitted (Hashtbl.length seen)

(* ---------- raw engine scripts (C03) ---------- *)
let parse_eop line =
  match split_ws line with
  | "node" :: ds -> ENode (List.map (fun d -> nat_of_int (int_of_string d)) ds)
  | ["adddep"; n; m] -> EAddDep (nat_of_int (int_of_string n), nat_of_int (int_of_string m))
  | "txn" :: fs ->
    ETxn (List.map (fun f -> match String.split_on_char ':' f with
        | [n; v] -> (nat_of_int (int_of_string n), nat_of_int (int_of_string v))
        | _ -> failwith "bad fire") fs)
  | _ -> failwith ("bad engine op: " ^ line)

let run_eng_script orig oc (name, lines) =
  Printf.fprintf oc "# %s\n" name;
  let gr = ref [] in
  List.iter (fun line ->
      let (g1, out) = estep orig !gr (parse_eop line) in
      gr := g1;
      match out with
      | None -> Printf.fprintf oc "ok n=%d\n" (List.length g1)
      | Some (lg, fires) ->
        let fs = List.mapi (fun i f -> match f with Some v -> Printf.sprintf "%d:%d" i (int_of_nat v) | None -> "") fires in
        Printf.fprintf oc "log=[%s] fire=[%s]\n" (ints lg) (String.concat " " (List.filter (fun x -> x <> "") fs)))
    lines;
  Printf.fprintf oc "---\n"

(* seeded random valid gc scripts (all choices from one PRNG state) *)
let gc_rand seed count maxlen nmax emax hmax =
  Random.init seed;
  for k = 1 to count do
    Printf.printf "# r%d_%d\n" seed k;
    let len = 3 + Random.int (max 1 (maxlen - 2)) in
    let s = ref sinit and stop = ref false and i = ref 0 in
    while not !stop && !i < len do
      incr i;
      let n = List.length !s.g.objs in
      let pick () =
        let r = Random.int 100 in
        let o () = nat_of_int (Random.int (max 1 n)) in
        if n = 0 || (r < 14 && n < nmax) then GCreate
        else if r < 24 then GClone (o ())
        else if r < 44 then GDrop (o ())
        else if r < 70 then GAddEdge (o (), o ())
        else if r < 80 then GRemoveEdge (o (), nat_of_int (Random.int (max 1 emax)))
        else if r < 88 then GUpgrade (o ())
        else GCollect in
      let rec valid_pick tries =
        let op = pick () in
        let ok = svalid !s op && (match op with
            | GClone o -> int_of_nat (ext_of !s o) < hmax
            | GAddEdge (a, _) -> List.length (List.nth !s.g.objs (int_of_nat a)).edges < emax
            | _ -> true) in
        if ok || tries = 0 then op else valid_pick (tries - 1) in
      let op = valid_pick 20 in
      print_endline (string_of_gop op);
      (match sstep !s op with Ok s1 -> s := s1 | _ -> stop := true)
    done;
    print_endline "collect";
    print_endline "---"
  done

(* graph families for C16: ladders of diamonds, fans, chains, cyclic variants, of size n; every
   object's handle is dropped except optionally the first; then one collection *)
let gc_family kind n keep =
  Printf.printf "# %s_%d_%s\n" kind n (if keep then "live" else "dead");
  let create k = for _ = 1 to k do print_endline "create" done in
  let edge a b = Printf.printf "edge %d %d\n" a b in
  let total =
    match kind with
    | "ladder" | "ladder_cyc" ->
      (* levels of two objects: (2i+1, 2i+2) both point to both of the next level; 0 is the top *)
      let levels = n in
      create (1 + 2 * levels);
      if levels > 0 then begin edge 0 1; edge 0 2 end;
      for i = 0 to levels - 2 do
        let a = 2 * i + 1 and b = 2 * i + 2 in
        edge a (a + 2); edge a (b + 2); edge b (a + 2); edge b (b + 2)
      done;
      if kind = "ladder_cyc" && levels > 0 then begin edge (2 * levels - 1) 0; edge (2 * levels) 0 end;
      1 + 2 * levels
    | "fan" | "fan_cyc" ->
      create (n + 2);
      for i = 1 to n do edge 0 i; edge i (n + 1) done;
      if kind = "fan_cyc" then edge (n + 1) 0;
      n + 2
    | "chain" | "chain_cyc" ->
      create (n + 1);
      for i = 0 to n - 1 do edge i (i + 1) done;
      if kind = "chain_cyc" then edge n 0;
      n + 1
    | "clique" ->
      create n;
      for i = 0 to n - 1 do for j = 0 to n - 1 do edge i j done done;
      n
    | _ -> failwith "family" in
  for i = total - 1 downto (if keep then 1 else 0) do Printf.printf "drop %d\n" i done;
  print_endline "collect";
  if keep then begin print_endline "drop 0"; print_endline "collect" end;
  print_endline "---"

let () =
  match Array.to_list Sys.argv with
  | _ :: "gc-rand" :: seed :: count :: maxlen :: nmax :: emax :: hmax :: _ ->
    gc_rand (int_of_string seed) (int_of_string count) (int_of_string maxlen) (int_of_string nmax)
      (int_of_string emax) (int_of_string hmax)
  | _ :: "gc-family" :: kind :: n :: keep :: _ ->
    gc_family kind (int_of_string n) (keep = "live")
  | _ :: "eng-run" :: _ ->
    List.iter (run_eng_script false stdout) (read_scripts stdin)
  | _ :: "eng-run-orig" :: _ ->
    List.iter (run_eng_script true stdout) (read_scripts stdin)
  | _ :: "gc-run" :: _ ->
    List.iter (run_gc_script stdout) (read_scripts stdin)
  | _ :: "gc-enum" :: n :: e :: h :: d :: _ ->
    gc_enum (int_of_string n) (int_of_string e) (int_of_string h) (int_of_string d)
  | _ -> prerr_endline "usage: model_run (gc-run | gc-enum N E H D)"; exit 2
