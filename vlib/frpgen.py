"""Seeded, type-aware generator of legal FRP scripts (DESIGN.md section 4.3) and a small static
analysis of scripts (instantaneous dependency graph, known-finding classes)."""
import random

F1_INT = ["add:1", "add:7", "mul:3", "mul:2", "id", "const:5", "add:100"]
PRED = ["even", "gt:10", "lt:40", "true", "gt:3", "lt:200000", "false"]
F2 = ["add", "sub", "mul10", "left", "right"]
FN = ["wsum", "first", "last"]


class Info:
    def __init__(self, kind, vt, deps, role=None, cands=None):
        self.kind, self.vt, self.deps, self.role = kind, vt, set(deps), role
        self.cands = cands or []      # for ref-valued objects: candidate slots
        self.alive = True


class Profile:
    def __init__(self, **kw):
        self.n_defs = (4, 14)
        self.n_txn = (3, 10)
        self.w = dict(map=10, filter=5, merge=8, or_else=3, snapshot=6, gate=3, once=2, hold=8, updates=2, value=2,
                      map_c=5, lift=6, accum=3, collect=2, switch_s=0, switch_c=0, sloop=0, cloop=0, defer=0, split=0,
                      router=0, filter_opt=2, map_to=2, snapshot1=2, map_s=0, map_sl=0, const=2, never=1, csink=3, sink=4, sink_co=2,
                      hold_lazy=0, accum_lazy=0)
        self.p_block = 0.5          # a history step is a multi-op transaction block
        self.p_nested = 0.15
        self.p_scoped = 0.1
        self.p_def_in_txn = 0.15    # construction inside a history transaction, after sends
        self.p_listen_late = 0.3
        self.p_unlisten = 0.1
        self.p_sample = 0.3
        self.p_mem = 0.0            # clone/drop/gc churn
        self.p_post = 0.0
        self.p_lazy = 0.0
        self.p_self_merge = 0.03
        self.p_mk = 0.0             # switch targets constructed inside the user function (during propagation / at force time)
        self.p_keep = 0.0           # a user function captures (without reading) handles of other objects and declares them
        self.p_loop_send = 0.3      # sends inside a loop-constructing transaction (before the loop, between definitions, after the close)
        self.p_listen_u = 0.0       # a listener whose callback unlistens an earlier listener
        self.max_sinks = 4
        self.listen_cells = 0.3
        self.weak = 0.0
        self.final_teardown = False
        self.__dict__.update(kw)


class Gen:
    def __init__(self, rng, prof):
        self.r, self.p = rng, prof
        self.lines = []
        self.o = {}            # slot -> Info
        self.next_h = 0
        self.next_l = 0
        self.next_z = 0
        self.next_t = 0
        self.next_k = 0
        self.listeners = {}    # l -> (slot, active, weak)
        self.lazies = []
        self.lazy_src = {}     # lazy -> cell it was sampled from (a value dependency of whatever starts from it)
        self.depth = 0
        self.aliases = {}

    # ---- helpers
    def emit(self, s):
        self.lines.append(s)

    def new_h(self):
        h = self.next_h
        self.next_h += 1
        return h

    def pick(self, kind, vt=None, exclude_dep=None):
        c = [h for h, i in self.o.items() if i.alive and i.kind == kind and (vt is None or i.vt == vt)
             and (exclude_dep is None or not self.inst_reaches(h, exclude_dep))]
        return self.r.choice(c) if c else None

    def inst_reaches(self, a, b, seen=None):
        """does object a instantaneously depend on b?"""
        if a == b:
            return True
        seen = seen if seen is not None else set()
        if a in seen:
            return False
        seen.add(a)
        return any(self.inst_reaches(d, b, seen) for d in self.o[a].deps)

    KEEP_OPS = ("map", "filter", "merge", "snapshot", "map_c", "lift", "accum", "collect")

    def add(self, h, kind, vt, deps, line, role=None, cands=None):
        self.o[h] = Info(kind, vt, deps, role, cands)
        w = line.split()
        if self.p.p_keep and w[0] in self.KEEP_OPS and "sel:" not in line and self.r.random() < self.p.p_keep:
            # the captured objects may be anything alive, also things that depend on this very object once a loop is
            # closed (a cycle for the collector): they are kept alive, never read
            c = [x for x, i in self.o.items() if i.alive and x != h and i.kind in ("S", "C")]
            if c:
                ks = self.r.sample(c, min(len(c), self.r.choice([1, 1, 2])))
                line += " keep:" + ",".join(str(k) for k in ks)
        self.emit(line)
        return h

    # ---- definitions
    def gen_def(self, avoid=None):
        """one new object; avoid = loop slot that must not be instantaneously reachable (None outside loop blocks)"""
        w = self.p.w
        names = [k for k, v in w.items() if v > 0]
        for _ in range(30):
            k = self.r.choices(names, [w[n] for n in names])[0]
            if self.try_def(k):
                return True
        return False

    def try_def(self, k):
        r, h = self.r, self.next_h
        S = lambda vt="int": self.pick("S", vt)
        Cc = lambda vt="int": self.pick("C", vt)
        nsinks = len([1 for i in self.o.values() if i.role in ("sink", "csink")])
        if k == "sink":
            if nsinks >= self.p.max_sinks:
                return False
            self.add(self.new_h(), "S", "int", [], "sink %d" % h, role="sink")
        elif k == "sink_co":
            if nsinks >= self.p.max_sinks:
                return False
            self.add(self.new_h(), "S", "int", [], "sink_co %d %s" % (h, r.choice(F2)), role="sink")
        elif k == "csink":
            if nsinks >= self.p.max_sinks:
                return False
            self.add(self.new_h(), "C", "int", [], "csink %d %d" % (h, r.randint(0, 9)), role="csink")
        elif k == "const":
            self.add(self.new_h(), "C", "int", [], "const %d %d" % (h, r.randint(0, 9)))
        elif k == "never":
            self.add(self.new_h(), "S", "int", [], "never %d" % h)
        elif k == "map":
            s = S()
            if s is None:
                return False
            self.add(self.new_h(), "S", "int", [s], "map %d %d %s" % (h, s, r.choice(F1_INT)))
        elif k == "map_to":
            s = S()
            if s is None:
                return False
            self.add(self.new_h(), "S", "int", [s], "map_to %d %d %d" % (h, s, r.randint(0, 50)))
        elif k == "filter":
            s = S()
            if s is None:
                return False
            self.add(self.new_h(), "S", "int", [s], "filter %d %d %s" % (h, s, r.choice(PRED)))
        elif k == "filter_opt":
            s = S()
            if s is None:
                return False
            h1 = self.new_h()
            self.add(h1, "S", "opt", [s], "map %d %d someifeven" % (h1, s))
            h2 = self.new_h()
            self.add(h2, "S", "int", [h1], "filter_opt %d %d" % (h2, h1))
        elif k in ("merge", "or_else"):
            a, b = S(), S()
            if a is None:
                return False
            if r.random() < self.p.p_self_merge:
                b = a
            if k == "merge":
                self.add(self.new_h(), "S", "int", [a, b], "merge %d %d %d %s" % (h, a, b, r.choice(F2)))
            else:
                self.add(self.new_h(), "S", "int", [a, b], "or_else %d %d %d" % (h, a, b))
        elif k == "snapshot":
            s = S()
            n = r.choice([1, 1, 2, 2, 3, 4, 5])
            cs = [Cc() for _ in range(n)]
            if s is None or None in cs:
                return False
            self.add(self.new_h(), "S", "int", [s], "snapshot %d %d %s %s" % (h, s, r.choice(FN), " ".join(map(str, cs))))
        elif k in ("map_s", "map_sl"):
            s, c = S(), Cc()
            if s is None or c is None:
                return False
            self.add(self.new_h(), "S", "int", [s], "%s %d %d %s %d" % (k, h, s, r.choice(FN), c))
        elif k == "snapshot1":
            s, c = S(), Cc()
            if s is None or c is None:
                return False
            self.add(self.new_h(), "S", "int", [s], "snapshot1 %d %d %d" % (h, s, c))
        elif k == "gate":
            s, c = S(), Cc()
            if s is None or c is None:
                return False
            self.add(self.new_h(), "S", "int", [s], "gate %d %d %d" % (h, s, c))
        elif k == "once":
            s = S()
            if s is None:
                return False
            self.add(self.new_h(), "S", "int", [s], "once %d %d" % (h, s))
        elif k == "hold":
            s = S()
            if s is None:
                return False
            self.add(self.new_h(), "C", "int", [s], "hold %d %d %d" % (h, s, r.randint(0, 9)))
        elif k == "hold_lazy":
            s = S()
            if s is None:
                return False
            z = self.new_lazy()
            h = self.next_h
            self.add(self.new_h(), "C", "int", [s] + ([self.lazy_src[z]] if z in self.lazy_src else []),
                     "hold_lazy %d %d %d" % (h, s, z))
        elif k == "updates":
            c = Cc()
            if c is None:
                return False
            self.add(self.new_h(), "S", "int", [c], "updates %d %d" % (h, c))
        elif k == "value":
            c = Cc()
            if c is None:
                return False
            self.add(self.new_h(), "S", "int", [c], "value %d %d" % (h, c))
        elif k == "map_c":
            c = Cc()
            if c is None:
                return False
            self.add(self.new_h(), "C", "int", [c], "map_c %d %d %s" % (h, c, r.choice(F1_INT)))
        elif k == "lift":
            n = r.choice([2, 2, 2, 3, 3, 4, 5, 6])
            cs = [Cc() for _ in range(n)]
            if None in cs:
                return False
            self.add(self.new_h(), "C", "int", cs, "lift %d %s %s" % (h, r.choice(FN), " ".join(map(str, cs))))
        elif k == "accum":
            s = S()
            if s is None:
                return False
            self.add(self.new_h(), "C", "int", [s], "accum %d %d %d %s" % (h, s, r.randint(0, 9), r.choice(F2)))
        elif k == "accum_lazy":
            s = S()
            if s is None:
                return False
            z = self.new_lazy()
            h = self.next_h
            self.add(self.new_h(), "C", "int", [s] + ([self.lazy_src[z]] if z in self.lazy_src else []),
                     "accum_lazy %d %d %d %s" % (h, s, z, r.choice(F2)))
        elif k == "collect":
            s = S()
            if s is None:
                return False
            self.add(self.new_h(), "S", "int", [s], "collect %d %d %d %s %s" % (h, s, r.randint(0, 9), r.choice(F2), r.choice(F2)))
        elif k == "defer":
            s = S()
            if s is None:
                return False
            self.add(self.new_h(), "S", "int", [s], "defer %d %d" % (h, s), role="defer")
        elif k == "split":
            s = S()
            if s is None:
                return False
            h1 = self.new_h()
            self.add(h1, "S", "list", [s], "map %d %d tolist:%d" % (h1, s, r.randint(0, 3)))
            h2 = self.new_h()
            self.add(h2, "S", "int", [h1], "split %d %d" % (h2, h1), role="defer")
        elif k in ("switch_s", "switch_c"):
            kind = "S" if k == "switch_s" else "C"
            cands = list({self.pick(kind, "int") for _ in range(r.randint(2, 4))} - {None})
            if not cands:
                return False
            sel = self.pick("S", "int") if r.random() < 0.6 else None
            selc = self.pick("C", "int")
            # the outer cell's function either hands out existing objects or constructs a fresh identity map of them
            mc = "map_cmk" if r.random() < self.p.p_mk else "map_c"
            src = sel if sel is not None else selc
            if mc == "map_cmk" and (src is None or any(
                    self.inst_reaches(src, c) or any(self.inst_reaches(src, d) for d in self.o[c].deps) for c in cands)):
                # constructing a map of a stream from inside a function that runs in that stream's own propagation is
                # not supported by the library (it blocks on the stream's own lock): only unrelated candidates
                mc = "map_c"
            if sel is not None:
                hh = self.new_h()
                self.add(hh, "C", "int", [sel], "hold %d %d %d" % (hh, sel, r.randint(0, 5)))
                ho = self.new_h()
                self.add(ho, "C", "ref" + kind, [hh], "%s %d %d sel:%s" % (mc, ho, hh, ",".join(map(str, cands))), cands=cands)
                outer = ho
            elif selc is not None:
                ho = self.new_h()
                self.add(ho, "C", "ref" + kind, [selc], "%s %d %d sel:%s" % (mc, ho, selc, ",".join(map(str, cands))), cands=cands)
                outer = ho
            else:
                return False
            hs = self.new_h()
            if k == "switch_s":
                self.add(hs, "S", "int", cands, "switch_s %d %d" % (hs, outer), role="switch_s", cands=[outer])
            else:
                self.add(hs, "C", "int", [outer] + cands, "switch_c %d %d" % (hs, outer), role="switch_c", cands=[outer])
        elif k == "router":
            s = S()
            if s is None:
                return False
            sl = r.choice(["mod:2", "mod:3", "dup:2", "multi"])
            hr = self.new_h()
            self.add(hr, "R", sl, [s], "router %d %d %s" % (hr, s, sl))
            for _ in range(r.randint(1, 3)):
                hh = self.new_h()
                self.add(hh, "S", "int", [s], "route %d %d %d" % (hh, hr, r.randint(0, 4)), role="route")
        elif k in ("sloop", "cloop"):
            return self.gen_loop(k)
        else:
            return False
        return True

    def gen_loop(self, k):
        """{ loop ; definitions using it ; close } -- the cycle passes through a delay by construction"""
        if self.depth > 0:
            return False
        r = self.r
        self.emit("{")
        self.depth += 1
        sent = []

        def maybe_send(pr):
            if r.random() < pr:
                ss = self.sinks()
                if ss:
                    h = r.choice(ss)
                    self.emit("send %d %d" % (h, r.randint(0, 60)))
                    sent.append(h)
        maybe_send(self.p.p_loop_send)
        lh = self.new_h()
        if k == "sloop":
            self.add(lh, "S", "int", [], "sloop %d" % lh, role="sloop")
        else:
            self.add(lh, "C", "int", [], "cloop %d" % lh, role="cloop")
        for _ in range(r.randint(1, 5)):
            self.gen_def()
            maybe_send(self.p.p_loop_send / 3)
        kind = "S" if k == "sloop" else "C"
        t = self.pick(kind, "int", exclude_dep=lh)
        direct = [h for h in sent if self.o[h].alive and self.o[h].kind == kind and self.o[h].vt == "int"]
        if direct and r.random() < 0.5:
            t = r.choice(direct)    # the loop is closed directly onto a sink that already fired in this transaction
        if t is None:
            # make a legal target
            if k == "sloop":
                s = self.pick("S", "int", exclude_dep=lh)
                if s is None:
                    s = self.new_h()
                    self.add(s, "S", "int", [], "sink %d" % s, role="sink")
                t = s
            else:
                t = self.new_h()
                self.add(t, "C", "int", [], "const %d %d" % (t, r.randint(0, 9)))
        self.o[lh].deps = {t}
        self.emit("%s_close %d %d" % (k, lh, t))
        maybe_send(self.p.p_loop_send)
        maybe_send(self.p.p_loop_send / 2)
        self.emit("}")
        self.depth -= 1
        return True

    def new_lazy(self):
        """a lazy for hold_lazy/accum_lazy: a fresh user thunk, or one taken from a cell (shared with that cell),
        or a clone of an existing one"""
        x = self.r.random()
        if x < 0.4:
            c = self.pick("C", "int")
            if c is not None and not (self.o[c].role == "cloop" and self.depth > 0):
                z = self.next_z
                self.next_z += 1
                self.emit("sample_lazy %d %d" % (z, c))
                self.lazies.append(z)
                self.lazy_src[z] = c
                return z
        if x < 0.55 and self.lazies:
            return self.r.choice(self.lazies)
        z = self.next_z
        self.next_z += 1
        self.emit("lazy_new %d %d" % (z, self.r.randint(0, 99)))
        self.lazies.append(z)
        return z

    # ---- listeners
    def gen_listen(self):
        r = self.r
        l = self.next_l
        if r.random() < self.p.p_listen_u:
            # victim: an active stream listener; the killer goes on the same stream (or another one)
            act = [(k, s) for k, (s, a, w) in self.listeners.items()
                   if a and not w and k not in getattr(self, "victims", set()) and k not in getattr(self, "killers", set())
                   and k not in getattr(self, "dropped_l", set())
                   and s in self.o and self.o[s].kind == "S"]
            if act:
                v, s = r.choice(act)
                tgt = s if (r.random() < 0.7 and self.o[s].alive) else self.pick("S", "int")
                if tgt is None:
                    return
                self.next_l += 1
                self.emit("listen_u %d %d %d" % (l, tgt, v))
                self.listeners[l] = (tgt, True, False)
                self.victims = getattr(self, "victims", set()) | {v}
                self.killers = getattr(self, "killers", set()) | {l}
                return
        if r.random() < self.p.listen_cells and self.pick("C", "int") is not None:
            c = self.pick("C", "int")
            if self.o[c].role == "cloop" and self.depth > 0:
                return
            self.next_l += 1
            weak = r.random() < self.p.weak
            self.emit("%s %d %d" % ("listen_cw" if weak else "listen_c", l, c))
            self.listeners[l] = (c, True, weak)
        else:
            s = self.pick("S", "int")
            if s is None:
                return
            self.next_l += 1
            weak = r.random() < self.p.weak
            self.emit("%s %d %d" % ("listen_weak" if weak else "listen", l, s))
            self.listeners[l] = (s, True, weak)

    def gen_listen_on(self, s):
        l = self.next_l
        self.next_l += 1
        self.emit("listen %d %d" % (l, s))
        self.listeners[l] = (s, True, False)

    # ---- history
    def sinks(self):
        return [h for h, i in self.o.items() if i.alive and i.role in ("sink", "csink")]

    def gen_send(self):
        s = self.sinks()
        if s:
            self.emit("send %d %d" % (self.r.choice(s), self.r.randint(0, 60)))

    def gen_misc(self):
        r, p = self.r, self.p
        x = r.random()
        if x < p.p_sample:
            c = self.pick("C", "int")
            if c is not None and not (self.o[c].role == "cloop" and self.depth > 0):
                self.emit("sample %d" % c)
        x = r.random()
        if x < p.p_listen_late:
            self.gen_listen()
        if r.random() < p.p_unlisten:
            act = [l for l, (_, a, _) in self.listeners.items() if a and l not in getattr(self, "dropped_l", set())]
            if act:
                l = r.choice(act)
                s, _, weak = self.listeners[l]
                if weak and self.depth == 0 and r.random() < 0.6 and l not in getattr(self, "victims", set()):
                    # a weak listener stops with its handle (dropped, then a collection)
                    self.listeners[l] = (s, False, weak)
                    self.emit("drop_weak %d" % l)
                else:
                    self.listeners[l] = (s, False, weak)
                    self.emit("unlisten %d" % l)
                    if r.random() < 0.2:
                        self.emit("unlisten %d" % l)
        if r.random() < p.p_def_in_txn:
            self.gen_def()
        if r.random() < p.p_mem:
            self.gen_mem()
        if r.random() < p.p_post:
            cs = [self.pick("C", "int") for _ in range(r.randint(0, 2))]
            cs = [c for c in cs if c is not None and not (self.o[c].role == "cloop" and self.depth > 0)]
            self.emit("post %d %s" % (self.next_k, " ".join(map(str, cs))))
            self.next_k += 1
        if r.random() < p.p_lazy:
            self.gen_lazy()
        routers = [h for h, i in self.o.items() if i.alive and i.kind == "R"]
        if routers and r.random() < 0.35:
            # request a key (again): a stream for this key may be alive, or may have been dropped completely
            hr = r.choice(routers)
            src = next(iter(self.o[hr].deps))
            hh = self.new_h()
            self.add(hh, "S", "int", [src], "route %d %d %d" % (hh, hr, r.randint(0, 4)), role="route")
            if r.random() < 0.5:
                self.gen_listen_on(hh)
        if routers and r.random() < 0.3 and self.depth == 0:
            # drop a routed stream completely (handle and listeners), possibly the router handle too
            routed = [h for h, i in self.o.items() if i.alive and i.role == "route"
                      and not any(s0 == h and a and l in getattr(self, "dropped_l", set())
                                  for l, (s0, a, wk) in self.listeners.items())]
            if routed:
                h = r.choice(routed)
                for l, (s0, a, wk) in list(self.listeners.items()):
                    if s0 == h and a:
                        self.listeners[l] = (s0, False, wk)
                        self.emit("unlisten %d" % l)
                        self.emit("drop_l %d" % l)
                self.o[h].alive = False
                self.emit("drop %d" % h)
                if r.random() < 0.5:
                    self.emit("gc")
            if r.random() < 0.15:
                hr = r.choice(routers)
                self.o[hr].alive = False
                self.emit("drop %d" % hr)

    def gen_lazy(self):
        r = self.r
        x = r.random()
        if x < 0.4 or not self.lazies:
            c = self.pick("C", "int")
            if c is not None and not (self.o[c].role == "cloop" and self.depth > 0):
                z = self.next_z
                self.next_z += 1
                self.emit("sample_lazy %d %d" % (z, c))
                self.lazies.append(z)
                self.lazy_src[z] = c
        elif x < 0.8:
            z = r.choice(self.lazies)
            # forcing inside the block that is still building a loop may read the unclosed loop
            if not (self.depth > 0 and z in self.lazy_src and any(i.role == "cloop" for i in self.o.values())):
                self.emit("force %d" % z)
        else:
            z = self.next_z
            self.next_z += 1
            z0 = r.choice(self.lazies)
            self.emit("clone_lazy %d %d" % (z0, z))
            self.lazies.append(z)
            if z0 in self.lazy_src:
                self.lazy_src[z] = self.lazy_src[z0]

    def gen_mem(self):
        r = self.r
        x = r.random()
        live = [h for h, i in self.o.items() if i.alive and i.kind in ("S", "C")]
        if not self.p.final_teardown and r.random() < 0.15:
            # drop the handle of a strong listener that stays registered: it must keep being called
            strong = [l for l, (s0, a, wk) in self.listeners.items() if a and not wk and l not in getattr(self, "dropped_l", set())
                      and l not in getattr(self, "victims", set())]
            if strong:
                l = r.choice(strong)
                self.dropped_l = getattr(self, "dropped_l", set()) | {l}
                self.emit("drop_l %d" % l)
        if x < 0.3:
            self.emit("gc")
        elif x < 0.6 and live:
            h = r.choice(live)
            h2 = self.new_h()
            i = self.o[h]
            self.emit("clone %d %d" % (h, h2))
            role = i.role if i.role in ("sink", "csink") else None
            self.o[h2] = Info(i.kind, i.vt, [h], role, i.cands)
            self.aliases[h2] = h
        elif live and self.depth == 0:
            # drop a handle the rest of the script will not use (objects stay alive through listeners/dependents)
            c = [h for h in live if not (self.o[h].role in ("sink", "csink") and len(self.sinks()) <= 1)
                 and self.o[h].role not in ("sloop", "cloop")]
            if c:
                h = r.choice(c)
                self.o[h].alive = False
                self.emit("drop %d" % h)

    def gen_txn(self):
        r, p = self.r, self.p
        if r.random() < p.p_block:
            scoped = r.random() < p.p_scoped
            t = None
            if scoped:
                t = self.next_t
                self.next_t += 1
                self.emit("tnew %d" % t)
            else:
                self.emit("{")
            self.depth += 1
            for _ in range(r.randint(0, 4)):
                x = r.random()
                if x < 0.6:
                    self.gen_send()
                elif x < 0.6 + p.p_nested and self.depth < 4:
                    # a nested bracket: a closure transaction, or a scoped one (closed once, closed then dropped, closed
                    # twice, or just dropped - each must end exactly this bracket and nothing else)
                    inner = None
                    if r.random() < p.p_scoped:
                        inner = self.next_t
                        self.next_t += 1
                        self.emit("tnew %d" % inner)
                    else:
                        self.emit("{")
                    self.depth += 1
                    for _ in range(r.randint(0, 2)):
                        self.gen_send()
                    self.gen_misc()
                    self.depth -= 1
                    if inner is None:
                        self.emit("}")
                    else:
                        y = r.random()
                        if y < 0.3:
                            self.emit("tclose %d" % inner)
                        elif y < 0.5:
                            self.emit("tdrop %d" % inner)
                        elif y < 0.8:
                            self.emit("tclose %d" % inner)
                            self.emit("tdrop %d" % inner)
                        else:
                            self.emit("tclose %d" % inner)
                            self.emit("tclose %d" % inner)
                        if r.random() < 0.5:
                            self.gen_send()
                else:
                    self.gen_misc()
            self.depth -= 1
            if scoped:
                y = r.random()
                if y < 0.4:
                    self.emit("tclose %d" % t)
                elif y < 0.7:
                    self.emit("tdrop %d" % t)
                elif y < 0.85:
                    self.emit("tclose %d" % t)
                    self.emit("tdrop %d" % t)
                else:
                    self.emit("tclose %d" % t)
                    self.emit("tclose %d" % t)
            else:
                self.emit("}")
        else:
            self.gen_send()
        self.gen_misc()

    def script(self):
        r, p = self.r, self.p
        # at least one sink first
        self.try_def("sink" if r.random() < 0.7 else "csink")
        if r.random() < 0.7:
            self.try_def(r.choice(["sink", "sink_co", "csink"]))
        for _ in range(r.randint(*p.n_defs)):
            self.gen_def()
        for _ in range(r.randint(1, 4)):
            self.gen_listen()
        for _ in range(r.randint(*p.n_txn)):
            self.gen_txn()
        if p.final_teardown:
            self.teardown()
        return self.lines

    def teardown(self):
        for l, (s, a, weak) in sorted(self.listeners.items()):
            self.emit("unlisten %d" % l)
            self.emit("drop_l %d" % l)
        for h in sorted(self.o):
            self.emit("drop %d" % h)
        self.emit("drop_lazies")
        self.emit("{")
        self.emit("}")
        self.emit("gc")
        self.emit("nodes")


def _gen_range(args):
    seed, lo, hi, prof, tag = args
    out = []
    for k in range(lo, hi):
        rng = random.Random("%s/%d/%d" % (tag, seed, k))
        g = Gen(rng, prof)
        out.append(("%s_%d_%d" % (tag, seed, k), g.script()))
    return out


def gen_scripts(seed, count, prof, tag):
    if count < 400:
        return _gen_range((seed, 0, count, prof, tag))
    import multiprocessing as mp
    n = 16
    step = (count + n - 1) // n
    jobs = [(seed, lo, min(count, lo + step), prof, tag) for lo in range(0, count, step)]
    with mp.Pool(n) as pool:
        parts = pool.map(_gen_range, jobs)
    return [x for p in parts for x in p]


# ------------------------------------------------------------------ static analysis of scripts

def analyze(lines):
    """-> dict slot -> dict(op=..., deps=[instantaneous dependencies], outer=cell for switches)"""
    d = {}
    alias = {}
    sel_of = {}     # ref-valued object -> candidate slots
    keeps_of = {}   # object -> slots whose handles its user function captures (keep:)

    def A(x):
        x = int(x)
        return alias.get(x, x)

    for l in lines:
        w = l.split()
        kept = []
        if w and w[-1].startswith("keep:"):
            kept = [x for x in w[-1][5:].split(",") if x]
            w = w[:-1]
        if not w:
            continue
        op = w[0]
        if kept:
            try:
                keeps_of[int(w[1])] = [A(x) for x in kept]
            except (ValueError, IndexError):
                pass
        try:
            if op in ("sink", "sink_co", "csink", "const", "never", "sloop", "cloop"):
                d[int(w[1])] = dict(op=op, deps=[])
            elif op in ("map", "map_c", "map_cmk"):
                h, s = int(w[1]), A(w[2])
                d[h] = dict(op=op, deps=[s])
                if w[3].startswith("sel:"):
                    sel_of[h] = [A(x) for x in w[3][4:].split(",")]
                elif s in sel_of and w[3] == "id":
                    sel_of[h] = sel_of[s]
            elif op in ("map_to", "filter", "filter_opt", "once", "hold", "hold_lazy", "accum", "accum_lazy", "collect",
                        "collect_lazy", "updates", "value"):
                h, s = int(w[1]), A(w[2])
                d[h] = dict(op=op, deps=[s])
                if op in ("hold",) and s in sel_of:
                    sel_of[h] = sel_of[s]
            elif op in ("merge", "or_else"):
                d[int(w[1])] = dict(op=op, deps=[A(w[2]), A(w[3])])
            elif op in ("snapshot", "map_s", "map_sl"):
                d[int(w[1])] = dict(op=op, deps=[A(w[2])], reads=[A(x) for x in w[4:]])
            elif op in ("snapshot1", "gate"):
                d[int(w[1])] = dict(op=op, deps=[A(w[2])], reads=[A(w[3])])
            elif op == "lift":
                d[int(w[1])] = dict(op=op, deps=[A(x) for x in w[3:]])
            elif op == "switch_s":
                c = A(w[2])
                d[int(w[1])] = dict(op=op, deps=list(sel_of.get(c, [])), outer=c)
            elif op == "switch_c":
                c = A(w[2])
                d[int(w[1])] = dict(op=op, deps=[c] + list(sel_of.get(c, [])), outer=c)
            elif op in ("sloop_close", "cloop_close"):
                d[A(w[1])]["deps"] = [A(w[2])]
            elif op in ("defer", "split"):
                d[int(w[1])] = dict(op=op, deps=[], src=A(w[2]))
            elif op == "router":
                d[int(w[1])] = dict(op=op, deps=[A(w[2])])
            elif op == "route":
                d[int(w[1])] = dict(op=op, deps=[A(w[2])])
            elif op == "clone":
                alias[int(w[2])] = A(w[1])
        except (KeyError, IndexError, ValueError):
            pass
    for h, ks in keeps_of.items():
        if h in d:
            d[h]["keeps"] = ks
    return d, sel_of


def inst_reach(d, a, b, seen=None):
    if a == b:
        return True
    seen = seen if seen is not None else set()
    if a in seen or a not in d:
        return False
    seen.add(a)
    return any(inst_reach(d, x, b, seen) for x in d[a]["deps"])


def is_K1(lines):
    """a switch_s whose outer cell's update depends, within one transaction, on the switch's own output"""
    d, _ = analyze(lines)
    return any(v["op"] == "switch_s" and inst_reach(d, v["outer"], h) for h, v in d.items())


def full_reach(d, sel_of, a, b, seen=None):
    """reachability through every kind of reference an object holds: dependencies, cells it reads, the source of
    a defer/split, the outer cell of a switch, and the handles stored as values in ref-valued cells/streams"""
    if a == b:
        return True
    seen = seen if seen is not None else set()
    if a in seen or a not in d:
        return False
    seen.add(a)
    v = d[a]
    nxt = list(v["deps"]) + list(v.get("reads", [])) + ([v["src"]] if "src" in v else []) + \
        ([v["outer"]] if "outer" in v else []) + list(sel_of.get(a, [])) + list(v.get("keeps", []))
    return any(full_reach(d, sel_of, x, b, seen) for x in nxt)


def is_K5(lines):
    """a cell (or stream) whose values are stream/cell handles, one of which reaches that very object"""
    d, sel_of = analyze(lines)
    return any(any(full_reach(d, sel_of, c, x) for c in cands) for x, cands in sel_of.items())


def is_K6(lines):
    """the unforced initial-value Lazy of a mapped / lifted cell whose user function captures (and declares) handles is
    taken out of the cell - directly (sample_lazy on it) or inside the Lazy of a cell computed from it (a lift / map_c over
    it, a CellLoop closed onto it, a hold_lazy / accum_lazy seeded with it): the function - one Arc shared by the node's
    update closure and that thunk - and the handles it captures then outlive the node that declares them to the collector"""
    d, _ = analyze(lines)
    alias, lazy_src, lz_of = {}, {}, {}
    for l in lines:
        w = l.split()
        if w and w[-1].startswith("keep:"):
            w = w[:-1]
        if not w:
            continue
        try:
            if w[0] == "clone":
                alias[int(w[2])] = alias.get(int(w[1]), int(w[1]))
            elif w[0] == "sample_lazy":
                c = int(w[2])
                lazy_src[int(w[1])] = alias.get(c, c)
            elif w[0] == "clone_lazy" and int(w[1]) in lazy_src:
                lazy_src[int(w[2])] = lazy_src[int(w[1])]
            elif w[0] in ("hold_lazy", "accum_lazy", "collect_lazy") and int(w[3]) in lazy_src:
                lz_of[int(w[1])] = lazy_src[int(w[3])]
        except (ValueError, IndexError):
            pass

    def taint(c, seen):
        if c in seen or c not in d:
            return False
        seen.add(c)
        v = d[c]
        if v["op"] in ("map_c", "lift") and v.get("keeps"):
            return True
        if v["op"] in ("map_c", "map_cmk", "lift", "cloop"):
            return any(taint(x, seen) for x in v["deps"])
        if v["op"] in ("hold_lazy", "accum_lazy", "collect_lazy"):
            return c in lz_of and taint(lz_of[c], seen)
        return False
    return any(taint(c, set()) for c in lazy_src.values())


def is_K3_leak(lines):
    """a switch_c whose outer cell depends (through any reference) on the switch's own result: until the result is
    first sampled or updated its initial thunk holds the outer cell, a reference no tracer reports"""
    d, sel_of = analyze(lines)
    return any(v["op"] == "switch_c" and full_reach(d, sel_of, v["outer"], h) for h, v in d.items())


def is_K3_lazy(lines):
    """a Lazy is taken (sample_lazy) from a cell whose value is computed from a switch_c result: until that result
    is first updated or sampled, its initial thunk reads the inner cell at force time"""
    d, sel_of = analyze(lines)

    def cell_reach(a, seen=None):
        seen = seen if seen is not None else set()
        if a in seen or a not in d:
            return False
        seen.add(a)
        v = d[a]
        if v["op"] == "switch_c":
            return True
        if v["op"] in ("map_c", "map_cmk", "lift", "cloop", "hold_lazy", "accum_lazy"):
            return any(cell_reach(x, seen) for x in v["deps"]) or any(cell_reach(x, seen) for x in v.get("lz", []))
        return False
    alias = {}
    lazy_src = {}
    for l in lines:
        w = l.split()
        if w and w[-1].startswith("keep:"):
            w = w[:-1]
        if not w:
            continue
        if w[0] == "clone":
            alias[int(w[2])] = alias.get(int(w[1]), int(w[1]))
        if w[0] == "sample_lazy":
            c = int(w[2]); c = alias.get(c, c)
            lazy_src[int(w[1])] = c
        if w[0] == "clone_lazy" and int(w[1]) in lazy_src:
            lazy_src[int(w[2])] = lazy_src[int(w[1])]
        if w[0] in ("hold_lazy", "accum_lazy", "collect_lazy") and int(w[3]) in lazy_src:
            # the held cell starts from that lazy: taking a lazy from it inherits the problem
            d.setdefault(int(w[1]), dict(op=w[0], deps=[]))["lz"] = [lazy_src[int(w[3])]]
    return any(cell_reach(c) for c in lazy_src.values())
