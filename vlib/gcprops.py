"""C08 (collector exactness) and C16 (termination / linear cost): scripts over synthetic objects."""
import re, subprocess
from . import common as C
from .runner import Prop, Batch

OBJ = re.compile(r"o(\d+)=F(\d),rc(\d+),adj(\d+),V(\d),c(.),b(\d),e\[([^\]]*)\],d(\d+)")


def parse_state(line):
    if "|" not in line:
        return None
    left, right = line.split("|", 1)
    objs = []
    for m in OBJ.finditer(left):
        objs.append(dict(id=int(m.group(1)), freed=m.group(2) == "1", rc=int(m.group(3)), adj=int(m.group(4)),
                         visited=m.group(5) == "1", col=m.group(6), buffered=m.group(7) == "1",
                         edges=[int(x) for x in m.group(8).split()], d=int(m.group(9))))
    g = lambda k: [int(x) for x in re.search(k + r"=\[([^\]]*)\]", right).group(1).split()]
    tc = int(re.search(r"tc=(\d+)", right).group(1))
    te = int(re.search(r"te=(\d+)", right).group(1))
    return dict(objs=objs, roots=g("roots"), tbf=g("tbf"), ext=g("ext"), tc=tc, te=te)


def live_set(st):
    seen = set(i for i, e in enumerate(st["ext"]) if e > 0)
    stack = list(seen)
    while stack:
        n = stack.pop()
        if n < len(st["objs"]):
            for t in st["objs"][n]["edges"]:
                if t not in seen:
                    seen.add(t)
                    stack.append(t)
    return seen


def gen(args):
    r = subprocess.run([C.MODEL_RUN] + [str(a) for a in args], stdout=subprocess.PIPE, stderr=subprocess.PIPE,
                       text=True, timeout=1200)
    if r.returncode != 0:
        raise RuntimeError("generator failed: %s" % r.stderr[-500:])
    return C.split_scripts(r.stdout)


def c08_oracle(lines, out):
    """The statement of C08 evaluated on the implementation's own state dumps."""
    prev = dict(objs=[], roots=[], tbf=[], ext=[], tc=0, te=0)
    k = 0
    for op, o in zip(lines, out):
        k += 1
        if o == "invalid":
            continue
        if o.startswith("panic"):
            return "step %d (%s): internal consistency panic: %s" % (k, op, o)
        if o.startswith(("HANG", "CRASH", "MISSING", "outoffuel")):
            return "step %d (%s): %s" % (k, op, o)
        st = parse_state(o)
        if st is None:
            return "step %d: unparsable %r" % (k, o[:80])
        pre_freed = {x["id"] for x in prev["objs"] if x["freed"]}
        post_freed = {x["id"] for x in st["objs"] if x["freed"]}
        live = live_set(st)
        for x in st["objs"]:
            if x["freed"] and x["id"] in live:
                return "step %d (%s): object %d is freed but reachable from a held handle" % (k, op, x["id"])
        if op.strip() == "collect":
            live_pre = live_set(prev)
            want = pre_freed | {x["id"] for x in prev["objs"] if x["id"] not in live_pre}
            if post_freed != want:
                return "step %d: collect freed %s, unreachable objects were %s" % (
                    k, sorted(post_freed - pre_freed), sorted(want - pre_freed))
            dpre = {x["id"]: x["d"] for x in prev["objs"]}
            for x in st["objs"]:
                exp = dpre.get(x["id"], 0) + (1 if x["id"] in post_freed - pre_freed else 0)
                if x["d"] != exp:
                    return "step %d: destructor of object %d ran %d times, expected %d" % (k, x["id"], x["d"], exp)
            if st["roots"] or st["tbf"]:
                return "step %d: candidate buffer not empty after collect: roots=%s tbf=%s" % (k, st["roots"], st["tbf"])
            inc = {}
            for x in st["objs"]:
                for t in x["edges"]:
                    inc[t] = inc.get(t, 0) + 1
            for x in st["objs"]:
                if not x["freed"]:
                    e = st["ext"][x["id"]] + inc.get(x["id"], 0)
                    if x["rc"] != e:
                        return "step %d: object %d count %d != handles+incoming edges %d" % (k, x["id"], x["rc"], e)
        else:
            if post_freed != pre_freed and len(st["objs"]) == len(prev["objs"]):
                return "step %d (%s): objects %s freed outside a collection" % (k, op, sorted(post_freed - pre_freed))
            for x in st["objs"]:
                dp = next((y["d"] for y in prev["objs"] if y["id"] == x["id"]), 0)
                if x["d"] != dp:
                    return "step %d (%s): destructor of %d ran outside a collection" % (k, op, x["id"])
        prev = st
    return None


class C08(Prop):
    pid = "C08"
    level_text = ("Theorems over Model/Gc.v (line-by-line model of gc_node.rs), unbounded in objects, edges and run length: every "
                  "contract-respecting run succeeds without panic and keeps counts = handles + incoming edges; a collection frees exactly "
                  "the objects unreachable from held handles, runs each freed object's destructor exactly once, leaves the buffer empty; "
                  "nothing is freed outside a collection. Tie: bit-exact comparison of the complete hidden state after every operation on "
                  "all bounded scripts (stronger than the property's bounded quantifier) plus the property's statement evaluated on the "
                  "implementation's own state dumps.")
    default_mode = "gc-run"
    design_ref = "DESIGN.md section 6 C08"
    rule = ("gc scripts over synthetic objects on the real GcCtx/GcNode: (a) breadth-first enumeration of ALL "
            "contract-respecting operation sequences up to the tier's depth over <=3 objects, <=2 edges and <=2 handles "
            "per object, one script per transition of the distinct-state graph; (b) seeded random valid scripts over <=8 "
            "objects. Non-trivial = script contains a collect and its (script, final states) digest is new.")
    assumptions = ["the model Gc.v is tied to gc_node.rs by bit-exact comparison of the complete hidden state "
                   "(freed, counts, adjusted counts, colours, buffered, roots, to_be_freed, destructor runs, trace counters) after every operation",
                   "synthetic objects follow the contract: one counted reference per reported edge; destructor releases the edges"]

    def batches(self, tier, seed):
        depth = 6 if tier == "quick" else 9
        nrand = 20000 if tier == "quick" else 400000
        yield Batch("gc-run", gen(["gc-enum", 3, 2, 2, depth]), "enum<=%d" % depth, exhaustive=True)
        rs = []
        per = nrand // 8
        for k in range(8):
            rs += gen(["gc-rand", int(seed) * 8 + k + 1, per, 30, 8, 4, 3])
        yield Batch("gc-run", rs, "random", exhaustive=False)

    def oracle(self, batch, name, lines, out):
        return c08_oracle(lines, out)

    def nontrivial(self, batch, name, lines, out):
        return any(l.strip() == "collect" for l in lines)


def c16_oracle(lines, out, per_iter=9):
    """Linear bound per collection, evaluated on the implementation's counters: the number of tracer
    invocations of one collect is at most 9*(V)*(1+freed) and callbacks at most 9*E*(1+freed)."""
    prev = dict(objs=[], roots=[], tbf=[], ext=[], tc=0, te=0)
    k = 0
    for op, o in zip(lines, out):
        k += 1
        if o == "invalid":
            continue
        if o.startswith(("panic", "HANG", "CRASH", "MISSING", "outoffuel")):
            return "step %d (%s): %s (a collection that does not return is a violation)" % (k, op, o)
        st = parse_state(o)
        if st is None:
            return "step %d: unparsable" % k
        if op.strip() == "collect":
            V = len(prev["objs"])
            E = sum(len(x["edges"]) for x in prev["objs"])
            nfreed = len([x for x in st["objs"] if x["freed"]]) - len([x for x in prev["objs"] if x["freed"]])
            iters = 1 + max(nfreed, 0)
            if st["tc"] - prev["tc"] > per_iter * V * iters:
                return "step %d: collect made %d tracer calls on %d objects/%d edges (%d freed): above the linear bound %d" % (
                    k, st["tc"] - prev["tc"], V, E, nfreed, per_iter * V * iters)
            if st["te"] - prev["te"] > per_iter * E * iters:
                return "step %d: collect made %d edge callbacks on %d edges: above the linear bound %d" % (
                    k, st["te"] - prev["te"], E, per_iter * E * iters)
        prev = st
    return None


FAMILIES = ["ladder", "ladder_cyc", "fan", "fan_cyc", "chain", "chain_cyc", "clique"]


class C16(Prop):
    pid = "C16"
    level_text = ("Theorems over Model/Gc.v for EVERY collector state: every walk and the whole collect_cycles loop terminate with the "
                  "model's fuel; one loop iteration traces every object and every edge at most 9 times; iterations <= 1 + objects freed. "
                  "Tie: the implementation's tracer-call/callback counters equal the model's on graph families of growing size and on "
                  "all bounded scripts.")
    default_mode = "gc-run"
    design_ref = "DESIGN.md section 6 C16"
    rule = ("graph families with sharing (ladders of diamonds, fans, chains, cliques; acyclic and cyclic; wholly dead and with "
            "a live top that is dropped afterwards) at growing sizes, plus the C08 enumeration and random scripts; the "
            "implementation's tracer-call and callback counters per collection must equal the model's and stay under the "
            "proved linear bound. Non-trivial = contains a collect with at least one edge; distinct by digest.")
    assumptions = ["trace counters come from hook H3 (cfg-guarded counters in GcNode::trace)",
                   "wall-clock cap per shard: a collection that does not return within the cap is reported as HANG"]

    def batches(self, tier, seed):
        sizes = [1, 2, 3, 4, 6, 8, 12, 16, 24, 32, 48, 64] if tier == "quick" else \
                [1, 2, 3, 4, 6, 8, 12, 16, 24, 32, 48, 64, 96, 128, 192, 256, 384, 512]
        fam = []
        for f in FAMILIES:
            for n in sizes:
                if f == "clique" and n > 48:
                    continue
                for keep in ("dead", "live"):
                    fam += gen(["gc-family", f, n, keep])
        yield Batch("gc-run", fam, "families", exhaustive=False, timeout=600)
        depth = 5 if tier == "quick" else 8
        yield Batch("gc-run", gen(["gc-enum", 3, 2, 2, depth]), "enum<=%d" % depth, exhaustive=True)
        yield Batch("gc-run", gen(["gc-rand", int(seed) + 77, 4000 if tier == "quick" else 100000, 30, 8, 4, 3]), "random")

    def oracle(self, batch, name, lines, out):
        return c16_oracle(lines, out)

    def nontrivial(self, batch, name, lines, out):
        return any(l.strip() == "collect" for l in lines) and any(l.startswith("edge") for l in lines)
