"""C03 (glitch freedom) at the raw engine level: raw Node graphs driven through the real
end_of_transaction, compared with Model/Engine.v, and judged by the denotation of the graph."""
import itertools, random, re
from . import common as C
from .runner import Prop, Batch


def fmix(n, ins):
    if any(x is not None for x in ins):
        acc = 0
        for o in ins:
            acc = acc * 3 + (o + 1 if o is not None else 0)
        return (n + acc) % 1009
    return None


DEM = {}


def graph_of(lines_before):
    """-> dependency lists; the potential demand targets of each node are kept in graph_of.dem"""
    deps = []
    dem = []
    for l in lines_before:
        w = l.split()
        if w[0] in ("node", "noded"):
            toks = w[1:]
            if "/" in toks:
                k = toks.index("/")
                ds, dm = [int(x) for x in toks[:k]], [int(x) for x in toks[k + 1:]]
            else:
                ds, dm = [int(x) for x in toks], []
            if all(d < len(deps) for d in ds + dm):
                deps.append(ds)
                dem.append(dm)
        elif w[0] == "adddep":
            n, m = int(w[1]), int(w[2])
            if n < len(deps) and m < len(deps):
                deps[n].append(m)
    graph_of.dem = dem
    return deps


def den(deps, fired, dem=None):
    """unique solution of the propagation equations, by recursion over the (acyclic) graph; a node with demand
    targets reads them too when its first static dependency fired"""
    memo = {}
    dem = dem or [[] for _ in deps]
    den.demanded = {}

    def go(n, depth=0):
        if n in memo:
            return memo[n]
        if depth > len(deps) + 1:
            raise ValueError("cyclic")
        if not deps[n]:
            v = fired.get(n)
        else:
            ins = [go(d, depth + 1) for d in deps[n]]
            if dem[n] and ins and ins[0] is not None:
                den.demanded[n] = list(dem[n])
                ins = ins + [go(m, depth + 1) for m in dem[n]]
            v = fmix(n, ins)
            if n in fired and v is None:
                v = fired[n]
        memo[n] = v
        return v
    return [go(n) for n in range(len(deps))]


def c03_oracle(lines, out):
    for k, (op, o) in enumerate(zip(lines, out)):
        if o.startswith(("panic", "HANG", "CRASH", "MISSING")):
            return "step %d (%s): %s" % (k + 1, op, o)
        if not op.startswith("txn"):
            continue
        m = re.match(r"log=\[([^\]]*)\] fire=\[([^\]]*)\]", o)
        if not m:
            continue
        log = [int(x) for x in m.group(1).split()]
        fires = {int(a): int(b) for a, b in (x.split(":") for x in m.group(2).split())}
        deps = graph_of(lines[:k])
        dem = graph_of.dem
        fired = {int(a): int(b) for a, b in (x.split(":") for x in op.split()[1:])}
        want = den(deps, fired, dem)
        alld = [list(deps[n]) + den.demanded.get(n, []) for n in range(len(deps))]
        for n, w in enumerate(want):
            if fires.get(n) != w:
                return ("step %d (%s): node %d ended the transaction with firing %s, the consistent value computed "
                        "from all its settled inputs is %s (glitch: stale, partial or lost result)" % (k + 1, op, n, fires.get(n), w))
        if len(set(log)) != len(log):
            return "step %d (%s): a node's update ran more than once: log %s" % (k + 1, op, log)
        should = {n for n in range(len(deps)) if deps[n] and any(want[d] is not None for d in alld[n])}
        if set(log) != should:
            return "step %d (%s): updates ran for %s, nodes with a changed input are %s" % (k + 1, op, sorted(log), sorted(should))
        pos = {n: i for i, n in enumerate(log)}
        for n in log:
            for d in alld[n]:
                if d in pos and pos[d] > pos[n]:
                    return "step %d (%s): node %d was evaluated before its input %d had settled" % (k + 1, op, n, d)
    return None


def all_dag_scripts(nmax, max_scripts=None, rng=None):
    """every DAG on <= nmax nodes (edges from lower to higher index, so every DAG up to relabelling) x every
    distinct combination of dependency-list order and dependents registration order x every non-empty set of
    fired sources x every queue order"""
    out = []
    cnt = 0
    for n in range(2, nmax + 1):
        pairs = [(j, i) for j in range(n) for i in range(j)]     # j depends on i
        for mask in range(1, 1 << len(pairs)):
            edges = [p for b, p in enumerate(pairs) if mask >> b & 1]
            sources = [v for v in range(n) if not any(j == v for j, _ in edges)]
            if len(sources) == n:
                continue
            seen_sig = set()
            perms = itertools.permutations(edges) if len(edges) <= 5 else \
                (tuple(rng.sample(edges, len(edges))) for _ in range(120))
            for perm in perms:
                sig = (tuple(tuple(i for j, i in perm if j == v) for v in range(n)),
                       tuple(tuple(j for j, i in perm if i == v) for v in range(n)))
                if sig in seen_sig:
                    continue
                seen_sig.add(sig)
                build = ["node"] * n + ["adddep %d %d" % (j, i) for j, i in perm]
                txns = []
                for r in range(1, len(sources) + 1):
                    for sub in itertools.combinations(sources, r):
                        for order in itertools.permutations(sub):
                            txns.append("txn " + " ".join("%d:%d" % (s, 1 + 2 * s) for s in order))
                cnt += 1
                out.append(("dag%d" % cnt, build + txns))
    return out


def random_dag_scripts(seed, count, nmax):
    rng = random.Random(seed)
    out = []
    for k in range(count):
        n = rng.randint(4, nmax)
        lines = []
        deps = []
        for v in range(n):
            if v < 2 or rng.random() < 0.2:
                ds = []
            else:
                ds = rng.sample(range(v), min(v, rng.choice([1, 1, 2, 2, 3, 4])))
            deps.append(list(ds))
            # half of the edges at creation, half attached later (registration order varies)
            now = [d for d in ds if rng.random() < 0.5]
            later = [d for d in ds if d not in now]
            deps[v] = now + later
            cand = [m for m in range(v) if m not in ds and deps[m]]   # demand derived nodes (like an inner cell)
            if now and cand and rng.random() < 0.25:
                dm = rng.sample(cand, min(len(cand), rng.choice([1, 1, 2])))
                lines.append("noded " + " ".join(map(str, now)) + " / " + " ".join(map(str, dm)))
            else:
                lines.append("node " + " ".join(map(str, now)) if now else "node")
            for d in later:
                lines.append(("L", v, d))
        late = [x for x in lines if isinstance(x, tuple)]
        lines = [x for x in lines if not isinstance(x, tuple)]
        rng.shuffle(late)
        real = [[] for _ in range(n)]
        # a node created with deps is derived; a node whose deps all arrive later is derived too
        lines += ["adddep %d %d" % (v, d) for _, v, d in late]
        sources = [v for v in range(n) if not deps[v]]
        for _ in range(rng.randint(2, 5)):
            sub = rng.sample(sources, rng.randint(1, min(4, len(sources))))
            lines.append("txn " + " ".join("%d:%d" % (s, rng.randint(0, 50)) for s in sub))
        out.append(("rdag%d_%d" % (seed, k), lines))
    return out


class C03(Prop):
    pid = "C03"
    extra_props = ["Refine"]
    level_text = ("Theorem C03_glitch_free over Model/Engine.v: for every acyclic raw graph, every dependents registration order, "
                  "every set and order of fired sources, also with nodes that DEMAND other nodes from inside their update (switch_c's nested "
                  "update_node2), propagation terminates, each node with a changed input is updated exactly once "
                  "after all its inputs settled, final firings equal the denotation, independent of all orders. Tie: update log (order "
                  "included) and final firings of the real engine equal the model's on all DAGs up to the tier's size and random DAGs. "
                  "FRP-level programs over such shapes are covered by the spec correspondence of C02/C13.")
    default_mode = "eng-run"
    design_ref = "DESIGN.md section 6 C03"
    rule = ("raw dependency graphs on the real engine: every DAG up to the tier's node count (edges low->high index) x every "
            "distinct order of dependency lists and dependents registration x every non-empty subset of fired sources x every "
            "queue order; plus seeded random DAGs up to 40 nodes with late-attached edges. The update log (order included) and "
            "all final firings must equal Model/Engine.v's, and equal the denotation computed from settled inputs. "
            "Non-trivial = at least one derived node fires; distinct by digest.")
    assumptions = ["raw nodes use the rule Fmix (injective enough that a stale/missing input changes the value)",
                   "update log from hook H4 (one push where update_node calls update())"]

    def batches(self, tier, seed):
        rng = random.Random(int(seed))
        nmax = 4 if tier == "quick" else 5
        yield Batch("eng-run", all_dag_scripts(nmax, rng=rng), "all-dags<=%d" % nmax, exhaustive=True)
        yield Batch("eng-run", random_dag_scripts(int(seed), 1500 if tier == "quick" else 60000, 40), "random-dags")

    def oracle(self, batch, name, lines, out):
        return c03_oracle(lines, out)

    def nontrivial(self, batch, name, lines, out):
        return any("log=[" in o and "log=[]" not in o for o in out)
