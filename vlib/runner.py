"""Generic flow of one property check (DESIGN.md section 5):
   build -> Coq audit -> correspondence (impl vs extracted model) -> property oracle on the
   implementation's own observations -> classification -> evidence."""
import os, time, hashlib, json
from . import common as C


class Batch:
    """A set of scripts for one tool mode."""
    def __init__(self, mode, scripts, label, exhaustive=False, timeout=1200, compare=True):
        self.mode, self.scripts, self.label = mode, scripts, label
        self.exhaustive, self.timeout, self.compare = exhaustive, timeout, compare


class Prop:
    pid = "C00"
    level = "proof"
    design_ref = ""
    assumptions = []
    category = "proof"
    level_text = ""
    level_note = ("Trusted: Coq 8.16.1 kernel, no axioms (Print Assumptions closed), extraction with ExtrOcamlBasic only, "
                  "the hand-written model/spec and the correspondence harness; see DESIGN.md section 8")
    technique = "machine-checked Coq proof about an executable model + differential correspondence to the code"

    def batches(self, tier, seed):
        raise NotImplementedError

    def oracle(self, batch, name, lines, out):
        """Judge the implementation's observations against the property itself (not the model).
        Return None if fine, else a short description."""
        return None

    def known_class(self, batch, name, lines, out, why):
        """Return the known-finding class name if this failing script belongs to one."""
        return None

    def nontrivial(self, batch, name, lines, out):
        return True

    default_mode = None
    def run_model(self, batch, scripts, iout, shards=C.NPROC):
        return C.run_sharded(C.MODEL_RUN, batch.mode, scripts, batch.timeout, shards)

    def well_formed(self, lines):
        d = 0
        for l in lines:
            if l.strip() == "{":
                d += 1
            elif l.strip() == "}":
                d -= 1
                if d < 0:
                    return False
        return d == 0

    spec_is_oracle = False   # the model side is the property's specification: a disagreement is a failing input

    def agree(self, batch, name, lines, mout, io):
        """None if the model/spec output and the implementation output agree, else a description"""
        mo = mout.get(name)
        if mo == io:
            return None
        mo = mo or ["MISSING"]
        k = next((j for j, (x, y) in enumerate(zip(mo, io)) if x != y), min(len(mo), len(io)))
        return "first difference at line %d (%s): model %r, implementation %r" % (
            k + 1, lines[k] if k < len(lines) else "?", mo[k] if k < len(mo) else None, io[k] if k < len(io) else None)

    def corpus_mode(self, filename):
        """tool mode of a corpus file: '<mode>__name.ops' or the property's default"""
        if "__" in filename:
            return filename.split("__", 1)[0]
        return self.default_mode

    def extra_coverage(self):
        return {}


def run_property(prop, tier, seed):
    t0 = time.time()
    pid = prop.pid
    import shutil
    shutil.rmtree(os.path.join(C.REPLAYS, pid), ignore_errors=True)
    violations = []      # (replay_path, suffix)
    known_hits = []
    try:
        C.ensure_built()
    except C.BuildError as e:
        d = C.write_replay(pid, "build", {"why.txt": "build failed; the tie to /repo cannot be established\n" + str(e)})
        print("VIOLATION property=%s replay=%s no-failing-input-found" % (pid, d))
        C.write_evidence(pid, tier, seed, "other", {"explanation": "build failed: " + str(e)[:500]},
                         prop.assumptions, time.time() - t0, 1)
        return 1

    # ---- Coq side
    audit = C.audit_sources()
    pr = C.coqc_props(pid)
    # further statement files this property relies on (e.g. the engine-to-spec refinement)
    for extra in getattr(prop, "extra_props", []):
        pe = C.coqc_props(extra)
        pr["theorems"] = pr.get("theorems", []) + ["%s.%s" % (extra, t) for t in pe.get("theorems", [])]
        pr["closed"] = pr.get("closed", []) + ["%s.%s" % (extra, t) for t in pe.get("closed", [])]
        pr["open"] = dict(pr.get("open", {}), **{"%s.%s" % (extra, k): v for k, v in pe.get("open", {}).items()})
        if not pe["ok"]:
            pr["ok"] = False
            pr["output"] = (pr.get("output", "") + "\n" + pe.get("output", ""))[-3000:]
    chk_summary = None
    if tier == "thorough" and not pr.get("missing"):
        ok_chk, chk_summary = C.coqchk([pid] + list(getattr(prop, "extra_props", [])))
        if not ok_chk:
            pr["ok"] = False
            pr["output"] = "coqchk: " + chk_summary
    proof_absent = bool(pr.get("missing"))   # theorem file not written yet: evidence says so, level drops
    proof_ok = (not audit) and (pr["ok"] or proof_absent)
    proof_problem = None
    if audit:
        proof_problem = "source audit: " + "; ".join(audit[:5])
    elif not pr["ok"] and not proof_absent:
        proof_problem = "Props/%s.v does not check: rc=%s open=%s\n%s" % (
            pid, pr.get("rc"), pr.get("open"), pr.get("output", "")[-1500:])

    # ---- correspondence + oracle
    findings, _fixed = C.load_known()
    listed = {(f["property"], f["cls"]) for f in findings}
    evaluations = 0
    digests = set()
    nontrivial = 0
    traces_validated = 0
    inconclusive = 0
    samples = []
    batch_stats = []
    corr_fail = None     # (batch, name)
    oracle_fail = None   # (batch, name, why)
    all_outs = []
    def all_batches():
        cdir = os.path.join(C.ROOT, "corpus", pid)
        if os.path.isdir(cdir):
            by_mode = {}
            for f in sorted(os.listdir(cdir)):
                if f.endswith(".ops"):
                    mode = prop.corpus_mode(f)
                    for n, ls in C.split_scripts(open(os.path.join(cdir, f)).read()):
                        by_mode.setdefault(mode, []).append(("corpus/" + f + ":" + n, ls))
            for mode, scripts in by_mode.items():
                yield Batch(mode, scripts, "corpus")
        for b in prop.batches(tier, seed):
            yield b

    for b in all_batches():
        tb = time.time()
        iout = C.run_sharded(C.IMPL_RUN, b.mode, b.scripts, b.timeout)
        mout = prop.run_model(b, b.scripts, iout) if b.compare else {}
        nbad = 0
        for name, lines in b.scripts:
            evaluations += 1
            io = iout.get(name, ["MISSING"])
            dg = hashlib.md5(("\n".join(lines) + "\n".join(io[-3:])).encode()).digest()
            if dg not in digests:
                digests.add(dg)
                if prop.nontrivial(b, name, lines, io):
                    nontrivial += 1
            why = None
            hidden = None
            if b.compare:
                dis = prop.agree(b, name, lines, mout, io)
                if dis is None:
                    traces_validated += 1
                elif dis.startswith("INCONCLUSIVE:"):
                    inconclusive += 1
                else:
                    nbad += 1
                    if prop.spec_is_oracle and not dis.startswith("HIDDEN:"):
                        why = "the implementation's observations differ from the Sodium semantics: " + dis
                    else:
                        hidden = (b, name, lines, mout.get(name, ["MISSING"]), io)
            why = why or prop.oracle(b, name, lines, io)
            known = False
            if why:
                cls = prop.known_class(b, name, lines, io, why)
                if cls and (pid, cls) in listed:
                    known = True
                    if len(known_hits) < 50:
                        known_hits.append((cls, name, why))
                elif oracle_fail is None:
                    oracle_fail = (b, name, lines, io, why)
            # a hidden-state disagreement on a script that fails with a listed known finding belongs to that finding
            if hidden is not None and not known and corr_fail is None:
                corr_fail = hidden
        if len(samples) < 6 and b.scripts:
            n0, l0 = b.scripts[len(b.scripts) // 2]
            samples.append({"batch": b.label, "script": l0[:40], "impl_last": iout.get(n0, [""])[-1][:300]})
        batch_stats.append({"label": b.label, "scripts": len(b.scripts), "exhaustive": b.exhaustive,
                            "disagreements": nbad, "wall_s": round(time.time() - tb, 2)})

    # ---- classification
    rc = 0
    if oracle_fail is not None:
        b, name, lines, io, why = oracle_fail

        def judge(cand):
            if not prop.well_formed(cand):
                return None
            o = C.run_sharded(C.IMPL_RUN, b.mode, [("s", cand)], 120, 1).get("s", ["MISSING"])
            if any("harness-error" in x for x in o):
                return None
            w = None
            if prop.spec_is_oracle and b.compare:
                m = prop.run_model(b, [("s", cand)], {"s": o}, 1)
                if any(("illegal" in x or "CRASH" in x) for v in m.values() for x in v):
                    return None      # the shrunk script is no longer a legal program
                w = prop.agree(b, "s", cand, m, o)
                if w and w.startswith(("HIDDEN:", "INCONCLUSIVE:")):
                    w = None     # a hidden-state disagreement is not a failing input
            w = w or prop.oracle(b, "s", cand, o)
            if w and prop.known_class(b, "s", cand, o, w) != prop.known_class(b, name, lines, io, why):
                return None
            return w

        def still(cand):
            return judge(cand) is not None
        small = C.shrink(lines, still)
        o2 = C.run_sharded(C.IMPL_RUN, b.mode, [("s", small)], 120, 1).get("s", ["MISSING"])
        m2 = prop.run_model(b, [("s", small)], {"s": o2}, 1).get("s", ["MISSING"]) if b.compare else []
        tag = hashlib.md5("\n".join(small).encode()).hexdigest()[:12]
        d = C.write_replay(pid, tag, {
            "script.ops": "# %s\n%s\n---\n" % (name, "\n".join(small)),
            "mode.txt": b.mode + "\n",
            "expected.log": "\n".join(m2) + "\n",
            "actual.log": "\n".join(o2) + "\n",
            "why.txt": "property oracle on the implementation's observations: %s\n(original script %s in batch %s)\n"
                       % (judge(small) or why, name, b.label)})
        print("VIOLATION property=%s replay=%s" % (pid, d))
        rc = 1
    elif corr_fail is not None or not proof_ok:
        files = {}
        if corr_fail is not None:
            b, name, lines, mo, io = corr_fail

            def still(cand):
                if not prop.well_formed(cand):
                    return False
                o = C.run_sharded(C.IMPL_RUN, b.mode, [("s", cand)], 120, 1).get("s", ["MISSING"])
                if any("harness-error" in x for x in o):
                    return False
                m = prop.run_model(b, [("s", cand)], {"s": o}, 1)
                w = prop.agree(b, "s", cand, m, o)
                return w is not None and not w.startswith("INCONCLUSIVE:")
            small = C.shrink(lines, still)
            o2 = C.run_sharded(C.IMPL_RUN, b.mode, [("s", small)], 120, 1).get("s", ["MISSING"])
            m2 = prop.run_model(b, [("s", small)], {"s": o2}, 1).get("s", ["MISSING"])
            first = next((k for k, (x, y) in enumerate(zip(m2, o2)) if x != y), min(len(m2), len(o2)))
            files = {"script.ops": "# %s\n%s\n---\n" % (name, "\n".join(small)), "mode.txt": b.mode + "\n",
                     "expected.log": "\n".join(m2) + "\n", "actual.log": "\n".join(o2) + "\n"}
            why = ("correspondence broken: model part '%s' (batch %s) and the implementation disagree at "
                   "observation %d of the shrunk script (%s); the property oracle found no failing input among %d scripts, "
                   "so the property is no longer shown to hold (its theorems speak about a model that no longer "
                   "describes the code)\n" % (b.mode, b.label, first, (prop.agree(b, "s", small, {"s": m2}, o2) or "")[:300], evaluations))
        else:
            why = ("proof obligation no longer checks: %s\nno failing input was found among %d scripts\n"
                   % (proof_problem, evaluations))
        files["why.txt"] = why
        d = C.write_replay(pid, "nofail-" + hashlib.md5(why.encode()).hexdigest()[:10], files)
        print("VIOLATION property=%s replay=%s no-failing-input-found" % (pid, d))
        rc = 1

    seen_cls = set()
    for cls, name, why in known_hits:
        if cls not in seen_cls:
            seen_cls.add(cls)
            txt = next((f["text"] for f in findings if f["property"] == pid and f["cls"] == cls), "")
            print("KNOWN-FINDING: property=%s %s %s (e.g. script %s)" % (pid, cls, txt, name))

    obligations = len(pr.get("theorems", []))
    discharged = len([t for t in pr.get("theorems", []) if t in pr.get("closed", [])])
    cov = {
        "obligations": obligations, "discharged": discharged,
        "checker_cmd": "cd coq && make (full .vo build) && coqc Props/%s.v ; source audit for Admitted/Axiom/..." % pid,
        "trusted_base": C.TRUSTED_BASE,
        "theorems": pr.get("theorems", []),
        "print_assumptions_closed": pr.get("closed", []),
        "evaluations": evaluations, "distinct_nontrivial": nontrivial,
        "traces_validated_against_impl": traces_validated,
        "inconclusive_scripts (order-search budget exhausted, or outside the heap model's fragment)": inconclusive,
        "rule": prop.rule, "samples": samples, "batches": batch_stats,
        "exhaustive": all(b["exhaustive"] for b in batch_stats) if batch_stats else False,
        "known_findings_hit": sorted(seen_cls),
        "coqchk": chk_summary,
        "proof_status": ("no theorem file yet (Props/%s.v): correspondence + oracle only" % pid) if proof_absent
                        else ("ok" if proof_ok else (proof_problem or "")[:600]),
    }
    cov.update(prop.extra_coverage())
    level = prop.level if (obligations > 0 and proof_ok) else "translation_validation"
    if level == "translation_validation":
        cov["programs"] = evaluations
        cov["disagreements_checked"] = sum(b["disagreements"] for b in batch_stats)
    C.write_evidence(pid, tier, seed, level, cov, prop.assumptions, time.time() - t0, 1 if rc else 0)
    return rc


def replay(prop, path):
    """Re-run a replay directory: prints model and implementation logs and the oracle verdict."""
    mode = open(os.path.join(path, "mode.txt")).read().strip() if os.path.exists(os.path.join(path, "mode.txt")) else None
    sp = os.path.join(path, "script.ops")
    if not (mode and os.path.exists(sp)):
        print(open(os.path.join(path, "why.txt")).read())
        return 1
    C.ensure_built()
    scripts = C.split_scripts(open(sp).read())
    i = C.run_sharded(C.IMPL_RUN, mode, scripts, 300, 1)
    m = prop.run_model(Batch(mode, scripts, "replay"), scripts, i, 1)
    rc = 0
    for name, lines in scripts:
        print("script", name)
        print(" model:", *m.get(name, []), sep="\n   ")
        print(" impl :", *i.get(name, []), sep="\n   ")
        b = Batch(mode, scripts, "replay")
        why = prop.oracle(b, name, lines, i.get(name, []))
        if why:
            print(" ORACLE: property fails:", why)
            rc = 1
        dis = prop.agree(b, name, lines, m, i.get(name, []))
        if dis:
            print(" model/spec and implementation disagree:", dis)
            rc = 1
    return rc
