"""Shared machinery of ./vcheck: builds, sharded runs of model_run / impl_run, diffing,
shrinking, Coq audit, evidence and replay files."""
import fcntl, hashlib, json, os, re, subprocess, sys, time
from concurrent.futures import ThreadPoolExecutor

ROOT = os.path.dirname(os.path.dirname(os.path.abspath(__file__)))
BUILD = os.path.join(ROOT, "_build")
COQ = os.path.join(ROOT, "coq")
MODEL_RUN = os.path.join(BUILD, "extract", "model_run")
IMPL_RUN = os.path.join(BUILD, "harness_target", "release", "impl_run")
REPLAYS = os.path.join(ROOT, "replays")
NPROC = 16
GUARD = "sodiumfrp_sodium_rust_verif"
REPO = os.environ.get("VERIF_REPO", "/repo")     # the tree under test (background soaks use a snapshot)


def log(*a):
    print(*a, file=sys.stderr, flush=True)


class BuildError(Exception):
    pass


def sh(cmd, timeout=3600, cwd=None, env=None, input=None):
    e = dict(os.environ)
    e.update({"CARGO_NET_OFFLINE": "true"})
    if env:
        e.update(env)
    return subprocess.run(cmd, shell=isinstance(cmd, str), cwd=cwd, env=e, input=input,
                          stdout=subprocess.PIPE, stderr=subprocess.PIPE, text=True, timeout=timeout)


class Lock:
    def __enter__(self):
        os.makedirs(BUILD, exist_ok=True)
        self.f = open(os.path.join(BUILD, "lock"), "w")
        fcntl.flock(self.f, fcntl.LOCK_EX)
        return self

    def __exit__(self, *a):
        fcntl.flock(self.f, fcntl.LOCK_UN)
        self.f.close()


def tree_hash(paths, exts):
    h = hashlib.sha256()
    for p in paths:
        for d, _, fs in sorted(os.walk(p)):
            for f in sorted(fs):
                if f.endswith(exts):
                    fp = os.path.join(d, f)
                    h.update(fp.encode())
                    with open(fp, "rb") as fh:
                        h.update(fh.read())
    return h.hexdigest()


def build_harness():
    """Rebuild impl_run from /repo's current working tree (hooks on). Always invoked."""
    hdir = os.path.join(ROOT, "harness")
    if REPO != "/repo":
        import shutil
        h2 = os.path.join(BUILD, "harness_src")
        shutil.copytree(hdir, h2, dirs_exist_ok=True)
        ct = open(os.path.join(hdir, "Cargo.toml")).read().replace('path = "/repo"', 'path = "%s"' % REPO)
        with open(os.path.join(h2, "Cargo.toml"), "w") as f:
            f.write(ct)
        hdir = h2
    lock_src = os.path.join(REPO, "Cargo.lock")
    if os.path.exists(lock_src):
        with open(lock_src) as f:
            src = f.read()
        # the harness's own package entry is added by cargo; keep the repo's pins
        dst = os.path.join(hdir, "Cargo.lock")
        if not os.path.exists(dst):
            with open(dst, "w") as f:
                f.write(src)
    r = sh("cargo build --release --offline --target-dir %s 2>&1" % os.path.join(BUILD, "harness_target"), cwd=hdir, timeout=1800)
    if r.returncode != 0 or not os.path.exists(IMPL_RUN):
        raise BuildError("cargo build of the harness against /repo failed:\n" + r.stdout[-4000:])


def build_coq(force=False):
    """Full .vo build of the Coq development + extraction + OCaml driver (cached by content hash)."""
    os.makedirs(BUILD, exist_ok=True)
    stamp = os.path.join(BUILD, "coq.stamp")
    h = hashlib.sha256()
    for fp in coq_files() + [os.path.join(COQ, "_CoqProject"), os.path.join(ROOT, "ocaml", "driver.ml"),
                             os.path.join(ROOT, "build_model.sh")]:
        h.update(fp.encode())
        h.update(open(fp, "rb").read())
    h = h.hexdigest()
    if not force and os.path.exists(stamp) and open(stamp).read() == h and os.path.exists(MODEL_RUN):
        return
    r = sh("./build_model.sh 2>&1", cwd=ROOT, timeout=3300)
    if r.returncode != 0 or not os.path.exists(MODEL_RUN):
        raise BuildError("Coq/OCaml build failed:\n" + r.stdout[-6000:])
    if re.search(r"^Error|^File .*\n.*Error", r.stdout, re.M):
        raise BuildError("Coq build reported errors:\n" + r.stdout[-6000:])
    with open(stamp, "w") as f:
        f.write(h)


def ensure_built():
    with Lock():
        build_coq()
        build_harness()


# ---------------------------------------------------------------- scripts

def split_scripts(text):
    """-> list of (name, [lines])"""
    out, cur, name = [], None, None
    for l in text.splitlines():
        l = l.strip()
        if l.startswith("#"):
            name, cur = l[1:].strip(), []
        elif l == "---":
            if cur is not None:
                out.append((name, cur))
            cur = None
        elif l and cur is not None:
            cur.append(l)
    return out


def join_scripts(scripts):
    return "".join("# %s\n%s\n---\n" % (n, "\n".join(ls)) for n, ls in scripts)


def run_tool(tool, mode, text, timeout=1200):
    r = subprocess.run([tool, mode], input=text, stdout=subprocess.PIPE, stderr=subprocess.PIPE,
                       text=True, timeout=timeout)
    return r.returncode, r.stdout, r.stderr


def run_sharded(tool, mode, scripts, timeout=1200, shards=NPROC):
    """Run scripts through a tool in parallel shards; returns dict name -> output lines
    (a shard that crashes or hangs yields 'CRASH'/'HANG' outputs for its unfinished scripts)."""
    if not scripts:
        return {}
    shards = max(1, min(shards, len(scripts)))
    chunks = [scripts[i::shards] for i in range(shards)]

    def work(chunk):
        res = {}
        todo = list(chunk)
        while todo:
            try:
                rc, out, err = run_tool(tool, mode, join_scripts(todo), timeout)
            except subprocess.TimeoutExpired as e:
                out = e.stdout or ""
                if isinstance(out, bytes):
                    out = out.decode(errors="replace")
                rc, err = -9, "shard timeout"
            got = dict(split_scripts(out))
            res.update(got)
            if rc == 0:
                for n, _ in todo:
                    res.setdefault(n, ["MISSING"])
                break
            # the tool stopped early (watchdog exit 3, crash, shard timeout): mark the first script
            # without output and carry on with the ones after it
            k = next((j for j, (n, _) in enumerate(todo) if n not in got), None)
            if k is None:
                break
            if rc != 3:
                res[todo[k][0]] = ["HANG" if rc == -9 else "CRASH rc=%d %s" % (rc, " ".join(err.strip().split())[-160:])]
                todo = todo[k + 1:]
            else:
                todo = todo[k:]
                if todo and todo[0][0] in got:
                    todo = todo[1:]
        return res

    res = {}
    with ThreadPoolExecutor(max_workers=shards) as ex:
        for r in ex.map(work, chunks):
            res.update(r)
    return res


def differential(mode, scripts, timeout=1200):
    """-> (model_out, impl_out, [names that differ])"""
    m = run_sharded(MODEL_RUN, mode, scripts, timeout)
    i = run_sharded(IMPL_RUN, mode, scripts, timeout)
    bad = [n for n, _ in scripts if m.get(n) != i.get(n)]
    return m, i, bad


def shrink(lines, still_fails, max_steps=400):
    """Greedy delta debugging on operation lines."""
    steps = 0
    n = 2
    while len(lines) >= 2 and steps < max_steps:
        chunk = max(1, len(lines) // n)
        reduced = False
        for start in range(0, len(lines), chunk):
            cand = lines[:start] + lines[start + chunk:]
            steps += 1
            if cand and still_fails(cand):
                lines = cand
                n = max(n - 1, 2)
                reduced = True
                break
        if not reduced:
            if chunk == 1:
                break
            n = min(len(lines), n * 2)
    # bracket pairs cannot be removed one line at a time: try to unwrap each block (drop the pair, keep its body)
    changed = True
    while changed and steps < max_steps * 2:
        changed = False
        stack = []
        pairs = []
        for i, l in enumerate(lines):
            if l.strip() == "{":
                stack.append(i)
            elif l.strip() == "}" and stack:
                pairs.append((stack.pop(), i))
        for i, j in pairs:
            cand = lines[:i] + lines[i + 1:j] + lines[j + 1:]
            steps += 1
            if cand and still_fails(cand):
                lines = cand
                changed = True
                break
    return lines


# ---------------------------------------------------------------- Coq audit

FORBIDDEN = re.compile(
    r"\b(Admitted|admit|Axiom|Axioms|Parameter|Parameters|Conjecture|Admit Obligations|"
    r"Unset Guard Checking|Unset Positivity Checking|Unset Universe Checking|bypass_check|"
    r"type-in-type|impredicative-set)\b")
ALLOWED_AXIOMS = set()  # none needed so far; any addition must be named in DESIGN.md section 8


def strip_comments(src):
    out, depth, i = [], 0, 0
    while i < len(src):
        if src.startswith("(*", i):
            depth += 1
            i += 2
        elif src.startswith("*)", i) and depth > 0:
            depth -= 1
            i += 2
        else:
            if depth == 0:
                out.append(src[i])
            i += 1
    return "".join(out)


def coq_files():
    """The files of the development = those listed in _CoqProject (+ the extraction file)."""
    fs = [os.path.join(COQ, "Extract", "Extract.v")]
    for l in open(os.path.join(COQ, "_CoqProject")):
        l = l.strip()
        if l.endswith(".v"):
            fs.append(os.path.join(COQ, l))
    return sorted(fs)


def audit_sources():
    """No Admitted/Axiom/... anywhere in the development (comments stripped). Hypothesis/Variable
    only inside sections."""
    problems = []
    for fp in coq_files():
        src = strip_comments(open(fp).read())
        for m in FORBIDDEN.finditer(src):
            problems.append("%s: forbidden token %r" % (os.path.relpath(fp, ROOT), m.group(0)))
        depth = 0
        for line in src.splitlines():
            t = line.strip()
            if re.match(r"Section\b", t):
                depth += 1
            elif re.match(r"End\b", t) and depth > 0:
                depth -= 1
            elif depth == 0 and re.match(r"(Hypothesis|Hypotheses|Variable|Variables|Context)\b", t):
                problems.append("%s: %s outside a section" % (os.path.relpath(fp, ROOT), t.split()[0]))
    proj = open(os.path.join(COQ, "_CoqProject")).read()
    if re.search(r"-type-in-type|-impredicative-set|-noinit", proj):
        problems.append("_CoqProject: forbidden flag")
    return problems


def coqc_props(pid):
    """Compile Props/<pid>.v afresh and parse what it proves.
    Returns dict(theorems=[...], closed=[...], open={name: [axioms]}, output=str, ok=bool)."""
    fp = os.path.join(COQ, "Props", pid + ".v")
    if not os.path.exists(fp):
        return dict(ok=False, theorems=[], closed=[], open={}, output="no Props/%s.v" % pid, missing=True)
    r = sh(["timeout", "900", "coqc", "-Q", "Model", "Sodium", "-Q", "Spec", "Sodium", "-Q", "Proofs", "Sodium",
            "-Q", "Props", "Sodium", os.path.join("Props", pid + ".v")], cwd=COQ, timeout=1000)
    out = r.stdout + r.stderr
    src = strip_comments(open(fp).read())
    theorems = re.findall(r"^\s*(?:Theorem|Lemma|Corollary|Example)\s+([A-Za-z0-9_']+)", src, re.M)
    printed = re.findall(r"^\s*Print Assumptions\s+([A-Za-z0-9_'.]+)\s*\.", src, re.M)
    # coqc prints one block per Print Assumptions, in order
    blocks = re.split(r"(?=Closed under the global context|Axioms:)", out)
    blocks = [b for b in blocks if b.startswith("Closed under") or b.startswith("Axioms:")]
    closed, opened = [], {}
    for name, b in zip(printed, blocks):
        if b.startswith("Closed under"):
            closed.append(name)
        else:
            ax = re.findall(r"^([A-Za-z0-9_'.]+)\s*:", b, re.M)
            ax = [a for a in ax if a != "Axioms"]
            if all(a in ALLOWED_AXIOMS for a in ax):
                closed.append(name)
            else:
                opened[name] = ax
    ok = (r.returncode == 0 and len(blocks) == len(printed) and not opened
          and all(t in printed for t in theorems))
    return dict(ok=ok, theorems=theorems, closed=closed, open=opened, output=out[-3000:],
                rc=r.returncode, printed=printed, missing=False)


def coqchk(mods):
    """independent re-check of the compiled files of the given Props modules (and everything they depend on)
    with coqchk; returns (ok, summary)"""
    mods = [m for m in mods if os.path.exists(os.path.join(COQ, "Props", m + ".vo"))]
    if not mods:
        return True, "no compiled Props module"
    r = sh(["timeout", "3000", "coqchk", "-o", "-silent", "-Q", "Model", "Sodium", "-Q", "Spec", "Sodium", "-Q", "Proofs",
            "Sodium", "-Q", "Props", "Sodium"] + ["Sodium." + m for m in mods], cwd=COQ, timeout=3100)
    out = r.stdout + r.stderr
    ok = (r.returncode == 0 and "* Axioms: <none>" in out and "type-in-type: <none>" in out
          and "unsafe (co)fixpoints: <none>" in out and "positivity is assumed: <none>" in out)
    return ok, " ".join(out.split())[-400:]


# ---------------------------------------------------------------- results

def write_replay(pid, tag, files):
    d = os.path.join(REPLAYS, pid, tag)
    os.makedirs(d, exist_ok=True)
    for name, content in files.items():
        with open(os.path.join(d, name), "w") as f:
            f.write(content)
    return d


def load_known():
    """known_findings.txt -> (findings, fixed); findings: list of dict(property, cls, text)."""
    findings, fixed = [], []
    p = os.path.join(ROOT, "known_findings.txt")
    if os.path.exists(p):
        for l in open(p):
            l = l.strip()
            if l.startswith("finding:"):
                m = re.match(r"finding:\s+property=(\S+)\s+class=(\S+)\s+(.*)", l)
                if m:
                    findings.append(dict(property=m.group(1), cls=m.group(2), text=m.group(3)))
            elif l.startswith("fixed:"):
                fixed.append(l)
    return findings, fixed


def write_evidence(pid, tier, seed, level, coverage, assumptions, wall, violations):
    os.makedirs(os.path.join(ROOT, "evidence"), exist_ok=True)
    ev = dict(property_id=pid, tier=tier, seed=int(seed), level=level, coverage=coverage,
              assumptions=assumptions, wall_s=round(wall, 2), violations=int(violations))
    with open(os.path.join(ROOT, "evidence", pid + ".json"), "w") as f:
        json.dump(ev, f, indent=1, sort_keys=True)
        f.write("\n")


TRUSTED_BASE = [
    "Coq 8.16.1 kernel (coqc); vm_compute used in Examples/witnesses; no native_compute",
    "axioms: none (every Print Assumptions must print 'Closed under the global context')",
    "extraction: ExtrOcamlBasic only (bool/option/list/prod/unit/sumbool); no Extract Constant; OCaml 4.13.1",
    "ocaml/driver.ml (script parser/printer, generators), harness/ (impl_run, public API + cfg hooks), vcheck/vlib (diff, shrink, oracles)",
    "hooks in /repo under cfg(sodiumfrp_sodium_rust_verif): read-only accessors, trace counters, update log",
]
