"""C19 (contexts are isolated) and C20 (one context shared by threads)."""
import os, random, re
from . import common as C
from .runner import Prop, Batch
from .frpgen import Profile, gen_scripts
from .frpprops import FrpProp, strip_ann, W


def to_scoped(lines, tbase):
    """closure brackets -> scoped transactions, so that two scripts can be interleaved line by line"""
    out, stack, k = [], [], tbase
    for l in lines:
        if l.strip() == "{":
            out.append("tnew %d" % k)
            stack.append(k)
            k += 1
        elif l.strip() == "}":
            out.append("tclose %d" % stack.pop())
        else:
            out.append(l)
    return out


GLOBAL_STATE = re.compile(r"^\s*(pub\s+)?static\s|thread_local!|lazy_static!|OnceCell|OnceLock|LazyLock|once_cell")


def scan_global_state(root=None):
    root = root or os.path.join(C.REPO, "src")
    hits = []
    for d, _, fs in os.walk(root):
        for f in fs:
            if f.endswith(".rs") and "tests" not in d and f != "tests.rs":
                for k, line in enumerate(open(os.path.join(d, f), errors="replace")):
                    code = line.split("//")[0]
                    if GLOBAL_STATE.search(code):
                        hits.append("%s:%d: %s" % (os.path.join(d, f), k + 1, line.strip()))
    return hits


class C19(FrpProp):
    pid = "C19"
    tag = "c19"
    default_mode = "frp-multi"
    profile = Profile(w=W(sloop=2, cloop=2, switch_s=2, switch_c=2, defer=2, split=1, router=1), p_mem=0.3, n_txn=(3, 8),
                      n_defs=(3, 9), final_teardown=False)
    counts = (400, 12000)
    rule = ("pairs/triples of generated scripts on distinct contexts, interleaved line by line on one thread (brackets as scoped "
            "transactions, so one context's transaction is open while the other runs) and run with one OS thread per context; each "
            "context's outputs and hidden accounting (node count, queue lengths, depth) must equal, line by line, those of the same "
            "script run alone, and equal the specification; plus a source scan for global state. Non-trivial = some listener call.")
    level_text = ("Theorem C19_frame over Model/Contexts.v (one specification state per context): in any interleaving on any number of "
                  "contexts each context goes through exactly the states and observations of its own operations run alone, also inside "
                  "another context's open transaction. That the implementation's state IS per context is the measured tie: "
                  "interleaved and threaded runs equal the solo runs bit-exactly, including memory accounting; static scan finds no "
                  "global state. PARTIAL: real parallel execution (memory ordering, allocator) is runtime behaviour no executable "
                  "Gallina model exhibits.")

    def batches(self, tier, seed):
        n = self.counts[0] if tier == "quick" else self.counts[1]
        base = gen_scripts(int(seed), 3 * n, self.profile, self.tag)
        rng = random.Random(int(seed) * 7919 + 1)
        multi, singles = [], []
        for k in range(n):
            parts = base[3 * k: 3 * k + (3 if k % 4 == 0 else 2)]
            tagged = []
            for ci, (nm, lines) in enumerate(parts):
                c = "ABC"[ci]
                sc = to_scoped(lines, 100 * ci)
                singles.append(("m%d_%d/%s" % (seed, k, c), ["%s:%s" % (c, l) for l in sc]))
                tagged.append([(c, l) for l in sc])
            # random interleaving preserving each script's order
            merged, idx = [], [0] * len(tagged)
            while any(i < len(t) for i, t in zip(idx, tagged)):
                c = rng.choice([j for j in range(len(tagged)) if idx[j] < len(tagged[j])])
                merged.append("%s:%s" % tagged[c][idx[c]])
                idx[c] += 1
            multi.append(("m%d_%d" % (seed, k), merged))
        self.solo = C.run_sharded(C.IMPL_RUN, "frp-multi", singles, 600)
        self.solo_lines = dict(singles)
        self.global_hits = scan_global_state()
        yield Batch("frp-multi", multi, "interleaved-one-thread", compare=False)
        yield Batch("frp-threads", multi, "one-thread-per-context", compare=False)

    def oracle(self, batch, name, lines, out):
        if self.global_hits:
            return "global state in the library source: " + "; ".join(self.global_hits[:3])
        per = {}
        for o in out:
            if len(o) > 1 and o[1] == ":":
                per.setdefault(o[0], []).append(o)
            else:
                return "unexpected output %r" % o[:80]
        for c, os_ in per.items():
            solo = self.solo.get("%s/%s" % (name, c))
            if solo is None:
                return "no solo run for context %s" % c
            if solo != os_:
                k = next((j for j, (x, y) in enumerate(zip(solo, os_)) if x != y), min(len(solo), len(os_)))
                return ("context %s behaves differently next to the other context(s) than alone (%s): line %d (%s): alone %r, "
                        "together %r" % (c, batch.label, k + 1, self.solo_lines["%s/%s" % (name, c)][k] if k < len(solo) else "?",
                                         solo[k] if k < len(solo) else None, os_[k] if k < len(os_) else None))
        return None

    def well_formed(self, lines):
        return True

    def nontrivial(self, batch, name, lines, out):
        return any("=[" in o for o in out)


class C20(Prop):
    pid = "C20"
    default_mode = "thr-run"
    design_ref = "DESIGN.md section 6 C20"
    counts = (60, 2000)
    rule = ("(a) deterministic replays of two-thread bracket/send schedules on one context (each step executed by its own OS thread, "
            "closures really open on both): the implementation's per-step deliveries must equal Model/Threads.v's; schedules whose "
            "outermost brackets do not overlap must also be serialisable; overlapping ones are the known-finding class K2; "
            "(b) stress: N threads x M transactions under an external lock must deliver every send exactly once with no panic; "
            "without the lock (class K2) anomalies are reported as known finding. Non-trivial = at least one delivery.")
    level_text = ("Theorems over Model/Threads.v: C20_overlap_refuted (overlapping brackets give an execution equal to no serial order), "
                  "C20_nonoverlap_serial (whole non-overlapping transactions compose sequentially), C20_bracket_thread_irrelevant (re-labelling the "
                  "thread of any bracket step leaves the execution unchanged: a scoped transaction handed to another thread behaves like one "
                  "run by a single thread). Tie: deterministic schedule replay on "
                  "the real library (closure brackets, and scoped transactions opened by one thread and closed by the other) equals the "
                  "model step by step - for schedules whose brackets do not overlap the model is the serial specification, a difference "
                  "is a failing input; locked stress test. The property itself FAILS on the unchanged tree "
                  "(known finding K2: no transaction lock). PARTIAL: data races on collector state are outside the model.")
    assumptions = ["schedule replay hands a token between two OS threads; each step acknowledged before the next starts",
                   "stress results depend on the scheduler; the locked variant must be exact on every run"]

    def batches(self, tier, seed):
        rng = random.Random(int(seed))
        n = self.counts[0] if tier == "quick" else self.counts[1]
        scripts = [("overlap", ["interleaving", "A {", "A send 1", "B {", "B send 100", "A }", "B }"]),
                   ("serial_ab", ["interleaving", "A {", "A send 1", "A }", "B {", "B send 100", "B }"]),
                   ("serial_ba", ["interleaving", "B {", "B send 100", "B }", "A {", "A send 1", "A }"]),
                   ("handoff", ["interleaving", "A topen 0", "A send 7", "B tclose 0"])]
        for k in range(n):
            # random schedules: each thread has 1-3 transactions of 1-2 sends, possibly nested brackets
            prog = {}
            for t in "AB":
                steps = []
                for _ in range(rng.randint(1, 3)):
                    nest = rng.random() < 0.3
                    steps.append("{")
                    if nest:
                        steps.append("{")
                    for _ in range(rng.randint(1, 2)):
                        steps.append("send %d" % rng.randint(1, 50))
                    if nest:
                        steps.append("}")
                    steps.append("}")
                prog[t] = steps
            overlap = rng.random() < 0.4
            lines = ["interleaving"]
            ia = ib = 0
            if overlap:
                while ia < len(prog["A"]) or ib < len(prog["B"]):
                    t = rng.choice([x for x in "AB" if (ia if x == "A" else ib) < len(prog[x])])
                    if t == "A":
                        lines.append("A " + prog["A"][ia]); ia += 1
                    else:
                        lines.append("B " + prog["B"][ib]); ib += 1
            else:
                # whole outermost transactions alternate at random
                def blocks(steps):
                    out, cur, d = [], [], 0
                    for s in steps:
                        cur.append(s)
                        d += 1 if s == "{" else (-1 if s == "}" else 0)
                        if d == 0:
                            out.append(cur); cur = []
                    return out
                ba, bb = blocks(prog["A"]), blocks(prog["B"])
                while ba or bb:
                    t = rng.choice([x for x, b in (("A", ba), ("B", bb)) if b])
                    blk = (ba if t == "A" else bb).pop(0)
                    lines += ["%s %s" % (t, s) for s in blk]
            scripts.append(("sched%d_%d_%s" % (seed, k, "ov" if overlap else "no"), lines))
        # a scoped transaction handed to the other thread: opened (ctx.new_transaction()) by one thread, closed by the
        # other while the opener waits - brackets never overlap, the close simply happens on another thread
        for k in range(max(4, n // 4)):
            lines = ["interleaving"]
            for j in range(rng.randint(1, 4)):
                a, b = rng.choice(["AB", "BA", "AA", "BB"])
                kind = rng.random()
                if kind < 0.6:
                    lines.append("%s topen %d" % (a, j))
                    for _ in range(rng.randint(1, 2)):
                        lines.append("%s send %d" % (a, rng.randint(1, 50)))
                    lines.append("%s tclose %d" % (b, j))
                else:
                    lines += ["%s {" % a] + ["%s send %d" % (a, rng.randint(1, 50)) for _ in range(rng.randint(1, 2))] + ["%s }" % a]
            scripts.append(("handoff%d_%d" % (seed, k), lines))
        yield Batch("thr-run", scripts, "schedule-replay", timeout=600)
        st = []
        for k in range(4 if tier == "quick" else 40):
            st.append(("stress_locked_%d" % k, ["stress %d %d locked" % (rng.randint(2, 8), rng.randint(50, 400))]))
            st.append(("stress_unlocked_%d" % k, ["stress %d %d unlocked" % (rng.randint(2, 8), rng.randint(50, 400))]))
        yield Batch("thr-run", st, "stress", timeout=600)

    @staticmethod
    def overlapping(lines):
        """do outermost brackets of different threads overlap in this schedule?"""
        depth, owner = 0, None
        for l in lines[1:]:
            w = l.split()
            if len(w) < 2:
                continue
            if w[1] in ("{", "topen"):
                if depth > 0 and owner != w[0]:
                    return True
                if depth == 0:
                    owner = w[0]
                depth += 1
            elif w[1] == "tclose":
                depth -= 1          # a handed-over scoped transaction may be closed by the other thread
            elif w[1] == "}":
                if owner != w[0]:
                    return True
                depth -= 1
            elif depth > 0 and owner != w[0]:
                return True
        return False

    # for schedules whose brackets do not overlap the model IS the serial semantics: a difference is a failing input
    spec_is_oracle = True

    def agree(self, batch, name, lines, mout, io):
        if lines and lines[0].startswith("stress") and "unlocked" in lines[0]:
            return None      # judged by the oracle (known-finding class K2), not by the correspondence
        return Prop.agree(self, batch, name, lines, mout, io)

    def oracle(self, batch, name, lines, out):
        for o in out:
            if o.startswith(("HANG", "CRASH", "MISSING", "panic", "harness-error")):
                return "the library hung or aborted: %s" % o[:120]
        if lines and lines[0].startswith("stress"):
            m = re.match(r"sent=(\d+) delivered=\[([^\]]*)\] total=(-?\d+) expected=(-?\d+) panics=(\d+) nodes=(-?\d+)", out[0] if out else "")
            if not m:
                return "unparsable stress result %r" % (out[:1],)
            w = lines[0].split()
            per = int(w[2])
            delivered = [int(x) for x in m.group(2).split(",")]
            if int(m.group(5)) or any(d != per for d in delivered) or m.group(3) != m.group(4) or m.group(6) != "0":
                return ("stress %s: %s (every send must be delivered exactly once, no panic, and after the teardown no node may "
                        "be left)" % (" ".join(w[1:]), out[0]))
            return None
        if self.overlapping(lines):
            # serialisability: a listener must be called once per transaction that sends to its stream
            calls = sum(len(re.findall(r"L0=\[", o)) for o in out)
            txns = sum(1 for l in lines[1:] if l.split()[1] == "{") - sum(0 for _ in ())
            outer = 0
            depth = {}
            for l in lines[1:]:
                w = l.split()
                if w[1] == "{":
                    depth[w[0]] = depth.get(w[0], 0) + 1
                    if depth[w[0]] == 1:
                        outer += 1
                elif w[1] == "}":
                    depth[w[0]] -= 1
            if calls != outer:
                return ("overlapping brackets of two threads were merged: the merge listener was called %d time(s) for %d "
                        "transactions (equal to no serial order)" % (calls, outer))
        return None

    def known_class(self, batch, name, lines, out, why):
        if lines and lines[0].startswith("stress") and "unlocked" in lines[0]:
            return "K2"
        if lines and lines[0] == "interleaving" and self.overlapping(lines):
            return "K2"
        return None

    def nontrivial(self, batch, name, lines, out):
        return any("=[" in o or "delivered" in o for o in out)
