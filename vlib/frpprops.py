"""FRP-level properties: scripts through the public API compared with the denotational spec
(Spec/Sodium.v, extracted) -- the spec is the oracle for these properties."""
import re, random
from . import common as C
from .runner import Prop, Batch
from .frpgen import Profile, gen_scripts


def strip_ann(lines):
    return [l.split(" #", 1)[0] for l in lines]


def anns(line):
    if " #" not in line:
        return {}
    out = {}
    for kv in line.split(" #", 1)[1].split():
        if "=" in kv:
            k, v = kv.split("=", 1)
            out[k] = v
    return out


class FrpProp(Prop):
    default_mode = "frp-run"
    profile = Profile()
    tag = "frp"
    counts = (1500, 60000)
    rule = ("seeded, type-aware generator of legal FRP programs and histories through the public API (profile in "
            "coverage.profile); the implementation's per-listener call sequences, samples, forced lazies and post markers "
            "per script line must equal the denotational spec's (any allowed order of deferred transactions). "
            "Non-trivial = at least one listener call or sample observed; distinct by digest of script+observations.")

    def batches(self, tier, seed):
        n = self.counts[0] if tier == "quick" else self.counts[1]
        yield Batch("frp-run", gen_scripts(int(seed), n, self.profile, self.tag), "random:" + self.tag)

    def oracle(self, batch, name, lines, out):
        # handled by the runner's spec comparison (spec_is_oracle); extra checks in subclasses
        for k, o in enumerate(out):
            if o.startswith(("HANG", "CRASH", "MISSING")):
                return "line %d: %s" % (k + 1, o)
            if o.startswith("panic") and "AlreadyLooped" not in o and "SampledBeforeLoop" not in o:
                return "line %d (%s): the library aborted: %s" % (k + 1, lines[k] if k < len(lines) else "?", o)
        return self.extra_oracle(lines, out)

    def extra_oracle(self, lines, out):
        return None

    spec_is_oracle = True

    def agree(self, batch, name, lines, mout, io):
        io2 = strip_ann(io)
        if getattr(self, "_alt_src", None) is not mout:
            idx = {}
            for k, v in mout.items():
                idx.setdefault(k.split("@", 1)[0], []).append((k, v))
            for k in idx:
                idx[k].sort(key=lambda kv: (len(kv[0]), kv[0]))
            self._alt_src, self._alt_idx = mout, idx
        alts = [v for _, v in self._alt_idx.get(name, [])]
        if not alts:
            return "no specification output"
        if any("illegal" in x for x in alts[0]):
            return None     # not a legal program (instantaneous cycle): nothing is specified
        if io2 in alts:
            return None
        mo = alts[0]
        k = next((j for j, (x, y) in enumerate(zip(mo, io2)) if x != y), min(len(mo), len(io2)))
        return "line %d (%s): specified %r%s, observed %r" % (
            k + 1, lines[k] if k < len(lines) else "?", mo[k] if k < len(mo) else None,
            " (or %d other allowed orders of deferred transactions)" % (len(alts) - 1) if len(alts) > 1 else "",
            io2[k] if k < len(io2) else None)

    def nontrivial(self, batch, name, lines, out):
        return any(("L" in o and "=[" in o) or o.startswith("sample") for o in out)

    def extra_coverage(self):
        return {"profile": {k: v for k, v in self.profile.__dict__.items()}}


class C02(FrpProp):
    pid = "C02"
    tag = "c02"
    profile = Profile(w=dict(map=10, map_to=3, filter=6, filter_opt=3, gate=4, merge=10, or_else=4, snapshot=8, snapshot1=2,
                             once=4, hold=5, csink=3, sink=5, sink_co=2, const=2, never=1, map_c=2, lift=2),
                      p_def_in_txn=0.1, n_defs=(4, 14))
