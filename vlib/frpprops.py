"""FRP-level properties: scripts through the public API compared with the denotational spec
(Spec/Sodium.v, extracted) -- the spec is the oracle for these properties."""
import re, random
from . import common as C
from .runner import Prop, Batch
from .frpgen import Profile, gen_scripts


def strip_ann(lines):
    return [l.split(" #", 1)[0] for l in lines]


def anns(line):
    if " #" not in line:
        return {}
    out = {}
    for kv in line.split(" #", 1)[1].split():
        if "=" in kv:
            k, v = kv.split("=", 1)
            out[k] = v
    return out


class FrpProp(Prop):
    default_mode = "frp-run"
    profile = Profile()
    tag = "frp"
    counts = (1500, 60000)
    rule = ("seeded, type-aware generator of legal FRP programs and histories through the public API (profile in "
            "coverage.profile); the implementation's per-listener call sequences, samples, forced lazies and post markers "
            "per script line must equal the denotational spec's (any allowed order of deferred transactions). "
            "Non-trivial = at least one listener call or sample observed; distinct by digest of script+observations.")

    def batches(self, tier, seed):
        n = self.counts[0] if tier == "quick" else self.counts[1]
        yield Batch("frp-run", gen_scripts(int(seed), n, self.profile, self.tag), "random:" + self.tag)

    def oracle(self, batch, name, lines, out):
        # handled by the runner's spec comparison (spec_is_oracle); extra checks in subclasses
        for k, o in enumerate(out):
            if o.startswith(("HANG", "CRASH", "MISSING")):
                return "line %d: %s" % (k + 1, o)
            if o.startswith("panic") and "AlreadyLooped" not in o and "SampledBeforeLoop" not in o:
                return "line %d (%s): the library aborted: %s" % (k + 1, lines[k] if k < len(lines) else "?", o)
        return self.extra_oracle(lines, out)

    def extra_oracle(self, lines, out):
        return None

    spec_is_oracle = True

    def nontrivial(self, batch, name, lines, out):
        return any(("L" in o and "=[" in o) or o.startswith("sample") for o in out)

    def extra_coverage(self):
        return {"profile": {k: v for k, v in self.profile.__dict__.items()}}


class C02(FrpProp):
    pid = "C02"
    tag = "c02"
    profile = Profile(w=dict(map=10, map_to=3, filter=6, filter_opt=3, gate=4, merge=10, or_else=4, snapshot=8, snapshot1=2,
                             once=4, hold=5, csink=3, sink=5, sink_co=2, const=2, never=1, map_c=2, lift=2),
                      p_def_in_txn=0.1, n_defs=(4, 14))
