"""FRP-level properties: scripts through the public API compared with the denotational spec
(Spec/Sodium.v, extracted) -- the spec is the oracle for these properties."""
import re, random
from . import common as C
from .runner import Prop, Batch
from .frpgen import Profile, gen_scripts, is_K1, is_K5, is_K3_leak, is_K3_lazy, is_K6


def strip_ann(lines):
    return [l.split(" #", 1)[0] for l in lines]


def anns(line):
    if " #" not in line:
        return {}
    out = {}
    for kv in line.split(" #", 1)[1].split():
        if "=" in kv:
            k, v = kv.split("=", 1)
            out[k] = v
    return out


DEF_OPS = {"sink", "sink_co", "csink", "const", "never", "map", "map_to", "filter", "filter_opt", "merge", "or_else", "snapshot",
           "snapshot1", "map_s", "map_sl", "gate", "once", "hold", "hold_lazy", "updates", "value", "map_c", "map_cmk", "lift", "accum", "accum_lazy", "collect",
           "collect_lazy", "switch_s", "switch_c", "sloop", "cloop", "defer", "split", "router", "route"}


def distribution(scripts):
    """measured shape of the generated inputs (evidence: what the generator actually produced)"""
    import collections
    ops = collections.Counter()
    feat = collections.Counter()
    lens, simul = [], collections.Counter()
    for _, lines in scripts:
        lens.append(len(lines))
        depth, sent, seen = 0, set(), set()
        for l in lines:
            w = l.split()
            if w and w[-1].startswith("keep:"):
                w = w[:-1]
            if not w:
                continue
            ops[w[0]] += 1
            if w[0] in ("{", "tnew"):
                depth += 1
                if depth > 1:
                    seen.add("nested_brackets")
            elif w[0] in ("}", "tclose", "tdrop"):
                if depth == 1:
                    simul[min(len(sent), 4)] += 1
                    sent = set()
                depth = max(0, depth - 1)
            elif w[0] == "send":
                if depth > 0:
                    sent.add(w[1])
                else:
                    simul[1] += 1
            if w[0] in ("sloop", "cloop"):
                seen.add("loops")
            if w[0] in ("switch_s", "switch_c"):
                seen.add("switches")
            if w[0] in ("defer", "split", "post"):
                seen.add("deferred_work")
            if w[0] in DEF_OPS and depth > 0 and w[0] not in ("sloop", "cloop"):
                seen.add("construction_inside_transaction")
            if w[0].startswith("listen") and depth > 0:
                seen.add("listen_inside_transaction")
            if w[0] in ("unlisten", "drop_weak"):
                seen.add("unlisten")
            if w[0] in ("drop", "clone", "gc"):
                seen.add("handle_churn")
            if w[0] in ("sample_lazy", "force", "hold_lazy", "accum_lazy", "lazy_new"):
                seen.add("lazies")
            if w[0] in ("tnew",):
                seen.add("scoped_transactions")
        for f in seen:
            feat[f] += 1
    n = max(1, len(scripts))
    return {"scripts": len(scripts), "mean_lines": round(sum(lens) / n, 1), "max_lines": max(lens) if lens else 0,
            "operations": dict(ops.most_common()),
            "fraction_of_scripts_with": {k: round(v / n, 3) for k, v in sorted(feat.items())},
            "transactions_by_number_of_distinct_sinks_sent": {str(k): v for k, v in sorted(simul.items())}}


class FrpProp(Prop):
    default_mode = "frp-run"
    category = "proof"
    design_ref = "DESIGN.md section 6"
    level_text = ("The implementation's observations (per-listener call sequences, samples, forced lazies, post markers, panics) equal "
                  "those of the executable denotational specification Spec/Sodium.v (extracted from Coq) on every generated script of "
                  "this property's profile; theorems about the specification and the mechanism models are listed in the evidence when "
                  "Props/<id>.v exists.")
    technique = "Coq specification extracted to OCaml as the oracle + differential correspondence; Coq theorems where listed"
    profile = Profile()
    tag = "frp"
    counts = (3000, 60000)
    rule = ("seeded, type-aware generator of legal FRP programs and histories through the public API (profile in "
            "coverage.profile); the implementation's per-listener call sequences, samples, forced lazies and post markers "
            "per script line must equal the denotational spec's (any allowed order of deferred transactions). "
            "Non-trivial = at least one listener call or sample observed; distinct by digest of script+observations.")

    def batches(self, tier, seed):
        n = self.counts[0] if tier == "quick" else self.counts[1]
        scripts = gen_scripts(int(seed), n, self.profile, self.tag)
        self._dist = distribution(scripts)
        yield Batch("frp-run", scripts, "random:" + self.tag)

    def oracle(self, batch, name, lines, out):
        # handled by the runner's spec comparison (spec_is_oracle); extra checks in subclasses
        for k, o in enumerate(out):
            if o.startswith(("HANG", "CRASH", "MISSING")):
                return "line %d: %s" % (k + 1, o)
            if o.startswith("panic") and "AlreadyLooped" not in o and "SampledBeforeLoop" not in o:
                return "line %d (%s): the library aborted: %s" % (k + 1, lines[k] if k < len(lines) else "?", o)
        return self.extra_oracle(lines, out)

    def extra_oracle(self, lines, out):
        return None

    def known_class(self, batch, name, lines, out, why):
        leak = "still alive after every handle was dropped" in why
        if (leak or "FreedNonZero" in why) and is_K6(lines):
            return "K6"
        if leak and is_K5(lines):
            return "K5"
        if leak and is_K3_leak(lines):
            return "K3"
        if not leak and ("forced" in why or "sample" in why or "=[" in why) and is_K3_lazy(lines):
            return "K3"
        if not leak and is_K1(lines):
            return "K1"
        return None

    spec_is_oracle = True

    def run_model(self, batch, scripts, iout, shards=C.NPROC):
        """guided run of the specification: each line carries the implementation's observation, so that
        among the allowed orders of deferred transactions the one the implementation took is followed"""
        guided = []
        for name, lines in scripts:
            io = strip_ann(iout.get(name, []))
            guided.append((name, ["%s || %s" % (l, io[k]) if k < len(io) else l for k, l in enumerate(lines)]))
        return C.run_sharded(C.MODEL_RUN, "frp-check", guided, batch.timeout, shards)

    def well_formed(self, lines):
        """balanced brackets, and every loop is closed inside the block that created it"""
        d = 0
        open_loops = []      # (slot, depth)
        for l in lines:
            w = l.split()
            if w and w[-1].startswith("keep:"):
                w = w[:-1]
            if not w:
                continue
            if w[0] == "{":
                d += 1
            elif w[0] == "}":
                if any(dd == d for _, dd in open_loops):
                    return False
                d -= 1
                if d < 0:
                    return False
            elif w[0] in ("sloop", "cloop"):
                if d == 0:
                    return False
                open_loops.append((w[1], d))
            elif w[0] in ("sloop_close", "cloop_close"):
                open_loops = [(h, dd) for h, dd in open_loops if h != w[1]]
        return d == 0 and not open_loops

    def agree(self, batch, name, lines, mout, io):
        io2 = strip_ann(io)
        mo = mout.get(name)
        if mo is None:
            return "no specification output"
        if any("illegal" in x for x in mo):
            return None     # not a legal program (instantaneous cycle): nothing is specified
        if any(x.startswith("inconclusive:") for x in mo):
            # the guided search over allowed orders of deferred transactions ran out of budget before finding the
            # implementation's order: neither agreement nor disagreement is established; counted in the evidence
            return "INCONCLUSIVE: order search budget exhausted"
        mo_full = mo
        mo = strip_ann(mo)
        if io2 == mo:
            return self.update_log_agree(lines, mo_full, io)
        k = next((j for j, (x, y) in enumerate(zip(mo, io2)) if x != y), min(len(mo), len(io2)))
        return "line %d (%s): specified %r (or another allowed order of deferred transactions, none of which matches), observed %r" % (
            k + 1, lines[k] if k < len(lines) else "?", mo[k] if k < len(mo) else None,
            io2[k] if k < len(io2) else None)

    def update_log_agree(self, lines, mo, io):
        """the operational characterisation proved for the engine model (Refine: an update closure runs in a transaction
        iff one of its instantaneous dependencies fired, once, after its dependencies) evaluated on the implementation's
        real update log, for the definitions whose node is the definition's own node"""
        dropped = set()
        aliases = {}
        for k, (m, o) in enumerate(zip(mo, io)):
            w = lines[k].split() if k < len(lines) else []
            if w and w[0] == "drop":
                dropped.add(w[1])
            if w and w[0] == "clone":
                aliases[w[2]] = aliases.get(w[1], w[1])
            am = anns(m)
            if "md" in am and "d" in anns(o) and am["md"] != anns(o)["d"]:
                return ("HIDDEN: line %d (%s): the context's transaction depth is %s, the bracket machine of the specification is at "
                        "depth %s" % (k + 1, lines[k] if k < len(lines) else "?", anns(o)["d"], am["md"]))
            if "uc" not in am:
                continue
            comp = set(x for x in am["uc"].split(",") if x) - dropped
            exp = set(x for x in am.get("ue", "").split(",") if x) - dropped
            got_l = [aliases.get(x, x) for x in anns(o).get("u", "").split(",") if x]
            got = set(got_l) & comp
            held = set(x for x in comp)     # slots whose handle the harness still holds can be observed
            if any(x in aliases for x in dropped):
                continue
            if got != exp & held:
                return ("HIDDEN: line %d (%s): update closures ran for definitions %s, the engine model prescribes %s (a closure runs iff one "
                        "of its instantaneous dependencies fired)" % (k + 1, lines[k] if k < len(lines) else "?",
                                                                     sorted(got, key=int), sorted(exp, key=int)))
            seen = [x for x in got_l if x in comp]
            if len(seen) != len(set(seen)):
                return "HIDDEN: line %d (%s): an update closure ran twice in one transaction: %s" % (k + 1, lines[k], seen)
        return None

    def nontrivial(self, batch, name, lines, out):
        return any(("L" in o and "=[" in o) or o.startswith("sample") for o in out)

    def extra_coverage(self):
        return {"profile": {k: v for k, v in self.profile.__dict__.items()},
                "input_distribution": getattr(self, "_dist", {})}



class C02(FrpProp):
    pid = "C02"
    level_text = "Theorems: (1) Props/Refine.v - for every program of the static fragment, every state and every set of simultaneous sends, the operational engine (Model/Engine.v running the transliterated update closures, Model/Net.v) ends every stream node with exactly the occurrence the specification assigns, each closure run at most once after its inputs settled, for every dependents order and send order, over whole histories; (2) Props/C02.v - the specification's equations for map/filter/merge (receiver left; or_else keeps left)/snapshot (pre-transaction cell values)/gate/once (first event only, flag set forever) at any depth of composition. Tie: spec correspondence on generated compositions + C03's exact engine correspondence."
    extra_props = ["Refine"]
    tag = "c02"
    profile = Profile(w=dict(map=10, map_to=3, filter=6, filter_opt=3, gate=4, merge=10, or_else=4, snapshot=8, snapshot1=2,
                             once=4, hold=5, csink=3, sink=5, sink_co=2, const=2, never=1, map_c=2, lift=2),
                      p_def_in_txn=0.1, n_defs=(4, 14))


W_ALL = dict(map=8, filter=4, merge=8, or_else=3, snapshot=6, gate=3, once=2, hold=8, updates=3, value=3,
             map_c=6, lift=6, accum=4, collect=3, filter_opt=2, map_to=2, snapshot1=2, const=2, never=1, csink=3,
             sink=4, sink_co=2, map_s=1, map_sl=1)


def W(**kw):
    d = dict(W_ALL)
    d.update(kw)
    return d


class C01(FrpProp):
    pid = "C01"

    def extra_oracle(self, lines, out):
        return quiescence_oracle(lines, out)
    extra_props = ["Refine"]
    level_text = 'Theorems over the specification Spec/Sodium.v for ALL programs/histories: listener calls are produced only by the step that closes the outermost transaction (any nesting of closure and scoped brackets); that close calls each active listener exactly once iff its stream fires, with that value, and nobody else; listener keys stay distinct; the next transaction starts with no sends (no carry-over). Refine_history: on the static fragment the operational engine delivers exactly these calls. Tie: differential correspondence of the real library against the extracted specification on generated scripts with sends/listens/constructions at every position of nested brackets.'
    tag = "c01"
    profile = Profile(w=W(defer=4, split=2), p_block=0.8, p_nested=0.3, p_scoped=0.25, p_def_in_txn=0.3, p_listen_late=0.5,
                      p_unlisten=0.2, n_txn=(4, 12), p_post=0.25)


class C04(FrpProp):
    pid = "C04"
    level_text = 'Theorems over the specification for ALL histories: every read during a transaction sees the pre-transaction value (sends do not change cur; sample position irrelevant); hold commits the event as next value with or without listeners and equals the last event so far; accum and collect, built exactly as the library builds them (loop + hold + snapshot), equal the left fold of the function over the whole event history with one update per input event; a cell created after its source fired takes that event. Refine_* : the engine computes the specified updates on the static fragment. Tie: spec correspondence with samples at random positions, reads from inside user functions during propagation (map_s/map_sl: a map whose function samples a cell strictly or through a Lazy, specified as the snapshot), lazies shared between cells, long histories.'
    extra_props = ["Refine"]
    tag = "c04"
    profile = Profile(w=W(hold=12, accum=8, collect=6, snapshot=10, csink=5, hold_lazy=5, accum_lazy=4, gate=4, map_s=6, map_sl=6,
                            defer=3, split=3), p_post=0.2,
                      p_sample=0.7, p_def_in_txn=0.25, n_txn=(5, 20), p_listen_late=0.2, p_lazy=0.25)


class C05(FrpProp):
    pid = "C05"
    extra_props = ["Refine", "K1"]
    level_text = "Theorems over the specification: switch_s follows the stream the outer cell held at the START of the transaction (effective next transaction, back and forth, same stream); switch_c's update in a switching transaction is the new inner's update or current value, otherwise the current inner's update; invariant: the switch_c cell always equals the cell currently held by the outer cell, preserved by every close over any history. Refine_*: switch_s is inside the proved engine fragment (its only dependency is the stream held at the start of the transaction, re-wired at commit); Props/K1.v: the program of the former known finding K1 (outer cell updated from the switch's own output; repaired in /repo) is acyclic and engine and specification agree on it. switch_c is inside the fragment too: the engine model has dynamic demands (a node may, from inside its update, bring another node up to date as a dependency - what switch_c's nested update_node2 does), tied exactly to the real engine at the raw level (C03 scripts with demanding nodes)."
    tag = "c05"
    profile = Profile(w=W(switch_s=10, switch_c=10, hold=8, map_c=6, defer=3, split=2, sloop=1, cloop=1), n_defs=(5, 14),
                      n_txn=(5, 16), p_block=0.7, p_sample=0.5, p_post=0.1, p_def_in_txn=0.25)


def unlisten_oracle(lines, out):
    """after unlisten returns the listener is never called again - also when unlisten was called from inside another
    listener's callback during the delivery of a transaction (raw global call order, annotation o=)"""
    killers = {}
    for l in lines:
        w = l.split()
        if w and w[-1].startswith("keep:"):
            w = w[:-1]
        if w and w[0] == "listen_u":
            killers[w[1]] = w[3]
    if not killers:
        return None
    dead = set()
    for k, o in enumerate(out):
        order = anns(o).get("o")
        seq = order.split(",") if order else []
        for lid in seq:
            if lid in dead:
                return ("line %d (%s): listener %s was called after unlisten() on it had returned (call order %s)"
                        % (k + 1, lines[k] if k < len(lines) else "?", lid, order))
            if lid in killers:
                dead.add(killers[lid])
        w = lines[k].split() if k < len(lines) else []
        if w and w[0] in ("listen", "listen_weak", "listen_c", "listen_cw", "listen_u") and w[1] in dead:
            dead.discard(w[1])
    return None


class C10(FrpProp):
    pid = "C10"
    extra_props = ["Refine"]

    def extra_oracle(self, lines, out):
        return unlisten_oracle(lines, out)
    level_text = "Theorems over the specification: after unlisten (at any depth, also inside an open transaction) no call to that listener ever again until re-registered; unlisten twice = once; a listener registered inside a transaction receives that transaction's event including sends made before the registration; Cell::listen delivers exactly the current value, or the update of that very transaction. Strong-listener keep-alive is covered by the correspondence under handle drops and collections (memory management is not in the specification)."
    tag = "c10"
    profile = Profile(w=W(), p_listen_late=0.8, p_unlisten=0.5, listen_cells=0.4, p_block=0.6, p_mem=0.2, weak=0.25,
                      n_txn=(5, 14), p_listen_u=0.15)


class C11(FrpProp):
    pid = "C11"
    extra_props = ["Refine", "K1"]
    level_text = 'Theorems over the specification: occ/upd/cur of a loop equal those of its target; substitution theorem: replacing every use of a loop by its target changes no occurrence, update, value, observation or failure of any transaction (for legal programs, any number of nested loops); double loop_ fails with AlreadyLooped and sampling an unlooped CellLoop fails with SampledBeforeLoop, propagating through map/lift, never yielding a value. Tie: generated loop programs; panic kinds compared.'
    tag = "c11"
    profile = Profile(w=W(sloop=8, cloop=8, hold=10, snapshot=8, hold_lazy=4, accum_lazy=3, switch_s=1, switch_c=1),
                      n_defs=(4, 10), n_txn=(4, 12), p_lazy=0.3, p_sample=0.5, p_keep=0.15)


class C12(FrpProp):
    pid = "C12"
    extra_props = ["Refine"]
    level_text = "Theorems over the specification: deferred work and posts run only after the commit of the closing transaction (BPost carries post-commit values); each deferred event runs in a transaction of its own whose only injected event is that one; every queued item is run exactly once (permutation of executed vs enqueued items for any choice list) and items of one source in enqueue order; post outside a transaction runs in the same step. Refine_end_outer/Refine_outer_history: the operational engine with its deferred queue equals the specification's end_outer for every choice of order. Tie: guided correspondence that follows the implementation's order among the allowed ones."
    tag = "c12"
    profile = Profile(w=W(defer=8, split=6, hold=10, snapshot=8), p_post=0.3, n_defs=(5, 12), n_txn=(4, 10))


class C13(FrpProp):
    pid = "C13"
    level_text = 'Theorems: invariant Consistent (every map_c cell = f(input), every lift cell = f(inputs)) holds initially and is preserved by every transaction close for any tower and any subset of updated inputs; fresh cells compute the same from their inputs; the update of a lift/map fires iff some input updates, with f of new-or-current inputs. Refine_*: the engine computes exactly these updates, once, after all inputs settled (glitch-free). Tie: towers with samples inside and between transactions.'
    extra_props = ["Refine"]
    tag = "c13"
    profile = Profile(w=W(map_c=14, lift=16, hold=8, csink=6, updates=5, value=4, sloop=2, cloop=3, switch_c=3),
                      p_sample=0.8, p_def_in_txn=0.25, listen_cells=0.6, n_txn=(4, 12))


def audit_oracle(lines, out):
    """the collector's contract, measured on the real heap after every collection: for programs whose cells hold
    plain data (no `sel:` functions putting handles into values) every reachable node's reference count must equal
    the handles held on it plus the edges the tracers report to it"""
    if any("sel:" in l for l in lines):
        return None
    for k, o in enumerate(out):
        a = anns(o).get("A")
        if a is not None and a not in ("ok", "skipped"):
            return ("line %d (%s): reference count not explained by handles + reported edges: %s (a counted reference no "
                    "tracer reports, or a reported edge without a counted reference)" % (k + 1, lines[k] if k < len(lines) else "?", a))
    return None


def quiescence_oracle(lines, out):
    """after every script line that ends outside any transaction: nothing pending, no stream holds an event"""
    for k, o in enumerate(out):
        a = anns(o)
        if "d" in a and a["d"] == "0":
            if a.get("q") != "0,0,0,0" or a.get("cc") != "0":
                return "line %d (%s): context not quiescent after the outermost close: queues(changed,pre_eot,pre_post,post)=%s collect-counter=%s" % (
                    k + 1, lines[k] if k < len(lines) else "?", a.get("q"), a.get("cc"))
            if a.get("f") != "0":
                return "line %d (%s): %s stream(s) still hold an event after the outermost close" % (
                    k + 1, lines[k] if k < len(lines) else "?", a.get("f"))
    return None


class C14(FrpProp):
    pid = "C14"
    level_text = "Theorems over the specification's bracket machine: the end of transaction runs exactly when the depth returns from 1 to 0 (closure or scoped close, characterised by `closes`); close after close / repeated close / close of an unknown transaction is a no-op; drop = close; after every closing step the context is quiescent (no sends, posts, fresh objects pending) for every run from the initial state; an empty transaction delivers nothing; depth arithmetic for nested brackets. Tie: correspondence + the implementation's own depth/queue/firing-slot state (hook annotations) must be quiescent after every top-level line."
    tag = "c14"

    def extra_oracle(self, lines, out):
        return quiescence_oracle(lines, out)
    profile = Profile(w=W(switch_s=2, switch_c=2, defer=2, split=1), p_block=0.9, p_nested=0.4, p_scoped=0.4,
                      p_def_in_txn=0.25, n_txn=(4, 12), p_post=0.3)


class C15(FrpProp):
    pid = "C15"
    level_text = "Theorems: a sink's occurrence is the coalescing of exactly the values sent to it in the transaction, in send order across nested brackets; coalesce with a combining function is the left fold in send order (for every, also non-commutative, function), without it the last value; the transliteration of Stream::_send applied send by send computes the same; a cell sink is a hold over a sink (initial value until the first send, then the last value sent). Tie: correspondence with multiple sends spread over nested brackets."
    tag = "c15"
    profile = Profile(w=W(sink_co=8, csink=6, sink=6, defer=4, split=2), max_sinks=5, p_block=0.9, p_nested=0.5, p_scoped=0.2,
                      n_txn=(4, 12), p_sample=0.5, p_post=0.2)


def thunk_runs_oracle(lines, out):
    """a user thunk (lazy_new) has run exactly once when it has been forced (through any clone), never more"""
    user = set()
    for k, l in enumerate(lines):
        w = l.split()
        if w and w[-1].startswith("keep:"):
            w = w[:-1]
        if not w:
            continue
        if w[0] == "lazy_new":
            user.add(w[1])
        elif w[0] == "clone_lazy" and w[1] in user:
            user.add(w[2])
        elif w[0] == "sample_lazy":
            user.discard(w[1])
        elif w[0] == "force" and w[1] in user and k < len(out):
            r = anns(out[k]).get("runs")
            if r is not None and r != "1":
                return "line %d (%s): the thunk of this Lazy has run %s times (must be exactly once after a force)" % (k + 1, l, r)
    return None


class C17(FrpProp):
    pid = "C17"

    def extra_oracle(self, lines, out):
        return thunk_runs_oracle(lines, out)
    level_text = "Theorems: operational model of lazy.rs (shared thunk/value cells): for any interleaving of new/clone/run the thunk is evaluated at most once and every run through every clone returns the same value; specification: a lazy taken by sample_lazy in transaction T denotes cur of the cell as of T however many transactions later it is forced, through clones, and hold_lazy starts from that value. The former known finding K3 (switch_c's initial thunk) has been repaired in /repo; its class predicate is kept, unlisted."
    tag = "c17"
    profile = Profile(w=W(hold_lazy=6, accum_lazy=4, map_c=8, lift=8, cloop=3, hold=6, switch_c=1, map_sl=4), p_keep=0.15, p_lazy=0.7, p_sample=0.3,
                      n_txn=(4, 14))


class C18(FrpProp):
    pid = "C18"
    level_text = "Theorems: a route fires v iff the router's input fires v and the key occurs in the selector's result (multiplicity irrelevant), equal at every fuel to the filter with that predicate; operational model of router.rs's update loop meets it (many sends of the same value to one routed stream = one firing); listener-level iff/once theorems. Refine_*: routes inside the proved engine fragment. Tie: correspondence with routes requested before/after events, dropped and re-requested, router handle dropped."
    tag = "c18"
    profile = Profile(w=W(router=12, filter=6), p_mem=0.2, p_def_in_txn=0.2, n_txn=(4, 12))


HEAP_PROFILE = Profile(p_keep=0.3, w=W(once=0, map_s=0, map_sl=0, sloop=4, cloop=4, accum=5, collect=4, defer=3, split=3, gate=4, value=4, updates=4, lift=8,
                           map_c=6), p_mem=0.5, p_unlisten=0.3, weak=0.3, final_teardown=True, n_defs=(4, 12), n_txn=(3, 8),
                       p_sample=0.1)
HEAP_LAZY_PROFILE = Profile(w=W(once=0, map_s=0, map_sl=0, sloop=3, cloop=5, accum=4, collect=3, gate=3, value=4, updates=3, lift=8,
                                map_c=8, hold_lazy=6, accum_lazy=4), p_mem=0.5, p_unlisten=0.3, weak=0.2, final_teardown=True,
                            n_defs=(4, 12), n_txn=(3, 8), p_sample=0.2, p_lazy=0.5)
_HROW = re.compile(r"^(\d+):(.*):(\d):(\d+):(\d+):([\d.]*)$")


def parse_heap(h):
    rows = {}
    for r in h.split("/"):
        m = _HROW.match(r)
        if m:
            rows[int(m.group(1))] = (m.group(2), int(m.group(3)), int(m.group(4)), int(m.group(5)),
                                     sorted(int(x) for x in m.group(6).split(".") if x))
    return rows


def heap_agree(lines, mo, io):
    """object-by-object comparison of the heap model (Model/Heap.v run on Model/Gc.v) with the real reachable heap at
    every audited line: id, constructor name, freed flag, reference count, handles held, multiset of traced edges;
    and the number of live nodes"""
    for k, l in enumerate(lines):
        if k >= len(mo):
            return "HIDDEN: heap model stopped at line %d (%s)" % (k + 1, mo[-1] if mo else None)
        m = mo[k]
        if m.startswith("unsupported"):
            return "INCONCLUSIVE: outside the heap model's fragment (%s)" % m
        if m.startswith("model-"):
            return "HIDDEN: heap model: %s at line %d (%s)" % (m, k + 1, l)
        if m == "-":
            continue
        o = io[k] if k < len(io) else ""
        a = anns(o)
        ih = parse_heap(a.get("H", ""))
        mh = parse_heap(m.split("H=")[1].split(" n=")[0])
        for i, r in sorted(ih.items()):
            if i not in mh:
                return "HIDDEN: line %d (%s): object %d %s is in the real heap, not in the heap model's" % (k + 1, l, i, r)
            if mh[i] != r:
                return ("HIDDEN: line %d (%s): object %d: real (name, freed, count, handles, edges) = %s, heap model %s"
                        % (k + 1, l, i, r, mh[i]))
        for i, r in sorted(mh.items()):
            if i not in ih and r[0] != "StreamLoop::new":
                return "HIDDEN: line %d (%s): object %d %s is reachable in the heap model, not in the real heap" % (k + 1, l, i, r)
        if "n" in a and a["n"] != m.split(" n=")[1]:
            return "HIDDEN: line %d (%s): %s live nodes, the heap model has %s" % (k + 1, l, a["n"], m.split(" n=")[1])
    td = [x for x in mo if x.startswith("teardown")]
    if td and td[0] != "teardown held=0 n=0":
        return "HIDDEN: heap model: after releasing every handle and collecting: %s" % td[0]
    return None


class GcBacked(FrpProp):
    """C06/C07 also run (a) collector-level scripts (synthetic objects on the real GcCtx): the part of these properties
    that is the collector's own responsibility, judged by reachability on the dumped heap; (b) programs of the static
    fragment with the heap model Model/Heap.v compared object by object with the real heap"""

    def batches(self, tier, seed):
        for b in FrpProp.batches(self, tier, seed):
            yield b
        n = 1500 if tier == "quick" else 30000
        yield Batch("frp-heap", gen_scripts(int(seed), n, HEAP_PROFILE, "heap") +
                    gen_scripts(int(seed), n // 3, HEAP_LAZY_PROFILE, "heapz"), "heap model vs real heap")
        from .gcprops import gen
        n = 4000 if tier == "quick" else 60000
        rs = []
        for k in range(4):
            rs += gen(["gc-rand", int(seed) * 4 + k + 11, n // 4, 30, 8, 4, 3])
        yield Batch("gc-run", rs, "collector-level random scripts")

    def run_model(self, batch, scripts, iout, shards=C.NPROC):
        if batch.mode == "gc-run":
            return Prop.run_model(self, batch, scripts, iout, shards)
        if batch.mode == "frp-heap":
            guided = []
            for name, lines in scripts:
                io = iout.get(name, [])
                guided.append((name, [(l + " || A") if (k < len(io) and "A" in anns(io[k])) else l
                                      for k, l in enumerate(lines)]))
            return C.run_sharded(C.MODEL_RUN, "heap-run", guided, batch.timeout, shards)
        return FrpProp.run_model(self, batch, scripts, iout, shards)

    def agree(self, batch, name, lines, mout, io):
        if batch.mode == "gc-run":
            d = Prop.agree(self, batch, name, lines, mout, io)
            return ("HIDDEN: " + d) if d else None
        if batch.mode == "frp-heap":
            mo = mout.get(name)
            if mo is None:
                return "HIDDEN: no heap model output"
            return heap_agree(lines, mo, io)
        return FrpProp.agree(self, batch, name, lines, mout, io)

    def oracle(self, batch, name, lines, out):
        if batch.mode == "gc-run":
            from .gcprops import c08_oracle
            return c08_oracle(lines, out)
        return FrpProp.oracle(self, batch, name, lines, out)

    def known_class(self, batch, name, lines, out, why):
        if batch.mode == "gc-run":
            return None
        return FrpProp.known_class(self, batch, name, lines, out, why)

    def well_formed(self, lines):
        if lines and lines[0].split()[0] in ("create", "clone", "drop", "edge", "unedge", "upgrade", "collect") \
                and not any(l.split()[0] in DEF_OPS for l in lines):
            return True
        return FrpProp.well_formed(self, lines)

    def nontrivial(self, batch, name, lines, out):
        if batch.mode == "gc-run":
            return any(l.strip() == "collect" for l in lines)
        return FrpProp.nontrivial(self, batch, name, lines, out)


class C06(GcBacked):
    pid = "C06"
    tag = "c06"
    level_text = ("Theorems over the collector model (Model/Gc.v, tied bit-exactly to gc_node.rs by C08's correspondence), unbounded: "
                  "through any contract-respecting interleaving of clones, drops, edge changes, transient upgrades and collections no "
                  "object reachable from a held handle is ever freed, nothing is freed outside a collection, and no internal consistency "
                  "panic or fuel exhaustion occurs. The hypothesis - the contract 'count = handles + reported edges' - is not proved for "
                  "the FRP primitives but MEASURED on the real heap after every collection by the harness's audit (all reachable nodes, real "
                  "tracers); observational transparency of clone/drop/gc is the specification correspondence. Rust ownership of Arc "
                  "payloads is modelled, not verified. FRP level (Model/Heap.v, Proofs/HeapFacts.v): every primitive of the static fragment "
                  "is compiled to collector-model operations (what it allocates, which counted+traced references it acquires, which handles "
                  "it keeps); theorems for EVERY program of the fragment: no abort and WF at every step, the collector's handle counts equal "
                  "what the program's slots and listeners hold, and nothing reachable from a held slot/listener/keep-alive is ever freed. "
                  "Tie: the heap model's reachable heap equals the real heap object by object (id, constructor, count, handles, multiset of "
                  "traced edges, live-node count) at every audited line of generated programs.")

    def extra_oracle(self, lines, out):
        return audit_oracle(lines, out)
    profile = Profile(w=W(sloop=4, cloop=4, switch_s=4, switch_c=4, accum=6, collect=5, defer=2, router=2), p_mem=0.7,
                      n_txn=(5, 14), p_listen_late=0.3, p_keep=0.25)




def everything_dropped(lines):
    """the script prefix dropped every handle, unlistened and dropped every listener, dropped its lazies, closed
    every transaction, and ended with an empty transaction followed by a collection"""
    live, ls, lazies, depth, scoped = set(), {}, False, 0, set()
    for l in lines:
        w = l.split()
        if w and w[-1].startswith("keep:"):
            w = w[:-1]
        if not w:
            continue
        if w[0] in DEF_OPS:
            live.add(w[1])
        elif w[0] == "clone":
            live.add(w[2])
        elif w[0] == "drop":
            live.discard(w[1])
        elif w[0] in ("listen", "listen_weak", "listen_c", "listen_cw"):
            ls[w[1]] = "on"
        elif w[0] == "unlisten" and w[1] in ls:
            ls[w[1]] = "off"
        elif w[0] in ("drop_l", "drop_weak") and ls.get(w[1]) in ("off",) or (w[0] == "drop_weak" and w[1] in ls):
            ls.pop(w[1], None)
        elif w[0] in ("lazy_new", "sample_lazy", "clone_lazy"):
            lazies = True
        elif w[0] == "drop_lazies":
            lazies = False
        elif w[0] == "{":
            depth += 1
        elif w[0] == "}":
            depth -= 1
        elif w[0] == "tnew":
            scoped.add(w[1])
        elif w[0] in ("tclose", "tdrop"):
            scoped.discard(w[1])
    tail = [l.strip() for l in lines[-3:]]
    return (not live and not ls and not lazies and depth == 0 and not scoped and tail == ["{", "}", "gc"])


class C07(GcBacked):
    pid = "C07"
    tag = "c07"
    level_text = ("Theorems over the collector model, unbounded: once no handle is held ONE collection frees every object (cycles, "
                  "self-loops, multi-edges, fired or not); after every collection exactly the reachable objects survive and the candidate "
                  "buffer is empty. The hypothesis (contract) is measured on the real heap by the audit after every collection; the "
                  "end-of-script teardown (drop every handle, unlisten, empty transaction, collect) must leave node_count = 0 on the real "
                  "library. Leaks through references no tracer reports are exactly what these two detectors find (known finding K5 is "
                  "classified by a computable predicate, as is K6 - an escaped unforced Lazy of a cell whose user function captures handles; K1 and K3 have been repaired in /repo). FRP level (Model/Heap.v, Proofs/HeapFacts.v): every "
                  "primitive of the static fragment (sinks, map/filter/merge/snapshot/gate, hold, updates, value, map_c, lift2..6, accum, "
                  "collect, defer, split, loops, strong/weak/cell listeners, clone/drop/unlisten) is compiled to collector-model operations; "
                  "theorem C07_program_teardown_frees_all: for EVERY program of the fragment, after it releases what it holds one collection "
                  "frees every object it ever allocated. Tie: the heap model's reachable heap equals the real heap object by object (id, "
                  "constructor, count, handles, multiset of traced edges, live-node count) at every audited line of generated programs.")

    def extra_oracle(self, lines, out):
        a = audit_oracle(lines, out)
        if a:
            return a
        for k, (l, o) in enumerate(zip(lines, out)):
            if l.strip() == "nodes" and everything_dropped(lines[:k]):
                n = anns(o).get("n")
                if n is not None and n != "0":
                    return "line %d: %s node(s) still alive after every handle was dropped, every listener unlistened and a collection ran" % (k + 1, n)
        return None
    profile = Profile(w=W(sloop=4, cloop=4, switch_s=4, switch_c=4, accum=6, collect=5, defer=2, router=2, hold_lazy=3, accum_lazy=2), p_mem=0.6,
                      n_txn=(0, 8), final_teardown=True, p_keep=0.25, p_lazy=0.15)
    counts = (6000, 60000)


class C09(FrpProp):
    pid = "C09"
    level_text = 'Theorems over the specification: clone/drop/gc map to ONop which changes nothing observable; occ/upd/cur depend on the tables only through lookup, so any reordering of definitions and listener registrations gives permuted-but-equal observations per listener (close_txn respects table permutation); the only choice left open is the order of deferred transactions of different sources. Refine_any_order: the engine result is independent of dependents/queue order. Tie: generated programs with handle churn and collections; metamorphic equality through the common oracle.'
    tag = "c09"
    profile = Profile(w=W(sloop=3, cloop=3, switch_s=3, switch_c=3, defer=2, split=2), p_mem=0.5, n_txn=(4, 10), p_keep=0.1)
