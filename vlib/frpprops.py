"""FRP-level properties: scripts through the public API compared with the denotational spec
(Spec/Sodium.v, extracted) -- the spec is the oracle for these properties."""
import re, random
from . import common as C
from .runner import Prop, Batch
from .frpgen import Profile, gen_scripts, is_K1, is_K5, is_K3_leak


def strip_ann(lines):
    return [l.split(" #", 1)[0] for l in lines]


def anns(line):
    if " #" not in line:
        return {}
    out = {}
    for kv in line.split(" #", 1)[1].split():
        if "=" in kv:
            k, v = kv.split("=", 1)
            out[k] = v
    return out


class FrpProp(Prop):
    default_mode = "frp-run"
    category = "translation_validation"
    design_ref = "DESIGN.md section 6"
    level_text = ("The implementation's observations (per-listener call sequences, samples, forced lazies, post markers, panics) equal "
                  "those of the executable denotational specification Spec/Sodium.v (extracted from Coq) on every generated script of "
                  "this property's profile; theorems about the specification and the mechanism models are listed in the evidence when "
                  "Props/<id>.v exists.")
    technique = "Coq specification extracted to OCaml as the oracle + differential correspondence; Coq theorems where listed"
    profile = Profile()
    tag = "frp"
    counts = (1500, 60000)
    rule = ("seeded, type-aware generator of legal FRP programs and histories through the public API (profile in "
            "coverage.profile); the implementation's per-listener call sequences, samples, forced lazies and post markers "
            "per script line must equal the denotational spec's (any allowed order of deferred transactions). "
            "Non-trivial = at least one listener call or sample observed; distinct by digest of script+observations.")

    def batches(self, tier, seed):
        n = self.counts[0] if tier == "quick" else self.counts[1]
        yield Batch("frp-run", gen_scripts(int(seed), n, self.profile, self.tag), "random:" + self.tag)

    def oracle(self, batch, name, lines, out):
        # handled by the runner's spec comparison (spec_is_oracle); extra checks in subclasses
        for k, o in enumerate(out):
            if o.startswith(("HANG", "CRASH", "MISSING")):
                return "line %d: %s" % (k + 1, o)
            if o.startswith("panic") and "AlreadyLooped" not in o and "SampledBeforeLoop" not in o:
                return "line %d (%s): the library aborted: %s" % (k + 1, lines[k] if k < len(lines) else "?", o)
        return self.extra_oracle(lines, out)

    def extra_oracle(self, lines, out):
        return None

    def known_class(self, batch, name, lines, out, why):
        if is_K1(lines):
            return "K1"
        if "still alive after every handle was dropped" in why and is_K5(lines):
            return "K5"
        if "still alive after every handle was dropped" in why and is_K3_leak(lines):
            return "K3"
        return None

    spec_is_oracle = True

    def run_model(self, batch, scripts, iout, shards=C.NPROC):
        """guided run of the specification: each line carries the implementation's observation, so that
        among the allowed orders of deferred transactions the one the implementation took is followed"""
        guided = []
        for name, lines in scripts:
            io = strip_ann(iout.get(name, []))
            guided.append((name, ["%s || %s" % (l, io[k]) if k < len(io) else l for k, l in enumerate(lines)]))
        return C.run_sharded(C.MODEL_RUN, "frp-check", guided, batch.timeout, shards)

    def well_formed(self, lines):
        """balanced brackets, and every loop is closed inside the block that created it"""
        d = 0
        open_loops = []      # (slot, depth)
        for l in lines:
            w = l.split()
            if not w:
                continue
            if w[0] == "{":
                d += 1
            elif w[0] == "}":
                if any(dd == d for _, dd in open_loops):
                    return False
                d -= 1
                if d < 0:
                    return False
            elif w[0] in ("sloop", "cloop"):
                if d == 0:
                    return False
                open_loops.append((w[1], d))
            elif w[0] in ("sloop_close", "cloop_close"):
                open_loops = [(h, dd) for h, dd in open_loops if h != w[1]]
        return d == 0 and not open_loops

    def agree(self, batch, name, lines, mout, io):
        io2 = strip_ann(io)
        mo = mout.get(name)
        if mo is None:
            return "no specification output"
        if any("illegal" in x for x in mo):
            return None     # not a legal program (instantaneous cycle): nothing is specified
        if io2 == mo:
            return None
        k = next((j for j, (x, y) in enumerate(zip(mo, io2)) if x != y), min(len(mo), len(io2)))
        return "line %d (%s): specified %r (or another allowed order of deferred transactions, none of which matches), observed %r" % (
            k + 1, lines[k] if k < len(lines) else "?", mo[k] if k < len(mo) else None,
            io2[k] if k < len(io2) else None)

    def nontrivial(self, batch, name, lines, out):
        return any(("L" in o and "=[" in o) or o.startswith("sample") for o in out)

    def extra_coverage(self):
        return {"profile": {k: v for k, v in self.profile.__dict__.items()}}


class C02(FrpProp):
    pid = "C02"
    tag = "c02"
    profile = Profile(w=dict(map=10, map_to=3, filter=6, filter_opt=3, gate=4, merge=10, or_else=4, snapshot=8, snapshot1=2,
                             once=4, hold=5, csink=3, sink=5, sink_co=2, const=2, never=1, map_c=2, lift=2),
                      p_def_in_txn=0.1, n_defs=(4, 14))


W_ALL = dict(map=8, filter=4, merge=8, or_else=3, snapshot=6, gate=3, once=2, hold=8, updates=3, value=3,
             map_c=6, lift=6, accum=4, collect=3, filter_opt=2, map_to=2, snapshot1=2, const=2, never=1, csink=3,
             sink=4, sink_co=2)


def W(**kw):
    d = dict(W_ALL)
    d.update(kw)
    return d


class C01(FrpProp):
    pid = "C01"
    tag = "c01"
    profile = Profile(w=W(), p_block=0.8, p_nested=0.3, p_scoped=0.25, p_def_in_txn=0.3, p_listen_late=0.5,
                      p_unlisten=0.2, n_txn=(4, 12))


class C04(FrpProp):
    pid = "C04"
    tag = "c04"
    profile = Profile(w=W(hold=12, accum=8, collect=6, snapshot=10, csink=5, hold_lazy=5, accum_lazy=4, gate=4),
                      p_sample=0.7, p_def_in_txn=0.25, n_txn=(5, 20), p_listen_late=0.2, p_lazy=0.25)


class C05(FrpProp):
    pid = "C05"
    tag = "c05"
    profile = Profile(w=W(switch_s=10, switch_c=10, hold=8, map_c=6, defer=3, split=2, sloop=1, cloop=1), n_defs=(5, 14),
                      n_txn=(5, 16), p_block=0.7, p_sample=0.5, p_post=0.1, p_def_in_txn=0.1)


class C10(FrpProp):
    pid = "C10"
    tag = "c10"
    profile = Profile(w=W(), p_listen_late=0.8, p_unlisten=0.5, listen_cells=0.5, p_block=0.6, p_mem=0.2, weak=0.0,
                      n_txn=(5, 14))


class C11(FrpProp):
    pid = "C11"
    tag = "c11"
    profile = Profile(w=W(sloop=8, cloop=8, hold=10, snapshot=8), n_defs=(4, 10), n_txn=(4, 12))


class C12(FrpProp):
    pid = "C12"
    tag = "c12"
    profile = Profile(w=W(defer=8, split=6, hold=10, snapshot=8), p_post=0.3, n_defs=(5, 12), n_txn=(4, 10))


class C13(FrpProp):
    pid = "C13"
    tag = "c13"
    profile = Profile(w=W(map_c=14, lift=16, hold=8, csink=6, updates=5, value=4, sloop=2, cloop=3, switch_c=3),
                      p_sample=0.8, p_def_in_txn=0.25, listen_cells=0.6, n_txn=(4, 12))


def quiescence_oracle(lines, out):
    """after every script line that ends outside any transaction: nothing pending, no stream holds an event"""
    for k, o in enumerate(out):
        a = anns(o)
        if "d" in a and a["d"] == "0":
            if a.get("q") != "0,0,0,0" or a.get("cc") != "0":
                return "line %d (%s): context not quiescent after the outermost close: queues(changed,pre_eot,pre_post,post)=%s collect-counter=%s" % (
                    k + 1, lines[k] if k < len(lines) else "?", a.get("q"), a.get("cc"))
            if a.get("f") != "0":
                return "line %d (%s): %s stream(s) still hold an event after the outermost close" % (
                    k + 1, lines[k] if k < len(lines) else "?", a.get("f"))
    return None


class C14(FrpProp):
    pid = "C14"
    tag = "c14"

    def extra_oracle(self, lines, out):
        return quiescence_oracle(lines, out)
    profile = Profile(w=W(), p_block=0.9, p_nested=0.4, p_scoped=0.4, p_def_in_txn=0.2, n_txn=(4, 12))


class C15(FrpProp):
    pid = "C15"
    tag = "c15"
    profile = Profile(w=W(sink_co=8, csink=6, sink=6), max_sinks=5, p_block=0.9, p_nested=0.5, p_scoped=0.2,
                      n_txn=(4, 12), p_sample=0.5)


class C17(FrpProp):
    pid = "C17"
    tag = "c17"
    profile = Profile(w=W(hold_lazy=6, accum_lazy=4, map_c=8, lift=8, cloop=3, hold=6, switch_c=1), p_lazy=0.7, p_sample=0.3,
                      n_txn=(4, 14))


class C18(FrpProp):
    pid = "C18"
    tag = "c18"
    profile = Profile(w=W(router=12, filter=6), p_mem=0.2, p_def_in_txn=0.2, n_txn=(4, 12))


class C06(FrpProp):
    pid = "C06"
    tag = "c06"
    profile = Profile(w=W(sloop=4, cloop=4, switch_s=4, switch_c=4, accum=6, collect=5, defer=2, router=2), p_mem=0.7,
                      n_txn=(5, 14), p_listen_late=0.3)


DEF_OPS = {"sink", "sink_co", "csink", "const", "never", "map", "map_to", "filter", "filter_opt", "merge", "or_else", "snapshot",
           "snapshot1", "gate", "once", "hold", "hold_lazy", "updates", "value", "map_c", "lift", "accum", "accum_lazy", "collect",
           "collect_lazy", "switch_s", "switch_c", "sloop", "cloop", "defer", "split", "router", "route"}


def everything_dropped(lines):
    """the script prefix dropped every handle, unlistened and dropped every listener, dropped its lazies, closed
    every transaction, and ended with an empty transaction followed by a collection"""
    live, ls, lazies, depth, scoped = set(), {}, False, 0, set()
    for l in lines:
        w = l.split()
        if not w:
            continue
        if w[0] in DEF_OPS:
            live.add(w[1])
        elif w[0] == "clone":
            live.add(w[2])
        elif w[0] == "drop":
            live.discard(w[1])
        elif w[0] in ("listen", "listen_weak", "listen_c"):
            ls[w[1]] = "on"
        elif w[0] == "unlisten" and w[1] in ls:
            ls[w[1]] = "off"
        elif w[0] in ("drop_l", "drop_weak") and ls.get(w[1]) in ("off",) or (w[0] == "drop_weak" and w[1] in ls):
            ls.pop(w[1], None)
        elif w[0] in ("lazy_new", "sample_lazy", "clone_lazy"):
            lazies = True
        elif w[0] == "drop_lazies":
            lazies = False
        elif w[0] == "{":
            depth += 1
        elif w[0] == "}":
            depth -= 1
        elif w[0] == "tnew":
            scoped.add(w[1])
        elif w[0] in ("tclose", "tdrop"):
            scoped.discard(w[1])
    tail = [l.strip() for l in lines[-3:]]
    return (not live and not ls and not lazies and depth == 0 and not scoped and tail == ["{", "}", "gc"])


class C07(FrpProp):
    pid = "C07"
    tag = "c07"

    def extra_oracle(self, lines, out):
        for k, (l, o) in enumerate(zip(lines, out)):
            if l.strip() == "nodes" and everything_dropped(lines[:k]):
                n = anns(o).get("n")
                if n is not None and n != "0":
                    return "line %d: %s node(s) still alive after every handle was dropped, every listener unlistened and a collection ran" % (k + 1, n)
        return None
    profile = Profile(w=W(sloop=4, cloop=4, switch_s=4, switch_c=4, accum=6, collect=5, defer=2, router=2), p_mem=0.3,
                      n_txn=(0, 8), final_teardown=True)


class C09(FrpProp):
    pid = "C09"
    tag = "c09"
    profile = Profile(w=W(sloop=3, cloop=3, switch_s=3, switch_c=3, defer=2, split=2), p_mem=0.5, n_txn=(4, 10))
