(* Extraction of the executable models to OCaml. ExtrOcamlBasic only: bool, option, list, prod,
   unit, sumbool map to OCaml's; nat/positive/N/Z stay the extracted inductives. No Extract Constant. *)
From Coq Require Import Extraction ExtrOcamlBasic.
From Sodium Require Import Gc Engine EngineScript Sodium Threads Net Heap.
Extraction "model.ml" Gc.sstep Gc.sinit Gc.svalid Gc.srun Gc.cfuel EngineScript.estep Sodium.step Sodium.step_q Sodium.defer_one Sodium.heads Sodium.init_state Threads.run_schedule Net.ndeps Sodium.occ Sodium.upd Sodium.F Sodium.is_cell Sodium.body Sodium.set_depth Sodium.alookup Heap.hstep Heap.hinit Heap.hview Heap.live_nodes Heap.teardown Heap.held.
