(* Denotational, per-transaction reference semantics of Sodium (the "what the semantics prescribes"
   of properties C01, C02, C04, C05, C09-C15, C17, C18). Executable; extracted to OCaml and run
   against the implementation on every check.

   Streams: at most one occurrence per transaction. Cells: the value they had when the transaction
   started; an update in T is the value from the next transaction on. A script is a sequence of
   operations on numbered slots; every operation executed while no transaction is open is its own
   transaction. All definitions that exist when the outermost transaction closes take part in it. *)
From Coq Require Import List ZArith Bool Arith.
Import ListNotations.
Open Scope Z_scope.

(* ------------------------------------------------------------------ values and function codes *)

Inductive val :=
| VInt (z : Z)
| VPair (a b : val)
| VList (l : list val)
| VNone
| VSome (v : val)
| VUnit
| VRef (h : nat).            (* a stream or cell handle stored in a cell (for switch) *)

Definition M : Z := 1000003.
Definition norm (z : Z) : Z := z mod M.

Fixpoint toint (v : val) : Z :=
  match v with
  | VInt z => z
  | VPair a b => norm (toint a * 31 + toint b)
  | VList l => fold_left (fun acc x => norm (acc * 31 + toint x)) l 7
  | VNone => 0
  | VSome x => norm (toint x + 1)
  | VUnit => 0
  | VRef h => Z.of_nat h
  end.

Inductive f1 :=
| FAdd (k : Z) | FMul (k : Z) | FConst (v : val) | FId | FPairSelf | FFst | FSnd
| FSomeIfEven | FUnsome | FToList (k : nat) | FSel (hs : list nat).

Inductive p1 := PEven | PGt (k : Z) | PLt (k : Z) | PTrue | PFalse | PIsSome.

Inductive f2 := GAdd | GSub | GMul10 | GLeft | GRight | GPair.

Inductive fn := NWsum | NFirst | NLast | NTuple | NF2 (g : f2) | NPairF2 (ga gb : f2).

Fixpoint iota_from (z : Z) (k : nat) : list val :=
  match k with O => [] | S k' => VInt (norm z) :: iota_from (z + 1) k' end.

Definition app1 (f : f1) (v : val) : val :=
  match f with
  | FAdd k => VInt (norm (toint v + k))
  | FMul k => VInt (norm (toint v * k))
  | FConst c => c
  | FId => v
  | FPairSelf => VPair v v
  | FFst => match v with VPair a _ => a | _ => v end
  | FSnd => match v with VPair _ b => b | _ => v end
  | FSomeIfEven => if Z.even (toint v) then VSome v else VNone
  | FUnsome => match v with VSome x => x | _ => v end
  | FToList k => VList (iota_from (toint v) k)
  | FSel hs => match hs with
               | [] => VUnit
               | h0 :: _ => VRef (nth (Z.to_nat ((toint v) mod (Z.of_nat (length hs)))) hs h0)
               end
  end.

Definition appP (p : p1) (v : val) : bool :=
  match p with
  | PEven => Z.even (toint v)
  | PGt k => Z.ltb k (toint v)
  | PLt k => Z.ltb (toint v) k
  | PTrue => true
  | PFalse => false
  | PIsSome => match v with VSome _ => true | _ => false end
  end.

Definition app2 (f : f2) (a b : val) : val :=
  match f with
  | GAdd => VInt (norm (toint a + toint b))
  | GSub => VInt (norm (toint a - toint b))
  | GMul10 => VInt (norm (10 * toint a + toint b))
  | GLeft => a
  | GRight => b
  | GPair => VPair a b
  end.

Fixpoint tuple_of (l : list val) : val :=
  match l with
  | [] => VUnit
  | [x] => x
  | x :: t => VPair x (tuple_of t)
  end.

Definition appN (f : fn) (l : list val) : val :=
  match f with
  | NWsum => VInt (snd (fold_left (fun acc x => (fst acc + 1, norm (snd acc + fst acc * toint x))) l (1, 0)))
  | NFirst => match l with x :: _ => x | [] => VUnit end
  | NLast => last l VUnit
  | NTuple => tuple_of l
  | NF2 g => match l with a :: b :: _ => app2 g a b | _ => VUnit end
  | NPairF2 ga gb => match l with a :: b :: _ => VPair (app2 ga a b) (app2 gb a b) | _ => VUnit end
  end.

Definition truthy (v : val) : bool := negb (Z.eqb (toint v) 0).

(* selector codes of routers: value -> list of keys *)
Inductive sel := SMod (k : Z) | SDup (k : Z) | SMulti.
Definition app_sel (s : sel) (v : val) : list Z :=
  let x := toint v in
  match s with
  | SMod k => [x mod k]
  | SDup k => [x mod k; x mod k]
  | SMulti => [x mod 2; 2 + x mod 3; x mod 2]
  end.

(* ------------------------------------------------------------------ definitions *)

Inductive def :=
| DSink (co : option f2)
| DNever
| DMap (s : nat) (f : f1)
| DFilter (s : nat) (p : p1)
| DMerge (a b : nat) (f : f2)
| DSnapshot (s : nat) (cs : list nat) (f : fn)
| DGate (s c : nat)
| DOnce (s : nat)
| DUpdates (c : nat)
| DValue (c : nat)
| DSwitchS (c : nat)
| DSLoop
| DDefer (s : nat)
| DSplit (s : nat)
| DRouter (s : nat) (sl : sel)
| DRoute (r : nat) (k : Z)
(* cells *)
| DHold (s : nat)
| DConst
| DMapC (c : nat) (f : f1)
| DLift (cs : list nat) (f : fn)
| DSwitchC (c : nat)
| DCLoop.

Inductive perr := SampledBeforeLoop | AlreadyLooped | Illegal (* instantaneous cycle / dangling slot *).

Inductive ev (A : Type) := EV (a : A) | EErr (e : perr).
Arguments EV {A} a.
Arguments EErr {A} e.
Definition ebind {A B} (x : ev A) (k : A -> ev B) : ev B :=
  match x with EV a => k a | EErr e => EErr e end.
Notation "'elet' x <- r ; k" := (ebind r (fun x => k)) (at level 200, x name, r at level 100, k at level 200).

Fixpoint emap {A B} (f : A -> ev B) (l : list A) : ev (list B) :=
  match l with
  | [] => EV []
  | x :: t => elet y <- f x; elet ys <- emap f t; EV (y :: ys)
  end.

(* association lists keyed by nat *)
Fixpoint alookup {A} (l : list (nat * A)) (k : nat) : option A :=
  match l with
  | [] => None
  | (k', v) :: t => if Nat.eqb k k' then Some v else alookup t k
  end.
Definition aset {A} (l : list (nat * A)) (k : nat) (v : A) : list (nat * A) :=
  (k, v) :: filter (fun kv => negb (Nat.eqb (fst kv) k)) l.
Definition amem (l : list nat) (k : nat) : bool := existsb (Nat.eqb k) l.

Inductive lz := LzVal (v : val) | LzCell (c : nat).   (* LzCell: taken in the open transaction, not resolved yet *)

Record state := mkState {
  defs : list (nat * def);
  cvals : list (nat * val);        (* committed / resolved current values of cells *)
  inits : list (nat * val);        (* initial value of holds created in the open transaction *)
  linit : list (nat * nat);        (* hold created with a lazy handle: hold -> lazy id *)
  fired : list nat;                (* once nodes that already passed their event *)
  fresh : list nat;                (* objects created in the open transaction *)
  loops : list (nat * nat);        (* loop -> target *)
  listeners : list (nat * nat);    (* active listener -> stream *)
  depth : nat;
  tdone : list (nat * bool);       (* scoped transactions: slot -> already closed *)
  sends : list (nat * val);        (* sends of the open outermost transaction, oldest first *)
  posts : list (nat * list nat);   (* user post closures queued in the open transaction: key, cells to sample *)
  lazies : list (nat * (lz * nat)) (* lazy handle -> (content, lazy cell id shared by clones) *)
}.

Definition init_state : state := mkState [] [] [] [] [] [] [] [] 0 [] [] [] [].

(* ------------------------------------------------------------------ the denotation of one transaction *)

Section Txn.
  Variable st : state.
  (* events injected into this transaction: sink sends (already coalesced) and deferred re-emissions *)
  Variable inj : list (nat * val).

  Definition def_of (h : nat) : ev def :=
    match alookup (defs st) h with Some d => EV d | None => EErr Illegal end.

  (* value of a cell as seen by every read during the transaction *)
  Fixpoint cur (fuel : nat) (c : nat) : ev val :=
    match fuel with
    | O => EErr Illegal
    | S f =>
      match alookup (cvals st) c with
      | Some v => EV v
      | None =>
        elet d <- def_of c;
        match d with
        | DHold _ =>
          match alookup (inits st) c with
          | Some v => EV v
          | None =>
            match alookup (linit st) c with
            | Some z => match alookup (lazies st) z with
                        | Some (LzVal v, _) => EV v
                        | Some (LzCell c', _) => cur f c'
                        | None => EErr Illegal
                        end
            | None => EErr Illegal
            end
          end
        | DMapC c' g => elet v <- cur f c'; EV (app1 g v)
        | DLift cs g => elet vs <- emap (cur f) cs; EV (appN g vs)
        | DSwitchC c' => elet v <- cur f c'; match v with VRef n => cur f n | _ => EErr Illegal end
        | DCLoop => match alookup (loops st) c with Some t => cur f t | None => EErr SampledBeforeLoop end
        | _ => EErr Illegal
        end
      end
    end.

  Definition coalesce (co : option f2) (vs : list val) : option val :=
    match vs with
    | [] => None
    | v :: t => match co with
                | Some g => Some (fold_left (app2 g) t v)
                | None => Some (last vs v)
                end
    end.

  Definition injected (h : nat) : list val :=
    map snd (filter (fun kv => Nat.eqb (fst kv) h) inj).

  Definition F := S (S (length (defs st))).

  (* occurrence of stream [s] / update of cell [c] in this transaction *)
  Fixpoint occ (fuel : nat) (s : nat) : ev (option val) :=
    match fuel with
    | O => EErr Illegal
    | S f =>
      elet d <- def_of s;
      match d with
      | DSink co => EV (coalesce co (injected s))
      | DNever => EV None
      | DMap a g => elet o <- occ f a; EV (option_map (app1 g) o)
      | DFilter a p => elet o <- occ f a;
                       EV (match o with Some v => if appP p v then Some v else None | None => None end)
      | DMerge a b g =>
        elet x <- occ f a; elet y <- occ f b;
        EV (match x, y with
            | Some u, Some w => Some (app2 g u w)
            | Some u, None => Some u
            | None, Some w => Some w
            | None, None => None
            end)
      | DSnapshot a cs g =>
        elet o <- occ f a;
        match o with
        | None => EV None
        | Some v => elet vs <- emap (cur F) cs; EV (Some (appN g (v :: vs)))
        end
      | DGate a c =>
        elet o <- occ f a;
        match o with
        | None => EV None
        | Some v => elet b <- cur F c; EV (if truthy b then Some v else None)
        end
      | DOnce a => if amem (fired st) s then EV None else occ f a
      | DUpdates c => upd f c
      | DValue c =>
        elet u <- upd f c;
        if amem (fresh st) s
        then match u with Some v => EV (Some v) | None => elet v <- cur F c; EV (Some v) end
        else EV u
      | DSwitchS c => elet v <- cur F c; match v with VRef n => occ f n | _ => EErr Illegal end
      | DSLoop => match alookup (loops st) s with Some t => occ f t | None => EV None end
      | DDefer _ | DSplit _ => EV (coalesce None (injected s))
      | DRouter a _ => occ f a
      | DRoute r k =>
        elet dr <- def_of r;
        match dr with
        | DRouter a sl =>
          elet o <- occ f a;
          EV (match o with
              | Some v => if existsb (Z.eqb k) (app_sel sl v) then Some v else None
              | None => None
              end)
        | _ => EErr Illegal
        end
      | _ => EErr Illegal
      end
    end
  with upd (fuel : nat) (c : nat) : ev (option val) :=
    match fuel with
    | O => EErr Illegal
    | S f =>
      elet d <- def_of c;
      match d with
      | DHold a => occ f a
      | DConst => EV None
      | DMapC c' g => elet o <- upd f c'; EV (option_map (app1 g) o)
      | DLift cs g =>
        elet us <- emap (upd f) cs;
        if existsb (fun o => match o with Some _ => true | None => false end) us
        then elet vs <- emap (fun c' => elet o <- upd f c';
                                        match o with Some v => EV v | None => cur F c' end) cs;
             EV (Some (appN g vs))
        else EV None
      | DSwitchC c' =>
        elet o <- upd f c';
        match o with
        | Some (VRef n) =>
          elet u <- upd f n;
          match u with Some v => EV (Some v) | None => elet v <- cur F n; EV (Some v) end
        | Some _ => EErr Illegal
        | None => elet v <- cur F c'; match v with VRef i => upd f i | _ => EErr Illegal end
        end
      | DCLoop => match alookup (loops st) c with Some t => upd f t | None => EV None end
      | _ => EErr Illegal
      end
    end.

  Definition is_cell (d : def) : bool :=
    match d with DHold _ | DConst | DMapC _ _ | DLift _ _ | DSwitchC _ | DCLoop => true | _ => false end.
End Txn.

(* ------------------------------------------------------------------ observations *)

Inductive obs :=
| BCall (l : nat) (v : val)
| BSample (h : nat) (v : val)
| BForced (z : nat) (v : val)
| BPost (k : nat) (vs : list val)
| BPanic (e : perr).

(* a deferred item waiting for its own transaction *)
Inductive ditem := DEvent (h : nat) (v : val) | DPost (k : nat) (cs : list nat).

Definition source_of (d : ditem) : nat := match d with DEvent h _ => h | DPost k _ => 1000 + k end.

(* the n-th item (counting only items that are first of their source) is run next: every order that
   keeps the events of one source in order is allowed (property C09's only unspecified choice) *)
Fixpoint heads (seen : list nat) (q : list ditem) : list ditem :=
  match q with
  | [] => []
  | d :: t => if amem seen (source_of d) then heads seen t else d :: heads (source_of d :: seen) t
  end.
Fixpoint remove_first (src : nat) (q : list ditem) : list ditem :=
  match q with
  | [] => []
  | d :: t => if Nat.eqb (source_of d) src then t else d :: remove_first src t
  end.

Record txn_result := mkRes { r_state : state; r_obs : list obs; r_deferred : list ditem }.

(* close one transaction: compute every listener's call, commit cell updates and once flags, resolve
   the values of cells and lazies created in it, collect the deferred work it produced *)
Definition close_txn (st : state) (inj : list (nat * val)) (user_posts : list (nat * list nat)) : ev txn_result :=
  let Fu := F st in
  elet calls <- emap (fun lh : nat * nat =>
                        elet o <- occ st inj Fu (snd lh);
                        EV (match o with Some v => [BCall (fst lh) v] | None => [] end))
                     (rev (listeners st));
  let cells := filter (fun kd => is_cell (snd kd)) (defs st) in
  (* a cell whose value hangs on a loop that is not closed yet stays unresolved (reading it fails loudly) *)
  elet newvals0 <- emap (fun kd : nat * def =>
                          elet u <- upd st inj Fu (fst kd);
                          match u with
                          | Some v => EV [(fst kd, v)]
                          | None => match cur st (F st) (fst kd) with
                                    | EV v => EV [(fst kd, v)]
                                    | EErr SampledBeforeLoop => EV []
                                    | EErr e => EErr e
                                    end
                          end) cells;
  let newvals := concat newvals0 in
  elet lzs <- emap (fun zl : nat * (lz * nat) =>
                      match fst (snd zl) with
                      | LzVal v => EV zl
                      | LzCell c => elet v <- cur st (F st) c; EV (fst zl, (LzVal v, snd (snd zl)))
                      end) (lazies st);
  elet onces <- emap (fun kd : nat * def =>
                        match snd kd with
                        | DOnce _ => elet o <- occ st inj Fu (fst kd);
                                     EV (match o with Some _ => [fst kd] | None => [] end)
                        | _ => EV []
                        end) (defs st);
  elet defers <- emap (fun kd : nat * def =>
                         match snd kd with
                         | DDefer a => elet o <- occ st inj Fu a;
                                       EV (match o with Some v => [DEvent (fst kd) v] | None => [] end)
                         | DSplit a => elet o <- occ st inj Fu a;
                                       EV (match o with
                                           | Some (VList l) => map (DEvent (fst kd)) l
                                           | Some v => [DEvent (fst kd) v]
                                           | None => []
                                           end)
                         | _ => EV []
                         end) (rev (defs st));
  let st' := mkState (defs st) newvals [] [] (concat onces ++ fired st) [] (loops st) (listeners st)
                     0 (tdone st) [] [] lzs in
  EV (mkRes st' (concat calls) (concat defers ++ map (fun p => DPost (fst p) (snd p)) user_posts)).

(* run the deferred work: each item in a transaction of its own; [choice] picks among the sources *)
Fixpoint run_deferred (fuel : nat) (choice : list nat) (st : state) (q : list ditem) (acc : list obs)
  : ev (state * list obs * list nat (* numbers of alternatives met, for the enumerating driver *)) :=
  match fuel with
  | O => EErr Illegal
  | S f =>
    match heads [] q with
    | [] => EV (st, acc, [])
    | hs =>
      let k := match choice with c :: _ => Nat.modulo c (length hs) | [] => O end in
      let d := nth k hs (DPost 0 []) in
      let q' := remove_first (source_of d) q in
      match d with
      | DEvent h v =>
        elet r <- close_txn st [(h, v)] [];
        elet rest <- run_deferred f (tl choice) (r_state r) (q' ++ r_deferred r) (acc ++ r_obs r);
        EV (fst (fst rest), snd (fst rest), length hs :: snd rest)
      | DPost kk cs =>
        elet vs <- emap (cur st (F st)) cs;
        elet rest <- run_deferred f (tl choice) st q' (acc ++ [BPost kk vs]);
        EV (fst (fst rest), snd (fst rest), length hs :: snd rest)
      end
    end
  end.

(* one deferred item, chosen among the heads of the queue: the single-step form of run_deferred, used by
   the driver to follow the order the implementation took *)
Definition defer_one (st : state) (q : list ditem) (k : nat) : ev (state * list ditem * list obs) :=
  let hs := heads [] q in
  let d := nth (Nat.modulo k (length hs)) hs (DPost 0 []) in
  let q' := remove_first (source_of d) q in
  match d with
  | DEvent h v => elet r <- close_txn st [(h, v)] []; EV (r_state r, q' ++ r_deferred r, r_obs r)
  | DPost kk cs => elet vs <- emap (cur st (F st)) cs; EV (st, q', [BPost kk vs])
  end.

Definition end_outer (choice : list nat) (st : state) : ev (state * list obs * list nat) :=
  elet r <- close_txn st (sends st) (posts st);
  run_deferred 200 choice (r_state r) (r_deferred r) (r_obs r).

(* ------------------------------------------------------------------ operations *)

Inductive op :=
| ODef (h : nat) (d : def)                         (* any primitive whose result is one new object *)
| OHold (h s : nat) (v : val)                      (* hold with an initial value *)
| OHoldLazy (h s z : nat)
| OConst (h : nat) (v : val)
| OLoopS (l t : nat) | OLoopC (l t : nat)          (* loop_ *)
| OListen (l s : nat) | OUnlisten (l : nat)
| OListenC (l vh c : nat)                          (* Cell::listen = value().listen in one transaction *)
| OSend (h : nat) (v : val)
| OSample (h : nat)
| OSampleLazy (z c : nat) | OLazyNew (z : nat) (v : val) | OForce (z : nat) | OCloneLazy (z z' : nat)
| OBegin | OEnd                                     (* closure transaction brackets *)
| OTNew (t : nat) | OTClose (t : nat)               (* scoped transaction; drop = close *)
| OPostK (k : nat) (cs : list nat)
| ONop.                                             (* clone / drop of handles, gc: no semantic effect *)

Definition with_defs st h d :=
  mkState (aset (defs st) h d) (cvals st) (inits st) (linit st) (fired st) (h :: fresh st) (loops st)
          (listeners st) (depth st) (tdone st) (sends st) (posts st) (lazies st).

Definition set_depth st n :=
  mkState (defs st) (cvals st) (inits st) (linit st) (fired st) (fresh st) (loops st)
          (listeners st) n (tdone st) (sends st) (posts st) (lazies st).

(* the body of an operation, executed inside some open transaction *)
Definition body (st : state) (o : op) : ev (state * list obs) :=
  match o with
  | ODef h d => EV (with_defs st h d, [])
  | OHold h s v =>
    let st1 := with_defs st h (DHold s) in
    EV (mkState (defs st1) (cvals st1) (aset (inits st1) h v) (linit st1) (fired st1) (fresh st1) (loops st1)
                (listeners st1) (depth st1) (tdone st1) (sends st1) (posts st1) (lazies st1), [])
  | OHoldLazy h s z =>
    let st1 := with_defs st h (DHold s) in
    EV (mkState (defs st1) (cvals st1) (inits st1) (aset (linit st1) h z) (fired st1) (fresh st1) (loops st1)
                (listeners st1) (depth st1) (tdone st1) (sends st1) (posts st1) (lazies st1), [])
  | OConst h v =>
    let st1 := with_defs st h DConst in
    EV (mkState (defs st1) (aset (cvals st1) h v) (inits st1) (linit st1) (fired st1) (fresh st1) (loops st1)
                (listeners st1) (depth st1) (tdone st1) (sends st1) (posts st1) (lazies st1), [])
  | OLoopS l t | OLoopC l t =>
    match alookup (loops st) l with
    | Some _ => EErr AlreadyLooped
    | None =>
      EV (mkState (defs st) (cvals st) (inits st) (linit st) (fired st) (fresh st) (aset (loops st) l t)
                  (listeners st) (depth st) (tdone st) (sends st) (posts st) (lazies st), [])
    end
  | OListen l s =>
    EV (mkState (defs st) (cvals st) (inits st) (linit st) (fired st) (fresh st) (loops st)
                (aset (listeners st) l s) (depth st) (tdone st) (sends st) (posts st) (lazies st), [])
  | OListenC l vh c =>
    let st1 := with_defs st vh (DValue c) in
    EV (mkState (defs st1) (cvals st1) (inits st1) (linit st1) (fired st1) (fresh st1) (loops st1)
                (aset (listeners st1) l vh) (depth st1) (tdone st1) (sends st1) (posts st1) (lazies st1), [])
  | OUnlisten l =>
    EV (mkState (defs st) (cvals st) (inits st) (linit st) (fired st) (fresh st) (loops st)
                (filter (fun kv => negb (Nat.eqb (fst kv) l)) (listeners st))
                (depth st) (tdone st) (sends st) (posts st) (lazies st), [])
  | OSend h v =>
    EV (mkState (defs st) (cvals st) (inits st) (linit st) (fired st) (fresh st) (loops st)
                (listeners st) (depth st) (tdone st) (sends st ++ [(h, v)]) (posts st) (lazies st), [])
  | OSample h => elet v <- cur st (F st) h; EV (st, [BSample h v])
  | OSampleLazy z c =>
    EV (mkState (defs st) (cvals st) (inits st) (linit st) (fired st) (fresh st) (loops st)
                (listeners st) (depth st) (tdone st) (sends st) (posts st) (aset (lazies st) z (LzCell c, z)), [])
  | OLazyNew z v =>
    EV (mkState (defs st) (cvals st) (inits st) (linit st) (fired st) (fresh st) (loops st)
                (listeners st) (depth st) (tdone st) (sends st) (posts st) (aset (lazies st) z (LzVal v, z)), [])
  | OForce z =>
    match alookup (lazies st) z with
    | Some (LzVal v, _) => EV (st, [BForced z v])
    | Some (LzCell c, _) => elet v <- cur st (F st) c; EV (st, [BForced z v])
    | None => EErr Illegal
    end
  | OCloneLazy z z' =>
    match alookup (lazies st) z with
    | Some e => EV (mkState (defs st) (cvals st) (inits st) (linit st) (fired st) (fresh st) (loops st)
                            (listeners st) (depth st) (tdone st) (sends st) (posts st) (aset (lazies st) z' e), [])
    | None => EErr Illegal
    end
  | OPostK k cs =>
    EV (mkState (defs st) (cvals st) (inits st) (linit st) (fired st) (fresh st) (loops st)
                (listeners st) (depth st) (tdone st) (sends st) (posts st ++ [(k, cs)]) (lazies st), [])
  | _ => EV (st, [])
  end.

Definition leave (choice : list nat) (st : state) (acc : list obs) : ev (state * list obs * list nat) :=
  match depth st with
  | S O => elet r <- end_outer choice st; EV (fst (fst r), acc ++ snd (fst r), snd r)
  | n => EV (set_depth st (pred n), acc, [])
  end.

(* like [step] below, but the deferred work of an outermost close is returned instead of run *)
Definition leave_q (st : state) (acc : list obs) : ev (state * list obs * list ditem) :=
  match depth st with
  | S O => elet r <- close_txn st (sends st) (posts st); EV (r_state r, acc ++ r_obs r, r_deferred r)
  | n => EV (set_depth st (pred n), acc, [])
  end.

Definition step_q (st : state) (o : op) : ev (state * list obs * list ditem) :=
  match o with
  | OBegin => EV (set_depth st (S (depth st)), [], [])
  | OEnd => leave_q st []
  | OTNew t =>
    let st1 := set_depth st (S (depth st)) in
    EV (mkState (defs st1) (cvals st1) (inits st1) (linit st1) (fired st1) (fresh st1) (loops st1)
                (listeners st1) (depth st1) (aset (tdone st1) t false) (sends st1) (posts st1) (lazies st1), [], [])
  | OTClose t =>
    match alookup (tdone st) t with
    | Some false =>
      let st1 := mkState (defs st) (cvals st) (inits st) (linit st) (fired st) (fresh st) (loops st)
                         (listeners st) (depth st) (aset (tdone st) t true) (sends st) (posts st) (lazies st) in
      leave_q st1 []
    | _ => EV (st, [], [])
    end
  | _ =>
    match depth st with
    | O => elet r <- body (set_depth st 1) o; leave_q (fst r) (snd r)
    | _ => elet r <- body st o; EV (fst r, snd r, [])
    end
  end.

(* one script operation. Outside a transaction every operation is its own transaction. *)
Definition step (choice : list nat) (st : state) (o : op) : ev (state * list obs * list nat) :=
  match o with
  | OBegin => EV (set_depth st (S (depth st)), [], [])
  | OEnd => leave choice st []
  | OTNew t =>
    let st1 := set_depth st (S (depth st)) in
    EV (mkState (defs st1) (cvals st1) (inits st1) (linit st1) (fired st1) (fresh st1) (loops st1)
                (listeners st1) (depth st1) (aset (tdone st1) t false) (sends st1) (posts st1) (lazies st1), [], [])
  | OTClose t =>
    match alookup (tdone st) t with
    | Some false =>
      let st1 := mkState (defs st) (cvals st) (inits st) (linit st) (fired st) (fresh st) (loops st)
                         (listeners st) (depth st) (aset (tdone st) t true) (sends st) (posts st) (lazies st) in
      leave choice st1 []
    | _ => EV (st, [], [])
    end
  | _ =>
    match depth st with
    | O =>
      elet r <- body (set_depth st 1) o;
      leave choice (fst r) (snd r)
    | _ => elet r <- body st o; EV (fst r, snd r, [])
    end
  end.
