(* Several threads on ONE context (property C20). The implementation has one transaction depth counter
   per context and no transaction lock: the steps a thread performs (open a bracket, send, close a
   bracket) act on the shared state in the order in which the threads happen to execute them. The
   model is therefore the specification's [step] applied to the interleaved sequence of the threads'
   operations. Which thread performs a step is irrelevant to the state - that is the defect. *)
From Coq Require Import List ZArith Bool Arith.
Import ListNotations.
From Sodium Require Import Sodium.
Open Scope Z_scope.

Inductive tstep := TBegin | TSend (v : Z) | TEnd.

(* the fixed program of the C20 scripts: sinks a (thread A) and b (thread B), m = a.merge(b, +),
   listeners 0 on m, 1 on a, 2 on b *)
Definition key_a : nat := 0.
Definition key_b : nat := 8.
Definition key_m : nat := 16.

Definition setup : list op :=
  [ODef key_a (DSink None); ODef key_b (DSink None); ODef key_m (DMerge key_a key_b GAdd);
   OListen 0 key_m; OListen 1 key_a; OListen 2 key_b].

Definition op_of (thread_b : bool) (t : tstep) : op :=
  match t with
  | TBegin => OBegin
  | TSend v => OSend (if thread_b then key_b else key_a) (VInt v)
  | TEnd => OEnd
  end.

Fixpoint run_ops (st : state) (ops : list op) : option (state * list (list obs)) :=
  match ops with
  | [] => Some (st, [])
  | o :: t =>
    match step [] st o with
    | EV (st1, os, _) =>
      match run_ops st1 t with
      | Some (st2, rest) => Some (st2, os :: rest)
      | None => None
      end
    | EErr _ => None
    end
  end.

Definition start : option state :=
  match run_ops init_state setup with Some (st, _) => Some st | None => None end.

(* a schedule: which thread performs which step, in execution order *)
Definition schedule := list (bool * tstep).

Definition run_schedule (s : schedule) : option (list (list obs)) :=
  match start with
  | Some st => match run_ops st (map (fun bt => op_of (fst bt) (snd bt)) s) with
               | Some (_, os) => Some os
               | None => None
               end
  | None => None
  end.

(* all calls delivered during a schedule, in order *)
Definition calls_of (s : schedule) : option (list obs) :=
  match run_schedule s with Some os => Some (concat os) | None => None end.

(* the witness schedules *)
Definition overlap : schedule :=
  [(false, TBegin); (false, TSend 1); (true, TBegin); (true, TSend 100); (false, TEnd); (true, TEnd)].
Definition serial_ab : schedule :=
  [(false, TBegin); (false, TSend 1); (false, TEnd); (true, TBegin); (true, TSend 100); (true, TEnd)].
Definition serial_ba : schedule :=
  [(true, TBegin); (true, TSend 100); (true, TEnd); (false, TBegin); (false, TSend 1); (false, TEnd)].
