(* Several contexts (property C19): the state of the system is one specification state per context; an
   operation issued on context i acts on that context's state only. This is how the implementation is
   built - every piece of state hangs off a SodiumCtx (checked on every run by a source scan for global
   state) - and the measured tie is that interleaved and threaded runs of the real library equal the solo
   runs bit-exactly. *)
From Coq Require Import List Arith Bool.
Import ListNotations.
From Sodium Require Import Sodium.

Definition ctxs := nat -> state.

Definition upd_ctx (f : ctxs) (i : nat) (s : state) : ctxs :=
  fun j => if Nat.eqb j i then s else f j.

(* an interleaving: which context performs which operation, in execution order *)
Fixpoint run_multi (f : ctxs) (ops : list (nat * op)) : ev (ctxs * list (nat * list obs)) :=
  match ops with
  | [] => EV (f, [])
  | (i, o) :: t =>
    match step [] (f i) o with
    | EV (s', os, _) =>
      match run_multi (upd_ctx f i s') t with
      | EV (f', rest) => EV (f', (i, os) :: rest)
      | EErr e => EErr e
      end
    | EErr e => EErr e
    end
  end.

Fixpoint run_solo (s : state) (ops : list op) : ev (state * list (list obs)) :=
  match ops with
  | [] => EV (s, [])
  | o :: t =>
    match step [] s o with
    | EV (s', os, _) =>
      match run_solo s' t with
      | EV (s'', rest) => EV (s'', os :: rest)
      | EErr e => EErr e
      end
    | EErr e => EErr e
    end
  end.

Definition proj {A} (i : nat) (l : list (nat * A)) : list A :=
  map snd (filter (fun x => Nat.eqb (fst x) i) l).
