(* Executable model of the raw propagation engine: /repo/src/impl_/sodium_ctx.rs `update_node`
   (as repaired: `update_node2 node as_dependency`; `orig = true` gives the algorithm as originally
   found, used only for the refutation theorem) and the drain loop of `end_of_transaction`.
   Nodes are indexed by creation order; `deps` is NodeData.dependencies, `dependents` the weak
   dependents list in registration order, `visited`/`changed` the two flags, `fire` the firing slot
   that the update closure writes (for raw nodes: a rule F of the dependencies' firings).
   `done` is a ghost flag (not present in the code, never read by the algorithm) used by the proofs.

   DYNAMIC DEMANDS.  An update closure may, from inside its own update, ask the engine to bring another
   node up to date as a dependency: `sodium_ctx.update_node2(target, true)` (/repo/src/impl_/cell.rs
   `switch_c`: the outer node demands the update stream of the cell that the outer cell of cells just
   fired).  The model has a second, dynamic stage of dependency visiting: after the static dependencies
   have been visited, the demand function `Dm n ins` (a function of the node and of the firings `ins` of
   its static dependencies) gives the nodes demanded now; the unvisited ones are visited exactly like
   static dependencies; then the update runs iff some static dependency or some demanded node changed,
   and the rule receives both lists of firings.  `dem` is static data of a node, like `deps`: the list
   of its POTENTIAL demand targets (the engine never reads it; raw scripts use it to define `Dm`).
   With `Dm = no_demands` the engine is, step for step, the engine without demands
   (EngineSafe.update_node_no_demands). *)
From Coq Require Import List Arith Bool.
Import ListNotations.

Definition is_some {A} (o : option A) : bool := match o with Some _ => true | None => false end.

(* raw engine: nodes with deps (strong, upstream) and dependents (registration order) *)
(* the firing slot holds a value of an arbitrary type Val (implicit argument of everything below) *)
Record node (Val : Type) := { deps : list nat; dem : list nat; dependents : list nat;
                 visited : bool; done : bool; changed : bool; fire : option Val }.
Arguments deps {Val} _.
Arguments dem {Val} _.
Arguments dependents {Val} _.
Arguments visited {Val} _.
Arguments done {Val} _.
Arguments changed {Val} _.
Arguments fire {Val} _.
Arguments Build_node {Val} _ _ _ _ _ _ _.
Definition graph (Val : Type) := list (node Val).
Record st (Val : Type) := { g : graph Val; queue : list nat; log : list nat (* update executions, newest first *) }.
Arguments g {Val} _.
Arguments queue {Val} _.
Arguments log {Val} _.
Arguments Build_st {Val} _ _ _.

Definition get {Val} (gr : graph Val) (n : nat) : node Val :=
  nth n gr {| deps := []; dem := []; dependents := []; visited := true; done := true; changed := false; fire := None |}.
Fixpoint set {Val} (gr : graph Val) (n : nat) (x : node Val) : graph Val :=
  match gr, n with [], _ => [] | _ :: t, 0 => x :: t | y :: t, S k => y :: set t k x end.

(* update rule of a derived node: a function of the firings of the static dependencies and of the firings
   of the nodes demanded in this transaction; must be None if none fired *)
Definition rule (Val : Type) := nat -> list (option Val) -> list (option Val) -> option Val.
(* demand function: the nodes that node n demands, given the firings of its static dependencies *)
Definition demand (Val : Type) := nat -> list (option Val) -> list nat.
Definition no_demands {Val} : demand Val := fun _ _ => [].

Section E.
  Context {Val : Type}.
  Variable F : rule Val.
  Variable Dm : demand Val.
  Variable orig : bool.   (* true = algorithm before repair F1: always walk dependents *)

  Definition fires_of (gr : graph Val) (l : list nat) : list (option Val) := map (fun d => fire (get gr d)) l.

  (* the update closure of n, having demanded the nodes ex *)
  Definition run_update (s : st Val) (n : nat) (ex : list nat) : st Val :=
    let x := get (g s) n in
    let r := F n (fires_of (g s) (deps x)) (fires_of (g s) ex) in
    let x' := {| deps := deps x; dem := dem x; dependents := dependents x; visited := visited x; done := done x;
                 changed := match r with Some _ => true | None => changed x end;
                 fire := match r with Some _ => r | None => fire x end |} in
    {| g := set (g s) n x'; queue := queue s; log := n :: log s |}.

  Definition mark (s : st Val) (n : nat) (v d : bool) : st Val :=
    let x := get (g s) n in
    {| g := set (g s) n {| deps := deps x; dem := dem x; dependents := dependents x; visited := v; done := d;
                           changed := changed x; fire := fire x |};
       queue := queue s; log := log s |}.

  Fixpoint update_node (fuel : nat) (s : st Val) (n : nat) (as_dep : bool) : option (st Val) :=
    match fuel with 0 => None | S f =>
      if visited (get (g s) n) then Some s else
      let s1 := mark s n true false in
      let ds := deps (get (g s) n) in
      (* stage 1: the static dependencies *)
      match fold_left (fun acc d => match acc with None => None | Some a =>
                          if visited (get (g a) d) then Some a else update_node f a d true end) ds (Some s1) with
      | None => None
      | Some s2 =>
        (* stage 2: the nodes demanded now, visited exactly like dependencies *)
        let ex := Dm n (fires_of (g s2) ds) in
        match fold_left (fun acc d => match acc with None => None | Some a =>
                            if visited (get (g a) d) then Some a else update_node f a d true end) ex (Some s2) with
        | None => None
        | Some s2' =>
          let s3 := if existsb (fun d => changed (get (g s2') d)) (ds ++ ex) then run_update s2' n ex else s2' in
          let s4 := mark s3 n true true in
          if changed (get (g s4) n) then
            if as_dep && negb orig then
              Some {| g := g s4; queue := queue s4 ++ dependents (get (g s4) n); log := log s4 |}
            else
              fold_left (fun acc m => match acc with None => None | Some a => update_node f a m false end)
                        (dependents (get (g s4) n)) (Some s4)
          else Some s4
        end
      end
    end.

  Fixpoint drain (rounds fuel : nat) (s : st Val) : option (st Val) :=
    match rounds with 0 => None | S r =>
      match queue s with
      | [] => Some s
      | q => match fold_left (fun acc n => match acc with None => None | Some a => update_node fuel a n false end) q
                             (Some {| g := g s; queue := []; log := log s |}) with
             | None => None | Some s' => drain r fuel s' end
      end
    end.
End E.
