(* Operation scripts over the raw engine (property C03's correspondence): build raw nodes, add
   dependencies, run a transaction that fires chosen source nodes in a chosen queue order.
   `ENodeD ds dm` builds a DEMANDING node: static dependencies ds, potential demand targets dm; its update
   closure, when the first static dependency fired, demands every node of dm
   (`sodium_ctx.update_node2(target, true)` from inside the update) and then applies the same rule to the
   firings of ds followed by those of dm. *)
From Coq Require Import List Arith Bool.
Import ListNotations.
From Sodium Require Import Engine.

(* the rule installed in every raw node of the scripts: injective enough that a stale or missing
   input changes the result *)
Definition Fmix : nat -> list (option nat) -> option nat := fun n ins =>
  if existsb is_some ins
  then Some ((n + fold_left (fun acc o => acc * 3 + match o with Some v => S v | None => 0 end) ins 0) mod 1009)
  else None.

(* the rule of the engine for script nodes: Fmix of the firings of the static dependencies followed by the
   firings of the demanded nodes *)
Definition Fscript : rule nat := fun n ins exs => Fmix n (ins ++ exs).

(* the demand function of the scripts, for the graph gr the transaction starts from: a node demands all
   its potential targets when its first static dependency fired, nothing otherwise *)
Definition sDm (gr : graph nat) : demand nat := fun n ins =>
  if is_some (nth 0 ins None) then dem (get gr n) else [].

Inductive eop :=
| ENode (ds : list nat)                  (* Node::new with these dependencies *)
| ENodeD (ds : list nat) (dm : list nat) (* a node that demands dm from inside its update; ENode ds = ENodeD ds [] *)
| EAddDep (n m : nat)                    (* n.add_dependency(m) *)
| ETxn (fs : list (nat * nat)).          (* one transaction: fire (node, value) in this queue order *)

Definition mknode {Val} ds dm : node Val :=
  {| deps := ds; dem := dm; dependents := []; visited := false; done := false; changed := false; fire := None |}.

Definition add_dependent {Val} (gr : graph Val) (d n : nat) : graph Val :=
  let x := get gr d in
  set gr d {| deps := deps x; dem := dem x; dependents := dependents x ++ [n]; visited := visited x; done := done x;
              changed := changed x; fire := fire x |}.

Definition add_dep {Val} (gr : graph Val) (n m : nat) : graph Val :=
  let x := get gr n in
  let gr1 := set gr n {| deps := deps x ++ [m]; dem := dem x; dependents := dependents x; visited := visited x; done := done x;
                         changed := changed x; fire := fire x |} in
  add_dependent gr1 m n.

Definition fire_source {Val} (gr : graph Val) (n : nat) (v : Val) : graph Val :=
  let x := get gr n in
  set gr n {| deps := deps x; dem := dem x; dependents := dependents x; visited := visited x; done := done x;
              changed := true; fire := Some v |}.

(* what the pre_post closures do: clear visited flags, firing slots and changed flags *)
Definition cleanup {Val} (gr : graph Val) : graph Val :=
  map (fun x => {| deps := deps x; dem := dem x; dependents := dependents x; visited := false; done := false;
                   changed := false; fire := None |}) gr.

Definition in_range {Val} (gr : graph Val) (l : list nat) : bool := forallb (fun d => Nat.ltb d (length gr)) l.

(* result of a transaction: the update log (oldest first) and every node's final firing *)
Definition eout := option (list nat * list (option nat)).

Definition estep (orig : bool) (gr : graph nat) (op : eop) : graph nat * eout :=
  match op with
  | ENode ds =>
    if in_range gr ds then
      let n := length gr in
      (fold_left (fun g d => add_dependent g d n) ds (gr ++ [mknode ds []]), None)
    else (gr, None)
  | ENodeD ds dm =>
    (* registered among the dependents of its static dependencies only *)
    if in_range gr (ds ++ dm) then
      let n := length gr in
      (fold_left (fun g d => add_dependent g d n) ds (gr ++ [mknode ds dm]), None)
    else (gr, None)
  | EAddDep n m =>
    if in_range gr [n; m] then (add_dep gr n m, None) else (gr, None)
  | ETxn fs =>
    if in_range gr (map fst fs) then
      let gr1 := fold_left (fun g nv => fire_source g (fst nv) (snd nv)) fs gr in
      let N := length gr in
      match drain Fscript (sDm gr) orig (S (S N)) (S (S (N + N))) {| g := gr1; queue := map fst fs; log := [] |} with
      | Some s => (cleanup (g s), Some (rev (log s), map fire (g s)))
      | None => (gr, Some ([], []))       (* out of fuel: excluded by EngineFuel's theorem; printed as such *)
      end
    else (gr, None)
  end.
