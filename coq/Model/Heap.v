(* Model/Heap.v - what every FRP primitive allocates on the collector's heap.

   Each public operation of the library (a script line) is compiled to operations of the exact collector
   model Model/Gc.v: which collector objects it creates (in allocation order, transient ones included),
   which counted + reported references (edges) it acquires, which creating handles it keeps and which it
   drops.  The collector theorems (Props/C06, C07, C08) then apply to every FRP program of this fragment,
   and the tie compares this model's heap with the real heap (ids, names, counts, edges) object by object.

   Fragment: every primitive whose heap shape does not depend on event values: sinks, constants, map,
   filter, merge, snapshot*, gate, hold, updates, value, map_c, lift2..6, accum, collect, defer, split,
   loops, listeners (strong, weak, Cell::listen), clone/drop of handles, unlisten, collections.
   User functions may capture handles (with_keeps). The *_lazy forms have the shape of their strict forms (a Lazy
   is not a collector object and, without captured handles, its thunk owns no handle).
   Not in the fragment (shape depends on event values): once, switch_s, switch_c, router, functions whose VALUES
   are handles; lazies together with captured handles in one program (an unforced thunk shares the user function).

   Ghost handles.  Gc.v's contract lets the mutator use only objects it holds a handle on.  The library
   also reaches objects by navigating from a held one (cell -> its updates stream, StreamLoop -> its
   stream).  A slot therefore carries, besides the handles the program really holds ([s_h]), ghost handles
   ([s_g]) on the objects it navigates to; they are acquired with the slot and dropped with it, every ghost
   target has an edge from a really-held object of the same slot, and the view ([hview]) subtracts them:
   what is compared with the implementation is the real count and the real handle count. *)
From Coq Require Import List Arith Bool.
Import ListNotations.
From Sodium Require Import Gc.

Inductive oname :=
| NStreamNew | NStreamCo | NStreamMap | NStreamFilter | NStreamMerge
| NCellHold | NCellNew | NStreamListen | NListener | NStreamLoop.

(* references inside a template: the i-th argument's node / updates stream, or the k-th new object *)
Inductive tref := RNode (i : nat) | RUpd (i : nat) | RNew (k : nat).

Record tmpl := mkT {
  t_new : list oname;            (* objects created, in allocation order *)
  t_edges : list (tref * tref);    (* counted + reported references acquired, source -> target *)
  t_keep : list nat;             (* new objects whose creating handle the result really keeps *)
  t_ghost : list nat;            (* new objects whose creating handle is kept as a ghost *)
  t_gclone : list tref;           (* existing objects on which the result acquires a ghost handle *)
  t_node : tref;                  (* what depends-on-this means for later operations *)
  t_upd : tref
}.

Record slot := mkSlot {
  s_node : nat;
  s_upd : nat;
  s_h : list nat;      (* real handles *)
  s_g : list nat;      (* ghost handles *)
  s_open : bool        (* a loop that has not been closed yet *)
}.

Record lrec := mkL { l_id : nat; l_ka : bool; l_att : bool; l_held : bool }.

Record hstate := mkH {
  hs : sstate;
  names : list oname;
  slots : list (nat * slot);
  lsn : list (nat * lrec)
}.

Definition hinit : hstate := mkH sinit [] [] [].

Fixpoint lookup {A} (l : list (nat * A)) (k : nat) : option A :=
  match l with
  | [] => None
  | (k', v) :: t => if Nat.eqb k k' then Some v else lookup t k
  end.
Definition remove_key {A} (l : list (nat * A)) (k : nat) : list (nat * A) :=
  filter (fun kv => negb (Nat.eqb (fst kv) k)) l.
Definition set_key {A} (l : list (nat * A)) (k : nat) (v : A) : list (nat * A) := (k, v) :: remove_key l k.

Definition dummy_slot : slot := mkSlot 0 0 [] [] false.

Definition resolve (args : list slot) (base : nat) (r : tref) : nat :=
  match r with
  | RNode i => s_node (nth i args dummy_slot)
  | RUpd i => s_upd (nth i args dummy_slot)
  | RNew k => base + k
  end.

Definition memb (l : list nat) (k : nat) : bool := existsb (Nat.eqb k) l.

(* the collector operations of one template instance *)
Definition inst_ops (t : tmpl) (args : list slot) (base : nat) : list gop :=
  repeat GCreate (length (t_new t))
  ++ map (fun e => GAddEdge (resolve args base (fst e)) (resolve args base (snd e))) (t_edges t)
  ++ map (fun k => GDrop (base + k))
         (filter (fun k => negb (memb (t_keep t) k) && negb (memb (t_ghost t) k)) (seq 0 (length (t_new t))))
  ++ map (fun r => GClone (resolve args base r)) (t_gclone t).

Definition inst_slot (t : tmpl) (args : list slot) (base : nat) : slot :=
  mkSlot (resolve args base (t_node t)) (resolve args base (t_upd t))
         (map (fun k => base + k) (t_keep t))
         (map (fun k => base + k) (t_ghost t) ++ map (resolve args base) (t_gclone t)) false.

(* ---- the templates (read off src/impl_/*.rs and src/*.rs; validated object by object by the tie) ---- *)

Definition e2 (a b : tref) : list (tref * tref) := [(a, b); (a, b)].
Definition e3 (a b : tref) : list (tref * tref) := [(a, b); (a, b); (a, b)].

Definition t_sink (n : oname) : tmpl := mkT [n] [] [0] [] [] (RNew 0) (RNew 0).
(* CellSink = StreamSink + hold; the handle keeps both *)
Definition t_csink : tmpl := mkT [NStreamNew; NCellHold] (e3 (RNew 1) (RNew 0)) [0; 1] [] [] (RNew 1) (RNew 0).
(* constant cell: a private never-firing stream owned by the cell's data (an owned reference the tracer does
   not report separately: modelled as the edge it behaves as) *)
Definition t_const : tmpl := mkT [NStreamNew; NCellNew] [(RNew 1, RNew 0)] [1] [0] [] (RNew 1) (RNew 0).
(* map, map_to, filter: one node, its dependency and the dependency declared by the update closure *)
Definition t_unary (n : oname) : tmpl := mkT [n] (e2 (RNew 0) (RNode 0)) [0] [] [] (RNew 0) (RNew 0).
(* filter_option = map . filter . map *)
Definition t_filter_opt : tmpl :=
  mkT [NStreamMap; NStreamFilter; NStreamMap]
      (e2 (RNew 0) (RNode 0) ++ e2 (RNew 1) (RNew 0) ++ e2 (RNew 2) (RNew 1)) [2] [] [] (RNew 2) (RNew 2).
Definition t_merge : tmpl :=
  mkT [NStreamMerge] [(RNew 0, RNode 0); (RNew 0, RNode 1); (RNew 0, RNode 0); (RNew 0, RNode 1)] [0] [] [] (RNew 0) (RNew 0).
(* snapshot of stream (argument 0) against cells (arguments 1..n): one node *)
Definition t_snapshot (ncells : nat) : tmpl :=
  mkT [NStreamMap]
      ((RNew 0, RNode 0) :: map (fun i => (RNew 0, RNode (S i))) (seq 0 ncells) ++ [(RNew 0, RNode 0)])
      [0] [] [] (RNew 0) (RNew 0).
(* gate s c = s.filter over c.map(pred): a mapped cell (stream + hold) and the filter node *)
Definition t_gate : tmpl :=
  mkT [NStreamMap; NCellHold; NStreamFilter]
      (e2 (RNew 0) (RUpd 1) ++ e3 (RNew 1) (RNew 0) ++ [(RNew 2, RNode 0); (RNew 2, RNew 1); (RNew 2, RNode 0)])
      [2] [] [] (RNew 2) (RNew 2).
Definition t_hold : tmpl := mkT [NCellHold] (e3 (RNew 0) (RNode 0)) [0] [] [RNode 0] (RNew 0) (RNode 0).
(* value c = spark.map(sample).merge(updates) *)
Definition t_value : tmpl :=
  mkT [NStreamNew; NStreamMap; NStreamMerge]
      (e2 (RNew 1) (RNew 0) ++ [(RNew 2, RUpd 0); (RNew 2, RNew 1); (RNew 2, RUpd 0); (RNew 2, RNew 1)])
      [2] [] [] (RNew 2) (RNew 2).
Definition t_map_c : tmpl :=
  mkT [NStreamMap; NCellHold] (e2 (RNew 0) (RUpd 0) ++ e3 (RNew 1) (RNew 0)) [1] [0] [] (RNew 1) (RNew 0).
Definition t_lift2 : tmpl :=
  mkT [NStreamMap; NStreamMap; NStreamMerge; NStreamMap; NCellHold]
      (e2 (RNew 0) (RUpd 0) ++ e2 (RNew 1) (RUpd 1)
       ++ [(RNew 2, RNew 0); (RNew 2, RNew 1); (RNew 2, RNew 0); (RNew 2, RNew 1)]
       ++ e2 (RNew 3) (RNew 2) ++ e3 (RNew 4) (RNew 3))
      [4] [3] [] (RNew 4) (RNew 3).
(* accum: StreamLoop (transient) + hold + snapshot, closed onto itself *)
Definition t_accum : tmpl :=
  mkT [NStreamNew; NStreamLoop; NCellHold; NStreamMap]
      ([(RNew 1, RNew 0)] ++ e3 (RNew 2) (RNew 0)
       ++ [(RNew 3, RNode 0); (RNew 3, RNew 2); (RNew 3, RNode 0)] ++ e2 (RNew 0) (RNew 3))
      [2] [0] [] (RNew 2) (RNew 0).
Definition t_collect : tmpl :=
  mkT [NStreamNew; NStreamLoop; NCellHold; NStreamMap; NStreamMap; NStreamMap]
      ([(RNew 1, RNew 0)] ++ e3 (RNew 2) (RNew 0)
       ++ [(RNew 3, RNode 0); (RNew 3, RNew 2); (RNew 3, RNode 0)]
       ++ e2 (RNew 4) (RNew 3) ++ e2 (RNew 5) (RNew 3) ++ e2 (RNew 0) (RNew 5))
      [4] [] [] (RNew 4) (RNew 4).
(* defer / split: a sink fed by a weak listener on the source; the sink keeps the listener alive *)
Definition t_defer : tmpl :=
  mkT [NStreamNew; NStreamListen; NListener]
      (e2 (RNew 1) (RNode 0) ++ [(RNew 2, RNew 1); (RNew 0, RNew 2)]) [0] [] [] (RNew 0) (RNew 0).
(* the script operation split = map (to the list type) . split: the conversion node, then defer's shape on it *)
Definition t_split : tmpl :=
  mkT [NStreamMap; NStreamNew; NStreamListen; NListener]
      (e2 (RNew 0) (RNode 0) ++ e2 (RNew 2) (RNew 0) ++ [(RNew 3, RNew 2); (RNew 1, RNew 3)]) [1] [] [] (RNew 1) (RNew 1).
Definition t_sloop : tmpl := mkT [NStreamNew; NStreamLoop] [(RNew 1, RNew 0)] [1] [0] [] (RNew 0) (RNew 0).
(* CellLoop = hidden StreamLoop + hold_lazy on its stream; the handle keeps the cell and the StreamLoop *)
Definition t_cloop : tmpl :=
  mkT [NStreamNew; NStreamLoop; NCellHold] ([(RNew 1, RNew 0)] ++ e3 (RNew 2) (RNew 0)) [1; 2] [0] [] (RNew 2) (RNew 0).
Definition t_listen : tmpl :=
  mkT [NStreamListen; NListener] (e2 (RNew 0) (RNode 0) ++ [(RNew 1, RNew 0)]) [1] [] [] (RNew 1) (RNew 1).
(* Cell::listen = value(c).listen in one transaction; the value stream's handle is not kept *)
Definition t_listen_c : tmpl :=
  mkT [NStreamNew; NStreamMap; NStreamMerge; NStreamListen; NListener]
      (e2 (RNew 1) (RNew 0) ++ [(RNew 2, RUpd 0); (RNew 2, RNew 1); (RNew 2, RUpd 0); (RNew 2, RNew 1)]
       ++ e2 (RNew 3) (RNew 2) ++ [(RNew 4, RNew 3)])
      [4] [] [] (RNew 4) (RNew 4).

(* user functions may capture handles (lambdaN(f, deps)): the object that owns the function acquires one counted +
   reported reference on each captured object. [with_keeps t owner first nk]: the captured objects are the arguments
   number first .. first+nk-1 of the instance *)
Definition with_keeps (t : tmpl) (owner first nk : nat) : tmpl :=
  mkT (t_new t) (t_edges t ++ map (fun i => (RNew owner, RNode (first + i))) (seq 0 nk))
      (t_keep t) (t_ghost t) (t_gclone t) (t_node t) (t_upd t).

Inductive prim :=
| PSink | PSinkCo | PNever | PCSink | PConst | PMap | PFilter | PFilterOpt | PMerge | PSnapshot | PGate
| PHold | PValue | PMapC | PLift2 | PAccum | PCollect | PDefer | PSplit | PSLoop | PCLoop.

Definition tmpl_of (p : prim) (nargs : nat) : tmpl :=
  match p with
  | PSink | PNever => t_sink NStreamNew
  | PSinkCo => t_sink NStreamCo
  | PCSink => t_csink
  | PConst => t_const
  | PMap => t_unary NStreamMap
  | PFilter => t_unary NStreamFilter
  | PFilterOpt => t_filter_opt
  | PMerge => t_merge
  | PSnapshot => t_snapshot (pred nargs)
  | PGate => t_gate
  | PHold => t_hold
  | PValue => t_value
  | PMapC => t_map_c
  | PLift2 => t_lift2
  | PAccum => t_accum
  | PCollect => t_collect
  | PDefer => t_defer
  | PSplit => t_split
  | PSLoop => t_sloop
  | PCLoop => t_cloop
  end.

(* which new object holds the user function of the primitive *)
Definition fun_owner (p : prim) : option nat :=
  match p with
  | PMap | PFilter | PMerge | PSnapshot | PMapC => Some 0
  | PLift2 | PAccum | PCollect => Some 3
  | _ => None
  end.

Definition tmpl_with (p : prim) (nargs nkeep : nat) : tmpl :=
  match fun_owner p with
  | Some o => with_keeps (tmpl_of p nargs) o nargs nkeep
  | None => tmpl_of p nargs
  end.

Definition arity_ok (p : prim) (nargs : nat) : bool :=
  match p with
  | PSink | PSinkCo | PNever | PCSink | PConst | PSLoop | PCLoop => Nat.eqb nargs 0
  | PMap | PFilter | PFilterOpt | PHold | PValue | PMapC | PAccum | PCollect | PDefer | PSplit => Nat.eqb nargs 1
  | PMerge | PGate | PLift2 => Nat.eqb nargs 2
  | PSnapshot => Nat.leb 2 nargs
  end.

(* ---- operations (one per script line) ---- *)
Inductive hop :=
| HDef (h : nat) (p : prim) (args keeps : list nat)   (* keeps: slots whose handles the user function captures *)
| HLift (h : nat) (args keeps : list nat)           (* lift2..lift6: a left-nested chain of lift2; the last stage owns the function *)
| HUpdates (h c : nat)
| HLoop (l t : nat)                                 (* StreamLoop::loop_ / CellLoop::loop_ *)
| HListen (l s : nat) (strong : bool)
| HListenC (l c : nat) (strong : bool)                (* Cell::listen / Cell::listen_weak *)
| HUnlisten (l : nat)
| HDropL (l : nat)
| HClone (h h' : nat)                               (* h' := clone of h *)
| HDrop (h : nat)
| HCollect
| HNop.

Definition run_ops (st : hstate) (ops : list gop) (nn : list oname) : res hstate :=
  match srun (hs st) ops with
  | Ok s' => Ok (mkH s' (names st ++ nn) (slots st) (lsn st))
  | Panic e => Panic e
  | OutOfFuel => OutOfFuel
  end.

Fixpoint lookups (sl : list (nat * slot)) (ks : list nat) : option (list slot) :=
  match ks with
  | [] => Some []
  | k :: t => match lookup sl k, lookups sl t with
              | Some s, Some r => Some (s :: r)
              | _, _ => None
              end
  end.

Definition with_slot (st : hstate) (h : nat) (s : slot) : hstate :=
  mkH (hs st) (names st) (set_key (slots st) h s) (lsn st).
Definition without_slot (st : hstate) (h : nat) : hstate :=
  mkH (hs st) (names st) (remove_key (slots st) h) (lsn st).
Definition with_listener (st : hstate) (l : nat) (r : lrec) : hstate :=
  mkH (hs st) (names st) (slots st) (set_key (lsn st) l r).

Definition base_of (st : hstate) : nat := nobjs (g (hs st)).

(* instantiate a template and bind the result to slot h (h must be free: re-binding would forget handles) *)
Definition def_slot (st : hstate) (h : nat) (t : tmpl) (args : list slot) (open : bool) : res hstate :=
  let base := base_of st in
  match run_ops st (inst_ops t args base) (t_new t) with
  | Ok st1 =>
    let s := inst_slot t args base in
    Ok (with_slot st1 h (mkSlot (s_node s) (s_upd s) (s_h s) (s_g s) open))
  | r => r
  end.

Definition drop_slot_ops (s : slot) : list gop := map GDrop (s_h s) ++ map GDrop (s_g s).
Definition clone_slot_ops (s : slot) : list gop := map GClone (s_h s) ++ map GClone (s_g s).

(* lift over cells c1 c2 c3 ...: lift2 (lift2 c1 c2) c3 ...; the intermediate cells are dropped *)
Fixpoint lift_chain (st : hstate) (h : nat) (acc : slot) (first : bool) (rest : list slot) (keeps : list slot)
  : res hstate :=
  match rest with
  | [] => Ok (with_slot st h acc)
  | c :: t =>
    let base := base_of st in
    (* the user function lives in the last stage *)
    let tm := match t with [] => with_keeps t_lift2 3 2 (length keeps) | _ => t_lift2 end in
    let ar := match t with [] => [acc; c] ++ keeps | _ => [acc; c] end in
    match run_ops st (inst_ops tm ar base) (t_new tm) with
    | Ok st1 =>
      let s := inst_slot tm ar base in
      (* the previous intermediate cell is dropped once the next stage is built *)
      match (if first then Ok st1 else run_ops st1 (drop_slot_ops acc) []) with
      | Ok st2 => lift_chain st2 h s false t keeps
      | r => r
      end
    | r => r
    end
  end.

Definition free_slot (st : hstate) (h : nat) : bool :=
  match lookup (slots st) h with None => true | Some _ => false end.
Definition free_listener (st : hstate) (l : nat) : bool :=
  match lookup (lsn st) l with None => true | Some _ => false end.

Definition hstep (st : hstate) (op : hop) : res hstate :=
  match op with
  | HDef h p args keeps =>
    match lookups (slots st) args, lookups (slots st) keeps with
    | Some sl, Some kl =>
      if free_slot st h && arity_ok p (length args)
      then def_slot st h (tmpl_with p (length args) (length keeps)) (sl ++ kl)
                    (match p with PSLoop | PCLoop => true | _ => false end)
      else Ok st
    | _, _ => Ok st
    end
  | HLift h args keeps =>
    match lookups (slots st) args, lookups (slots st) keeps with
    | Some (a :: b :: rest), Some kl =>
      if free_slot st h then lift_chain st h a true (b :: rest) kl else Ok st
    | _, _ => Ok st
    end
  | HUpdates h c =>
    match lookup (slots st) c with
    | Some sc =>
      if free_slot st h then
        match run_ops st [GClone (s_upd sc)] [] with
        | Ok st1 => Ok (with_slot st1 h (mkSlot (s_upd sc) (s_upd sc) [s_upd sc] [] false))
        | r => r
        end
      else Ok st
    | None => Ok st
    end
  | HLoop l t =>
    match lookup (slots st) l, lookup (slots st) t with
    | Some sl, Some stg =>
      if s_open sl then
        (* the loop's stream (the slot's upd) acquires its target as a dependency, twice (dependency + forwarder) *)
        let tgt := if Nat.eqb (s_node sl) (s_upd sl) then s_node stg else s_upd stg in
        match run_ops st [GAddEdge (s_upd sl) tgt; GAddEdge (s_upd sl) tgt] [] with
        | Ok st1 => Ok (with_slot st1 l (mkSlot (s_node sl) (s_upd sl) (s_h sl) (s_g sl) false))
        | r => r
        end
      else Ok st
    | _, _ => Ok st
    end
  | HListen l s strong =>
    match lookup (slots st) s with
    | Some ss =>
      if free_listener st l then
        let base := base_of st in
        match run_ops st (inst_ops t_listen [ss] base ++ (if strong then [GClone (base + 1)] else [])) (t_new t_listen) with
        | Ok st1 => Ok (with_listener st1 l (mkL (base + 1) strong true true))
        | r => r
        end
      else Ok st
    | None => Ok st
    end
  | HListenC l c strong =>
    match lookup (slots st) c with
    | Some sc =>
      if free_listener st l then
        let base := base_of st in
        match run_ops st (inst_ops t_listen_c [sc] base ++ (if strong then [GClone (base + 4)] else [])) (t_new t_listen_c) with
        | Ok st1 => Ok (with_listener st1 l (mkL (base + 4) strong true true))
        | r => r
        end
      else Ok st
    | None => Ok st
    end
  | HUnlisten l =>
    match lookup (lsn st) l with
    | Some r =>
      if l_held r || l_ka r then
        match run_ops st ((if l_att r then [GRemoveEdge (l_id r) 0] else [])
                          ++ (if l_ka r then [GDrop (l_id r)] else [])) [] with
        | Ok st1 => Ok (with_listener st1 l (mkL (l_id r) false false (l_held r)))
        | x => x
        end
      else Ok st
    | None => Ok st
    end
  | HDropL l =>
    match lookup (lsn st) l with
    | Some r =>
      if l_held r then
        match run_ops st [GDrop (l_id r)] [] with
        | Ok st1 => Ok (with_listener st1 l (mkL (l_id r) (l_ka r) (l_att r) false))
        | x => x
        end
      else Ok st
    | None => Ok st
    end
  | HClone h h' =>
    match lookup (slots st) h with
    | Some s =>
      if free_slot st h' then
        (* a clone of a StreamLoop handle is not offered by the API: the harness takes the loop's stream *)
        let s' := if Nat.eqb (s_node s) (s_upd s) && negb (Nat.eqb (length (s_g s)) 0)
                  then mkSlot (s_node s) (s_upd s) [s_node s] [] false
                  else mkSlot (s_node s) (s_upd s) (s_h s) (s_g s) false in
        match run_ops st (clone_slot_ops s') [] with
        | Ok st1 => Ok (with_slot st1 h' s')
        | r => r
        end
      else Ok st
    | None => Ok st
    end
  | HDrop h =>
    match lookup (slots st) h with
    | Some s =>
      match run_ops st (drop_slot_ops s) [] with
      | Ok st1 => Ok (without_slot st1 h)
      | r => r
      end
    | None => Ok st
    end
  | HCollect => run_ops st [GCollect] []
  | HNop => Ok st
  end.

Fixpoint hrun (st : hstate) (ops : list hop) : res hstate :=
  match ops with
  | [] => Ok st
  | op :: t => match hstep st op with Ok st1 => hrun st1 t | r => r end
  end.

(* ---- what the program holds ---- *)
Definition listener_handles (r : lrec) : list nat :=
  (if l_held r then [l_id r] else []) ++ (if l_ka r then [l_id r] else []).
Definition held (st : hstate) : list nat :=
  flat_map (fun kv => s_h (snd kv) ++ s_g (snd kv)) (slots st)
  ++ flat_map (fun kv => listener_handles (snd kv)) (lsn st).
Definition ghosts (st : hstate) : list nat := flat_map (fun kv => s_g (snd kv)) (slots st).

(* release everything: unlisten + drop every listener, drop every slot *)
Definition teardown (st : hstate) : list hop :=
  map (fun kv => HUnlisten (fst kv)) (lsn st) ++ map (fun kv => HDropL (fst kv)) (lsn st)
  ++ map (fun kv => HDrop (fst kv)) (slots st).

(* ---- the view compared with the implementation's heap dump ---- *)
Fixpoint reach_from (fuel : nat) (s : gstate) (todo seen : list nat) : list nat :=
  match fuel with
  | 0 => seen
  | S f =>
    match todo with
    | [] => seen
    | o :: t =>
      if memb seen o then reach_from f s t seen
      else reach_from f s (edges (get s o) ++ t) (o :: seen)
    end
  end.

Record vrow := mkV { v_id : nat; v_name : oname; v_freed : bool; v_rc : nat; v_handles : nat; v_edges : list nat }.

Definition hview (st : hstate) : list vrow :=
  let s := g (hs st) in
  let gh := ghosts st in
  let r := reach_from (S (nobjs s + nedges s + length (held st))) s (held st) [] in
  map (fun o => mkV o (nth o (names st) NStreamNew) (freed (get s o))
                    (rc (get s o) - count_occ Nat.eq_dec gh o)
                    (ext_of (hs st) o - count_occ Nat.eq_dec gh o)
                    (edges (get s o)))
      (filter (fun o => memb r o) (seq 0 (nobjs s))).

(* live FRP nodes (the implementation's node_count): objects that are not freed and are nodes *)
Definition is_node (n : oname) : bool :=
  match n with NListener | NStreamLoop => false | _ => true end.
Definition live_nodes (st : hstate) : nat :=
  length (filter (fun o => negb (freed (get (g (hs st)) o)) && is_node (nth o (names st) NStreamNew))
                 (seq 0 (nobjs (g (hs st))))).
