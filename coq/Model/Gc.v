(* Executable model of /repo/src/impl_/gc_node.rs (the synchronous Bacon-Rajan style collector),
   written to be read side by side with the Rust: same function names, same order of effects.
   Objects are the *synthetic* objects of property C08: an object owns a list of edges, each backed
   by one counted reference; its tracer reports exactly those edges; its destructor releases them.
   Nothing in this file is proved here (proofs live in Proofs/, property statements in Props/). *)
From Coq Require Import List Arith Bool.
Import ListNotations.

Inductive color := Black | Gray | Purple | White.

Definition color_eqb (a b : color) : bool :=
  match a, b with
  | Black, Black | Gray, Gray | Purple, Purple | White, White => true
  | _, _ => false
  end.

Record gobj := mkObj {
  freed : bool;
  rc : nat;            (* ref_count *)
  adj : nat;           (* ref_count_adj *)
  visited : bool;
  col : color;
  buffered : bool;
  edges : list nat;    (* what the tracer enumerates, in order; [] once freed *)
  dtor_runs : nat      (* how many times the destructor body has run *)
}.

Inductive perr :=
| PAdjLarger (id : nat)          (* "ref count adj was larger than ref count" *)
| PFreedNonZero (id : nat)       (* "freed node ref count did not drop to zero" *)
| PIncRefFreed (id : nat).       (* "inc_ref on freed node" *)

Record gstate := mkSt {
  objs : list gobj;          (* index = id *)
  roots : list nat;          (* GcCtxData.roots *)
  to_be_freed : list nat;    (* GcCtxData.to_be_freed *)
  trace_calls : nat;         (* number of GcNode::trace invocations (hook H3) *)
  trace_edges : nat          (* number of tracer callbacks (hook H3) *)
}.

Inductive res (A : Type) :=
| Ok (a : A)
| Panic (e : perr)
| OutOfFuel.
Arguments Ok {A} a.
Arguments Panic {A} e.
Arguments OutOfFuel {A}.

Definition bind {A B} (r : res A) (k : A -> res B) : res B :=
  match r with
  | Ok a => k a
  | Panic e => Panic e
  | OutOfFuel => OutOfFuel
  end.
Notation "'do' x <- r ; k" := (bind r (fun x => k)) (at level 200, x name, r at level 100, k at level 200).

Definition empty_state : gstate := mkSt [] [] [] 0 0.

Definition dummy : gobj := mkObj true 0 0 false Black false [] 0.

Definition get (st : gstate) (n : nat) : gobj := nth n (objs st) dummy.

Fixpoint upd (h : list gobj) (n : nat) (o : gobj) : list gobj :=
  match h, n with
  | [], _ => []
  | _ :: t, 0 => o :: t
  | x :: t, S k => x :: upd t k o
  end.

Definition set (st : gstate) (n : nat) (o : gobj) : gstate :=
  mkSt (upd (objs st) n o) (roots st) (to_be_freed st) (trace_calls st) (trace_edges st).

Definition set_col (o : gobj) (c : color) : gobj :=
  mkObj (freed o) (rc o) (adj o) (visited o) c (buffered o) (edges o) (dtor_runs o).
Definition set_rc (o : gobj) (k : nat) : gobj :=
  mkObj (freed o) k (adj o) (visited o) (col o) (buffered o) (edges o) (dtor_runs o).
Definition set_adj (o : gobj) (k : nat) : gobj :=
  mkObj (freed o) (rc o) k (visited o) (col o) (buffered o) (edges o) (dtor_runs o).
Definition set_visited (o : gobj) (b : bool) : gobj :=
  mkObj (freed o) (rc o) (adj o) b (col o) (buffered o) (edges o) (dtor_runs o).
Definition set_buffered (o : gobj) (b : bool) : gobj :=
  mkObj (freed o) (rc o) (adj o) (visited o) (col o) b (edges o) (dtor_runs o).
Definition set_edges (o : gobj) (es : list nat) : gobj :=
  mkObj (freed o) (rc o) (adj o) (visited o) (col o) (buffered o) es (dtor_runs o).

Definition with_roots (st : gstate) (r : list nat) : gstate :=
  mkSt (objs st) r (to_be_freed st) (trace_calls st) (trace_edges st).
Definition with_tbf (st : gstate) (r : list nat) : gstate :=
  mkSt (objs st) (roots st) r (trace_calls st) (trace_edges st).

(* GcNode::trace: one call, one callback per reported edge (counted by the hooks) *)
Definition count_trace (st : gstate) (n : nat) : gstate :=
  mkSt (objs st) (roots st) (to_be_freed st) (S (trace_calls st)) (trace_edges st + length (edges (get st n))).

(* ---- mutator side: GcNode::{new, inc_ref, inc_ref_if_alive, dec_ref, possible_root} ---- *)

Definition new_obj : gobj := mkObj false 1 0 false Black false [] 0.

Definition gc_new (st : gstate) : gstate * nat :=
  (mkSt (objs st ++ [new_obj]) (roots st) (to_be_freed st) (trace_calls st) (trace_edges st),
   length (objs st)).

Definition inc_ref (st : gstate) (n : nat) : res gstate :=
  let o := get st n in
  if freed o then Panic (PIncRefFreed n)
  else Ok (set st n (set_col (set_rc o (S (rc o))) Black)).

Definition inc_ref_if_alive (st : gstate) (n : nat) : gstate * bool :=
  let o := get st n in
  if negb (Nat.eqb (rc o) 0) && negb (freed o)
  then (set st n (set_col (set_rc o (S (rc o))) Black), true)
  else (st, false).

Definition possible_root (st : gstate) (n : nat) : gstate :=
  let o := get st n in
  if color_eqb (col o) Purple then st
  else
    let o1 := set_col o Purple in
    if buffered o1 then set st n o1
    else with_roots (set st n (set_buffered o1 true)) (roots st ++ [n]).

(* dec_ref: `release()` is unreachable (fetch_update returns the previous, non-zero, value) *)
Definition dec_ref (st : gstate) (n : nat) : gstate :=
  let o := get st n in
  if Nat.eqb (rc o) 0 then st
  else possible_root (set st n (set_rc o (pred (rc o)))) n.

Fixpoint dec_refs (st : gstate) (ns : list nat) : gstate :=
  match ns with
  | [] => st
  | n :: t => dec_refs (dec_ref st n) t
  end.

(* GcNode::free for a synthetic object: freed := true; the destructor (swapped out, so it runs
   once) releases every edge in order; the tracer is replaced by the empty one. *)
Definition free (st : gstate) (n : nat) : gstate :=
  let o := get st n in
  let es := edges o in
  let o1 := mkObj true (rc o) (adj o) (visited o) (col o) (buffered o) [] (S (dtor_runs o)) in
  dec_refs (set st n o1) es.

(* ---- collector side ---- *)

(* iterate a fuelled walk over a list of children *)
Section Iter.
  Context (f : gstate -> nat -> res gstate).
  Fixpoint iter (st : gstate) (ns : list nat) : res gstate :=
    match ns with
    | [] => Ok st
    | n :: t => do st1 <- f st n; iter st1 t
    end.
End Iter.

Fixpoint mark_gray (fuel : nat) (st : gstate) (s : nat) : res gstate :=
  match fuel with
  | 0 => OutOfFuel
  | S f =>
    let o := get st s in
    if color_eqb (col o) Gray then Ok st
    else
      let st1 := count_trace (set st s (set_col o Gray)) s in
      iter (fun st t =>
              let ot := get st t in
              let prev := adj ot in
              let st2 := set st t (set_adj ot (S prev)) in
              if Nat.ltb (rc ot) prev then Panic (PAdjLarger t)
              else mark_gray f st2 t)
           st1 (edges o)
  end.

Fixpoint scan_black (fuel : nat) (st : gstate) (s : nat) : res gstate :=
  match fuel with
  | 0 => OutOfFuel
  | S f =>
    let o := get st s in
    let st1 := count_trace (set st s (set_col o Black)) s in
    iter (fun st t =>
            if color_eqb (col (get st t)) Black then Ok st else scan_black f st t)
         st1 (edges o)
  end.

Fixpoint scan (fuel : nat) (st : gstate) (s : nat) : res gstate :=
  match fuel with
  | 0 => OutOfFuel
  | S f =>
    let o := get st s in
    if negb (color_eqb (col o) Gray) then Ok st
    else if Nat.eqb (adj o) (rc o) then
      let st1 := count_trace (set st s (set_col o White)) s in
      iter (scan f) st1 (edges o)
    else scan_black (S f) st s
  end.

Fixpoint reset1 (fuel : nat) (st : gstate) (s : nat) : res gstate :=
  match fuel with
  | 0 => OutOfFuel
  | S f =>
    let o := get st s in
    if visited o then Ok st
    else
      let st1 := count_trace (set st s (set_adj (set_visited o true) 0)) s in
      iter (reset1 f) st1 (edges o)
  end.

Fixpoint reset2 (fuel : nat) (st : gstate) (s : nat) : res gstate :=
  match fuel with
  | 0 => OutOfFuel
  | S f =>
    let o := get st s in
    if negb (visited o) then Ok st
    else
      let st1 := count_trace (set st s (set_visited o false)) s in
      iter (reset2 f) st1 (edges o)
  end.

(* collect_white: post-order accumulation into the `white` vector *)
Fixpoint collect_white (fuel : nat) (stw : gstate * list nat) (s : nat) : res (gstate * list nat) :=
  match fuel with
  | 0 => OutOfFuel
  | S f =>
    let '(st, white) := stw in
    let o := get st s in
    if color_eqb (col o) White then
      let st1 := count_trace (set st s (set_col o Black)) s in
      do r <- (fix go (acc : gstate * list nat) (ns : list nat) : res (gstate * list nat) :=
                 match ns with
                 | [] => Ok acc
                 | n :: t => do acc1 <- collect_white f acc n; go acc1 t
                 end) (st1, white) (edges o);
      Ok (fst r, snd r ++ [s])
    else Ok stw
  end.

(* display_graph: a stack-driven traversal with its own visited set; it only traces (for logging).
   The stack is LIFO: roots are pushed in order, the last one is popped first. *)
Fixpoint display_graph (fuel : nat) (st : gstate) (stack : list nat) (seen : list nat) : res gstate :=
  match fuel with
  | 0 => OutOfFuel
  | S f =>
    match stack with
    | [] => Ok st
    | n :: rest =>
      if existsb (Nat.eqb n) seen then display_graph f st rest seen
      else
        let st1 := count_trace st n in
        display_graph f st1 (rev (edges (get st n)) ++ rest) (n :: seen)
    end
  end.

Definition nobjs (st : gstate) : nat := length (objs st).
Definition nedges (st : gstate) : nat := fold_right (fun o a => length (edges o) + a) 0 (objs st).

(* fuel for one recursive walk: each descent falsifies the guard of one more object, and scan may
   hand over to scan_black at its deepest point, so the depth is bounded by twice the object count *)
Definition wfuel (st : gstate) : nat := S (nobjs st + nobjs st).
(* fuel for display_graph: one step per stack entry ever pushed *)
Definition dfuel (st : gstate) (k : nat) : nat := S (k + nobjs st + nedges st).

Definition mark_roots (st : gstate) : res gstate :=
  let old_roots := roots st in
  let st := with_roots st [] in
  do st <- display_graph (dfuel st (length old_roots)) st (rev old_roots) [];
  do st <- iter (reset1 (wfuel st)) st old_roots;
  do st <- iter (reset2 (wfuel st)) st old_roots;
  do r <- (fix go (st : gstate) (new_roots : list nat) (rs : list nat) : res (gstate * list nat) :=
             match rs with
             | [] => Ok (st, new_roots)
             | root :: t =>
               let o := get st root in
               if color_eqb (col o) Purple then
                 do st1 <- mark_gray (wfuel st) st root;
                 go st1 (new_roots ++ [root]) t
               else
                 let st1 := set st root (set_buffered o false) in
                 let st2 :=
                   if color_eqb (col o) Black && Nat.eqb (rc o) 0 && negb (freed o)
                   then with_tbf st1 (to_be_freed st1 ++ [root]) else st1 in
                 go st2 new_roots t
             end) st [] old_roots;
  Ok (with_roots (fst r) (snd r)).

Definition scan_roots (st : gstate) : res gstate :=
  let rs := roots st in
  let st := with_roots st [] in
  do st <- iter (scan (wfuel st)) st rs;
  do st <- iter (reset1 (wfuel st)) st rs;
  do st <- iter (reset2 (wfuel st)) st rs;
  Ok (with_roots st rs).

Definition remove_root (st : gstate) (n : nat) : gstate :=
  with_roots st (filter (fun r => negb (Nat.eqb r n)) (roots st)).

Fixpoint free_list (st : gstate) (ns : list nat) : gstate :=
  match ns with
  | [] => st
  | i :: t =>
    if freed (get st i) then free_list st t
    else free_list (remove_root (free st i) i) t
  end.

Fixpoint check_zero (st : gstate) (ns : list nat) : res gstate :=
  match ns with
  | [] => Ok st
  | i :: t => if Nat.eqb (rc (get st i)) 0 then check_zero st t else Panic (PFreedNonZero i)
  end.

Definition collect_roots (st : gstate) : res gstate :=
  let rs := roots st in
  let st := with_roots st [] in
  do r <- (fix go (acc : gstate * list nat) (rs : list nat) : res (gstate * list nat) :=
             match rs with
             | [] => Ok acc
             | root :: t =>
               let '(st, white) := acc in
               let st1 := set st root (set_buffered (get st root) false) in
               do acc1 <- collect_white (wfuel st1) (st1, white) root;
               go acc1 t
             end) (st, []) rs;
  let '(st, white) := r in
  let st := free_list st white in
  let tbf := to_be_freed st in
  let st := with_tbf st [] in
  let st := free_list st tbf in
  do st <- check_zero st white;
  check_zero st tbf.

Fixpoint collect_cycles (fuel : nat) (st : gstate) : res gstate :=
  match fuel with
  | 0 => OutOfFuel
  | S f =>
    do st <- mark_roots st;
    do st <- scan_roots st;
    do st <- collect_roots st;
    match roots st, to_be_freed st with
    | [], [] => Ok st
    | _, _ => collect_cycles f st
    end
  end.

Definition cfuel (st : gstate) : nat := S (S (nobjs st)).

(* ---- the operation language of the C08 scripts ---- *)

Inductive gop :=
| GCreate                         (* GcNode::new: one external handle *)
| GClone (o : nat)                (* clone a handle: inc_ref *)
| GDrop (o : nat)                 (* drop a handle: dec_ref *)
| GAddEdge (a b : nat)            (* a acquires one counted reference to b and reports it *)
| GRemoveEdge (a : nat) (i : nat) (* a gives up its i-th edge *)
| GUpgrade (o : nat)              (* weak upgrade attempt followed by drop of the result *)
| GCollect.

Fixpoint remove_nth {A} (l : list A) (i : nat) : list A :=
  match l, i with
  | [], _ => []
  | _ :: t, 0 => t
  | x :: t, S k => x :: remove_nth t k
  end.

Definition gstep (st : gstate) (op : gop) : res gstate :=
  match op with
  | GCreate => Ok (fst (gc_new st))
  | GClone o => inc_ref st o
  | GDrop o => Ok (dec_ref st o)
  | GAddEdge a b =>
    do st1 <- inc_ref st b;
    let oa := get st1 a in
    Ok (set st1 a (set_edges oa (edges oa ++ [b])))
  | GRemoveEdge a i =>
    let oa := get st a in
    match nth_error (edges oa) i with
    | None => Ok st
    | Some b => Ok (dec_ref (set st a (set_edges oa (remove_nth (edges oa) i))) b)
    end
  | GUpgrade o =>
    let '(st1, ok) := inc_ref_if_alive st o in
    if ok then Ok (dec_ref st1 o) else Ok st1
  | GCollect => collect_cycles (cfuel st) st
  end.

Fixpoint grun (st : gstate) (ops : list gop) : res gstate :=
  match ops with
  | [] => Ok st
  | op :: t => do st1 <- gstep st op; grun st1 t
  end.

(* ---- scripts with the harness's own handle counts: the contract of property C08 ---- *)

Record sstate := mkS { g : gstate; ext : list nat }.   (* ext[o] = handles the mutator holds on o *)

Definition ext_of (s : sstate) (o : nat) : nat := nth o (ext s) 0.

Fixpoint upd_nat (l : list nat) (n : nat) (v : nat) : list nat :=
  match l, n with
  | [], _ => []
  | _ :: t, 0 => v :: t
  | x :: t, S k => x :: upd_nat t k v
  end.

Definition sinit : sstate := mkS empty_state [].

(* an operation respects the contract iff the mutator owns what it uses *)
Definition svalid (s : sstate) (op : gop) : bool :=
  match op with
  | GCreate => true
  | GClone o => Nat.ltb 0 (ext_of s o)
  | GDrop o => Nat.ltb 0 (ext_of s o)
  | GAddEdge a b => Nat.ltb 0 (ext_of s a) && Nat.ltb 0 (ext_of s b)
  | GRemoveEdge a i => Nat.ltb 0 (ext_of s a) && Nat.ltb i (length (edges (get (g s) a)))
  | GUpgrade o => Nat.ltb o (nobjs (g s))
  | GCollect => true
  end.

Definition sstep (s : sstate) (op : gop) : res sstate :=
  if negb (svalid s op) then Ok s
  else
    do g1 <- gstep (g s) op;
    Ok (mkS g1
          match op with
          | GCreate => ext s ++ [1]
          | GClone o => upd_nat (ext s) o (S (ext_of s o))
          | GDrop o => upd_nat (ext s) o (pred (ext_of s o))
          | _ => ext s
          end).

Fixpoint srun (s : sstate) (ops : list gop) : res sstate :=
  match ops with
  | [] => Ok s
  | op :: t => do s1 <- sstep s op; srun s1 t
  end.
