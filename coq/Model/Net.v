(* Operational model of ONE TRANSACTION of a static Sodium program, built from the propagation engine
   of Model/Engine.v (instantiated at the value type `val` of Spec/Sodium.v).

   The program is the `defs` table of a specification state `st`, restricted to the static
   combinational fragment (no switch, defer, split, value).  `compile st` has one engine node per
   key below `nsize st = 1 + max key` (keys that are not defined are inert nodes).  The node of a stream
   definition fires the stream's occurrence; the node of a cell definition fires the cell's UPDATE
   (its new value), exactly like the implementation, where every cell is a hold over an update stream
   (/repo/src/impl_/cell.rs `Cell::_new`).  The dependencies of a node are the definitions it reads
   instantaneously; cells that are only sampled (snapshot, gate, lift arguments that did not change)
   are read through `cur`, the value before the transaction.  The rule `Frule st n` transliterates the
   update closures of /repo/src/impl_/stream.rs and cell.rs. *)
From Coq Require Import List ZArith Bool Arith.
Import ListNotations.
From Sodium Require Import Engine EngineScript Sodium.
Open Scope nat_scope.

(* ------------------------------------------------------------------ the fragment *)
Definition in_frag_def (d : def) : bool :=
  match d with
  | DSwitchS _ | DSwitchC _ | DDefer _ | DSplit _ | DValue _ => false
  | _ => true
  end.
Definition in_fragment (st : state) : bool := forallb (fun kd => in_frag_def (snd kd)) (defs st).

Fixpoint nodupb (l : list nat) : bool :=
  match l with [] => true | x :: t => negb (existsb (Nat.eqb x) t) && nodupb t end.
Definition nodup_keys (st : state) : bool := nodupb (map fst (defs st)).

Definition is_stream_key (st : state) (k : nat) : bool :=
  match alookup (defs st) k with Some d => negb (is_cell d) | None => false end.
Definition is_cell_key (st : state) (k : nat) : bool :=
  match alookup (defs st) k with Some d => is_cell d | None => false end.

(* every key a definition refers to exists and has the right kind *)
Definition refs_ok_def (st : state) (k : nat) (d : def) : bool :=
  match d with
  | DMap s _ | DFilter s _ | DOnce s | DRouter s _ | DHold s => is_stream_key st s
  | DMerge a b _ => is_stream_key st a && is_stream_key st b
  | DSnapshot s cs _ => is_stream_key st s && forallb (is_cell_key st) cs
  | DGate s c => is_stream_key st s && is_cell_key st c
  | DUpdates c | DMapC c _ => is_cell_key st c
  | DLift cs _ => forallb (is_cell_key st) cs
  | DSLoop => match alookup (loops st) k with Some t => is_stream_key st t | None => true end
  | DCLoop => match alookup (loops st) k with Some t => is_cell_key st t | None => true end
  | DRoute r _ => match alookup (defs st) r with Some (DRouter a _) => is_stream_key st a | _ => false end
  | _ => true
  end.
Definition refs_ok (st : state) : bool := forallb (fun kd => refs_ok_def st (fst kd) (snd kd)) (defs st).

(* every cell has a committed current value (the state between two transactions) *)
Definition cells_resolved (st : state) : bool :=
  forallb (fun kd => negb (is_cell (snd kd)) || is_some (alookup (cvals st) (fst kd))) (defs st).

(* listeners listen to streams; no lazy is pending (all were resolved when their transaction closed) *)
Definition listeners_ok (st : state) : bool := forallb (fun lh => is_stream_key st (snd lh)) (listeners st).
Definition lazies_val (st : state) : bool :=
  forallb (fun zl : nat * (lz * nat) => match fst (snd zl) with LzVal _ => true | LzCell _ => false end) (lazies st).

(* ------------------------------------------------------------------ the graph *)
Definition nsize (st : state) : nat := S (list_max (map fst (defs st))).

(* the definitions that definition d (at key n) reads instantaneously *)
Definition ddeps (st : state) (n : nat) (d : def) : list nat :=
  match d with
  | DMap s _ | DFilter s _ | DSnapshot s _ _ | DGate s _ | DRouter s _ | DHold s => [s]
  | DMerge a b _ => [a; b]
  | DOnce s => if amem (Sodium.fired st) n then [] else [s]
  | DUpdates c | DMapC c _ => [c]
  | DLift cs _ => cs
  | DSLoop | DCLoop => match alookup (loops st) n with Some t => [t] | None => [] end
  | DRoute r _ => match alookup (defs st) r with Some (DRouter a _) => [a] | _ => [] end
  | _ => []
  end.
Definition ndeps (st : state) (n : nat) : list nat :=
  match alookup (defs st) n with Some d => ddeps st n d | None => [] end.

(* dependents: everybody who registered, here in increasing key order; the refinement theorem is
   proved for EVERY graph with these dependencies and complete dependents lists (any order) *)
Definition ndependents (st : state) (d : nat) : list nat :=
  filter (fun n => existsb (Nat.eqb d) (ndeps st n)) (seq 0 (nsize st)).

Definition compile (st : state) : graph val :=
  map (fun n => {| deps := ndeps st n; dependents := ndependents st n;
                   visited := false; done := false; changed := false; fire := None |})
      (seq 0 (nsize st)).

(* ------------------------------------------------------------------ the update closures *)
(* sample of a cell during the transaction: its value before the transaction *)
Definition curv (st : state) (c : nat) : val :=
  match cur st (F st) c with EV v => v | EErr _ => VUnit end.

Definition Frule (st : state) : rule val := fun n ins =>
  let o := nth 0 ins None in
  match alookup (defs st) n with
  | None => None
  | Some d =>
    match d with
    | DMap _ f => option_map (app1 f) o
    | DFilter _ p => match o with Some v => if appP p v then Some v else None | None => None end
    | DMerge _ _ f =>
      match o, nth 1 ins None with
      | Some u, Some w => Some (app2 f u w)          (* left = receiver of merge *)
      | Some u, None => Some u
      | None, Some w => Some w
      | None, None => None
      end
    | DSnapshot _ cs f => match o with Some v => Some (appN f (v :: map (curv st) cs)) | None => None end
    | DGate _ c => match o with Some v => if truthy (curv st c) then Some v else None | None => None end
    | DOnce _ | DUpdates _ | DSLoop | DRouter _ _ | DHold _ | DCLoop => o     (* forwarders *)
    | DRoute r k =>
      match alookup (defs st) r, o with
      | Some (DRouter _ sl), Some v => if existsb (Z.eqb k) (app_sel sl v) then Some v else None
      | _, _ => None
      end
    | DMapC _ f => option_map (app1 f) o
    | DLift cs f =>
      if existsb is_some ins
      then Some (appN f (map (fun oc => match fst oc with Some v => v | None => curv st (snd oc) end)
                             (combine ins cs)))
      else None
    | _ => None
    end
  end.

(* ------------------------------------------------------------------ one transaction *)
(* the sinks that were sent to, with their coalesced value *)
Definition net_sources (st : state) (inj : list (nat * val)) : list (nat * val) :=
  flat_map (fun kd : nat * def =>
              match snd kd with
              | DSink co => match coalesce co (injected inj (fst kd)) with
                            | Some v => [(fst kd, v)]
                            | None => []
                            end
              | _ => []
              end) (defs st).

(* fire the sources fs (in this queue order) on graph gr and drain; result: every node's final firing
   and the update log, oldest first *)
Definition net_run (st : state) (gr : graph val) (fs : list (nat * val))
  : option (list (option val) * list nat) :=
  let N := length gr in
  match drain (Frule st) false (S (S N)) (S (S (N + N)))
              {| g := fold_left (fun g nv => fire_source g (fst nv) (snd nv)) fs gr;
                 queue := map fst fs; log := [] |} with
  | Some s => Some (map fire (g s), rev (log s))
  | None => None
  end.

Definition net_txn (st : state) (inj : list (nat * val)) : option (list (option val) * list nat) :=
  net_run st (compile st) (net_sources st inj).

Definition fire_of (fires : list (option val)) (n : nat) : option val := nth n fires None.

(* ------------------------------------------------------------------ listeners and commit *)
Definition net_calls (st : state) (fires : list (option val)) : list obs :=
  concat (map (fun lh : nat * nat =>
                 match fire_of fires (snd lh) with Some v => [BCall (fst lh) v] | None => [] end)
              (rev (listeners st))).

(* end of the transaction: cells take their fired update if any (else keep their value), once nodes
   that fired are flagged *)
Definition net_commit (st : state) (fires : list (option val)) : state :=
  let newvals :=
    concat (map (fun kd : nat * def =>
                   match fire_of fires (fst kd) with
                   | Some v => [(fst kd, v)]
                   | None => match alookup (cvals st) (fst kd) with
                             | Some v => [(fst kd, v)]
                             | None => []
                             end
                   end) (filter (fun kd => is_cell (snd kd)) (defs st))) in
  let onces :=
    concat (map (fun kd : nat * def =>
                   match snd kd with
                   | DOnce _ => match fire_of fires (fst kd) with Some _ => [fst kd] | None => [] end
                   | _ => []
                   end) (defs st)) in
  mkState (defs st) newvals [] [] (onces ++ Sodium.fired st) [] (loops st) (listeners st)
          0 (tdone st) [] [] (lazies st).

(* a history: one set of sends per transaction *)
Fixpoint net_history (st : state) (txns : list (list (nat * val))) : option (list (list obs)) :=
  match txns with
  | [] => Some []
  | inj :: rest =>
    match net_txn st inj with
    | None => None
    | Some (fires, _) =>
      match net_history (net_commit st fires) rest with
      | None => None
      | Some os => Some (net_calls st fires :: os)
      end
    end
  end.

Fixpoint spec_history (st : state) (txns : list (list (nat * val))) : ev (list (list obs)) :=
  match txns with
  | [] => EV []
  | inj :: rest =>
    elet r <- close_txn st inj [];
    elet os <- spec_history (r_state r) rest;
    EV (r_obs r :: os)
  end.
