(* Operational model of ONE TRANSACTION of a Sodium program whose wiring is fixed during the transaction,
   built from the propagation engine of Model/Engine.v (instantiated at the value type `val` of
   Spec/Sodium.v), and of the sequence of transactions an outermost close performs (the transaction of
   the sends, then one transaction per deferred item).

   The program is the `defs` table of a specification state `st`.  Every primitive is covered, switch_c
   included: its implementation DEMANDS a node from inside an update closure (/repo/src/impl_/cell.rs
   `switch_c`: `sodium_ctx.update_node2(firing.updates().node(), true)`), which is the dynamic-demand stage
   of the engine of Model/Engine.v.

   `compile st` has one engine node per key below `nsize st = 1 + max key` (keys that are not defined are
   inert nodes) plus, at index `spark st k = nsize st + k`, the SPARK of key k: the source stream that
   `Cell::value` creates, sends the current value to and queues on `changed_nodes`
   (/repo/src/impl_/cell.rs lines 213-236).  The spark of k fires only when k is a `DValue` created in
   the transaction that is closing (k in `fresh st`); all other spark nodes are inert.

   The node of a stream definition fires the stream's occurrence; the node of a cell definition fires
   the cell's UPDATE (its new value), exactly like the implementation, where every cell is a hold over
   an update stream (`Cell::_new`).  The dependencies of a node are the definitions it reads
   instantaneously; cells that are only sampled (snapshot, gate, lift arguments that did not change,
   the outer cell of a switch_s) are read through `cur`, the value before the transaction.  The rule
   `Frule st n` transliterates the update closures of /repo/src/impl_/stream.rs and cell.rs.

   switch_s (/repo/src/impl_/cell.rs `switch_s`): the inner node depends on the stream the outer cell holds
   - re-wired only in `pre_post`, AFTER propagation, so during one transaction it is the stream held when
   the transaction started, `cur st c = VRef m` - and on nothing else.  It only keeps the outer node (which
   depends on the outer cell's update stream and schedules the re-wiring) alive, through a handle owned by
   its update closure and declared to the tracer, WITHOUT depending on it.  The inner node's closure
   forwards the firing of the current inner stream.  Hence `ndeps st s = [m]` and the rule is "forward the
   single input".  The next transaction's graph is compiled from the committed state, i.e. from the new
   value of the outer cell.
   NOTE: the switch reads the outer cell as of the START of the transaction (`cur`), like the
   specification's `occ (DSwitchS c)`, which does not read `upd c`; therefore it does not depend on the
   outer cell's update, and a program whose outer cell is updated, within the same transaction, from the
   switch's own output is acyclic (example `cy_st` of Proofs/NetRefine.v, Props/K1.v).

   switch_c (/repo/src/impl_/cell.rs `switch_c`): the node of `DSwitchC c` stands for the pair outer node /
   inner node of the implementation.  Its static dependencies are the outer cell c (its update stream) and
   the cell i currently held, `cur st c = VRef i` (its update stream, re-wired by the commit exactly like
   switch_s).  When the outer cell fires a new inner cell `VRef m`, the update closure DEMANDS m's node
   (`NDm`), then sends m's current value, overwritten by m's update of this same transaction if it has one;
   otherwise the node forwards i's update.  This is `upd st inj fuel (DSwitchC c)` of Spec/Sodium.v.
   The demanded cell is only known from the firing: the static potential demand targets `ndem` of a
   switch_c node are ALL cell keys of the program, and the refinement theorems require acyclicity only for
   the demands that actually occur (`sdem`, Proofs/NetRefine.v).

   defer / split (/repo/src/impl_/stream.rs): the result is a fresh sink; a listener on the argument posts
   one send per event (split: per list element), each run later in a transaction of its own.  So in a
   transaction a DDefer / DSplit node is a SOURCE fired with what was injected for it, and the commit
   collects the deferred items from the argument's firing (`net_deferred`). *)
From Coq Require Import List ZArith Bool Arith.
Import ListNotations.
From Sodium Require Import Engine EngineScript Sodium.
Open Scope nat_scope.

(* ------------------------------------------------------------------ the fragment *)
(* every definition kind is in the fragment (switch_c was excluded before the engine had demands) *)
Definition in_frag_def (d : def) : bool := true.
Definition in_fragment (st : state) : bool := forallb (fun kd => in_frag_def (snd kd)) (defs st).
Lemma in_fragment_all st : in_fragment st = true.
Proof. unfold in_fragment. apply forallb_forall. reflexivity. Qed.

Fixpoint nodupb (l : list nat) : bool :=
  match l with [] => true | x :: t => negb (existsb (Nat.eqb x) t) && nodupb t end.
Definition nodup_keys (st : state) : bool := nodupb (map fst (defs st)).

Definition is_stream_key (st : state) (k : nat) : bool :=
  match alookup (defs st) k with Some d => negb (is_cell d) | None => false end.
Definition is_cell_key (st : state) (k : nat) : bool :=
  match alookup (defs st) k with Some d => is_cell d | None => false end.

(* every key a definition refers to exists and has the right kind (depends on `defs` and `loops` only) *)
Definition refs_ok_def (st : state) (k : nat) (d : def) : bool :=
  match d with
  | DMap s _ | DFilter s _ | DOnce s | DRouter s _ | DHold s | DDefer s | DSplit s => is_stream_key st s
  | DMerge a b _ => is_stream_key st a && is_stream_key st b
  | DSnapshot s cs _ => is_stream_key st s && forallb (is_cell_key st) cs
  | DGate s c => is_stream_key st s && is_cell_key st c
  | DUpdates c | DMapC c _ | DValue c | DSwitchS c | DSwitchC c => is_cell_key st c
  | DLift cs _ => forallb (is_cell_key st) cs
  | DSLoop => match alookup (loops st) k with Some t => is_stream_key st t | None => true end
  | DCLoop => match alookup (loops st) k with Some t => is_cell_key st t | None => true end
  | DRoute r _ => match alookup (defs st) r with Some (DRouter a _) => is_stream_key st a | _ => false end
  | _ => true
  end.
Definition refs_ok (st : state) : bool := forallb (fun kd => refs_ok_def st (fst kd) (snd kd)) (defs st).

(* every cell has a committed current value (the state between two transactions) *)
Definition cells_resolved (st : state) : bool :=
  forallb (fun kd => negb (is_cell (snd kd)) || is_some (alookup (cvals st) (fst kd))) (defs st).

(* the outer cell of every switch_s currently holds a reference to an existing stream, the outer cell of
   every switch_c a reference to an existing cell (depends on `cvals`: it has to be re-established after
   every commit) *)
Definition switch_target_ok_def (st : state) (d : def) : bool :=
  match d with
  | DSwitchS c => match cur st (F st) c with EV (VRef m) => is_stream_key st m | _ => false end
  | DSwitchC c => match cur st (F st) c with EV (VRef i) => is_cell_key st i | _ => false end
  | _ => true
  end.
Definition switch_targets_ok (st : state) : bool :=
  forallb (fun kd => switch_target_ok_def st (snd kd)) (defs st).

(* listeners listen to streams; no lazy is pending (all were resolved when their transaction closed);
   user post closures sample cells *)
Definition listeners_ok (st : state) : bool := forallb (fun lh => is_stream_key st (snd lh)) (listeners st).
Definition lazies_val (st : state) : bool :=
  forallb (fun zl : nat * (lz * nat) => match fst (snd zl) with LzVal _ => true | LzCell _ => false end) (lazies st).
Definition posts_ok (st : state) (ps : list (nat * list nat)) : bool :=
  forallb (fun p : nat * list nat => forallb (is_cell_key st) (snd p)) ps.

(* ------------------------------------------------------------------ the graph *)
Definition nsize (st : state) : nat := S (list_max (map fst (defs st))).
Definition spark (st : state) (k : nat) : nat := nsize st + k.      (* node of the spark of key k *)
Definition gsize (st : state) : nat := nsize st + nsize st.         (* number of nodes *)

(* the nodes that definition d (at key n) reads instantaneously *)
Definition ddeps (st : state) (n : nat) (d : def) : list nat :=
  match d with
  | DMap s _ | DFilter s _ | DSnapshot s _ _ | DGate s _ | DRouter s _ | DHold s => [s]
  | DMerge a b _ => [a; b]
  | DOnce s => if amem (Sodium.fired st) n then [] else [s]
  | DUpdates c | DMapC c _ => [c]
  | DLift cs _ => cs
  | DSLoop | DCLoop => match alookup (loops st) n with Some t => [t] | None => [] end
  | DRoute r _ => match alookup (defs st) r with Some (DRouter a _) => [a] | _ => [] end
  (* value() = updates().or_else(spark.map(run)); the spark exists only in the creating transaction *)
  | DValue c => if amem (fresh st) n then [c; spark st n] else [c]
  (* the stream held at the start of the transaction; NOT the outer cell, which is only sampled *)
  | DSwitchS c => match cur st (F st) c with EV (VRef m) => [m] | _ => [] end
  (* the outer cell, and the cell held at the start of the transaction *)
  | DSwitchC c => match cur st (F st) c with EV (VRef i) => [c; i] | _ => [c] end
  (* sinks, never, constants, and defer / split (sinks of their own deferred transactions): sources *)
  | _ => []
  end.
Definition ndeps (st : state) (n : nat) : list nat :=
  match alookup (defs st) n with Some d => ddeps st n d | None => [] end.

(* potential demand targets: a switch_c may demand any cell of the program *)
Definition cell_keys (st : state) : list nat := map fst (filter (fun kd => is_cell (snd kd)) (defs st)).
Definition ndem (st : state) (n : nat) : list nat :=
  match alookup (defs st) n with Some (DSwitchC _) => cell_keys st | _ => [] end.

(* the demand made from inside the update closure of switch_c: the cell the outer cell just fired *)
Definition NDm (st : state) : demand val := fun n ins =>
  match alookup (defs st) n with
  | Some (DSwitchC _) => match nth 0 ins None with Some (VRef m) => [m] | _ => [] end
  | _ => []
  end.

(* dependents: everybody who registered, here in increasing key order; the refinement theorem is
   proved for EVERY graph with these dependencies and complete dependents lists (any order) *)
Definition ndependents (st : state) (d : nat) : list nat :=
  filter (fun n => existsb (Nat.eqb d) (ndeps st n)) (seq 0 (gsize st)).

Definition compile (st : state) : graph val :=
  map (fun n => {| deps := ndeps st n; dem := ndem st n; dependents := ndependents st n;
                   visited := false; done := false; changed := false; fire := None |})
      (seq 0 (gsize st)).

(* ------------------------------------------------------------------ the update closures *)
(* sample of a cell during the transaction: its value before the transaction *)
Definition curv (st : state) (c : nat) : val :=
  match cur st (F st) c with EV v => v | EErr _ => VUnit end.

Definition Frule (st : state) : rule val := fun n ins exs =>
  let o := nth 0 ins None in
  match alookup (defs st) n with
  | None => None
  | Some d =>
    match d with
    | DMap _ f => option_map (app1 f) o
    | DFilter _ p => match o with Some v => if appP p v then Some v else None | None => None end
    | DMerge _ _ f =>
      match o, nth 1 ins None with
      | Some u, Some w => Some (app2 f u w)          (* left = receiver of merge *)
      | Some u, None => Some u
      | None, Some w => Some w
      | None, None => None
      end
    | DSnapshot _ cs f => match o with Some v => Some (appN f (v :: map (curv st) cs)) | None => None end
    | DGate _ c => match o with Some v => if truthy (curv st c) then Some v else None | None => None end
    | DOnce _ | DUpdates _ | DSLoop | DRouter _ _ | DHold _ | DCLoop => o     (* forwarders *)
    | DSwitchS _ => o               (* single input, the current inner stream: forward its firing *)
    | DSwitchC _ =>                 (* inputs [outer; current inner cell], demanded [new inner cell] *)
      match o with
      | Some (VRef m) => Some (match nth 0 exs None with Some u => u | None => curv st m end)
      | Some _ => None              (* not a cell: excluded by the hypotheses (the specification is Illegal) *)
      | None => nth 1 ins None      (* no switch: forward the current inner cell's update *)
      end
    | DValue _ => match o with Some u => Some u | None => nth 1 ins None end   (* updates or_else spark *)
    | DRoute r k =>
      match alookup (defs st) r, o with
      | Some (DRouter _ sl), Some v => if existsb (Z.eqb k) (app_sel sl v) then Some v else None
      | _, _ => None
      end
    | DMapC _ f => option_map (app1 f) o
    | DLift cs f =>
      if existsb is_some ins
      then Some (appN f (map (fun oc => match fst oc with Some v => v | None => curv st (snd oc) end)
                             (combine ins cs)))
      else None
    | _ => None
    end
  end.

(* ------------------------------------------------------------------ one transaction *)
(* what a source node is fired with: a sink that was sent to fires its coalesced value; a defer / split
   node fires the item injected for it; the spark of a value() created in this transaction fires the
   cell's current value *)
Definition src_val (st : state) (inj : list (nat * val)) (n : nat) : option val :=
  match alookup (defs st) n with
  | Some (DSink co) => coalesce co (injected inj n)
  | Some (DDefer _) | Some (DSplit _) => coalesce None (injected inj n)
  | Some _ => None
  | None =>
    if Nat.leb (nsize st) n
    then match alookup (defs st) (n - nsize st) with
         | Some (DValue c) => if amem (fresh st) (n - nsize st) then Some (curv st c) else None
         | _ => None
         end
    else None
  end.

(* the fired sources, here queued in increasing node order (the theorems hold for every queue order) *)
Definition net_sources (st : state) (inj : list (nat * val)) : list (nat * val) :=
  flat_map (fun n => match src_val st inj n with Some v => [(n, v)] | None => [] end) (seq 0 (gsize st)).

(* fire the sources fs (in this queue order) on graph gr and drain; result: every node's final firing
   and the update log, oldest first *)
Definition net_run (st : state) (gr : graph val) (fs : list (nat * val))
  : option (list (option val) * list nat) :=
  let N := length gr in
  match drain (Frule st) (NDm st) false (S (S N)) (S (S (N + N)))
              {| g := fold_left (fun g nv => fire_source g (fst nv) (snd nv)) fs gr;
                 queue := map fst fs; log := [] |} with
  | Some s => Some (map fire (g s), rev (log s))
  | None => None
  end.

Definition net_txn (st : state) (inj : list (nat * val)) : option (list (option val) * list nat) :=
  net_run st (compile st) (net_sources st inj).

Definition fire_of (fires : list (option val)) (n : nat) : option val := nth n fires None.

(* ------------------------------------------------------------------ listeners and commit *)
Definition net_calls (st : state) (fires : list (option val)) : list obs :=
  concat (map (fun lh : nat * nat =>
                 match fire_of fires (snd lh) with Some v => [BCall (fst lh) v] | None => [] end)
              (rev (listeners st))).

(* end of the transaction: cells take their fired update if any (else keep their value), once nodes
   that fired are flagged, nothing is fresh any more.  The switch_s / switch_c nodes need nothing: the next
   transaction's dependencies are computed from the new `cvals` (what `pre_post` / the update closure
   re-wire). *)
Definition net_commit (st : state) (fires : list (option val)) : state :=
  let newvals :=
    concat (map (fun kd : nat * def =>
                   match fire_of fires (fst kd) with
                   | Some v => [(fst kd, v)]
                   | None => match alookup (cvals st) (fst kd) with
                             | Some v => [(fst kd, v)]
                             | None => []
                             end
                   end) (filter (fun kd => is_cell (snd kd)) (defs st))) in
  let onces :=
    concat (map (fun kd : nat * def =>
                   match snd kd with
                   | DOnce _ => match fire_of fires (fst kd) with Some _ => [fst kd] | None => [] end
                   | _ => []
                   end) (defs st)) in
  mkState (defs st) newvals [] [] (onces ++ Sodium.fired st) [] (loops st) (listeners st)
          0 (tdone st) [] [] (lazies st).

(* the work the listeners of defer / split posted: one item per event (split: per list element) *)
Definition net_deferred (st : state) (fires : list (option val)) : list ditem :=
  concat (map (fun kd : nat * def =>
                 match snd kd with
                 | DDefer a => match fire_of fires a with Some v => [DEvent (fst kd) v] | None => [] end
                 | DSplit a => match fire_of fires a with
                               | Some (VList l) => map (DEvent (fst kd)) l
                               | Some v => [DEvent (fst kd) v]
                               | None => []
                               end
                 | _ => []
                 end) (rev (defs st))).

(* a history: one set of sends per transaction (deferred work is dropped; see net_outer_history) *)
Fixpoint net_history (st : state) (txns : list (list (nat * val))) : option (list (list obs)) :=
  match txns with
  | [] => Some []
  | inj :: rest =>
    match net_txn st inj with
    | None => None
    | Some (fires, _) =>
      match net_history (net_commit st fires) rest with
      | None => None
      | Some os => Some (net_calls st fires :: os)
      end
    end
  end.

Fixpoint spec_history (st : state) (txns : list (list (nat * val))) : ev (list (list obs)) :=
  match txns with
  | [] => EV []
  | inj :: rest =>
    elet r <- close_txn st inj [];
    elet os <- spec_history (r_state r) rest;
    EV (r_obs r :: os)
  end.

(* ------------------------------------------------------------------ the deferred queue *)
(* operational counterpart of Spec.run_deferred: each deferred event is a transaction of the engine with
   that single injection; a post closure samples its cells.  None = out of fuel (or the engine stuck,
   which the refinement theorem excludes). *)
Fixpoint net_run_deferred (fuel : nat) (choice : list nat) (st : state) (q : list ditem) (acc : list obs)
  : option (state * list obs * list nat) :=
  match fuel with
  | O => None
  | S f =>
    match heads [] q with
    | [] => Some (st, acc, [])
    | hs =>
      let k := match choice with c :: _ => Nat.modulo c (length hs) | [] => O end in
      let d := nth k hs (DPost 0 []) in
      let q' := remove_first (source_of d) q in
      match d with
      | DEvent h v =>
        match net_txn st [(h, v)] with
        | None => None
        | Some (fires, _) =>
          match net_run_deferred f (tl choice) (net_commit st fires) (q' ++ net_deferred st fires)
                                 (acc ++ net_calls st fires) with
          | None => None
          | Some rest => Some (fst (fst rest), snd (fst rest), length hs :: snd rest)
          end
        end
      | DPost kk cs =>
        match net_run_deferred f (tl choice) st q' (acc ++ [BPost kk (map (curv st) cs)]) with
        | None => None
        | Some rest => Some (fst (fst rest), snd (fst rest), length hs :: snd rest)
        end
      end
    end
  end.

(* operational counterpart of Spec.end_outer: the transaction of the sends, then the deferred queue.
   `_with`: the sends and the user post closures given explicitly *)
Definition net_end_outer_with (choice : list nat) (st : state) (inj : list (nat * val))
           (ps : list (nat * list nat)) : option (state * list obs * list nat) :=
  match net_txn st inj with
  | None => None
  | Some (fires, _) =>
    net_run_deferred 200 choice (net_commit st fires)
                     (net_deferred st fires ++ map (fun p => DPost (fst p) (snd p)) ps)
                     (net_calls st fires)
  end.
Definition net_end_outer (choice : list nat) (st : state) : option (state * list obs * list nat) :=
  net_end_outer_with choice st (sends st) (posts st).

(* Spec.end_outer with the sends and posts given explicitly (end_outer_with_eq below) *)
Definition spec_end_outer_with (choice : list nat) (st : state) (inj : list (nat * val))
           (ps : list (nat * list nat)) : ev (state * list obs * list nat) :=
  elet r <- close_txn st inj ps;
  run_deferred 200 choice (r_state r) (r_deferred r) (r_obs r).
Lemma end_outer_with_eq choice st : end_outer choice st = spec_end_outer_with choice st (sends st) (posts st).
Proof. reflexivity. Qed.

(* a history of outermost transactions: the sends, the user post closures and the scheduling choices of
   each *)
Definition otxn : Type := (list (nat * val) * list (nat * list nat) * list nat)%type.

Fixpoint net_outer_history (st : state) (txns : list otxn) : option (list (list obs)) :=
  match txns with
  | [] => Some []
  | (inj, ps, ch) :: rest =>
    match net_end_outer_with ch st inj ps with
    | None => None
    | Some r =>
      match net_outer_history (fst (fst r)) rest with
      | None => None
      | Some os => Some (snd (fst r) :: os)
      end
    end
  end.

Fixpoint spec_outer_history (st : state) (txns : list otxn) : ev (list (list obs)) :=
  match txns with
  | [] => EV []
  | (inj, ps, ch) :: rest =>
    elet r <- spec_end_outer_with ch st inj ps;
    elet os <- spec_outer_history (fst (fst r)) rest;
    EV (snd (fst r) :: os)
  end.
