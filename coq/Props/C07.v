(* Property C07: no leaks - dropped graphs (cycles too) are freed; no steady-state growth caused by the
   collector. Statements only; proofs in Proofs/GcExact*.v, Proofs/GcHeap.v. Same tie as C06: the contract
   WF is measured on the real heap by the audit; leaks caused by references no tracer reports are exactly
   what the audit and the end-of-script node count detect (known findings K3, K5). *)
From Coq Require Import List Arith Bool.
Import ListNotations.
From Sodium Require Import Gc GcExactBase GcExactInv GcExact GcHeap Heap HeapFacts.

(* once no handle is held, ONE collection frees every object: cycles, self-loops, multi-edges, whether
   or not the graph ever processed anything *)
Theorem C07_all_freed : forall s s',
    WF s -> (forall o, ext_of s o = 0) -> sstep s GCollect = Ok s' ->
    forall o, o < nobjs (g s) -> freed (get (g s') o) = true.
Proof. exact no_handles_all_freed. Qed.
Print Assumptions C07_all_freed.

(* after every collection the objects still alive are exactly the reachable ones: live nodes cannot
   accumulate across repeated transactions *)
Theorem C07_unreachable_freed : forall s s',
    WF s -> sstep s GCollect = Ok s' ->
    forall o, o < nobjs (g s) -> ~ live s o -> freed (get (g s') o) = true.
Proof. exact after_collect_dead_freed. Qed.
Print Assumptions C07_unreachable_freed.

Theorem C07_collect_leaves_clean_buffer : forall s s',
    WF s -> sstep s GCollect = Ok s' ->
    roots (g s') = [] /\ to_be_freed (g s') = [] /\ WF s'.
Proof.
  intros s s' W E. destruct (collect_exact s s' W E) as (R & T & _).
  destruct (sstep_WF s GCollect W eq_refl) as (s2 & E2 & W2).
  rewrite E in E2. injection E2 as <-. auto.
Qed.
Print Assumptions C07_collect_leaves_clean_buffer.

Example C07_nonvacuous :
  match srun sinit example_script with
  | Ok s => map freed (objs (g s)) = [true; true; false; false]
  | _ => False
  end.
Proof. pose proof example_exact as H. destruct (srun sinit example_script); auto. apply H. Qed.
Print Assumptions C07_nonvacuous.

(* ---- the FRP level (Model/Heap.v, tied object by object to the real heap) ---- *)

(* for EVERY program of the static fragment (sinks, map/filter/merge/snapshot/gate, hold, map_c, lift2..6, accum,
   collect, defer, split, loops, listeners, any clones and drops, any history): after the program releases what it
   holds (unlisten + drop every listener, drop every slot) ONE collection frees every object it ever allocated -
   accumulators' and loops' cycles included *)
Theorem C07_program_teardown_frees_all : forall ops st,
    hrun hinit ops = Ok st ->
    exists st' st'', hrun st (teardown st) = Ok st' /\ held st' = [] /\ hstep st' HCollect = Ok st'' /\
      forall o, o < nobjs (g (hs st'')) -> freed (get (g (hs st'')) o) = true.
Proof. exact program_teardown_frees_all. Qed.
Print Assumptions C07_program_teardown_frees_all.

(* non-vacuity: a CellLoop closed over a snapshot/hold cycle: 7 objects, all freed after teardown + one collection,
   and not before *)
Example C07_program_nonvacuous :
  let prog := [HDef 0 PSink [] []; HDef 1 PCLoop [] []; HDef 2 PSnapshot [0; 1] []; HDef 3 PHold [2] []; HLoop 1 3;
               HListen 0 2 true] in
  match hrun hinit prog with
  | Ok st =>
    existsb (fun o => negb (freed (get (g (hs st)) o))) (seq 0 (nobjs (g (hs st)))) = true /\
    match hrun st (teardown st ++ [HCollect]) with
    | Ok st' => nobjs (g (hs st')) = 8 /\ forallb (fun o => freed (get (g (hs st')) o)) (seq 0 8) = true
    | _ => False
    end
  | _ => False
  end.
Proof. vm_compute. repeat split; reflexivity. Qed.
Print Assumptions C07_program_nonvacuous.
