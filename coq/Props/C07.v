(* Property C07: no leaks - dropped graphs (cycles too) are freed; no steady-state growth caused by the
   collector. Statements only; proofs in Proofs/GcExact*.v, Proofs/GcHeap.v. Same tie as C06: the contract
   WF is measured on the real heap by the audit; leaks caused by references no tracer reports are exactly
   what the audit and the end-of-script node count detect (known findings K3, K5). *)
From Coq Require Import List Arith Bool.
Import ListNotations.
From Sodium Require Import Gc GcExactBase GcExactInv GcExact GcHeap.

(* once no handle is held, ONE collection frees every object: cycles, self-loops, multi-edges, whether
   or not the graph ever processed anything *)
Theorem C07_all_freed : forall s s',
    WF s -> (forall o, ext_of s o = 0) -> sstep s GCollect = Ok s' ->
    forall o, o < nobjs (g s) -> freed (get (g s') o) = true.
Proof. exact no_handles_all_freed. Qed.
Print Assumptions C07_all_freed.

(* after every collection the objects still alive are exactly the reachable ones: live nodes cannot
   accumulate across repeated transactions *)
Theorem C07_unreachable_freed : forall s s',
    WF s -> sstep s GCollect = Ok s' ->
    forall o, o < nobjs (g s) -> ~ live s o -> freed (get (g s') o) = true.
Proof. exact after_collect_dead_freed. Qed.
Print Assumptions C07_unreachable_freed.

Theorem C07_collect_leaves_clean_buffer : forall s s',
    WF s -> sstep s GCollect = Ok s' ->
    roots (g s') = [] /\ to_be_freed (g s') = [] /\ WF s'.
Proof.
  intros s s' W E. destruct (collect_exact s s' W E) as (R & T & _).
  destruct (sstep_WF s GCollect W eq_refl) as (s2 & E2 & W2).
  rewrite E in E2. injection E2 as <-. auto.
Qed.
Print Assumptions C07_collect_leaves_clean_buffer.

Example C07_nonvacuous :
  match srun sinit example_script with
  | Ok s => map freed (objs (g s)) = [true; true; false; false]
  | _ => False
  end.
Proof. pose proof example_exact as H. destruct (srun sinit example_script); auto. apply H. Qed.
Print Assumptions C07_nonvacuous.
