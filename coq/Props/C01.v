(* Property C01: atomicity of transactions. Statements only; proofs in Proofs/SpecA01.v, SpecA14.v,
   SpecAEquiv.v, SpecA15.v. *)
From Coq Require Import List Arith ZArith.
Import ListNotations.
From Sodium Require Import Sodium SpecABase SpecA14 SpecAEquiv SpecA12 SpecA15 SpecA01.

(* listener calls (and posts) are observed only in a step that closes the outermost transaction *)
Theorem C01_calls_only_at_close : forall ch st o st' os a x,
    step ch st o = EV (st', os, a) -> In x os -> (is_call x = true \/ is_post x = true) -> closes st o = true.
Proof. exact step_calls_only_when_closing. Qed.
Print Assumptions C01_calls_only_at_close.

(* and such a step is: passive observations of the body, then the calls of ONE transaction computed from the
   state at the close and all the sends of the transaction, then the deferred transactions one by one *)
Theorem C01_closing_step_observations : forall ch st o st' os a,
    closes st o = true -> step ch st o = EV (st', os, a) ->
    exists st1 os1 r tr,
      prelude st o = EV (st1, os1) /\ Forall passive os1 /\ depth st1 = 1 /\
      close_txn st1 (sends st1) (posts st1) = EV r /\
      os = os1 ++ r_obs r ++ trace_obs tr /\
      forall e, In e tr ->
        committed_from (r_state r) (e_state e) /\
        match e_item e with
        | DEvent h v => exists r', close_txn (e_state e) [(h, v)] [] = EV r' /\ e_obs e = r_obs r'
        | DPost k cs => exists vs, emap (cur (e_state e) (F (e_state e))) cs = EV vs /\ e_obs e = [BPost k vs]
        end.
Proof. exact closing_step_obs. Qed.
Print Assumptions C01_closing_step_observations.

(* the calls of one transaction: for each active listener, oldest first, one call iff its stream has an
   occurrence in this transaction *)
Theorem C01_calls_of_a_transaction : forall st inj ps r,
    close_txn st inj ps = EV r -> r_obs r = flat_map (call_of st inj) (rev (listeners st)).
Proof. exact close_calls. Qed.
Print Assumptions C01_calls_of_a_transaction.

Theorem C01_call_iff_occurrence : forall st inj ps r x,
    close_txn st inj ps = EV r ->
    (In x (r_obs r) <->
     exists l s v, x = BCall l v /\ In (l, s) (listeners st) /\ occ st inj (F st) s = EV (Some v)).
Proof. exact close_calls_iff. Qed.
Print Assumptions C01_call_iff_occurrence.

Theorem C01_at_most_one_call_per_listener : forall st inj ps r,
    NoDup (keys (listeners st)) -> close_txn st inj ps = EV r ->
    NoDup (map call_id (r_obs r)) /\ Forall (fun x => is_call x = true) (r_obs r).
Proof. exact close_calls_nodup. Qed.
Print Assumptions C01_at_most_one_call_per_listener.

Theorem C01_exactly_the_occurrence : forall st inj ps r l s,
    NoDup (keys (listeners st)) -> close_txn st inj ps = EV r ->
    alookup (listeners st) l = Some s ->
    exists o, occ st inj (F st) s = EV o /\
              filter (fun x => Nat.eqb (call_id x) l) (r_obs r) =
              match o with Some v => [BCall l v] | None => [] end.
Proof. exact close_call_of_listener. Qed.
Print Assumptions C01_exactly_the_occurrence.

(* listener ids (and definition keys) stay distinct under all operations *)
Theorem C01_listener_keys_distinct_step : forall ch st o st' os a,
    tables_ok st -> step ch st o = EV (st', os, a) -> tables_ok st'.
Proof. exact step_tables_ok. Qed.
Print Assumptions C01_listener_keys_distinct_step.

Theorem C01_listener_keys_distinct : forall ch ops st' os,
    run ch 0 init_state ops = EV (st', os) -> NoDup (keys (listeners st')).
Proof. exact run_init_listeners_nodup. Qed.
Print Assumptions C01_listener_keys_distinct.

(* no carry-over: the transaction reads no pending-send field of the state, only its explicit [inj] ... *)
Theorem C01_transaction_reads_only_inj : forall st d s p inj ps,
    close_txn (mkState (defs st) (cvals st) (inits st) (linit st) (fired st) (fresh st) (loops st)
                       (listeners st) d (tdone st) s p (lazies st)) inj ps
    = close_txn st inj ps.
Proof. exact close_txn_ignores_sends. Qed.
Print Assumptions C01_transaction_reads_only_inj.

Theorem C01_occ_reads_only_inj : forall st d s p inj f h,
    occ (mkState (defs st) (cvals st) (inits st) (linit st) (fired st) (fresh st) (loops st)
                 (listeners st) d (tdone st) s p (lazies st)) inj f h
    = occ st inj f h.
Proof. exact occ_ignores_sends. Qed.
Print Assumptions C01_occ_reads_only_inj.

(* ... every close empties the sends, and the next transaction injects its own sends only *)
Theorem C01_sends_emptied : forall ch st o st' os a,
    closes st o = true -> step ch st o = EV (st', os, a) -> sends st' = [] /\ posts st' = [].
Proof. exact closing_sends_emptied. Qed.
Print Assumptions C01_sends_emptied.

Theorem C01_next_transaction_own_sends : forall ch i st ops1 ops2 st1 os1 st2 os2,
    quiescent st -> nested ops1 -> nested ops2 ->
    run ch i st (OBegin :: ops1 ++ [OEnd]) = EV (st1, os1) ->
    run ch (i + S (S (length ops1))) st1 (OBegin :: ops2) = EV (st2, os2) ->
    quiescent st1 /\ sends st2 = flat_map sent ops2 /\
    forall ch', end_outer ch' st2 =
                (elet r <- close_txn st2 (flat_map sent ops2) (flat_map posted ops2);
                 run_deferred 200 ch' (r_state r) (r_deferred r) (r_obs r)).
Proof. exact second_txn_own_sends. Qed.
Print Assumptions C01_next_transaction_own_sends.

(* a transaction in which nothing is sent (and no value() stream is created) calls nobody, whatever
   happened in the transactions before *)
Theorem C01_previous_events_invisible : forall ch st o st' os a,
    closes st o = true ->
    (forall st1 os1, prelude st o = EV (st1, os1) -> sends st1 = [] /\ no_fresh_value st1) ->
    step ch st o = EV (st', os, a) -> forall x, In x os -> is_call x = false.
Proof. exact silent_step_no_call. Qed.
Print Assumptions C01_previous_events_invisible.

(* non-vacuity: two sinks sent in one transaction are seen together by a merge listener, exactly once; the
   following transaction sees nothing of it *)
Example C01_nonvacuous :
  tables_ok init_state /\ quiescent init_state /\
  exists st' os,
    run (fun _ => []) 0 init_state
        [ODef 0 (DSink None); ODef 1 (DSink None); ODef 2 (DMerge 0 1 GAdd); OListen 7 2;
         OBegin; OSend 0 (VInt 1); OSend 1 (VInt 10); OEnd; ONop; OSend 1 (VInt 5)] = EV (st', os) /\
    os = [BCall 7 (VInt 11); BCall 7 (VInt 5)].
Proof.
  split; [exact tables_ok_init|]. split; [repeat split|].
  eexists; eexists; split; [vm_compute; reflexivity | reflexivity].
Qed.
Print Assumptions C01_nonvacuous.
