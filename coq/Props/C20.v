(* Property C20: one context shared by several threads. Model/Threads.v applies the specification's
   step to the interleaved operation sequence (one shared depth counter, no transaction lock - what
   /repo/src/impl_/sodium_ctx.rs does). The property FAILS for overlapping brackets (known finding K2);
   what is proved: the refutation witness, and that non-overlapping whole transactions compose
   sequentially. PARTIAL: data races on collector state under real parallelism are outside any
   executable Gallina model (DESIGN.md section 6 C20). *)
From Coq Require Import List ZArith Bool Arith.
Import ListNotations.
From Sodium Require Import Sodium Threads ThreadsFacts.
Open Scope Z_scope.

(* two threads whose brackets overlap: the listener of the merge is called ONCE with the merged value
   101 at the second close; in either serial order it is called TWICE (1 and 100): the overlapping
   execution equals no serial execution *)
Theorem C20_overlap_refuted :
  exists c_ov c_ab c_ba,
    calls_of overlap = Some c_ov /\ calls_of serial_ab = Some c_ab /\ calls_of serial_ba = Some c_ba /\
    ncalls 0 c_ov = 1%nat /\ ncalls 0 c_ab = 2%nat /\ ncalls 0 c_ba = 2%nat /\
    In (BCall 0 (VInt 101)) c_ov /\ ~ In (BCall 0 (VInt 101)) c_ab /\ ~ In (BCall 0 (VInt 101)) c_ba.
Proof. exact overlap_not_serialisable. Qed.
Print Assumptions C20_overlap_refuted.

(* the exact per-step observations the deterministic replay on the implementation is compared with *)
Theorem C20_overlap_trace :
  run_schedule overlap =
  Some [[]; []; []; []; []; [BCall 0 (VInt 101); BCall 1 (VInt 1); BCall 2 (VInt 100)]].
Proof. exact overlap_calls. Qed.
Print Assumptions C20_overlap_trace.

(* schedules made of whole, non-overlapping blocks run exactly like the blocks one after the other:
   with an external lock around every transaction the context behaves serially *)
Theorem C20_nonoverlap_serial : forall blocks st,
    run_ops st (concat blocks) = run_blocks st blocks.
Proof. exact run_ops_concat. Qed.
Print Assumptions C20_nonoverlap_serial.

Example C20_serial_traces :
  run_schedule serial_ab =
    Some [[]; []; [BCall 0 (VInt 1); BCall 1 (VInt 1)]; []; []; [BCall 0 (VInt 100); BCall 2 (VInt 100)]] /\
  run_schedule serial_ba =
    Some [[]; []; [BCall 0 (VInt 100); BCall 2 (VInt 100)]; []; []; [BCall 0 (VInt 1); BCall 1 (VInt 1)]].
Proof. split; [exact serial_ab_calls | exact serial_ba_calls]. Qed.
Print Assumptions C20_serial_traces.

(* which thread opens or closes a bracket is irrelevant to the execution: a scoped transaction handed to another
   thread (opened by one, closed by the other) behaves like the same transaction run by one thread *)
Theorem C20_bracket_thread_irrelevant : forall (flips : list bool) (s : schedule),
    length flips = length s ->
    run_schedule (map (fun p => relabel_bracket (fst p) (snd p)) (combine flips s)) = run_schedule s.
Proof. exact run_schedule_relabel. Qed.
Print Assumptions C20_bracket_thread_irrelevant.

Example C20_handoff_trace :
  run_schedule handoff = Some [[]; []; [BCall 0 (VInt 7); BCall 1 (VInt 7)]].
Proof. exact handoff_calls. Qed.
Print Assumptions C20_handoff_trace.
