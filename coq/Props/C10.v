(* Property C10: listener lifecycle. Statements only; proofs in Proofs/SpecA10.v (and SpecA01, SpecA14, ...).
   [unlistened l st]: l is not a key of the listener table; [no_call_to l os]: os contains no [BCall l _];
   [relisten l o]: o is [OListen l _] or [OListenC l _ _]; [touches l o]: that, or [OUnlisten l]. *)
From Coq Require Import List Arith ZArith.
Import ListNotations.
From Sodium Require Import Sodium SpecABase SpecA14 SpecAEquiv SpecA12 SpecA15 SpecA01 SpecA10.

(* after OUnlisten l, at any depth, from any state, with any choices: no later step calls l until an
   operation registers l again *)
Theorem C10_no_call_after_unlisten : forall l ch ops i st st' os,
    Forall (fun o => relisten l o = false) ops ->
    run ch i st (OUnlisten l :: ops) = EV (st', os) -> unlistened l st' /\ no_call_to l os.
Proof. exact unlisten_final. Qed.
Print Assumptions C10_no_call_after_unlisten.

Theorem C10_unlistened_is_invariant : forall l ch st o st' os a,
    unlistened l st -> relisten l o = false -> step ch st o = EV (st', os, a) ->
    unlistened l st' /\ no_call_to l os.
Proof. exact step_unlistened. Qed.
Print Assumptions C10_unlistened_is_invariant.

Theorem C10_unlisten_step : forall l ch st st' os a,
    step ch st (OUnlisten l) = EV (st', os, a) -> unlistened l st' /\ no_call_to l os.
Proof. exact step_unlisten. Qed.
Print Assumptions C10_unlisten_step.

(* unlisten twice = once: the second one is the no-op *)
Theorem C10_unlisten_twice : forall l ch i st,
    run ch i st [OUnlisten l; OUnlisten l] = run ch i st [OUnlisten l; ONop].
Proof. exact unlisten_twice. Qed.
Print Assumptions C10_unlisten_twice.

Theorem C10_unlisten_of_unlistened_is_nop : forall l ch st,
    unlistened l st -> step ch st (OUnlisten l) = step ch st ONop.
Proof. exact step_unlisten_absent. Qed.
Print Assumptions C10_unlisten_of_unlistened_is_nop.

(* a listener registered inside an open transaction is in the table when the transaction closes, and
   receives the occurrence of its stream computed from ALL the sends of the transaction (those before the
   registration included) *)
Theorem C10_listen_inside_transaction : forall l s ch ch' i st ops st1 os1 st2 os2 a,
    depth st = 1 -> nested ops -> Forall (fun o => touches l o = false) ops ->
    run ch i st (OListen l s :: ops) = EV (st1, os1) ->
    step ch' st1 OEnd = EV (st2, os2, a) ->
    exists r, close_txn st1 (sends st1) (posts st1) = EV r /\
              alookup (listeners st1) l = Some s /\
              sends st1 = sends st ++ flat_map sent ops /\
              forall v, occ st1 (sends st1) (F st1) s = EV (Some v) -> In (BCall l v) os2.
Proof. exact listen_in_txn_receives. Qed.
Print Assumptions C10_listen_inside_transaction.

(* Cell::listen outside a transaction: exactly one call to l in the step's own transaction, carrying the
   update of c in that transaction if there is one, else the current value of c *)
Theorem C10_cell_listen : forall ch st l vh c st' os a,
    quiescent st -> NoDup (keys (listeners st)) ->
    step ch st (OListenC l vh c) = EV (st', os, a) ->
    exists st1 r tr v,
      body (set_depth st 1) (OListenC l vh c) = EV (st1, []) /\
      close_txn st1 [] [] = EV r /\ os = r_obs r ++ trace_obs tr /\
      filter (fun x => Nat.eqb (call_id x) l) (r_obs r) = [BCall l v] /\
      (upd st1 [] (S (length (defs st1))) c = EV (Some v) \/
       (upd st1 [] (S (length (defs st1))) c = EV None /\ cur st1 (F st1) c = EV v)).
Proof. exact listenc_step. Qed.
Print Assumptions C10_cell_listen.

(* the occurrence of value(c): in the transaction that created it, the update or else the current value;
   in every later transaction, the update only *)
Theorem C10_value_stream_fresh : forall st inj f s c,
    alookup (defs st) s = Some (DValue c) -> In s (fresh st) ->
    occ st inj (S f) s =
    (elet u <- upd st inj f c;
     match u with Some v => EV (Some v) | None => elet v <- cur st (F st) c; EV (Some v) end).
Proof. exact occ_value_fresh. Qed.
Print Assumptions C10_value_stream_fresh.

Theorem C10_value_stream_later : forall st inj f s c,
    alookup (defs st) s = Some (DValue c) -> ~ In s (fresh st) ->
    occ st inj (S f) s = upd st inj f c.
Proof. exact occ_value_old. Qed.
Print Assumptions C10_value_stream_later.

(* non-vacuity *)
Example C10_nonvacuous :
  exists st' os,
    run (fun _ => []) 0 init_state
        [ODef 0 (DSink None); OHold 1 0 (VInt 7);
         OBegin; OSend 0 (VInt 1); OListen 5 0; OEnd;          (* registered after the send, same transaction *)
         OListenC 6 2 1;                                         (* current value *)
         OBegin; OSend 0 (VInt 2); OListenC 7 3 1; OEnd;         (* the update of that transaction *)
         OBegin; OSend 0 (VInt 3); OUnlisten 5; OEnd;            (* unlistened before the close *)
         OUnlisten 5; OSend 0 (VInt 4)] = EV (st', os) /\
    os = [BCall 5 (VInt 1); BCall 6 (VInt 1);
          BCall 5 (VInt 2); BCall 6 (VInt 2); BCall 7 (VInt 2);
          BCall 6 (VInt 3); BCall 7 (VInt 3); BCall 6 (VInt 4); BCall 7 (VInt 4)] /\
    unlistened 5 st' /\ quiescent init_state /\ NoDup (keys (listeners init_state)).
Proof.
  eexists; eexists; split; [vm_compute; reflexivity|]. split; [reflexivity|].
  split; [vm_compute; intuition discriminate|]. split; [repeat split | constructor].
Qed.
Print Assumptions C10_nonvacuous.
