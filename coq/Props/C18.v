(* Property C18: router = filters.

   "For every key k, the stream returned by filter_matches(k) fires in exactly the transactions in
    which the input stream fires with a value whose selector result contains k, carrying that value
    once even if the selector lists k several times."

   Statements only; proofs in Proofs/SpecBC18.v. Specification side: Spec/Sodium.v ([DRouter a sl],
   [DRoute r k], [app_sel]). Implementation side: a transliteration of the update closure and of
   filter_matches of /repo/src/impl_/router.rs ([route_loop], [router_update], [filter_matches]).

   Vocabulary (defined in Proofs/SpecBC18.v):
     route_filter k sl o  what the route on key k lets through of the input occurrence o
     keys_filter k ks o   the same for an arbitrary selector function ks
     filter_occ p o       what a filter with predicate p lets through
     sel_pred k sl v      "the selector result of v contains k", as a boolean predicate
     calls_of l obs       the calls of listener l among the observations
     listeners_nodup st   listener ids are distinct (true of every state a script reaches) *)
From Coq Require Import List ZArith Bool Arith.
Import ListNotations.
From Sodium Require Import Sodium SpecBBase SpecBMono SpecBLegal SpecBClose SpecBStep SpecBC18.
Local Open Scope nat_scope.

(* ------------------------------------------------------------------ 1. the route equation *)

(* every fuel, no hypothesis beyond the two definitions *)
Theorem C18_route_step : forall st inj n h r k a sl,
    alookup (defs st) h = Some (DRoute r k) ->
    alookup (defs st) r = Some (DRouter a sl) ->
    occ st inj (S n) h = elet o <- occ st inj n a; EV (route_filter k sl o).
Proof. exact occ_route_S. Qed.
Print Assumptions C18_route_step.

(* fires exactly when the input fires a value whose selector result contains k, with that value *)
Theorem C18_route_filter_fires : forall k sl o v,
    route_filter k sl o = Some v <-> o = Some v /\ In k (app_sel sl v).
Proof. exact route_filter_Some_iff. Qed.
Print Assumptions C18_route_filter_fires.

Theorem C18_route_filter_silent : forall k sl o,
    route_filter k sl o = None <-> o = None \/ exists v, o = Some v /\ ~ In k (app_sel sl v).
Proof. exact route_filter_None_iff. Qed.
Print Assumptions C18_route_filter_silent.

(* "once even if the selector lists k several times": only the SET of keys matters *)
Theorem C18_duplicates_irrelevant : forall k sl1 sl2 o,
    (forall v x, In x (app_sel sl1 v) <-> In x (app_sel sl2 v)) ->
    route_filter k sl1 o = route_filter k sl2 o.
Proof. exact route_filter_set. Qed.
Print Assumptions C18_duplicates_irrelevant.

Theorem C18_multiplicity_irrelevant : forall k sl v,
    route_filter k sl (Some v) = if 0 <? count_occ Z.eq_dec (app_sel sl v) k then Some v else None.
Proof. exact route_filter_count. Qed.
Print Assumptions C18_multiplicity_irrelevant.

Theorem C18_SDup_is_SMod : forall k m o, route_filter k (SDup m) o = route_filter k (SMod m) o.
Proof. exact route_filter_SDup. Qed.
Print Assumptions C18_SDup_is_SMod.

Theorem C18_SMulti_dedup : forall k o,
    route_filter k SMulti o =
    keys_filter k (fun v => [(toint v mod 2)%Z; (2 + toint v mod 3)%Z]) o.
Proof. exact route_filter_SMulti. Qed.
Print Assumptions C18_SMulti_dedup.

(* ------------------------------------------------------------------ 2. a route is a filter *)

Theorem C18_filter_step : forall st inj n h a p,
    alookup (defs st) h = Some (DFilter a p) ->
    occ st inj (S n) h = elet o <- occ st inj n a; EV (filter_occ (appP p) o).
Proof. exact occ_filter_S. Qed.
Print Assumptions C18_filter_step.

Theorem C18_route_step_as_filter : forall st inj n h r k a sl,
    alookup (defs st) h = Some (DRoute r k) ->
    alookup (defs st) r = Some (DRouter a sl) ->
    occ st inj (S n) h = elet o <- occ st inj n a; EV (filter_occ (sel_pred k sl) o).
Proof. exact occ_route_S_filter. Qed.
Print Assumptions C18_route_step_as_filter.

(* a route and a filter of the router's input with an equivalent predicate are equal at EVERY fuel
   (errors included), in particular at the top-level fuel [F st] *)
Theorem C18_route_is_filter : forall st inj h r k a sl h' p,
    alookup (defs st) h = Some (DRoute r k) ->
    alookup (defs st) r = Some (DRouter a sl) ->
    alookup (defs st) h' = Some (DFilter a p) ->
    (forall v, appP p v = sel_pred k sl v) ->
    forall n, occ st inj n h = occ st inj n h'.
Proof. exact occ_route_eq_filter. Qed.
Print Assumptions C18_route_is_filter.

(* instances; true for every value, negative ones included *)
Theorem C18_even_is_key0_of_mod2 : forall v, appP PEven v = sel_pred 0 (SMod 2) v.
Proof. exact PEven_is_SMod2_key0. Qed.
Print Assumptions C18_even_is_key0_of_mod2.

Theorem C18_even_is_key0_of_multi : forall v, appP PEven v = sel_pred 0 SMulti v.
Proof. exact PEven_is_SMulti_key0. Qed.
Print Assumptions C18_even_is_key0_of_multi.

Theorem C18_route_mod2_is_even_filter : forall st inj h r a h',
    alookup (defs st) h = Some (DRoute r 0) ->
    alookup (defs st) r = Some (DRouter a (SMod 2)) ->
    alookup (defs st) h' = Some (DFilter a PEven) ->
    forall n, occ st inj n h = occ st inj n h'.
Proof. exact occ_route_SMod2_0_is_even_filter. Qed.
Print Assumptions C18_route_mod2_is_even_filter.

(* filter_matches(k) twice: the same stream *)
Theorem C18_same_key_same_occurrence : forall st inj h1 h2 r k,
    alookup (defs st) h1 = Some (DRoute r k) ->
    alookup (defs st) h2 = Some (DRoute r k) ->
    forall n, occ st inj n h1 = occ st inj n h2.
Proof. exact occ_route_same_key. Qed.
Print Assumptions C18_same_key_same_occurrence.

(* ------------------------------------------------------------------ 3. top-level fuel *)

(* EV-form: no legality hypothesis *)
Theorem C18_route_top_EV : forall st inj h r k a sl res,
    alookup (defs st) h = Some (DRoute r k) ->
    alookup (defs st) r = Some (DRouter a sl) ->
    occ st inj (F st) h = EV res ->
    exists o, occ st inj (F st) a = EV o /\ res = route_filter k sl o.
Proof. exact occ_route_F_EV. Qed.
Print Assumptions C18_route_top_EV.

(* legal (acyclic) states: the equation itself, errors included *)
Theorem C18_route_top_legal : forall st inj h r k a sl,
    Legal st inj ->
    alookup (defs st) h = Some (DRoute r k) ->
    alookup (defs st) r = Some (DRouter a sl) ->
    occ st inj (F st) h = elet o <- occ st inj (F st) a; EV (route_filter k sl o).
Proof. exact occ_route_F_legal. Qed.
Print Assumptions C18_route_top_legal.

Theorem C18_route_fires_iff : forall st inj h r k a sl v,
    Legal st inj ->
    alookup (defs st) h = Some (DRoute r k) ->
    alookup (defs st) r = Some (DRouter a sl) ->
    (occ st inj (F st) h = EV (Some v) <->
     occ st inj (F st) a = EV (Some v) /\ In k (app_sel sl v)).
Proof. exact occ_route_F_fires_iff. Qed.
Print Assumptions C18_route_fires_iff.

Theorem C18_route_silent_iff : forall st inj h r k a sl,
    Legal st inj ->
    alookup (defs st) h = Some (DRoute r k) ->
    alookup (defs st) r = Some (DRouter a sl) ->
    (occ st inj (F st) h = EV None <->
     occ st inj (F st) a = EV None \/
     exists v, occ st inj (F st) a = EV (Some v) /\ ~ In k (app_sel sl v)).
Proof. exact occ_route_F_silent_iff. Qed.
Print Assumptions C18_route_silent_iff.

(* the router key itself repeats its input *)
Theorem C18_router_step : forall st inj n r a sl,
    alookup (defs st) r = Some (DRouter a sl) -> occ st inj (S n) r = occ st inj n a.
Proof. exact occ_router_S. Qed.
Print Assumptions C18_router_step.

Theorem C18_router_top_EV : forall st inj r a sl o,
    alookup (defs st) r = Some (DRouter a sl) ->
    occ st inj (F st) r = EV o -> occ st inj (F st) a = EV o.
Proof. exact occ_router_F_EV. Qed.
Print Assumptions C18_router_top_EV.

Theorem C18_router_top_legal : forall st inj r a sl,
    Legal st inj -> alookup (defs st) r = Some (DRouter a sl) ->
    occ st inj (F st) r = occ st inj (F st) a.
Proof. exact occ_router_F_legal. Qed.
Print Assumptions C18_router_top_legal.

(* ------------------------------------------------------------------ 4. listeners *)

(* after a successful close (no legality hypothesis): listener l of route h is called with v iff the
   input fired v and the selector result of v contains k *)
Theorem C18_listener_iff : forall st inj p res l h r k a sl v,
    close_txn st inj p = EV res ->
    In (l, h) (listeners st) ->
    (forall s, In (l, s) (listeners st) -> s = h) ->
    alookup (defs st) h = Some (DRoute r k) ->
    alookup (defs st) r = Some (DRouter a sl) ->
    (In (BCall l v) (r_obs res) <->
     occ st inj (F st) a = EV (Some v) /\ In k (app_sel sl v)).
Proof. exact close_route_call_iff. Qed.
Print Assumptions C18_listener_iff.

Theorem C18_listener_iff_nodup : forall st inj p res l h r k a sl v,
    close_txn st inj p = EV res ->
    listeners_nodup st -> In (l, h) (listeners st) ->
    alookup (defs st) h = Some (DRoute r k) ->
    alookup (defs st) r = Some (DRouter a sl) ->
    (In (BCall l v) (r_obs res) <->
     occ st inj (F st) a = EV (Some v) /\ In k (app_sel sl v)).
Proof. exact close_route_call_iff_nodup. Qed.
Print Assumptions C18_listener_iff_nodup.

(* "carrying that value once": the complete list of the listener's calls in the transaction *)
Theorem C18_listener_called_once : forall st inj p res l h r k a sl,
    close_txn st inj p = EV res -> NoDup (map fst (listeners st)) -> In (l, h) (listeners st) ->
    alookup (defs st) h = Some (DRoute r k) ->
    alookup (defs st) r = Some (DRouter a sl) ->
    exists o, occ st inj (F st) a = EV o /\
              calls_of l (r_obs res) =
              match route_filter k sl o with Some v => [BCall l v] | None => [] end.
Proof. exact close_route_calls_exact. Qed.
Print Assumptions C18_listener_called_once.

(* listener ids stay distinct along every script *)
Theorem C18_listener_ids_distinct : forall ops choices st st',
    run_script choices st ops = EV st' -> listeners_nodup st -> listeners_nodup st'.
Proof. exact script_listeners_nodup. Qed.
Print Assumptions C18_listener_ids_distinct.

(* ------------------------------------------------------------------ 5. the implementation's loop *)

(* after [for key in keys { table.get(&key).map(|s| s._send(firing)) }] the stream registered under k
   holds the single firing v iff k is among the keys, duplicates or not *)
Theorem C18_impl_loop : forall t next keys v rs k s,
    twf t next -> tlookup t k = Some s ->
    firing (route_loop t keys v rs) s = if existsb (Z.eqb k) keys then Some v else firing rs s.
Proof. exact route_loop_registered. Qed.
Print Assumptions C18_impl_loop.

Theorem C18_impl_loop_iff : forall t next keys v rs k s,
    twf t next -> tlookup t k = Some s -> firing rs s = None ->
    forall w, firing (route_loop t keys v rs) s = Some w <-> w = v /\ In k keys.
Proof. exact route_loop_registered_iff. Qed.
Print Assumptions C18_impl_loop_iff.

(* the number of _send calls is the multiplicity of k (possibly > 1), the firing is one value *)
Theorem C18_impl_many_sends_one_firing : forall t next keys v rs k s,
    twf t next -> tlookup t k = Some s -> firing rs s = None -> nsend rs s = 0 ->
    nsend (route_loop t keys v rs) s = count_occ Z.eq_dec keys k /\
    firing (route_loop t keys v rs) s = (if 0 <? count_occ Z.eq_dec keys k then Some v else None).
Proof. exact route_loop_many_sends_one_firing. Qed.
Print Assumptions C18_impl_many_sends_one_firing.

Theorem C18_impl_SMulti_two_sends : forall t next rs s v,
    twf t next -> tlookup t 0%Z = Some s -> firing rs s = None -> nsend rs s = 0 ->
    Z.even (toint v) = true ->
    nsend (router_update t (app_sel SMulti) (Some v) rs) s = 2 /\
    firing (router_update t (app_sel SMulti) (Some v) rs) s = Some v.
Proof. exact router_update_SMulti_dup. Qed.
Print Assumptions C18_impl_SMulti_two_sends.

Theorem C18_impl_unregistered_untouched : forall t keys v rs s,
    (forall k, tlookup t k <> Some s) ->
    firing (route_loop t keys v rs) s = firing rs s /\ nsend (route_loop t keys v rs) s = nsend rs s.
Proof. exact route_loop_unregistered. Qed.
Print Assumptions C18_impl_unregistered_untouched.

(* the update closure computes the specification's route_filter *)
Theorem C18_impl_meets_spec : forall t next sl input rs k s,
    twf t next -> tlookup t k = Some s -> firing rs s = None ->
    firing (router_update t (app_sel sl) input rs) s = route_filter k sl input.
Proof. exact router_update_is_route_filter. Qed.
Print Assumptions C18_impl_meets_spec.

(* filter_matches = lookup or insert a fresh stream: keeps the table invariant, the same key gives the
   same stream (also after other calls), different keys give different streams *)
Theorem C18_filter_matches_wf : forall t next k t' next' s,
    twf t next -> filter_matches t next k = (t', next', s) -> twf t' next'.
Proof. exact filter_matches_wf. Qed.
Print Assumptions C18_filter_matches_wf.

Theorem C18_filter_matches_same_key : forall t next k t1 n1 s1,
    filter_matches t next k = (t1, n1, s1) -> filter_matches t1 n1 k = (t1, n1, s1).
Proof. exact filter_matches_same_key. Qed.
Print Assumptions C18_filter_matches_same_key.

Theorem C18_filter_matches_stable : forall t next k t1 n1 s1 k2 t2 n2 s2,
    filter_matches t next k = (t1, n1, s1) -> filter_matches t1 n1 k2 = (t2, n2, s2) ->
    filter_matches t2 n2 k = (t2, n2, s1).
Proof. exact filter_matches_stable. Qed.
Print Assumptions C18_filter_matches_stable.

Theorem C18_filter_matches_distinct : forall t next k1 t1 n1 s1 k2 t2 n2 s2,
    twf t next -> filter_matches t next k1 = (t1, n1, s1) -> filter_matches t1 n1 k2 = (t2, n2, s2) ->
    k1 <> k2 -> s1 <> s2.
Proof. exact filter_matches_distinct. Qed.
Print Assumptions C18_filter_matches_distinct.

Theorem C18_filter_matches_then_update : forall t next k t' next' s sl input rs,
    twf t next -> filter_matches t next k = (t', next', s) -> firing rs s = None ->
    firing (router_update t' (app_sel sl) input rs) s = route_filter k sl input.
Proof. exact filter_matches_then_update. Qed.
Print Assumptions C18_filter_matches_then_update.

(* ------------------------------------------------------------------ examples *)

(* sink 0, router 1 with selector x -> [x mod 2; 2 + x mod 3; x mod 2], route 2 on key 0, even-filter 3,
   route 4 on key 2, listeners 10/11/12/13 on 2/3/4/1; sends of 4, 3, -3 in three transactions:
   route 2 is called ONCE for 4 although key 0 is listed twice, and agrees with the filter *)
Example C18_example_script :
  exists st, c18_run init_state (c18_setup ++ [OSend 0 (VInt 4); OSend 0 (VInt 3); OSend 0 (VInt (-3))]) =
             EV (st, [BCall 10 (VInt 4); BCall 11 (VInt 4); BCall 13 (VInt 4);
                      BCall 12 (VInt 3); BCall 13 (VInt 3);
                      BCall 12 (VInt (-3)); BCall 13 (VInt (-3))]).
Proof. eexists. vm_compute. reflexivity. Qed.
Print Assumptions C18_example_script.

(* the state [c18_ex_st] = after [c18_setup ++ [OBegin; OSend 0 (VInt 4)]] meets every hypothesis *)
Example C18_example_hypotheses :
  alookup (defs c18_ex_st) 2 = Some (DRoute 1 0%Z) /\
  alookup (defs c18_ex_st) 4 = Some (DRoute 1 2%Z) /\
  alookup (defs c18_ex_st) 1 = Some (DRouter 0 SMulti) /\
  alookup (defs c18_ex_st) 3 = Some (DFilter 0 PEven) /\
  sends c18_ex_st = [(0, VInt 4)] /\
  listeners c18_ex_st = [(13, 1); (12, 4); (11, 3); (10, 2)] /\
  listeners_nodup c18_ex_st.
Proof. exact c18_ex_defs. Qed.
Print Assumptions C18_example_hypotheses.

Example C18_example_close :
  exists res, close_txn c18_ex_st (sends c18_ex_st) (posts c18_ex_st) = EV res /\
              r_obs res = [BCall 10 (VInt 4); BCall 11 (VInt 4); BCall 13 (VInt 4)] /\
              occ c18_ex_st (sends c18_ex_st) (F c18_ex_st) 0 = EV (Some (VInt 4)) /\
              app_sel SMulti (VInt 4) = [0; 3; 0]%Z /\
              calls_of 10 (r_obs res) = [BCall 10 (VInt 4)] /\
              calls_of 12 (r_obs res) = [].
Proof. eexists. vm_compute. repeat split. Qed.
Print Assumptions C18_example_close.

(* Legal: cells rank 0, streams ranked by their slot number *)
Example C18_example_legal :
  LegalR c18_ex_st (sends c18_ex_st) (fun _ => 0) (fun h => h) /\ Legal c18_ex_st (sends c18_ex_st).
Proof. split; [exact c18_ex_legalR | exact c18_ex_legal]. Qed.
Print Assumptions C18_example_legal.

(* the listener theorem applied to the example *)
Example C18_example_apply : forall res,
    close_txn c18_ex_st (sends c18_ex_st) (posts c18_ex_st) = EV res ->
    In (BCall 10 (VInt 4)) (r_obs res) /\ ~ In (BCall 12 (VInt 4)) (r_obs res).
Proof. exact c18_ex_apply. Qed.
Print Assumptions C18_example_apply.

(* the legality hypothesis is not vacuous the other way either: a route feeding its own router *)
Example C18_example_cyclic :
  occ c18_ex_cyclic [] (F c18_ex_cyclic) 2 = EErr Illegal /\ ~ Legal c18_ex_cyclic [].
Proof. exact c18_ex_cyclic_illegal. Qed.
Print Assumptions C18_example_cyclic.

(* the operational model on the same data *)
Example C18_example_operational :
  let '(t1, n1, s1) := filter_matches [] 0 0%Z in
  let '(t2, n2, s2) := filter_matches t1 n1 2%Z in
  let '(t3, n3, s3) := filter_matches t2 n2 0%Z in
  let rs := router_update t3 (app_sel SMulti) (Some (VInt 4)) (mkR (fun _ => None) (fun _ => 0)) in
  (s1, s2, s3) = (0, 1, 0) /\ t3 = t2 /\ twf t3 n3 /\
  firing rs 0 = Some (VInt 4) /\ nsend rs 0 = 2 /\
  firing rs 1 = None /\ nsend rs 1 = 0.
Proof. exact c18_ex_operational. Qed.
Print Assumptions C18_example_operational.
