(* Property C04: cells are delayed state: reads see the pre-transaction value; folds match.
   Statements only; proofs in Proofs/SpecB*.v. The statements are about the executable specification
   Spec/Sodium.v, to which the implementation is tied by the differential check. [cur st fuel c] is
   the value every read of cell c yields during the transaction open in state st: it has no access
   to the events of the transaction ([inj], [sends st]). *)
From Coq Require Import List ZArith Bool Arith.
Import ListNotations.
From Sodium Require Import Sodium SpecBBase SpecBLegal SpecBLegalB SpecBStep SpecBBody SpecBC02 SpecBC04.

(* ---- (a) every read during a transaction sees the pre-transaction value *)

Theorem C04_sample_reads_cur : forall st h,
    body st (OSample h) = elet v <- cur st (F st) h; EV (st, [BSample h v]).
Proof. exact sample_reads_cur. Qed.
Print Assumptions C04_sample_reads_cur.

Theorem C04_send_keeps_cur : forall st h v st' ob n c,
    body st (OSend h v) = EV (st', ob) -> cur st' n c = cur st n c.
Proof. exact send_keeps_cur. Qed.
Print Assumptions C04_send_keeps_cur.

(* wherever the sample is placed relative to sends (and listens, posts, other samples) inside the
   transaction, it yields the value the cell had before them *)
Theorem C04_sample_position_irrelevant : forall ops st st' ob h,
    Forall passive ops -> run_body st ops = EV (st', ob) ->
    body st' (OSample h) = elet v <- cur st (F st) h; EV (st', [BSample h v]).
Proof. exact sample_position_irrelevant. Qed.
Print Assumptions C04_sample_position_irrelevant.

(* snapshot and gate read [cur] too (C02_snapshot, C02_gate); the folds below read it through snapshot *)

(* ---- (b) hold: update = the source's event; committed whether or not anything listens *)

Theorem C04_hold_update : forall st inj n h a,
    alookup (defs st) h = Some (DHold a) -> upd st inj (S n) h = occ st inj n a.
Proof. exact upd_DHold. Qed.
Print Assumptions C04_hold_update.

Theorem C04_hold_update_legal : forall st inj rc ro, LegalR st inj rc ro -> forall h a,
    alookup (defs st) h = Some (DHold a) -> upd st inj (F st) h = occ st inj (F st) a.
Proof. exact upd_DHold_L. Qed.
Print Assumptions C04_hold_update_legal.

Theorem C04_hold_commit : forall st inj p r h a,
    close_txn st inj p = EV r -> alookup (defs st) h = Some (DHold a) ->
    exists o, occ st inj (F st) a = EV o /\ upd st inj (F st) h = EV o /\
              alookup (cvals (r_state r)) h =
              match o with Some v => Some v | None => opt_of_ev (cur st (F st) h) end.
Proof. exact hold_commit. Qed.
Print Assumptions C04_hold_commit.

Theorem C04_hold_commit_unobserved : forall st inj p r h a,
    listeners st = [] ->
    close_txn st inj p = EV r -> alookup (defs st) h = Some (DHold a) ->
    exists o, occ st inj (F st) a = EV o /\
              alookup (cvals (r_state r)) h =
              match o with Some v => Some v | None => opt_of_ev (cur st (F st) h) end.
Proof. exact hold_commit_unobserved. Qed.
Print Assumptions C04_hold_commit_unobserved.

(* a hold created in the open transaction reads its initial value *)
Theorem C04_hold_fresh_cur : forall st n h a v0,
    alookup (cvals st) h = None -> alookup (defs st) h = Some (DHold a) ->
    alookup (inits st) h = Some v0 -> cur st (S n) h = EV v0.
Proof. exact hold_fresh_cur. Qed.
Print Assumptions C04_hold_fresh_cur.

(* over any history (transactions interleaved with steps that leave the cell alone):
   hold = the last event so far, or the initial value *)
Theorem C04_hold_history : forall h a st tr st' v0,
    Hist (fun st => alookup (defs st) h = Some (DHold a)) h a st tr st' ->
    cur st (F st) h = EV v0 ->
    cur st' (F st') h = EV (last (somes tr) v0).
Proof. exact hold_history. Qed.
Print Assumptions C04_hold_history.

(* the non-transaction steps allowed in a history include every operation body not rebinding the cell *)
Theorem C04_body_keeps_resolved : forall h st o st1 ob,
    body st o = EV (st1, ob) -> ~ binds o h -> alookup (cvals st) h <> None -> keeps h st st1.
Proof. exact body_keeps_resolved. Qed.
Print Assumptions C04_body_keeps_resolved.

(* ---- (c) accum *)

Theorem C04_accum_ops_wired : forall st k1 c k2 s v0 f,
    k1 <> c -> k1 <> k2 -> c <> k2 -> alookup (loops st) k1 = None -> alookup (cvals st) c = None ->
    exists st4, run_body st (accum_ops k1 c k2 s v0 f) = EV (st4, []) /\
                AccumWired st4 s c k1 k2 f /\
                (forall n, cur st4 (S n) c = EV v0).
Proof. exact accum_ops_wired. Qed.
Print Assumptions C04_accum_ops_wired.

(* in a transaction where s fires a: exactly one update, f a (state before); else none *)
Theorem C04_accum_txn : forall st inj p r s c k1 k2 f,
    AccumWired st s c k1 k2 f -> close_txn st inj p = EV r ->
    exists o, occ st inj (F st) s = EV o /\
              match o with
              | Some a => exists v, cur st (F st) c = EV v /\
                                    upd st inj (F st) c = EV (Some (app2 f a v)) /\
                                    alookup (cvals (r_state r)) c = Some (app2 f a v)
              | None => upd st inj (F st) c = EV None /\
                        alookup (cvals (r_state r)) c = opt_of_ev (cur st (F st) c)
              end.
Proof. exact accum_txn. Qed.
Print Assumptions C04_accum_txn.

Theorem C04_accum_update_legal : forall st inj rc ro s c k1 k2 f,
    LegalR st inj rc ro -> AccumWired st s c k1 k2 f ->
    upd st inj (F st) c =
    elet o <- occ st inj (F st) s;
    match o with
    | None => EV None
    | Some a => elet v <- cur st (F st) c; EV (Some (app2 f a v))
    end.
Proof. exact accum_upd_L. Qed.
Print Assumptions C04_accum_update_legal.

(* after a history in which s fired a1..an (in order): the left fold, one step per event *)
Theorem C04_accum_history : forall s c k1 k2 f st tr st' v0,
    Hist (fun st => AccumWired st s c k1 k2 f) c s st tr st' ->
    cur st (F st) c = EV v0 ->
    cur st' (F st') c = EV (fold_left (fun acc a => app2 f a acc) (somes tr) v0).
Proof. exact accum_history. Qed.
Print Assumptions C04_accum_history.

Theorem C04_accum_wired_close : forall st inj p r s c k1 k2 f,
    AccumWired st s c k1 k2 f -> close_txn st inj p = EV r -> AccumWired (r_state r) s c k1 k2 f.
Proof. exact accum_wired_close. Qed.
Print Assumptions C04_accum_wired_close.

(* ---- (d) collect: output = fa (event, state), new state = fb (event, state) *)

Theorem C04_collect_ops_wired : forall st k1 c k2 k0 k3 s v0 fa fb,
    NoDup [k1; c; k2; k0; k3] -> alookup (loops st) k1 = None -> alookup (cvals st) c = None ->
    exists st6, run_body st (collect_ops k1 c k2 k0 k3 s v0 fa fb) = EV (st6, []) /\
                CollectWired st6 s c k1 k2 k0 k3 fa fb /\
                (forall n, cur st6 (S n) c = EV v0).
Proof. exact collect_ops_wired. Qed.
Print Assumptions C04_collect_ops_wired.

Theorem C04_collect_txn : forall st inj p r s c k1 k2 k0 k3 fa fb,
    CollectWired st s c k1 k2 k0 k3 fa fb -> close_txn st inj p = EV r ->
    exists o, occ st inj (F st) s = EV o /\
              match o with
              | Some a => exists v, cur st (F st) c = EV v /\
                                    occ st inj (F st) k0 = EV (Some (app2 fa a v)) /\
                                    alookup (cvals (r_state r)) c = Some (app2 fb a v)
              | None => occ st inj (F st) k0 = EV None /\
                        alookup (cvals (r_state r)) c = opt_of_ev (cur st (F st) c)
              end.
Proof. exact collect_txn. Qed.
Print Assumptions C04_collect_txn.

Theorem C04_collect_history : forall s c k1 k2 k0 k3 fa fb st tr st' v0,
    Hist (fun st => CollectWired st s c k1 k2 k0 k3 fa fb) c s st tr st' ->
    cur st (F st) c = EV v0 ->
    cur st' (F st') c = EV (fold_left (fun acc a => app2 fb a acc) (somes tr) v0).
Proof. exact collect_history. Qed.
Print Assumptions C04_collect_history.

(* ---- non-vacuity: a sink, a hold, an accum and a collect built by the driver's operations; the state
        is legal and wired; three transactions (1, nothing, 5) give the folds; a hold created after its
        source fired in the same transaction takes that event *)

Example C04_nonvacuous :
  run_ops init_state ex04_ops = Some ex04_st /\
  (forall inj, LegalR ex04_st inj ex04_rank ex04_rank) /\
  AccumWired ex04_st 0 10 11 12 GSub /\ CollectWired ex04_st 0 30 31 32 33 34 GAdd GMul10 /\
  Hist (fun st => AccumWired st 0 10 11 12 GSub) 10 0 ex04_st [Some (VInt 1); None; Some (VInt 5)]
       (ex04_after [[(0%nat, VInt 1)]; []; [(0%nat, VInt 5)]]) /\
  cvals (ex04_after [[(0%nat, VInt 1)]; []; [(0%nat, VInt 5)]]) =
  [(30%nat, VInt 61); (10%nat, VInt 104); (20%nat, VInt 5)].
Proof.
  split; [vm_compute; reflexivity|]. split; [exact ex04_legal|].
  split; [exact ex04_accum_wired|]. split; [exact ex04_collect_wired|].
  split; [exact ex04_hist_accum | vm_compute; reflexivity].
Qed.
Print Assumptions C04_nonvacuous.

Example C04_hold_created_after_send :
  option_map cvals (run_ops init_state [ODef 0 (DSink None); OBegin; OSend 0 (VInt 3);
                                        OHold 20 0 (VInt 7); OSample 20; OEnd])
  = Some [(20%nat, VInt 3)].
Proof. vm_compute. reflexivity. Qed.
Print Assumptions C04_hold_created_after_send.
