(* The former known finding K1 (switch_s whose outer cell is updated from the switch's own output) is inside
   the proved fragment after the repair.

   For a switch_s whose outer cell is updated, in the same transaction, by an event derived from the switch's
   own output (legal for the semantics: the outer cell is read as of the start of the transaction), the
   implementation used to build a cyclic node graph (the inner node depended on the outer node) and lost the
   outer cell's update.  After the repair of /repo/src/impl_/cell.rs `switch_s` the inner node only keeps the
   outer node alive without depending on it; accordingly the node of `DSwitchS c` in Model/Net.v depends on
   the stream the outer cell held at the start of the transaction and on nothing else.  The program `cy_st`
   (outer cell 3 = hold (2 = map of the switch 4's output to a stream reference), 4 = switch_s 3, currently
   on the sink 0) is then ACYCLIC, satisfies every hypothesis of the refinement theorems (Props/Refine.v),
   and the propagation engine and the specification AGREE on it: both update the outer cell.
   Statements only; proofs in Proofs/NetRefine.v. *)
From Coq Require Import List ZArith Arith.
Import ListNotations.
From Sodium Require Import Sodium Engine Net NetRefine.

(* the hypotheses of the refinement theorems hold of it; in particular the graph is acyclic *)
Example K1_static_ok : static_ok cy_st.
Proof. exact cy_static_ok. Qed.
Print Assumptions K1_static_ok.

Example K1_wired_ok : wired_ok cy_st [(0, VInt 5%Z)].
Proof. exact cy_wired_ok. Qed.
Print Assumptions K1_wired_ok.

Example K1_is_acyclic : acyclic_dem cy_st [(0, VInt 5%Z)].
Proof. exact cy_acyclic. Qed.
Print Assumptions K1_is_acyclic.

(* the switch 4 depends on the sink 0 only; the engine fires exactly the specification's values, the update
   `VRef 1` of the outer cell 3 included; the update log *)
Example K1_engine_agrees_with_spec :
  static_ok cy_st /\ switch_targets_ok cy_st = true /\
  map (ndeps cy_st) [2; 3; 4] = [[4]; [2]; [0]] /\
  map (fun kd : nat * def => if is_cell (snd kd) then upd cy_st [(0, VInt 5%Z)] (F cy_st) (fst kd)
                             else occ cy_st [(0, VInt 5%Z)] (F cy_st) (fst kd)) cy_defs =
  map (@EV (option val)) [Some (VInt 5%Z); Some (VInt 6%Z); Some (VRef 1); Some (VRef 1); Some (VInt 5%Z)] /\
  option_map (fun r => (firstn 5 (fst r), snd r)) (net_txn cy_st [(0, VInt 5%Z)]) =
  Some ([Some (VInt 5%Z); Some (VInt 6%Z); Some (VRef 1); Some (VRef 1); Some (VInt 5%Z)], [1; 4; 2; 3]).
Proof. exact cy_agree. Qed.
Print Assumptions K1_engine_agrees_with_spec.

(* the refinement theorem (Refine_txn, i.e. net_txn_refines) applied to it *)
Example K1_inside_the_proved_fragment :
  exists fires lg,
    net_txn cy_st [(0, VInt 5%Z)] = Some (fires, lg) /\
    length fires = gsize cy_st /\
    (forall s d, alookup (defs cy_st) s = Some d -> is_cell d = false ->
                 occ cy_st [(0, VInt 5%Z)] (F cy_st) s = EV (fire_of fires s)) /\
    (forall c d, alookup (defs cy_st) c = Some d -> is_cell d = true ->
                 upd cy_st [(0, VInt 5%Z)] (F cy_st) c = EV (fire_of fires c)) /\
    updates_once_after_deps cy_st fires lg.
Proof. exact cy_refines. Qed.
Print Assumptions K1_inside_the_proved_fragment.

(* the commit re-wires the switch to stream 1; the next transaction (send 7) is wired and acyclic again
   (checked with the rank 0 < 1 < 4 < 2 < 3), the switch fires 7 + 1 and the outer cell is updated back to a
   reference to stream 0 *)
Example K1_next_transaction :
  match net_txn cy_st [(0, VInt 5%Z)] with
  | Some (f1, _) =>
    let st1 := net_commit cy_st f1 in
    (ndeps st1 4, wired_okb (fun n => nth n [0; 1; 3; 4; 2] 0) st1 [(0, VInt 7%Z)],
     option_map (fun r => firstn 5 (fst r)) (net_txn st1 [(0, VInt 7%Z)]))
  | None => ([], false, None)
  end = ([1], true, Some [Some (VInt 7%Z); Some (VInt 8%Z); Some (VRef 0); Some (VRef 0); Some (VInt 8%Z)]).
Proof. exact cy_next. Qed.
Print Assumptions K1_next_transaction.
