(* Known finding K1 as a theorem about the models: for a switch_s whose outer cell is updated, in the same
   transaction, by an event derived from the switch's own output (legal for the semantics: the outer cell is
   read as of the start of the transaction), the node graph the implementation builds is cyclic, and the
   propagation engine and the specification DISAGREE: the specification updates the outer cell, the engine
   never reaches it. The refinement theorems (Props/Refine.v) therefore carry the hypothesis `acyclic_dem`
   (no cycle through the static dependencies `acyclic` - and the demands of switch_c), which excludes exactly
   this class. *)
From Coq Require Import List ZArith Arith.
Import ListNotations.
From Sodium Require Import Sodium Engine Net NetRefine.

Example K1_engine_differs_from_spec :
  static_ok cy_st /\ switch_targets_ok cy_st = true /\
  map (ndeps cy_st) [2; 3; 4] = [[4]; [2]; [0; 3]] /\
  map (fun kd : nat * def => if is_cell (snd kd) then upd cy_st [(0, VInt 5%Z)] (F cy_st) (fst kd)
                             else occ cy_st [(0, VInt 5%Z)] (F cy_st) (fst kd)) cy_defs =
  map (@EV (option val)) [Some (VInt 5%Z); Some (VInt 6%Z); Some (VRef 1); Some (VRef 1); Some (VInt 5%Z)] /\
  option_map (fun r => (firstn 5 (fst r), snd r)) (net_txn cy_st [(0, VInt 5%Z)]) =
  Some ([Some (VInt 5%Z); Some (VInt 6%Z); None; None; Some (VInt 5%Z)], [1; 4]).
Proof. exact cy_disagree. Qed.
Print Assumptions K1_engine_differs_from_spec.

Example K1_is_the_cyclic_class : ~ acyclic cy_st.
Proof. exact cy_not_acyclic. Qed.
Print Assumptions K1_is_the_cyclic_class.

Example K1_excluded_by_refinement_hypothesis : forall inj, ~ acyclic_dem cy_st inj.
Proof. intros inj H. exact (cy_not_acyclic (acyclic_dem_acyclic cy_st inj H)). Qed.
Print Assumptions K1_excluded_by_refinement_hypothesis.
