(* Property C09: independence of construction order, handle lifetime and collection timing. Statements only;
   proofs in Proofs/SpecA09.v, SpecAEquiv.v (and SpecA01, SpecA14, ...).
   [steq st st']: all tables read by the denotation have the same lookups (and [defs] the same length);
   [stperm st st']: [steq], and the traversed tables (defs, listeners, lazies) are permutations of one
   another with distinct keys. *)
From Coq Require Import List Arith ZArith Permutation.
Import ListNotations.
From Sodium Require Import Sodium SpecABase SpecA14 SpecAEquiv SpecA12 SpecA15 SpecA01 SpecA09.

(* (a) ONop, the image of every clone / drop / collection: the identity inside a transaction ... *)
Theorem C09_nop_inside_transaction : forall ch st, depth st <> 0 -> step ch st ONop = EV (st, [], []).
Proof. exact nop_inside. Qed.
Print Assumptions C09_nop_inside_transaction.

(* ... and outside, the empty transaction: *)
Theorem C09_nop_is_empty_transaction : forall ch st,
    depth st = 0 -> step ch st ONop = step ch (set_depth st 1) OEnd.
Proof. exact nop_is_empty_txn. Qed.
Print Assumptions C09_nop_is_empty_transaction.

(* nothing observed, no deferred choice, every table kept, every cell keeps the value a sample returns *)
Theorem C09_nop_outside_transaction : forall ch st st' os a,
    quiescent st -> step ch st ONop = EV (st', os, a) ->
    os = [] /\ a = [] /\ quiescent st' /\
    defs st' = defs st /\ loops st' = loops st /\ listeners st' = listeners st /\ tdone st' = tdone st /\
    fired st' = fired st /\
    (lazies_resolved st -> lazies st' = lazies st) /\
    (forall c d v, alookup (defs st) c = Some d -> is_cell d = true -> cur st (F st) c = EV v ->
                   alookup (cvals st') c = Some v /\ forall f, cur st' (S f) c = EV v).
Proof. exact nop_outside. Qed.
Print Assumptions C09_nop_outside_transaction.

(* every closed transaction leaves the lazies resolved, so the hypothesis above holds between transactions *)
Theorem C09_lazies_resolved_after_close : forall st inj ps r,
    close_txn st inj ps = EV r -> lazies_resolved (r_state r).
Proof. exact close_lazies_resolved. Qed.
Print Assumptions C09_lazies_resolved_after_close.

(* (b) the denotation reads the tables through lookups only *)
Theorem C09_cur_lookup_only : forall st st', steq st st' -> forall f c, cur st f c = cur st' f c.
Proof. exact cur_steq. Qed.
Print Assumptions C09_cur_lookup_only.

Theorem C09_occ_lookup_only : forall st st' inj, steq st st' -> forall f s, occ st inj f s = occ st' inj f s.
Proof. exact occ_steq. Qed.
Print Assumptions C09_occ_lookup_only.

Theorem C09_upd_lookup_only : forall st st' inj, steq st st' -> forall f c, upd st inj f c = upd st' inj f c.
Proof. exact upd_steq. Qed.
Print Assumptions C09_upd_lookup_only.

(* reordering tables with distinct keys keeps the lookups *)
Theorem C09_reordering_keeps_lookups : forall st st',
    NoDup (keys (defs st)) -> NoDup (keys (cvals st)) -> NoDup (keys (inits st)) -> NoDup (keys (linit st)) ->
    NoDup (keys (lazies st)) -> NoDup (keys (loops st)) ->
    Permutation (defs st) (defs st') -> Permutation (cvals st) (cvals st') ->
    Permutation (inits st) (inits st') -> Permutation (linit st) (linit st') ->
    Permutation (lazies st) (lazies st') -> Permutation (loops st) (loops st') ->
    Permutation (fired st) (fired st') -> Permutation (fresh st) (fresh st') ->
    steq st st'.
Proof. exact steq_of_perm. Qed.
Print Assumptions C09_reordering_keeps_lookups.

(* every listener gets the same calls from two equivalent states *)
Theorem C09_per_listener_observations : forall st st' inj ps ps' r r' l,
    steq st st' -> (forall k, alookup (listeners st) k = alookup (listeners st') k) ->
    NoDup (keys (listeners st)) -> NoDup (keys (listeners st')) ->
    close_txn st inj ps = EV r -> close_txn st' inj ps' = EV r' ->
    filter (fun x => Nat.eqb (call_id x) l) (r_obs r) = filter (fun x => Nat.eqb (call_id x) l) (r_obs r').
Proof. exact close_per_listener. Qed.
Print Assumptions C09_per_listener_observations.

(* a transaction on reordered tables succeeds as well, with the same calls and deferred items up to order,
   and the committed states are related again (so the statement iterates over any history) *)
Theorem C09_close_respects_reordering : forall st st' inj ps r,
    stperm st st' -> close_txn st inj ps = EV r ->
    exists r', close_txn st' inj ps = EV r' /\
               Permutation (r_obs r) (r_obs r') /\
               Permutation (r_deferred r) (r_deferred r') /\
               stperm (r_state r) (r_state r').
Proof. exact close_txn_perm. Qed.
Print Assumptions C09_close_respects_reordering.

(* (c) the only choice: [step] is the choice-free [step_q] followed by the deferred run *)
Theorem C09_choice_only_in_deferred_run : forall ch st o,
    step ch st o =
    (elet x <- step_q st o;
     elet r <- run_deferred 200 ch (fst (fst x)) (snd x) [];
     EV (fst (fst r), snd (fst x) ++ snd (fst r), snd r)).
Proof. exact step_via_step_q. Qed.
Print Assumptions C09_choice_only_in_deferred_run.

(* and when the deferred run never had two candidate sources, the choice list does not matter at all *)
Theorem C09_no_alternative_no_choice : forall ch st o st' os a,
    step ch st o = EV (st', os, a) -> Forall (fun n => n <= 1) a ->
    forall ch', step ch' st o = EV (st', os, a).
Proof. exact step_choice_irrelevant. Qed.
Print Assumptions C09_no_alternative_no_choice.

(* non-vacuity: two construction orders of one network are related; a send gives permuted observations *)
Example C09_nonvacuous :
  stperm (build order_a) (build order_b) /\ quiescent (build order_a) /\
  (exists sa sb, step [] (build order_a) (OSend 0 (VInt 5)) = EV (sa, [BCall 10 (VInt 6); BCall 11 (VInt 10)], []) /\
                 step [] (build order_b) (OSend 0 (VInt 5)) = EV (sb, [BCall 11 (VInt 10); BCall 10 (VInt 6)], [])) /\
  NoDup (keys (listeners (build order_a))).
Proof.
  split; [exact orders_related|]. split; [vm_compute; repeat split|].
  split; [eexists; eexists; split; vm_compute; reflexivity|].
  vm_compute. repeat constructor; cbn; intuition discriminate.
Qed.
Print Assumptions C09_nonvacuous.
