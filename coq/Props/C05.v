(* Property C05: switch_s / switch_c, proved of the executable denotational specification
   Spec/Sodium.v (the reference every check compares the implementation against: [DSwitchS c],
   [DSwitchC c], references [VRef n] stored in the outer cell [c]). Statements only; proofs in
   Proofs/SpecBC05.v.

   "switch_s emits, in each transaction, the event of the stream that the outer cell held at the start
   of that transaction, so a switch becomes effective from the next transaction on and no event of the
   old or new stream is lost or duplicated. switch_c always equals the value of the cell currently held
   by the outer cell: in the transaction of a switch it takes the new inner cell's value including an
   update the new cell receives in that same transaction, and afterwards ignores the old one."

   [occ st inj k s] / [upd st inj k c]: occurrence of stream s / update of cell c in the transaction
   run in state st with injected events inj, evaluated with fuel k (top level: [F st]);
   [cur st k c]: value of cell c at the start of the transaction (it does not depend on inj). *)
From Coq Require Import List ZArith Bool Arith.
Import ListNotations.
From Sodium Require Import Sodium SpecBBase SpecBMono SpecBLegal SpecBClose SpecBStep SpecBLegalB SpecBC05.
Local Open Scope nat_scope.

(* ================================================================== switch_s *)

(* one step, every fuel: the switch follows the stream referenced by the outer cell's value at the
   START of the transaction, whatever the outer cell's update in this transaction is *)
Theorem C05_switch_s_step : forall st inj k h c n,
    alookup (defs st) h = Some (DSwitchS c) -> cur st (F st) c = EV (VRef n) ->
    occ st inj (S k) h = occ st inj k n.
Proof. exact switch_s_step. Qed.
Print Assumptions C05_switch_s_step.

(* an error or a non-reference in the outer cell gives an error, never a value *)
Theorem C05_switch_s_outer_error : forall st inj k h c e,
    alookup (defs st) h = Some (DSwitchS c) -> cur st (F st) c = EErr e ->
    occ st inj (S k) h = EErr e.
Proof. exact switch_s_step_err. Qed.
Print Assumptions C05_switch_s_outer_error.

Theorem C05_switch_s_outer_nonref : forall st inj k h c v,
    alookup (defs st) h = Some (DSwitchS c) -> cur st (F st) c = EV v -> (forall n, v <> VRef n) ->
    occ st inj (S k) h = EErr Illegal.
Proof. exact switch_s_step_nonref. Qed.
Print Assumptions C05_switch_s_outer_nonref.

Theorem C05_switch_s_value_needs_ref : forall st inj k h c r,
    alookup (defs st) h = Some (DSwitchS c) -> occ st inj k h = EV r ->
    exists n k', k = S k' /\ cur st (F st) c = EV (VRef n) /\ occ st inj k' n = EV r.
Proof. exact switch_s_EV_inv. Qed.
Print Assumptions C05_switch_s_value_needs_ref.

(* top-level fuel *)
Theorem C05_switch_s_top : forall st inj h c r,
    alookup (defs st) h = Some (DSwitchS c) -> occ st inj (F st) h = EV r ->
    exists n, cur st (F st) c = EV (VRef n) /\ occ st inj (F st) n = EV r.
Proof. exact switch_s_F_EV. Qed.
Print Assumptions C05_switch_s_top.

Theorem C05_switch_s_top_legal : forall st inj h c n,
    Legal st inj -> alookup (defs st) h = Some (DSwitchS c) -> cur st (F st) c = EV (VRef n) ->
    occ st inj (F st) h = occ st inj (F st) n.
Proof. exact switch_s_F_legal. Qed.
Print Assumptions C05_switch_s_top_legal.

(* the switch takes effect in the NEXT transaction: T (outer cell holds n, updates to m) follows n,
   every transaction run in the state after T follows m *)
Theorem C05_switch_s_effective_next : forall st inj p r h c n m,
    alookup (defs st) h = Some (DSwitchS c) -> cur st (F st) c = EV (VRef n) ->
    close_txn st inj p = EV r -> upd st inj (F st) c = EV (Some (VRef m)) ->
    (forall k, occ st inj (S k) h = occ st inj k n) /\
    (forall inj' k, occ (r_state r) inj' (S k) h = occ (r_state r) inj' k m).
Proof. exact switch_s_this_and_next. Qed.
Print Assumptions C05_switch_s_effective_next.

Theorem C05_switch_s_next_cur : forall st inj p r c m,
    close_txn st inj p = EV r -> upd st inj (F st) c = EV (Some (VRef m)) ->
    cur (r_state r) (F (r_state r)) c = EV (VRef m).
Proof. exact switch_s_next_cur. Qed.
Print Assumptions C05_switch_s_next_cur.

(* no update of the outer cell: the followed stream stays *)
Theorem C05_switch_s_no_switch : forall st inj p r h c n,
    alookup (defs st) h = Some (DSwitchS c) -> cur st (F st) c = EV (VRef n) ->
    close_txn st inj p = EV r -> upd st inj (F st) c = EV None ->
    cur (r_state r) (F (r_state r)) c = EV (VRef n) /\
    forall inj' k, occ (r_state r) inj' (S k) h = occ (r_state r) inj' k n.
Proof. exact switch_s_next_same. Qed.
Print Assumptions C05_switch_s_no_switch.

(* a listener of the switch is called with exactly the occurrence of the stream held at the start
   of the transaction: nothing lost, nothing added *)
Theorem C05_switch_s_listener : forall st inj p r h c n l,
    close_txn st inj p = EV r -> alookup (defs st) h = Some (DSwitchS c) ->
    cur st (F st) c = EV (VRef n) ->
    In (l, h) (listeners st) -> (forall s, In (l, s) (listeners st) -> s = h) ->
    forall v, In (BCall l v) (r_obs r) <-> occ st inj (F st) n = EV (Some v).
Proof. exact switch_s_listener. Qed.
Print Assumptions C05_switch_s_listener.

(* there and back again, and switching to the stream already followed *)
Theorem C05_switch_s_back_and_forth : forall st inj1 p1 r1 inj2 p2 r2 h c a b,
    alookup (defs st) h = Some (DSwitchS c) -> cur st (F st) c = EV (VRef a) ->
    close_txn st inj1 p1 = EV r1 -> upd st inj1 (F st) c = EV (Some (VRef b)) ->
    close_txn (r_state r1) inj2 p2 = EV r2 ->
    upd (r_state r1) inj2 (F (r_state r1)) c = EV (Some (VRef a)) ->
    (forall k, occ st inj1 (S k) h = occ st inj1 k a) /\
    (forall k, occ (r_state r1) inj2 (S k) h = occ (r_state r1) inj2 k b) /\
    (forall inj3 k, occ (r_state r2) inj3 (S k) h = occ (r_state r2) inj3 k a).
Proof. exact switch_s_back_and_forth. Qed.
Print Assumptions C05_switch_s_back_and_forth.

Theorem C05_switch_s_same_stream : forall st inj p r h c n,
    alookup (defs st) h = Some (DSwitchS c) -> cur st (F st) c = EV (VRef n) ->
    close_txn st inj p = EV r -> upd st inj (F st) c = EV (Some (VRef n)) ->
    (forall k, occ st inj (S k) h = occ st inj k n) /\
    (forall inj' k, occ (r_state r) inj' (S k) h = occ (r_state r) inj' k n).
Proof. exact switch_s_same_stream. Qed.
Print Assumptions C05_switch_s_same_stream.

(* ================================================================== switch_c: the update *)

(* transaction of a switch: the new inner cell's update in the same transaction, else its current
   value; it always fires, also when the new cell is the one already held *)
Theorem C05_switch_c_upd_switch : forall st inj k h c n,
    alookup (defs st) h = Some (DSwitchC c) -> upd st inj k c = EV (Some (VRef n)) ->
    upd st inj (S k) h =
    elet u <- upd st inj k n;
    match u with Some v => EV (Some v) | None => elet v <- cur st (F st) n; EV (Some v) end.
Proof. exact switch_c_upd_switch. Qed.
Print Assumptions C05_switch_c_upd_switch.

Theorem C05_switch_c_switch_fires : forall st inj k h c n r,
    alookup (defs st) h = Some (DSwitchC c) -> upd st inj k c = EV (Some (VRef n)) ->
    upd st inj (S k) h = EV r -> exists v, r = Some v.
Proof. exact switch_c_switch_fires. Qed.
Print Assumptions C05_switch_c_switch_fires.

(* no switch: the update of the inner cell held at the start of the transaction *)
Theorem C05_switch_c_upd_noswitch : forall st inj k h c i,
    alookup (defs st) h = Some (DSwitchC c) -> upd st inj k c = EV None ->
    cur st (F st) c = EV (VRef i) ->
    upd st inj (S k) h = upd st inj k i.
Proof. exact switch_c_upd_noswitch. Qed.
Print Assumptions C05_switch_c_upd_noswitch.

Theorem C05_switch_c_upd_outer_error : forall st inj k h c e,
    alookup (defs st) h = Some (DSwitchC c) -> upd st inj k c = EErr e ->
    upd st inj (S k) h = EErr e.
Proof. exact switch_c_upd_err. Qed.
Print Assumptions C05_switch_c_upd_outer_error.

Theorem C05_switch_c_upd_outer_nonref : forall st inj k h c v,
    alookup (defs st) h = Some (DSwitchC c) -> upd st inj k c = EV (Some v) -> (forall n, v <> VRef n) ->
    upd st inj (S k) h = EErr Illegal.
Proof. exact switch_c_upd_nonref. Qed.
Print Assumptions C05_switch_c_upd_outer_nonref.

Theorem C05_switch_c_upd_noswitch_error : forall st inj k h c,
    alookup (defs st) h = Some (DSwitchC c) -> upd st inj k c = EV None ->
    (forall i, cur st (F st) c <> EV (VRef i)) ->
    exists e, upd st inj (S k) h = EErr e.
Proof. exact switch_c_upd_noswitch_err. Qed.
Print Assumptions C05_switch_c_upd_noswitch_error.

(* top-level fuel *)
Theorem C05_switch_c_top : forall st inj h c r,
    alookup (defs st) h = Some (DSwitchC c) -> upd st inj (F st) h = EV r ->
    (exists n u, upd st inj (F st) c = EV (Some (VRef n)) /\ upd st inj (F st) n = EV u /\
                 match u with
                 | Some v => r = Some v
                 | None => exists v, cur st (F st) n = EV v /\ r = Some v
                 end) \/
    (exists i, upd st inj (F st) c = EV None /\ cur st (F st) c = EV (VRef i) /\
               upd st inj (F st) i = EV r).
Proof. exact switch_c_F_EV. Qed.
Print Assumptions C05_switch_c_top.

Theorem C05_switch_c_top_legal_switch : forall st inj h c n,
    Legal st inj -> alookup (defs st) h = Some (DSwitchC c) ->
    upd st inj (F st) c = EV (Some (VRef n)) ->
    upd st inj (F st) h =
    elet u <- upd st inj (F st) n;
    match u with Some v => EV (Some v) | None => elet v <- cur st (F st) n; EV (Some v) end.
Proof. exact switch_c_F_legal_switch. Qed.
Print Assumptions C05_switch_c_top_legal_switch.

Theorem C05_switch_c_top_legal_noswitch : forall st inj h c i,
    Legal st inj -> alookup (defs st) h = Some (DSwitchC c) ->
    upd st inj (F st) c = EV None -> cur st (F st) c = EV (VRef i) ->
    upd st inj (F st) h = upd st inj (F st) i.
Proof. exact switch_c_F_legal_noswitch. Qed.
Print Assumptions C05_switch_c_top_legal_noswitch.

(* ================================================================== switch_c: the value *)

(* the invariant: a resolved switch_c holds the value of the cell currently held by the outer cell *)
Theorem C05_SwitchInv_def : forall st,
    SwitchInv st <->
    (forall h c v, alookup (defs st) h = Some (DSwitchC c) -> alookup (cvals st) h = Some v ->
                   exists n, alookup (cvals st) c = Some (VRef n) /\ alookup (cvals st) n = Some v).
Proof. exact SwitchInv_unfold. Qed.
Print Assumptions C05_SwitchInv_def.

Theorem C05_inv_init : SwitchInv init_state.
Proof. exact SwitchInv_init. Qed.
Print Assumptions C05_inv_init.

Theorem C05_inv_close : forall st inj p r,
    close_txn st inj p = EV r -> SwitchInv st -> SwitchInv (r_state r).
Proof. exact SwitchInv_close. Qed.
Print Assumptions C05_inv_close.

(* the committed value (update if any, else current value) of a switch_c is the committed value of
   the cell referenced by the committed value of the outer cell *)
Theorem C05_switch_c_commit : forall st inj h c v,
    SwitchInv st -> alookup (defs st) h = Some (DSwitchC c) -> commit st inj h = Some v ->
    exists n, commit st inj c = Some (VRef n) /\ commit st inj n = Some v /\
              (exists u, upd st inj (F st) c = EV u) /\ (exists u, upd st inj (F st) n = EV u).
Proof. exact switch_c_commit. Qed.
Print Assumptions C05_switch_c_commit.

Theorem C05_switch_c_value : forall st h c v,
    SwitchInv st -> alookup (defs st) h = Some (DSwitchC c) -> alookup (cvals st) h = Some v ->
    exists n, cur st (F st) c = EV (VRef n) /\ cur st (F st) n = EV v /\ cur st (F st) h = EV v.
Proof. exact switch_c_value_resolved. Qed.
Print Assumptions C05_switch_c_value.

Theorem C05_switch_c_after_close : forall st inj p r h c v,
    close_txn st inj p = EV r -> SwitchInv st ->
    alookup (defs st) h = Some (DSwitchC c) -> alookup (cvals (r_state r)) h = Some v ->
    exists n, cur (r_state r) (F (r_state r)) c = EV (VRef n) /\
              cur (r_state r) (F (r_state r)) h = cur (r_state r) (F (r_state r)) n /\
              cur (r_state r) (F (r_state r)) h = EV v.
Proof. exact switch_c_after_close. Qed.
Print Assumptions C05_switch_c_after_close.

(* a switch_c created in the open transaction (not resolved yet) reads through the outer cell *)
Theorem C05_switch_c_fresh : forall st k h c n,
    alookup (cvals st) h = None -> alookup (defs st) h = Some (DSwitchC c) ->
    cur st (S k) c = EV (VRef n) ->
    cur st (S (S k)) h = cur st (S k) n.
Proof. exact switch_c_cur_step2. Qed.
Print Assumptions C05_switch_c_fresh.

Theorem C05_switch_c_cur_legal : forall st inj h c n,
    Legal st inj -> SwitchInv st -> alookup (defs st) h = Some (DSwitchC c) ->
    cur st (F st) c = EV (VRef n) ->
    cur st (F st) h = cur st (F st) n.
Proof. exact switch_c_cur_legal. Qed.
Print Assumptions C05_switch_c_cur_legal.

(* the transaction of a switch: the switch_c ends with the value of the NEW inner cell, an update
   that cell receives in the same transaction included *)
Theorem C05_switch_c_close_switch : forall st inj p r h c n,
    close_txn st inj p = EV r -> alookup (defs st) h = Some (DSwitchC c) ->
    upd st inj (F st) c = EV (Some (VRef n)) ->
    exists v, upd st inj (F st) h = EV (Some v) /\
              (upd st inj (F st) n = EV (Some v) \/
               (upd st inj (F st) n = EV None /\ cur st (F st) n = EV v)) /\
              alookup (cvals (r_state r)) c = Some (VRef n) /\
              alookup (cvals (r_state r)) n = Some v /\
              alookup (cvals (r_state r)) h = Some v.
Proof. exact switch_c_close_switch. Qed.
Print Assumptions C05_switch_c_close_switch.

Theorem C05_switch_c_close_noswitch : forall st inj p r h c i v,
    close_txn st inj p = EV r -> SwitchInv st -> alookup (defs st) h = Some (DSwitchC c) ->
    upd st inj (F st) c = EV None -> cur st (F st) c = EV (VRef i) ->
    alookup (cvals (r_state r)) h = Some v ->
    alookup (cvals (r_state r)) c = Some (VRef i) /\ alookup (cvals (r_state r)) i = Some v /\
    upd st inj (F st) h = upd st inj (F st) i.
Proof. exact switch_c_close_noswitch. Qed.
Print Assumptions C05_switch_c_close_noswitch.

(* afterwards the old inner cell is ignored *)
Theorem C05_switch_c_ignores_old : forall st inj p r h c n,
    close_txn st inj p = EV r -> alookup (defs st) h = Some (DSwitchC c) ->
    upd st inj (F st) c = EV (Some (VRef n)) ->
    forall inj' k, upd (r_state r) inj' k c = EV None ->
                   upd (r_state r) inj' (S k) h = upd (r_state r) inj' k n.
Proof. exact switch_c_next_ignores_old. Qed.
Print Assumptions C05_switch_c_ignores_old.

(* ================================================================== histories *)

(* [run st l sts]: the transactions l = (injected events, posts) run one after the other from st,
   sts = the state after each *)
Theorem C05_run_def : forall st l sts,
    run st l sts <->
    match l, sts with
    | [], [] => True
    | (inj, p) :: t, st1 :: sts' =>
      exists r, close_txn st inj p = EV r /\ st1 = r_state r /\ run st1 t sts'
    | _, _ => False
    end.
Proof. exact run_unfold. Qed.
Print Assumptions C05_run_def.

Theorem C05_inv_history : forall st l sts, run st l sts -> SwitchInv st -> Forall SwitchInv sts.
Proof. exact SwitchInv_run. Qed.
Print Assumptions C05_inv_history.

Theorem C05_switch_c_history : forall st l sts,
    run st l sts -> SwitchInv st ->
    Forall (fun st' => forall h c v,
                alookup (defs st) h = Some (DSwitchC c) -> alookup (cvals st') h = Some v ->
                exists n, cur st' (F st') c = EV (VRef n) /\ cur st' (F st') n = EV v /\
                          cur st' (F st') h = EV v) sts.
Proof. exact run_switch_c_value. Qed.
Print Assumptions C05_switch_c_history.

(* switching to the cell already held: the switch_c fires the inner cell's update, or else its
   unchanged value, and the committed values stay equal *)
Theorem C05_switch_c_same_cell : forall st inj p r h c n v,
    SwitchInv st -> alookup (defs st) h = Some (DSwitchC c) ->
    alookup (cvals st) h = Some v -> alookup (cvals st) c = Some (VRef n) ->
    close_txn st inj p = EV r -> upd st inj (F st) c = EV (Some (VRef n)) ->
    exists w, upd st inj (F st) h = EV (Some w) /\
              (upd st inj (F st) n = EV (Some w) \/ (upd st inj (F st) n = EV None /\ w = v)) /\
              alookup (cvals (r_state r)) c = Some (VRef n) /\
              alookup (cvals (r_state r)) n = Some w /\
              alookup (cvals (r_state r)) h = Some w.
Proof. exact switch_c_same_cell. Qed.
Print Assumptions C05_switch_c_same_cell.

Theorem C05_switch_c_back_and_forth : forall st inj1 p1 r1 inj2 p2 r2 h c a b,
    alookup (defs st) h = Some (DSwitchC c) ->
    close_txn st inj1 p1 = EV r1 -> upd st inj1 (F st) c = EV (Some (VRef b)) ->
    close_txn (r_state r1) inj2 p2 = EV r2 ->
    upd (r_state r1) inj2 (F (r_state r1)) c = EV (Some (VRef a)) ->
    (exists w, alookup (cvals (r_state r1)) h = Some w /\ alookup (cvals (r_state r1)) b = Some w /\
               alookup (cvals (r_state r1)) c = Some (VRef b)) /\
    (exists v, alookup (cvals (r_state r2)) h = Some v /\ alookup (cvals (r_state r2)) a = Some v /\
               alookup (cvals (r_state r2)) c = Some (VRef a)).
Proof. exact switch_c_back_and_forth. Qed.
Print Assumptions C05_switch_c_back_and_forth.

(* whole scripts (nested / scoped transactions and deferred transactions included) made of
   operations that do not create a switch_c and do not overwrite a resolved value; creating a
   switch_c on an unresolved slot keeps the invariant too *)
Theorem C05_inv_script : forall ops choices st st',
    Forall keeps_switch ops -> run_script choices st ops = EV st' -> SwitchInv st -> SwitchInv st'.
Proof. exact SwitchInv_script. Qed.
Print Assumptions C05_inv_script.

Theorem C05_inv_new_switch : forall st h c,
    alookup (cvals st) h = None -> SwitchInv st -> SwitchInv (with_defs st h (DSwitchC c)).
Proof. exact SwitchInv_new_switch. Qed.
Print Assumptions C05_inv_new_switch.

(* ================================================================== examples (non-vacuity) *)

(* sinks 0 1; cells 2 = hold 10 of 0, 3 = hold 20 of 1; sink 4 carries cell references, 5 = hold of
   4 starting with cell 2; 6 = switch_c 5; 7 = updates 6; sink 8 carries stream references, 9 = hold
   of 8 starting with stream 0; 10 = switch_s 9; listeners 20 on 10 and 21 on 7 *)
Example C05_example_state :
  ex_ops =
  [ODef 0 (DSink None); ODef 1 (DSink None);
   OHold 2 0 (VInt 10); OHold 3 1 (VInt 20);
   ODef 4 (DSink None); OHold 5 4 (VRef 2); ODef 6 (DSwitchC 5); ODef 7 (DUpdates 6);
   ODef 8 (DSink None); OHold 9 8 (VRef 0); ODef 10 (DSwitchS 9);
   OListen 20 10; OListen 21 7] /\
  run_ops init_state ex_ops = Some ex_st /\
  cvals ex_st = [(9, VRef 0); (6, VInt 10); (5, VRef 2); (3, VInt 20); (2, VInt 10)].
Proof. split; [reflexivity | split; [vm_compute; reflexivity | reflexivity]]. Qed.
Print Assumptions C05_example_state.

(* the hypotheses of the theorems above are satisfiable: the state is legal (rank functions
   exhibited) and satisfies the invariant *)
Example C05_example_legal_inv :
  SwitchInv ex_st /\
  LegalR ex_st ex_inj1 (fun _ => 0) ex_ranks /\
  Legal ex_st ex_inj1 /\ Legal ex_st ex_inj2 /\ Legal ex_st ex_inj3 /\ Legal ex_st ex_inj4.
Proof.
  split; [exact ex_SwitchInv|].
  split; [apply legalb_sound; vm_compute; reflexivity | exact ex_Legal].
Qed.
Print Assumptions C05_example_legal_inv.

(* T1 = sends [4 := ref 3; 1 := 21; 8 := ref 1; 0 := 11]: both outer cells switch while both sinks
   fire. switch_c (6) takes the NEW inner cell's update of the same transaction (21, not 11);
   switch_s (10) still emits the OLD stream's event (11, not 21) *)
Example C05_example_switch_txn :
  ex_inj1 = [(4, VRef 3); (1, VInt 21); (8, VRef 1); (0, VInt 11)] /\
  upd ex_st ex_inj1 (F ex_st) 5 = EV (Some (VRef 3)) /\
  upd ex_st ex_inj1 (F ex_st) 6 = EV (Some (VInt 21)) /\
  cur ex_st (F ex_st) 9 = EV (VRef 0) /\
  upd ex_st ex_inj1 (F ex_st) 9 = EV (Some (VRef 1)) /\
  occ ex_st ex_inj1 (F ex_st) 10 = EV (Some (VInt 11)) /\
  exists r, close_txn ex_st ex_inj1 [] = EV r /\
            r_obs r = [BCall 20 (VInt 11); BCall 21 (VInt 21)] /\
            cvals (r_state r) = [(9, VRef 1); (6, VInt 21); (5, VRef 3); (3, VInt 21); (2, VInt 11)].
Proof. split; [reflexivity | exact ex_T1]. Qed.
Print Assumptions C05_example_switch_txn.

(* T1; T2 = [0 := 12; 1 := 22] (no switch); T3 = [4 := ref 2; 8 := ref 0] (switch back, nothing
   else fires); T4 = [4 := ref 2; 8 := ref 0; 0 := 13] (switch to the cell / stream already held).
   Values of switch_c 6, outer cell 5, inner cells 2 and 3 after each transaction, and the calls of
   the listeners 20 (on switch_s 10) and 21 (on the updates of switch_c 6) *)
Example C05_example_history :
  ex_txns = [([(4, VRef 3); (1, VInt 21); (8, VRef 1); (0, VInt 11)], []);
             ([(0, VInt 12); (1, VInt 22)], []);
             ([(4, VRef 2); (8, VRef 0)], []);
             ([(4, VRef 2); (8, VRef 0); (0, VInt 13)], [])] /\
  run ex_st ex_txns ex_states /\
  Forall SwitchInv ex_states /\
  map (fun st => map (alookup (cvals st)) [6; 5; 2; 3]) ex_states =
  [[Some (VInt 21); Some (VRef 3); Some (VInt 11); Some (VInt 21)];
   [Some (VInt 22); Some (VRef 3); Some (VInt 12); Some (VInt 22)];
   [Some (VInt 12); Some (VRef 2); Some (VInt 12); Some (VInt 22)];
   [Some (VInt 13); Some (VRef 2); Some (VInt 13); Some (VInt 22)]] /\
  map (fun sti => match close_txn (fst sti) (snd sti) [] with EV r => r_obs r | EErr _ => [] end)
      (combine (ex_st :: ex_states) [ex_inj1; ex_inj2; ex_inj3; ex_inj4]) =
  [[BCall 20 (VInt 11); BCall 21 (VInt 21)];
   [BCall 20 (VInt 22); BCall 21 (VInt 22)];
   [BCall 21 (VInt 12)];
   [BCall 20 (VInt 13); BCall 21 (VInt 13)]].
Proof.
  split; [reflexivity|]. split; [exact (proj1 ex_history)|].
  split; [exact ex_history_inv | exact (proj2 ex_history)].
Qed.
Print Assumptions C05_example_history.
