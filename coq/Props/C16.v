(* Property C16: every cycle collection terminates and its work is linear in nodes+edges, for every
   graph shape. Statements only; proofs are in Proofs/GcCost*.v. The model Model/Gc.v is tied to
   /repo/src/impl_/gc_node.rs by the correspondence check (hidden state and trace counters equal). *)
From Coq Require Import List Arith.
Import ListNotations.
From Sodium Require Import Gc GcCost_Base GcCost.

(* every recursive walk of the collector returns with the fuel the model gives it, on EVERY state *)
Theorem C16_walks : forall st s,
    mark_gray (wfuel st) st s <> OutOfFuel /\
    scan_black (wfuel st) st s <> OutOfFuel /\
    scan (wfuel st) st s <> OutOfFuel /\
    reset1 (wfuel st) st s <> OutOfFuel /\
    reset2 (wfuel st) st s <> OutOfFuel /\
    (forall w, collect_white (wfuel st) (st, w) s <> OutOfFuel) /\
    (forall stack k, length stack <= k -> display_graph (dfuel st k) st stack [] <> OutOfFuel).
Proof. exact C16_walks_terminate. Qed.
Print Assumptions C16_walks.

(* the fix-point loop of collect_cycles terminates on EVERY state (any graph, any root buffer) *)
Theorem C16_terminates : forall st, collect_cycles (cfuel st) st <> OutOfFuel.
Proof. exact C16_collect_terminates. Qed.
Print Assumptions C16_terminates.

(* the loop body runs at most once more than the number of objects this collection frees *)
Theorem C16_iteration_bound : forall fuel st st' k,
    collect_cycles_n fuel st = Ok (st', k) ->
    collect_cycles fuel st = Ok st' /\ 1 <= k /\ k <= 1 + (nfreed st' - nfreed st).
Proof. exact C16_iterations. Qed.
Print Assumptions C16_iteration_bound.

(* one iteration traces each object at most 9 times and each edge at most 9 times: linear in V and E,
   independent of the number of paths *)
Theorem C16_linear : forall st st1 st2 st3,
    GcCost_Base.wf st ->
    mark_roots st = Ok st1 -> scan_roots st1 = Ok st2 -> collect_roots st2 = Ok st3 ->
    trace_calls st3 <= trace_calls st + 9 * nobjs st /\
    trace_edges st3 <= trace_edges st + 9 * nedges st.
Proof. exact C16_linear_phase. Qed.
Print Assumptions C16_linear.

Theorem C16_collection_cost : forall fuel st st',
    GcCost_Base.wf st -> collect_cycles fuel st = Ok st' ->
    trace_calls st' <= trace_calls st + 9 * (1 + (nfreed st' - nfreed st)) * nobjs st /\
    trace_edges st' <= trace_edges st + 9 * (1 + (nfreed st' - nfreed st)) * nedges st.
Proof. exact C16_linear_collection. Qed.
Print Assumptions C16_collection_cost.

(* the hypothesis wf (edges and roots in range) holds in every state reachable by script operations *)
Theorem C16_wf_reachable :
  GcCost_Base.wf empty_state /\
  (forall s op s', sstep s op = Ok s' -> GcCost_Base.wf (g s) -> GcCost_Base.wf (g s')).
Proof. split; [exact (proj1 C16_wf_invariant) | exact (proj1 (proj2 (proj2 C16_wf_invariant)))]. Qed.
Print Assumptions C16_wf_reachable.

(* non-vacuity: a concrete 3-object cyclic graph with a chord and a self-loop meets the hypotheses *)
Example C16_nonvacuous : GcCost_Base.wf ex_st.
Proof. exact ex_wf. Qed.
Print Assumptions C16_nonvacuous.
