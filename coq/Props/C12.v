(* Property C12: deferred work (user posts, defer / split re-emissions). Statements only; proofs in
   Proofs/SpecA12.v (and SpecABase, SpecA14, SpecA15). A trace entry is (state in which the item ran, item,
   observations it produced); [committed_from s0 s] says [s] is [s0] or the committed state of a later
   deferred transaction; [produced e] is the deferred work the entry's own transaction enqueued. *)
From Coq Require Import List Arith ZArith Permutation.
Import ListNotations.
From Sodium Require Import Sodium SpecABase SpecA14 SpecA12 SpecA15.

(* (a) the end of the outermost transaction commits first, and runs the deferred work from the committed state *)
Theorem C12_commit_then_deferred : forall ch st,
    end_outer ch st =
    (elet r <- close_txn st (sends st) (posts st);
     run_deferred 200 ch (r_state r) (r_deferred r) (r_obs r)).
Proof. exact end_outer_unfold. Qed.
Print Assumptions C12_commit_then_deferred.

(* the committed state has the updated cell values: the update of the transaction if there is one *)
Theorem C12_committed_values : forall st inj ps r c d,
    close_txn st inj ps = EV r -> alookup (defs st) c = Some d -> is_cell d = true ->
    alookup (cvals (r_state r)) c =
    match upd st inj (F st) c with
    | EV (Some v) => Some v
    | _ => match cur st (F st) c with EV v => Some v | EErr _ => None end
    end.
Proof. exact close_cvals. Qed.
Print Assumptions C12_committed_values.

(* (a)-(c) in one statement, for every choice list *)
Theorem C12_deferred_work : forall ch st st' os a,
    end_outer ch st = EV (st', os, a) ->
    exists r tr enq,
      close_txn st (sends st) (posts st) = EV r /\
      os = r_obs r ++ trace_obs tr /\
      Forall (fun e => committed_from (r_state r) (e_state e)) tr /\
      committed_from (r_state r) st' /\
      (forall e, In e tr ->
         match e_item e with
         | DEvent h v => exists r', close_txn (e_state e) [(h, v)] [] = EV r' /\ e_obs e = r_obs r'
         | DPost k cs => exists vs, emap (cur (e_state e) (F (e_state e))) cs = EV vs /\ e_obs e = [BPost k vs]
         end) /\
      (exists ps, emap produced tr = EV ps /\ enq = concat ps) /\
      Permutation (items tr) (r_deferred r ++ enq) /\
      (forall s, from_source s (items tr) = from_source s (r_deferred r ++ enq)).
Proof. exact end_outer_deferred. Qed.
Print Assumptions C12_deferred_work.

(* (a) a post closure reads the post-commit state, and its BPost is among the step's observations *)
Theorem C12_post_reads_committed_state : forall ch st st' os a k cs,
    end_outer ch st = EV (st', os, a) -> In (k, cs) (posts st) ->
    exists r s vs, close_txn st (sends st) (posts st) = EV r /\ committed_from (r_state r) s /\
                   emap (cur s (F s)) cs = EV vs /\ In (BPost k vs) os.
Proof. exact post_runs_at_close. Qed.
Print Assumptions C12_post_reads_committed_state.

(* (b) each deferred event runs in a transaction of its own whose only injected event is that one *)
Theorem C12_deferred_event_own_transaction : forall ch st st' os a,
    end_outer ch st = EV (st', os, a) ->
    exists r tr, close_txn st (sends st) (posts st) = EV r /\ os = r_obs r ++ trace_obs tr /\
      forall e h v, In e tr -> e_item e = DEvent h v ->
        exists r', close_txn (e_state e) [(h, v)] [] = EV r' /\ e_obs e = r_obs r' /\
                   committed_from (r_state r) (e_state e).
Proof. exact deferred_event_own_txn. Qed.
Print Assumptions C12_deferred_event_own_transaction.

(* (b)(c) for every fuel, choice list, start state and queue: if the run ends, the executed items are a
   permutation of the queued items plus those the deferred transactions enqueued (each runs exactly once),
   and for every source the execution order is the enqueue order *)
Theorem C12_queue_consumed_in_source_order : forall f ch st q acc st' os a,
    run_deferred f ch st q acc = EV (st', os, a) ->
    exists tr enq,
      os = acc ++ trace_obs tr /\ length a = length tr /\
      (exists ps, emap produced tr = EV ps /\ enq = concat ps) /\
      Permutation (items tr) (q ++ enq) /\
      (forall s, from_source s (items tr) = from_source s (q ++ enq)) /\
      Forall (fun e => committed_from st (e_state e)) tr /\ committed_from st st' /\
      (forall e, In e tr ->
         match e_item e with
         | DEvent h v => exists r', close_txn (e_state e) [(h, v)] [] = EV r' /\ e_obs e = r_obs r'
         | DPost k cs => exists vs, emap (cur (e_state e) (F (e_state e))) cs = EV vs /\ e_obs e = [BPost k vs]
         end).
Proof. exact run_deferred_complete. Qed.
Print Assumptions C12_queue_consumed_in_source_order.

(* (d) a post queued outside any transaction runs in the same step *)
Theorem C12_post_outside_transaction_is_immediate : forall ch st st' os a k cs,
    depth st = 0 -> step ch st (OPostK k cs) = EV (st', os, a) -> exists vs, In (BPost k vs) os.
Proof. exact postk_same_step. Qed.
Print Assumptions C12_post_outside_transaction_is_immediate.

(* non-vacuity: a hold over a sink, a deferred copy of the sink feeding a second hold, two posts: the posts
   see the committed value of the first cell; the deferred event runs in its own transaction, before or
   between the posts depending on the choice list *)
Example C12_nonvacuous :
  exists st' os,
    run (fun _ => [0]) 0 init_state
        [ODef 0 (DSink None); OHold 1 0 (VInt 0); ODef 2 (DDefer 0); OHold 3 2 (VInt 0); OListen 8 2;
         OBegin; OSend 0 (VInt 4); OPostK 5 [1; 3]; OPostK 6 [1]; OEnd; OSample 3] = EV (st', os) /\
    os = [BCall 8 (VInt 4); BPost 5 [VInt 4; VInt 4]; BPost 6 [VInt 4]; BSample 3 (VInt 4)] /\
  exists st'' os2,
    run (fun _ => [1]) 0 init_state
        [ODef 0 (DSink None); OHold 1 0 (VInt 0); ODef 2 (DDefer 0); OHold 3 2 (VInt 0); OListen 8 2;
         OBegin; OSend 0 (VInt 4); OPostK 5 [1; 3]; OPostK 6 [1]; OEnd; OSample 3] = EV (st'', os2) /\
    os2 = [BPost 5 [VInt 4; VInt 0]; BCall 8 (VInt 4); BPost 6 [VInt 4]; BSample 3 (VInt 4)].
Proof.
  eexists; eexists; split; [vm_compute; reflexivity|]. split; [reflexivity|].
  eexists; eexists; split; [vm_compute; reflexivity | reflexivity].
Qed.
Print Assumptions C12_nonvacuous.
