(* Property C03: glitch freedom. Statements only; proofs in Proofs/Engine*.v. The model
   Model/Engine.v is tied to update_node / end_of_transaction in /repo/src/impl_/sodium_ctx.rs by
   the correspondence check (update log, order included, and all final firings equal). *)
From Coq Require Import List Arith Permutation.
Import ListNotations.
From Sodium Require Import Engine EngineScript EngineSafe EngineFuel EngineLog EngineTop.

(* For EVERY well-formed raw graph whose potential graph (static dependencies and potential demand
   targets) is acyclic (any number of nodes, any shape, any registration order of dependents, any number of
   nodes that demand other nodes from inside their update) and every list of distinct fired sources (any
   queue order): the transaction ends, every node's final firing is the denotation computed from all its
   settled inputs (the static dependencies and the nodes demanded in this transaction, `sdemanded`), every
   node with a changed input is updated exactly once and after all of its inputs, no other node is updated,
   and the graph is back at rest. *)
Theorem C03_glitch_free : forall gr fs,
    EngineTop.wf gr -> ranked gr -> sources gr fs ->
    exists lg, estep false gr (ETxn fs) = (gr, Some (lg, map (den gr fs) (seq 0 (length gr)))) /\
               NoDup lg /\
               (forall n, In n lg <-> (n < length gr /\ deps (get gr n) <> [] /\
                                       exists d, In d (deps (get gr n) ++ sdemanded gr fs n) /\ den gr fs d <> None)) /\
               (forall l1 n l2, lg = l1 ++ n :: l2 ->
                                forall d, In d (deps (get gr n) ++ sdemanded gr fs n) -> ~ In d l2).
Proof. exact C03_txn. Qed.

(* a node that demands nothing (ENode): the statement as it was before demands were modelled *)
Corollary C03_glitch_free_no_demands : forall gr fs,
    EngineTop.wf gr -> ranked gr -> sources gr fs -> (forall n, dem (get gr n) = []) ->
    exists lg, estep false gr (ETxn fs) = (gr, Some (lg, map (den gr fs) (seq 0 (length gr)))) /\
               NoDup lg /\
               (forall n, In n lg <-> (n < length gr /\ deps (get gr n) <> [] /\
                                       exists d, In d (deps (get gr n)) /\ den gr fs d <> None)) /\
               (forall l1 n l2, lg = l1 ++ n :: l2 -> forall d, In d (deps (get gr n)) -> ~ In d l2).
Proof.
  intros gr fs W R S ND. destruct (C03_txn gr fs W R S) as (lg & E & N & Iff & St).
  assert (Z : forall n, sdemanded gr fs n = []).
  { intros n. unfold sdemanded, sDm. rewrite ND. destruct (is_some _); reflexivity. }
  exists lg. split; [exact E|]. split; [exact N|]. split.
  - intros n. rewrite Iff, Z, app_nil_r. reflexivity.
  - intros l1 n l2 El d Hd. apply (St l1 n l2 El d). rewrite Z, app_nil_r. exact Hd.
Qed.
Print Assumptions C03_glitch_free_no_demands.
Print Assumptions C03_glitch_free.

(* the result does not depend on the order of sends nor on the order in which dependents registered *)
Theorem C03_order_free : forall gr fs gr2 fs2,
    EngineTop.wf gr -> ranked gr -> sources gr fs ->
    EngineTop.wf gr2 -> map deps gr2 = map deps gr -> map dem gr2 = map dem gr -> Permutation fs fs2 ->
    exists lg lg2 fires,
      estep false gr (ETxn fs) = (gr, Some (lg, fires)) /\
      estep false gr2 (ETxn fs2) = (gr2, Some (lg2, fires)) /\
      Permutation lg lg2.
Proof. exact C03_order_independent. Qed.
Print Assumptions C03_order_free.

(* the propagation never runs out of the fuel the model gives it (termination), for every rule *)
Theorem C03_terminates : forall (Val : Type) (F : rule Val) (Dm : demand Val) orig s,
    drain F Dm orig (S (S (length (g s)))) (S (S (length (g s) + length (g s)))) s <> None.
Proof. intros Val. exact (@drain_fuel_estep Val). Qed.
Print Assumptions C03_terminates.

(* graphs built by script operations (ENode, ENodeD, EAddDep) are well formed; new nodes keep the graph acyclic *)
Theorem C03_build_wf : forall orig gr op,
    is_build op = true -> EngineTop.wf gr -> EngineTop.wf (fst (estep orig gr op)).
Proof. exact wf_estep_build. Qed.
Print Assumptions C03_build_wf.

(* the algorithm as originally found (before the repair recorded in known_findings.txt) is refuted:
   node 5 is updated before its dependency 4 and ends with a value computed from a partial input *)
Theorem C03_original_algorithm_refuted :
  exists gr fs, EngineTop.wf gr /\ ranked gr /\ sources gr fs /\
    exists gr' lg fires, estep true gr (ETxn fs) = (gr', Some (lg, fires)) /\
      nth 5 fires None = Some 14 /\ den gr fs 5 = Some 41 /\
      fires <> map (den gr fs) (seq 0 (length gr)) /\
      lg = [2; 5; 3; 4] /\ In 4 (deps (get gr 5)).
Proof. exact C03_original_refuted. Qed.
Print Assumptions C03_original_algorithm_refuted.

(* non-vacuity: a 6-node graph built by script operations satisfies every hypothesis *)
Example C03_nonvacuous : EngineTop.wf Gex /\ ranked Gex /\ sources Gex ex_fs.
Proof. split; [exact Gex_wf | split; [exact Gex_ranked | exact Gex_sources]]. Qed.
Print Assumptions C03_nonvacuous.

(* ... and so does a 6-node graph with two demanding nodes (ENodeD), in which the demand matters: node 2
   is updated because node 3 demands it from inside its own update, before node 3's update reads it *)
Example C03_nonvacuous_demands :
  EngineTop.wf GexD /\ ranked GexD /\ sources GexD exD_fs /\
  map dem GexD = [[]; []; []; [2]; []; [4]] /\
  map (sdemanded GexD exD_fs) (seq 0 6) = [[]; []; []; [2]; []; [4]] /\
  snd (estep false GexD (ETxn exD_fs)) = Some ([2; 3; 4; 5], [Some 5; Some 7; Some 10; Some 32; Some 37; Some 67]).
Proof.
  split; [exact GexD_wf | split; [exact GexD_ranked | split; [exact GexD_sources|]]]. vm_compute. auto.
Qed.
Print Assumptions C03_nonvacuous_demands.
