(* Property C03: glitch freedom. Statements only; proofs in Proofs/Engine*.v. The model
   Model/Engine.v is tied to update_node / end_of_transaction in /repo/src/impl_/sodium_ctx.rs by
   the correspondence check (update log, order included, and all final firings equal). *)
From Coq Require Import List Arith Permutation.
Import ListNotations.
From Sodium Require Import Engine EngineScript EngineSafe EngineFuel EngineLog EngineTop.

(* For EVERY well-formed acyclic raw graph (any number of nodes, any shape, any registration order of
   dependents) and every list of distinct fired sources (any queue order): the transaction ends, every
   node's final firing is the denotation computed from all its settled inputs, every node with a changed
   input is updated exactly once and after all of its inputs, no other node is updated, and the graph
   is back at rest. *)
Theorem C03_glitch_free : forall gr fs,
    EngineTop.wf gr -> ranked gr -> sources gr fs ->
    exists lg, estep false gr (ETxn fs) = (gr, Some (lg, map (den gr fs) (seq 0 (length gr)))) /\
               NoDup lg /\
               (forall n, In n lg <-> (n < length gr /\ deps (get gr n) <> [] /\
                                       exists d, In d (deps (get gr n)) /\ den gr fs d <> None)) /\
               (forall l1 n l2, lg = l1 ++ n :: l2 -> forall d, In d (deps (get gr n)) -> ~ In d l2).
Proof. exact C03_txn. Qed.
Print Assumptions C03_glitch_free.

(* the result does not depend on the order of sends nor on the order in which dependents registered *)
Theorem C03_order_free : forall gr fs gr2 fs2,
    EngineTop.wf gr -> ranked gr -> sources gr fs ->
    EngineTop.wf gr2 -> map deps gr2 = map deps gr -> Permutation fs fs2 ->
    exists lg lg2 fires,
      estep false gr (ETxn fs) = (gr, Some (lg, fires)) /\
      estep false gr2 (ETxn fs2) = (gr2, Some (lg2, fires)) /\
      Permutation lg lg2.
Proof. exact C03_order_independent. Qed.
Print Assumptions C03_order_free.

(* the propagation never runs out of the fuel the model gives it (termination), for every rule *)
Theorem C03_terminates : forall (Val : Type) (F : rule Val) orig s,
    drain F orig (S (S (length (g s)))) (S (S (length (g s) + length (g s)))) s <> None.
Proof. intros Val. exact (@drain_fuel_estep Val). Qed.
Print Assumptions C03_terminates.

(* graphs built by script operations are well formed; new nodes keep the graph acyclic *)
Theorem C03_build_wf : forall orig gr op,
    is_build op = true -> EngineTop.wf gr -> EngineTop.wf (fst (estep orig gr op)).
Proof. exact wf_estep_build. Qed.
Print Assumptions C03_build_wf.

(* the algorithm as originally found (before the repair recorded in known_findings.txt) is refuted:
   node 5 is updated before its dependency 4 and ends with a value computed from a partial input *)
Theorem C03_original_algorithm_refuted :
  exists gr fs, EngineTop.wf gr /\ ranked gr /\ sources gr fs /\
    exists gr' lg fires, estep true gr (ETxn fs) = (gr', Some (lg, fires)) /\
      nth 5 fires None = Some 14 /\ den gr fs 5 = Some 41 /\
      fires <> map (den gr fs) (seq 0 (length gr)) /\
      lg = [2; 5; 3; 4] /\ In 4 (deps (get gr 5)).
Proof. exact C03_original_refuted. Qed.
Print Assumptions C03_original_algorithm_refuted.

(* non-vacuity: a 6-node graph built by script operations satisfies every hypothesis *)
Example C03_nonvacuous : EngineTop.wf Gex /\ ranked Gex /\ sources Gex ex_fs.
Proof. split; [exact Gex_wf | split; [exact Gex_ranked | exact Gex_sources]]. Qed.
Print Assumptions C03_nonvacuous.
