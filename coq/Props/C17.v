(* Property C17: lazies.  "A Lazy runs its computation at most once, on first demand, and
   thereafter every run (through any clone) returns the same value.  A Lazy obtained from
   sample_lazy on a cell (also via hold_lazy and the *_lazy folds) denotes that cell's value as of
   the transaction in which it was taken, even if it is forced only after the cell has changed."
   Statements only; proofs in Proofs/SpecBC17a.v (operational model of /repo/src/impl_/lazy.rs:
   heap of Thunk | Value cells shared by clones, thunks that read a changing environment) and
   Proofs/SpecBC17b.v (the denotational specification Spec/Sodium.v: OSampleLazy, OLazyNew, OForce,
   OCloneLazy, OHoldLazy and the lazies of close_txn). *)
From Coq Require Import List ZArith Bool Arith.
Import ListNotations.
From Sodium Require Import Sodium SpecBBase SpecBClose SpecBStep SpecBC17a SpecBC17b.
Local Open Scope nat_scope.

(* ================================================================= A. Lazy::run (lazy.rs) *)

(* for ANY interleaving of new / of_value / clone / run / environment change: every heap cell's
   thunk is evaluated at most once *)
Theorem C17_thunk_at_most_once :
  forall (code env V : Type) (eval : code -> env -> V * env) (e : env) (ops : list (lop code env V)),
    NoDup (map fst (evals (exec eval (minit e) ops))).
Proof. exact lazy_eval_at_most_once. Qed.
Print Assumptions C17_thunk_at_most_once.

Theorem C17_thunk_count_le_1 :
  forall (code env V : Type) (eval : code -> env -> V * env) (e : env) (ops : list (lop code env V)) (l : nat),
    count_occ Nat.eq_dec (map fst (evals (exec eval (minit e) ops))) l <= 1.
Proof. exact lazy_eval_count_le_1. Qed.
Print Assumptions C17_thunk_count_le_1.

(* nothing but a run evaluates a thunk (laziness), and the first run of a Thunk cell evaluates it in
   the environment of that moment and stores the result *)
Theorem C17_no_eval_unless_run :
  forall (code env V : Type) (eval : code -> env -> V * env) (s : mstate code env V) (o : lop code env V),
    (forall h, o <> LRun h) -> evals (fst (lstep eval s o)) = evals s.
Proof. exact no_eval_unless_run. Qed.
Print Assumptions C17_no_eval_unless_run.

Theorem C17_first_demand :
  forall (code env V : Type) (eval : code -> env -> V * env) (s : mstate code env V) (h l : nat) (k : code),
    nth_error (handles s) h = Some l -> nth_error (heap s) l = Some (Thunk k) ->
    lstep eval s (LRun h) =
    (mkM (set_nth (heap s) l (Value (fst (eval k (menv s))))) (handles s) (snd (eval k (menv s)))
         ((l, fst (eval k (menv s))) :: evals s) (ofvals s) ((h, l, fst (eval k (menv s))) :: outs s),
     Some (fst (eval k (menv s)))).
Proof. exact run_of_thunk_cell. Qed.
Print Assumptions C17_first_demand.

(* all runs of handles of one heap cell return the same value ... *)
Theorem C17_runs_agree :
  forall (code env V : Type) (eval : code -> env -> V * env) (e : env) (ops : list (lop code env V))
         (h1 h2 l : nat) (v1 v2 : V),
    In (h1, l, v1) (outs (exec eval (minit e) ops)) -> In (h2, l, v2) (outs (exec eval (minit e) ops)) -> v1 = v2.
Proof. exact lazy_runs_agree. Qed.
Print Assumptions C17_runs_agree.

(* ... the one logged by the cell's only thunk evaluation, or the one given to of_value *)
Theorem C17_run_source :
  forall (code env V : Type) (eval : code -> env -> V * env) (e : env) (ops : list (lop code env V))
         (h l : nat) (v : V),
    In (h, l, v) (outs (exec eval (minit e) ops)) ->
    (In (l, v) (evals (exec eval (minit e) ops)) /\ ~ In l (map fst (ofvals (exec eval (minit e) ops)))) \/
    (In (l, v) (ofvals (exec eval (minit e) ops)) /\ ~ In l (map fst (evals (exec eval (minit e) ops)))).
Proof. exact lazy_run_source. Qed.
Print Assumptions C17_run_source.

(* from ANY machine state: once a run returned v, every later run of every handle of the same cell
   returns v and evaluates nothing, whatever happened in between (environment changes included) *)
Theorem C17_run_stable :
  forall (code env V : Type) (eval : code -> env -> V * env) (s : mstate code env V) (h l : nat) (v : V)
         (s1 : mstate code env V) (ops : list (lop code env V)) (h' : nat),
    nth_error (handles s) h = Some l -> lstep eval s (LRun h) = (s1, Some v) ->
    nth_error (handles (exec eval s1 ops)) h' = Some l ->
    snd (lstep eval (exec eval s1 ops) (LRun h')) = Some v /\
    evals (fst (lstep eval (exec eval s1 ops) (LRun h'))) = evals (exec eval s1 ops).
Proof. exact lazy_run_stable. Qed.
Print Assumptions C17_run_stable.

(* run, anything, clone, anything, run the clone and the original: same value *)
Theorem C17_clone_run_same :
  forall (code env V : Type) (eval : code -> env -> V * env) (s : mstate code env V) (h l : nat) (v : V)
         (s1 : mstate code env V) (ops1 ops2 : list (lop code env V)),
    nth_error (handles s) h = Some l -> lstep eval s (LRun h) = (s1, Some v) ->
    let s2 := exec eval s1 ops1 in
    let c := length (handles s2) in
    let s3 := exec eval (fst (lstep eval s2 (LClone h))) ops2 in
    snd (lstep eval s3 (LRun c)) = Some v /\ snd (lstep eval s3 (LRun h)) = Some v.
Proof. exact lazy_clone_run_same. Qed.
Print Assumptions C17_clone_run_same.

(* ================================================================= B. the specification *)

(* B1. the take; a force in the same transaction; operations that leave every cell's reading alone *)
Theorem C17_take :
  forall st z c st' ob,
    body st (OSampleLazy z c) = EV (st', ob) ->
    alookup (lazies st') z = Some (LzCell c, z) /\ ob = [] /\ F st' = F st /\
    (forall z', z' <> z -> alookup (lazies st') z' = alookup (lazies st) z').
Proof. exact sample_lazy_entry. Qed.
Print Assumptions C17_take.

Theorem C17_force_in_same_txn :
  forall st z c st' ob v,
    body st (OSampleLazy z c) = EV (st', ob) ->
    (body st' (OForce z) = EV (st', [BForced z v]) <-> cur st' (F st') c = EV v).
Proof. exact sample_lazy_force_now. Qed.
Print Assumptions C17_force_in_same_txn.

Theorem C17_neutral_ops :
  forall st o st' ob,
    cur_neutral st o -> body st o = EV (st', ob) ->
    F st' = F st /\ linit st' = linit st /\ forall n c, cur st' n c = cur st n c.
Proof. exact body_neutral_cur. Qed.
Print Assumptions C17_neutral_ops.

Theorem C17_force_anywhere_in_txn :
  forall z st ops st' v,
    in_txn (fun s o => cur_neutral s o /\ no_rebind z o) st ops st' ->
    (body st (OForce z) = EV (st, [BForced z v]) <-> body st' (OForce z) = EV (st', [BForced z v])).
Proof. exact force_anywhere_in_txn_obs. Qed.
Print Assumptions C17_force_anywhere_in_txn.

(* B2. the close of T resolves a pending lazy to the cell's value of T; resolved lazies are kept *)
Theorem C17_close_resolves :
  forall st inj p r z c i,
    close_txn st inj p = EV r -> alookup (lazies st) z = Some (LzCell c, i) ->
    exists v, cur st (F st) c = EV v /\ alookup (lazies (r_state r)) z = Some (LzVal v, i).
Proof. exact close_lazy_resolves. Qed.
Print Assumptions C17_close_resolves.

Theorem C17_close_keeps :
  forall st inj p r z v i,
    close_txn st inj p = EV r -> alookup (lazies st) z = Some (LzVal v, i) ->
    alookup (lazies (r_state r)) z = Some (LzVal v, i).
Proof. exact close_lazy_val_kept. Qed.
Print Assumptions C17_close_keeps.

Theorem C17_end_txn_resolves :
  forall choice st z c i r,
    depth st = 1 -> alookup (lazies st) z = Some (LzCell c, i) -> step choice st OEnd = EV r ->
    exists v, cur st (F st) c = EV v /\ alookup (lazies (fst (fst r))) z = Some (LzVal v, i).
Proof. exact end_txn_resolves. Qed.
Print Assumptions C17_end_txn_resolves.

Theorem C17_take_own_txn :
  forall choice st z c r,
    depth st = 0 -> unreferenced st z -> step choice st (OSampleLazy z c) = EV r ->
    exists v, cur st (F st) c = EV v /\ alookup (lazies (fst (fst r))) z = Some (LzVal v, z).
Proof. exact take_own_txn_resolves. Qed.
Print Assumptions C17_take_own_txn.

(* B3. a resolved lazy is never modified: one step, a whole script (deferred transactions included) *)
Theorem C17_resolved_stable_step :
  forall z v i choice st o r,
    no_rebind z o -> step choice st o = EV r ->
    alookup (lazies st) z = Some (LzVal v, i) -> alookup (lazies (fst (fst r))) z = Some (LzVal v, i).
Proof. exact step_lzval_stable. Qed.
Print Assumptions C17_resolved_stable_step.

Theorem C17_resolved_stable_script :
  forall z v i ops choices st st',
    Forall (no_rebind z) ops -> run_script choices st ops = EV st' ->
    alookup (lazies st) z = Some (LzVal v, i) -> alookup (lazies st') z = Some (LzVal v, i).
Proof. exact script_lzval_stable. Qed.
Print Assumptions C17_resolved_stable_script.

(* B4. HEADLINE.  A resolved lazy returns its value forever *)
Theorem C17_forced_later :
  forall z v i ops choices st st2,
    alookup (lazies st) z = Some (LzVal v, i) ->
    Forall (no_rebind z) ops -> run_script choices st ops = EV st2 ->
    body st2 (OForce z) = EV (st2, [BForced z v]).
Proof. exact lazy_forced_later. Qed.
Print Assumptions C17_forced_later.

(* the whole life of a sample_lazy: taken in T, rest of T, close of T (state st1), any later
   script: the force returns the cell's value as of T = cur of the state at the close of T *)
Theorem C17_sample_lazy_denotes_txn :
  forall z c st0 sta oba ops1 st1 inj p r ops2 choices st2,
    body st0 (OSampleLazy z c) = EV (sta, oba) ->
    in_txn (fun _ o => no_rebind z o) sta ops1 st1 ->
    close_txn st1 inj p = EV r ->
    Forall (no_rebind z) ops2 -> run_script choices (r_state r) ops2 = EV st2 ->
    exists v, cur st1 (F st1) c = EV v /\
              alookup (lazies (r_state r)) z = Some (LzVal v, z) /\
              body st2 (OForce z) = EV (st2, [BForced z v]).
Proof. exact sample_lazy_denotes_txn. Qed.
Print Assumptions C17_sample_lazy_denotes_txn.

(* ... and this is the value the cell read at the moment of the take, when the rest of T only
   creates objects under fresh keys, closes loops, or does passive things *)
Theorem C17_sample_lazy_denotes_take :
  forall z c v st0 sta oba ops1 st1 inj p r ops2 choices st2,
    cur st0 (F st0) c = EV v ->
    fresh_op st0 (OSampleLazy z c) ->
    body st0 (OSampleLazy z c) = EV (sta, oba) ->
    in_txn (fun s o => fresh_op s o /\ no_rebind z o) sta ops1 st1 ->
    close_txn st1 inj p = EV r ->
    Forall (no_rebind z) ops2 -> run_script choices (r_state r) ops2 = EV st2 ->
    cur st1 (F st1) c = EV v /\
    alookup (lazies (r_state r)) z = Some (LzVal v, z) /\
    body st2 (OForce z) = EV (st2, [BForced z v]).
Proof. exact sample_lazy_denotes_take. Qed.
Print Assumptions C17_sample_lazy_denotes_take.

Theorem C17_force_in_txn_is_take_value :
  forall z c v st0 sta oba ops1 st1,
    cur st0 (F st0) c = EV v ->
    fresh_op st0 (OSampleLazy z c) ->
    body st0 (OSampleLazy z c) = EV (sta, oba) ->
    in_txn (fun s o => fresh_op s o /\ no_rebind z o) sta ops1 st1 ->
    body st1 (OForce z) = EV (st1, [BForced z v]).
Proof. exact sample_lazy_force_in_txn. Qed.
Print Assumptions C17_force_in_txn_is_take_value.

(* the one fact behind it: a successful read survives every extension of the state *)
Theorem C17_cur_ext_mono :
  forall st st', ext st st' -> forall n c v, cur st n c = EV v -> cur st' n c = EV v.
Proof. exact cur_ext_mono. Qed.
Print Assumptions C17_cur_ext_mono.

Theorem C17_body_ext :
  forall st o st' ob, fresh_op st o -> body st o = EV (st', ob) -> ext st st'.
Proof. exact body_ext. Qed.
Print Assumptions C17_body_ext.

(* clones *)
Theorem C17_clone_resolved_same :
  forall st z z' st' ob v i,
    alookup (lazies st) z = Some (LzVal v, i) -> body st (OCloneLazy z z') = EV (st', ob) ->
    alookup (lazies st') z' = Some (LzVal v, i) /\ body st' (OForce z') = EV (st', [BForced z' v]).
Proof. exact clone_resolved_same. Qed.
Print Assumptions C17_clone_resolved_same.

Theorem C17_clone_pending_same :
  forall st z z' c i inj p r,
    alookup (lazies st) z = Some (LzCell c, i) -> alookup (lazies st) z' = Some (LzCell c, i) ->
    close_txn st inj p = EV r ->
    exists v, cur st (F st) c = EV v /\
              alookup (lazies (r_state r)) z = Some (LzVal v, i) /\
              alookup (lazies (r_state r)) z' = Some (LzVal v, i).
Proof. exact clone_pending_same. Qed.
Print Assumptions C17_clone_pending_same.

Theorem C17_clone_value_same :
  forall st z z' st' ob,
    body st (OCloneLazy z z') = EV (st', ob) -> z <> z' -> unreferenced st z' ->
    lazy_value st' z' = lazy_value st z /\ lazy_value st' z = lazy_value st z.
Proof. exact clone_value_same. Qed.
Print Assumptions C17_clone_value_same.

Theorem C17_clone_forced_later_same :
  forall z z' v i ops1 ops2 ch1 ch2 st st1 stc obc st2,
    alookup (lazies st) z = Some (LzVal v, i) ->
    Forall (no_rebind z) ops1 -> run_script ch1 st ops1 = EV st1 ->
    body st1 (OCloneLazy z z') = EV (stc, obc) -> z <> z' ->
    Forall (no_rebind z) ops2 -> Forall (no_rebind z') ops2 -> run_script ch2 stc ops2 = EV st2 ->
    body st2 (OForce z) = EV (st2, [BForced z v]) /\ body st2 (OForce z') = EV (st2, [BForced z' v]).
Proof. exact clone_forced_later_same. Qed.
Print Assumptions C17_clone_forced_later_same.

(* B5. hold_lazy: the new hold's current value is the lazy's value *)
Theorem C17_hold_lazy :
  forall st h s z st' ob n,
    body st (OHoldLazy h s z) = EV (st', ob) ->
    alookup (cvals st) h = None -> alookup (inits st) h = None ->
    cur st' (S n) h = match alookup (lazies st) z with
                      | Some (LzVal v, _) => EV v
                      | Some (LzCell c, _) => cur st' n c
                      | None => EErr Illegal
                      end.
Proof. exact hold_lazy_cur. Qed.
Print Assumptions C17_hold_lazy.

Theorem C17_hold_lazy_reads_lazy :
  forall st h s z st' ob v,
    body st (OHoldLazy h s z) = EV (st', ob) ->
    alookup (defs st) h = None -> alookup (cvals st) h = None -> alookup (inits st) h = None ->
    lazy_value st z = EV v -> cur st' (F st') h = EV v.
Proof. exact hold_lazy_reads_lazy. Qed.
Print Assumptions C17_hold_lazy_reads_lazy.

(* ================================================================= Examples *)

(* part A, a concrete interleaving: the thunk multiplies the environment (a counter it also
   increments) by 10; handle 1 is a clone of handle 0; the environment is set to 4, the clone is run
   (40), the environment is set to 7, both are run again: 40, one evaluation logged *)
Example C17_lazy_demo :
  outs lazy_demo = [(2, 1, 3); (1, 0, 40); (0, 0, 40); (1, 0, 40)] /\ evals lazy_demo = [(0, 40)] /\
  menv lazy_demo = 7.
Proof. vm_compute. repeat split. Qed.

(* sink 0, cell 1 = hold 5.  T = [OBegin .. OEnd]: lazy 7 taken, 9 sent, forced (5), cloned to 8.
   After T the cell is 9; the next transaction makes it 11; then the lazy and its clone, forced two
   transactions after T, still return 5 *)
Example C17_script :
  script_obs [ODef 0 (DSink None); OHold 1 0 (VInt 5);
              OBegin; OSampleLazy 7 1; OSend 0 (VInt 9); OForce 7; OCloneLazy 7 8; OEnd;
              OSample 1; OSend 0 (VInt 11); OSample 1; OForce 7; OForce 8; OForce 7] =
  EV [BForced 7 (VInt 5); BSample 1 (VInt 9); BSample 1 (VInt 11);
      BForced 7 (VInt 5); BForced 8 (VInt 5); BForced 7 (VInt 5)].
Proof. vm_compute. reflexivity. Qed.

(* hold_lazy two transactions later from the lazy taken in T *)
Example C17_script_hold :
  script_obs [ODef 0 (DSink None); OHold 1 0 (VInt 5);
              OBegin; OSampleLazy 7 1; OSend 0 (VInt 9); OEnd;
              OSend 0 (VInt 11);
              OBegin; OHoldLazy 3 0 7; OSample 3; OSample 1; OEnd; OSample 3] =
  EV [BSample 3 (VInt 5); BSample 1 (VInt 11); BSample 3 (VInt 5)].
Proof. vm_compute. reflexivity. Qed.

(* the hypotheses of C17_sample_lazy_denotes_take (hence of C17_sample_lazy_denotes_txn,
   C17_forced_later) are satisfiable, and the cell has changed (11) when the lazy is forced *)
Example C17_nonvacuous :
  exists sta oba st1 r st2,
    cur c17_st0 (F c17_st0) 1 = EV (VInt 5) /\
    fresh_op c17_st0 (OSampleLazy 7 1) /\
    body c17_st0 (OSampleLazy 7 1) = EV (sta, oba) /\
    in_txn (fun s o => fresh_op s o /\ no_rebind 7 o) sta [OSend 0 (VInt 9); OForce 7; OCloneLazy 7 8] st1 /\
    close_txn st1 (sends st1) (posts st1) = EV r /\
    Forall (no_rebind 7) [OSend 0 (VInt 11); OSample 1; OForce 8] /\
    run_script [] (r_state r) [OSend 0 (VInt 11); OSample 1; OForce 8] = EV st2 /\
    cur st2 (F st2) 1 = EV (VInt 11).
Proof. exact c17_hyps_satisfiable. Qed.
Print Assumptions C17_nonvacuous.

(* WHERE "as of the take" AND "as of the close of T" DIFFER (the lazy always is the latter):
   (a) the cell is a CellLoop not closed yet at the take (reading it then fails with
       SampledBeforeLoop); it is closed later in T; the lazy is the looped cell's value *)
Example C17_take_before_loop :
  script_obs [OConst 0 (VInt 5);
              OBegin; ODef 1 DCLoop; OSampleLazy 7 1; OLoopC 1 0; OForce 7; OEnd; OForce 7] =
    EV [BForced 7 (VInt 5); BForced 7 (VInt 5)] /\
  script_obs [OConst 0 (VInt 5); OBegin; ODef 1 DCLoop; OSampleLazy 7 1; OForce 7] = EErr SampledBeforeLoop.
Proof. split; vm_compute; reflexivity. Qed.

(* (b) an illegal script re-defines the cell's key inside T after the take (fresh_op fails): the
       force before the re-definition returns 5, the forces after it and after T return 6 *)
Example C17_key_redefined_in_txn :
  script_obs [OConst 0 (VInt 5);
              OBegin; OSampleLazy 7 0; OForce 7; OConst 0 (VInt 6); OForce 7; OEnd; OForce 7] =
  EV [BForced 7 (VInt 5); BForced 7 (VInt 6); BForced 7 (VInt 6)].
Proof. vm_compute. reflexivity. Qed.

(* examples above without their own Print Assumptions line *)
Print Assumptions C17_lazy_demo.
Print Assumptions C17_script.
Print Assumptions C17_script_hold.
Print Assumptions C17_take_before_loop.
Print Assumptions C17_key_redefined_in_txn.
