(* Property C13: lifted / mapped cells always equal the function of their inputs' current values.
   Statements only; proofs in Proofs/SpecB*.v. The statements are about the executable specification
   Spec/Sodium.v, to which the implementation is tied by the differential check. [cvals st] are the
   committed values between transactions; [cur st (F st) c] is what every sample of c yields. *)
From Coq Require Import List ZArith Bool Arith.
Import ListNotations.
From Sodium Require Import Sodium SpecBBase SpecBLegal SpecBLegalB SpecBStep SpecBBody SpecBC13.

(* ---- the invariant: every committed map / lift value is the function of the committed inputs *)

Theorem C13_consistent_def : forall st,
    Consistent st <->
    (forall h c f v, alookup (defs st) h = Some (DMapC c f) -> alookup (cvals st) h = Some v ->
                     exists vc, alookup (cvals st) c = Some vc /\ v = app1 f vc) /\
    (forall h cs g v, alookup (defs st) h = Some (DLift cs g) -> alookup (cvals st) h = Some v ->
                      exists vs, Forall2 (fun c w => alookup (cvals st) c = Some w) cs vs /\ v = appN g vs).
Proof. exact (fun st => iff_refl _). Qed.
Print Assumptions C13_consistent_def.

Theorem C13_consistent_init : Consistent init_state.
Proof. exact Consistent_init. Qed.
Print Assumptions C13_consistent_init.

(* every transaction preserves it: any tower depth, any subset of inputs updated simultaneously *)
Theorem C13_close_preserves : forall st inj p r,
    close_txn st inj p = EV r -> Consistent st -> Consistent (r_state r).
Proof. exact close_Consistent. Qed.
Print Assumptions C13_close_preserves.

(* and so does every script step (deferred transactions included) that binds an unresolved key *)
Theorem C13_step_preserves : forall choice st o r,
    binds_unresolved st o -> step choice st o = EV r -> Consistent st -> Consistent (fst (fst r)).
Proof. exact step_Consistent. Qed.
Print Assumptions C13_step_preserves.

Theorem C13_reachable_consistent : forall ops choices st',
    script_scoped choices init_state ops -> run_script choices init_state ops = EV st' -> Consistent st'.
Proof. exact reachable_Consistent. Qed.
Print Assumptions C13_reachable_consistent.

(* ---- from the moment of construction: an unresolved (freshly created) map / lift computes the same *)

Theorem C13_fresh_map_cur : forall st n h c f,
    alookup (cvals st) h = None -> alookup (defs st) h = Some (DMapC c f) ->
    cur st (S n) h = elet v <- cur st n c; EV (app1 f v).
Proof. exact cur_DMapC. Qed.
Print Assumptions C13_fresh_map_cur.

Theorem C13_fresh_lift_cur : forall st n h cs g,
    alookup (cvals st) h = None -> alookup (defs st) h = Some (DLift cs g) ->
    cur st (S n) h = elet vs <- emap (cur st n) cs; EV (appN g vs).
Proof. exact cur_DLift. Qed.
Print Assumptions C13_fresh_lift_cur.

(* ---- at every sampling point: sampling the cell = the function of sampling its inputs *)

Theorem C13_sample_map : forall st inj rc ro, LegalR st inj rc ro -> forall h c f,
    Consistent st -> alookup (defs st) h = Some (DMapC c f) ->
    cur st (F st) h = elet v <- cur st (F st) c; EV (app1 f v).
Proof. exact sample_DMapC_L. Qed.
Print Assumptions C13_sample_map.

Theorem C13_sample_lift : forall st inj rc ro, LegalR st inj rc ro -> forall h cs g,
    Consistent st -> alookup (defs st) h = Some (DLift cs g) ->
    cur st (F st) h = elet vs <- emap (cur st (F st)) cs; EV (appN g vs).
Proof. exact sample_DLift_L. Qed.
Print Assumptions C13_sample_lift.

(* the same for successful samples, without the legality hypothesis *)
Theorem C13_sample_map_top : forall st h c f v,
    Consistent st -> alookup (defs st) h = Some (DMapC c f) ->
    cur st (F st) h = EV v -> exists vc, cur st (F st) c = EV vc /\ v = app1 f vc.
Proof. exact sample_DMapC_EV. Qed.
Print Assumptions C13_sample_map_top.

Theorem C13_sample_lift_top : forall st h cs g v,
    Consistent st -> alookup (defs st) h = Some (DLift cs g) ->
    cur st (F st) h = EV v ->
    exists vs, Forall2 (fun c w => cur st (F st) c = EV w) cs vs /\ v = appN g vs.
Proof. exact sample_DLift_EV. Qed.
Print Assumptions C13_sample_lift_top.

(* ---- updates: exactly when some input updates, with the function of the new-or-current inputs *)

Theorem C13_map_update : forall st inj n h c f,
    alookup (defs st) h = Some (DMapC c f) ->
    upd st inj (S n) h = elet o <- upd st inj n c; EV (option_map (app1 f) o).
Proof. exact upd_DMapC. Qed.
Print Assumptions C13_map_update.

Theorem C13_lift_update : forall st inj n h cs g,
    alookup (defs st) h = Some (DLift cs g) ->
    upd st inj (S n) h =
    elet us <- emap (upd st inj n) cs;
    if existsb is_some us
    then elet vs <- emap (new_or_cur st inj n) cs; EV (Some (appN g vs))
    else EV None.
Proof. exact upd_DLift. Qed.
Print Assumptions C13_lift_update.

Theorem C13_lift_update_iff : forall st inj h cs g r,
    alookup (defs st) h = Some (DLift cs g) -> upd st inj (F st) h = EV r ->
    exists us, Forall2 (fun c u => upd st inj (F st) c = EV u) cs us /\
               ((exists u, In u us /\ u <> None) <-> r <> None) /\
               forall v, r = Some v ->
                         exists vs, Forall2 (fun c w => new_or_cur st inj (F st) c = EV w) cs vs /\ v = appN g vs.
Proof. exact upd_DLift_EV. Qed.
Print Assumptions C13_lift_update_iff.

Theorem C13_map_update_top : forall st inj h c f r,
    alookup (defs st) h = Some (DMapC c f) -> upd st inj (F st) h = EV r ->
    exists o, upd st inj (F st) c = EV o /\ r = option_map (app1 f) o.
Proof. exact upd_DMapC_EV. Qed.
Print Assumptions C13_map_update_top.

Theorem C13_map_update_legal : forall st inj rc ro, LegalR st inj rc ro -> forall h c f,
    alookup (defs st) h = Some (DMapC c f) ->
    upd st inj (F st) h = elet o <- upd st inj (F st) c; EV (option_map (app1 f) o).
Proof. exact upd_DMapC_L. Qed.
Print Assumptions C13_map_update_legal.

Theorem C13_lift_update_legal : forall st inj rc ro, LegalR st inj rc ro -> forall h cs g,
    alookup (defs st) h = Some (DLift cs g) ->
    upd st inj (F st) h =
    elet us <- emap (upd st inj (F st)) cs;
    if existsb is_some us
    then elet vs <- emap (new_or_cur st inj (F st)) cs; EV (Some (appN g vs))
    else EV None.
Proof. exact upd_DLift_L. Qed.
Print Assumptions C13_lift_update_legal.

(* ---- non-vacuity: a tower lift(lift(hold,hold), map(lift), hold) built by script operations is
        consistent and legal; one input updated: every level fires once with the function of its inputs;
        no input updated: no update *)

Example C13_nonvacuous :
  run_ops init_state ex13_ops = Some ex13_st /\ Consistent ex13_st /\
  (forall inj, LegalR ex13_st inj ex13_rank ex13_rank) /\
  (exists r, close_txn ex13_st [(0%nat, VInt 10)] [] = EV r /\
             cvals (r_state r) = [(6%nat, VInt 86); (5%nat, VInt 24); (4%nat, VInt 8);
                                  (3%nat, VInt 2); (2%nat, VInt 10)]) /\
  upd ex13_st [(0%nat, VInt 10)] (F ex13_st) 6 = EV (Some (VInt 86)) /\
  upd ex13_st [] (F ex13_st) 6 = EV None.
Proof.
  split; [vm_compute; reflexivity|]. split; [exact ex13_consistent|]. split; [exact ex13_legal|].
  split; [eexists; split; [vm_compute; reflexivity | reflexivity]|].
  split; vm_compute; reflexivity.
Qed.
Print Assumptions C13_nonvacuous.

(* the scoping hypothesis of C13_step_preserves is needed: re-binding a key that already carries a
   committed value (the driver always allocates fresh keys) leaves the mapped cell stale *)
Example C13_rebinding_a_resolved_key_breaks_it :
  run_ops init_state ex13_rebind_ops = Some ex13_rebind_st /\ ~ Consistent ex13_rebind_st /\
  cur ex13_rebind_st (F ex13_rebind_st) 2 = EV (VInt 5) /\ cur ex13_rebind_st (F ex13_rebind_st) 1 = EV (VInt 6).
Proof. exact ex13_rebind_breaks. Qed.
Print Assumptions C13_rebinding_a_resolved_key_breaks_it.
