(* Property C15: sinks inject exactly what was sent; coalescing folds in send order; a cell sink is a hold
   over a sink. Statements only; proofs in Proofs/SpecA15.v (and SpecABase, SpecA14, SpecA12). *)
From Coq Require Import List Arith ZArith.
Import ListNotations.
From Sodium Require Import Sodium SpecABase SpecA14 SpecA12 SpecA15.

(* the occurrence of a sink in a transaction is the coalesced list of the values injected for it *)
Theorem C15_sink_occurrence : forall st inj f s co,
    alookup (defs st) s = Some (DSink co) ->
    occ st inj (S f) s = EV (coalesce co (injected inj s)).
Proof. exact occ_sink. Qed.
Print Assumptions C15_sink_occurrence.

Theorem C15_coalesce_empty : forall co, coalesce co [] = None.
Proof. exact coalesce_nil. Qed.
Print Assumptions C15_coalesce_empty.

Theorem C15_coalesce_folds_in_send_order : forall g v1 vs,
    coalesce (Some g) (v1 :: vs) = Some (fold_left (app2 g) vs v1).
Proof. exact coalesce_some. Qed.
Print Assumptions C15_coalesce_folds_in_send_order.

Theorem C15_no_coalescer_keeps_last : forall vs d, vs <> [] -> coalesce None vs = Some (last vs d).
Proof. exact coalesce_none_last. Qed.
Print Assumptions C15_no_coalescer_keeps_last.

(* the operational form ([Stream::_send], one send at a time into the pending firing) computes [coalesce] *)
Theorem C15_send_by_send : forall co vs, fold_left (send1 co) vs None = coalesce co vs.
Proof. exact send1_fold. Qed.
Print Assumptions C15_send_by_send.

(* sends accumulate, in order, over any script that does not close the outermost transaction *)
Theorem C15_sends_accumulate : forall ch ops i st st' os,
    stays_open ch i st ops -> run ch i st ops = EV (st', os) ->
    sends st' = sends st ++ flat_map sent ops /\ posts st' = posts st ++ flat_map posted ops /\
    fired st' = fired st /\ Forall passive os.
Proof. exact open_run_sends. Qed.
Print Assumptions C15_sends_accumulate.

Theorem C15_injected_in_send_order : forall ch ops i st st' os s,
    stays_open ch i st ops -> run ch i st ops = EV (st', os) ->
    injected (sends st') s = injected (sends st) s ++ values_sent_to s ops.
Proof. exact open_run_injected. Qed.
Print Assumptions C15_injected_in_send_order.

(* inside an open transaction, a well-bracketed script (arbitrary nesting of OBegin/OEnd around arbitrary
   non-bracket operations) never closes it *)
Theorem C15_nested_stays_open : forall ops, nested ops ->
    forall ch i st, depth st >= 1 -> stays_open ch i st ops.
Proof. exact nested_stays_open. Qed.
Print Assumptions C15_nested_stays_open.

(* a whole closure transaction: what its close injects is exactly what was sent inside, in send order *)
Theorem C15_transaction_injects_its_sends : forall ch i st ops st1 os1,
    quiescent st -> nested ops ->
    run ch i st (OBegin :: ops) = EV (st1, os1) ->
    depth st1 = 1 /\ sends st1 = flat_map sent ops /\ posts st1 = flat_map posted ops /\
    closes st1 OEnd = true /\ Forall passive os1 /\
    forall ch', step ch' st1 OEnd =
                (elet e <- end_outer ch' st1; EV (fst (fst e), snd (fst e), snd e)) /\
                end_outer ch' st1 =
                (elet r <- close_txn st1 (flat_map sent ops) (flat_map posted ops);
                 run_deferred 200 ch' (r_state r) (r_deferred r) (r_obs r)).
Proof. exact txn_injects_sends. Qed.
Print Assumptions C15_transaction_injects_its_sends.

(* cell sink = hold over a sink. Before any send the cell reads its initial value (the slot must be new:
   the specification keeps a stale committed value when a cell key is reused, see the report) *)
Theorem C15_cell_sink_initial : forall st c k v0 st1 os f,
    alookup (cvals st) c = None ->
    body st (OHold c k v0) = EV (st1, os) ->
    cur st1 (S f) c = EV v0 /\ os = [].
Proof. exact hold_initial. Qed.
Print Assumptions C15_cell_sink_initial.

(* what a transaction commits for a cell sink *)
Theorem C15_cell_sink_commit : forall st inj ps r c k co,
    close_txn st inj ps = EV r ->
    alookup (defs st) c = Some (DHold k) -> alookup (defs st) k = Some (DSink co) ->
    alookup (cvals (r_state r)) c =
    match coalesce co (injected inj k) with
    | Some v => Some v
    | None => match cur st (F st) c with EV v => Some v | EErr _ => None end
    end.
Proof. exact cell_sink_commit. Qed.
Print Assumptions C15_cell_sink_commit.

Theorem C15_cell_sink_last_sent : forall st inj ps r c k d,
    close_txn st inj ps = EV r ->
    alookup (defs st) c = Some (DHold k) -> alookup (defs st) k = Some (DSink None) ->
    injected inj k <> [] ->
    alookup (cvals (r_state r)) c = Some (last (injected inj k) d) /\
    forall f, cur (r_state r) (S f) c = EV (last (injected inj k) d).
Proof. exact cell_sink_last_sent. Qed.
Print Assumptions C15_cell_sink_last_sent.

(* whole steps: creation on fresh slots, then a send outside any transaction *)
Theorem C15_cell_sink_created : forall ch i st k c v0 st2 os,
    quiescent st -> NoDup (keys (defs st)) -> k <> c ->
    alookup (defs st) c = None -> alookup (cvals st) c = None ->
    run ch i st [ODef k (DSink None); OHold c k v0] = EV (st2, os) ->
    alookup (defs st2) c = Some (DHold k) /\ alookup (defs st2) k = Some (DSink None) /\
    alookup (cvals st2) c = Some v0 /\ (forall f, cur st2 (S f) c = EV v0) /\ quiescent st2.
Proof. exact cell_sink_created. Qed.
Print Assumptions C15_cell_sink_created.

Theorem C15_cell_sink_send : forall ch st c k v st' os a,
    quiescent st -> NoDup (keys (defs st)) ->
    alookup (defs st) c = Some (DHold k) -> alookup (defs st) k = Some (DSink None) ->
    step ch st (OSend k v) = EV (st', os, a) ->
    alookup (cvals st') c = Some v /\ (forall f, cur st' (S f) c = EV v).
Proof. exact cell_sink_send_step. Qed.
Print Assumptions C15_cell_sink_send.

(* the distinct-keys hypothesis is an invariant of every script *)
Theorem C15_tables_distinct : forall ch ops st' os,
    run ch 0 init_state ops = EV (st', os) -> NoDup (keys (defs st')) /\ NoDup (keys (listeners st')).
Proof. exact run_init_tables. Qed.
Print Assumptions C15_tables_distinct.

(* the fresh-slot hypothesis of C15_cell_sink_initial / C15_cell_sink_created cannot be dropped: the
   specification keeps the committed value of a reused cell key and ignores the new hold's initial value *)
Example C15_reused_slot_keeps_stale_value :
  exists st' os,
    run (fun _ => []) 0 init_state
        [ODef 0 (DSink None); OConst 5 (VInt 1); OHold 5 0 (VInt 2); OSample 5] = EV (st', os) /\
    os = [BSample 5 (VInt 1)].
Proof. exact reused_slot_stale. Qed.
Print Assumptions C15_reused_slot_keeps_stale_value.

(* non-vacuity *)
Example C15_nonvacuous :
  let ops := [OSend 0 (VInt 1); OBegin; OSend 0 (VInt 2); OSend 7 (VInt 9); OBegin; ODef 5 DNever; OEnd;
              OSend 0 (VInt 3); OEnd; OSend 0 (VInt 4)] in
  nested ops /\ values_sent_to 0 ops = [VInt 1; VInt 2; VInt 3; VInt 4] /\
  quiescent init_state /\ NoDup (keys (defs init_state)) /\
  (exists st2 os, run (fun _ => []) 0 init_state [ODef 0 (DSink None); OHold 1 0 (VInt 7)] = EV (st2, os)) /\
  (exists st3 os, run (fun _ => []) 0 init_state
                      ([ODef 0 (DSink (Some GAdd)); OListen 9 0; OBegin] ++ ops ++ [OEnd]) = EV (st3, os) /\
                  os = [BCall 9 (VInt 10)]).
Proof.
  cbv zeta. split.
  { apply (nested_app [OSend 0 (VInt 1)]); [constructor; reflexivity|].
    apply (nested_app [OBegin; OSend 0 (VInt 2); OSend 7 (VInt 9); OBegin; ODef 5 DNever; OEnd; OSend 0 (VInt 3); OEnd]
                      [OSend 0 (VInt 4)]); [|constructor; reflexivity].
    apply (nested_wrap [OSend 0 (VInt 2); OSend 7 (VInt 9); OBegin; ODef 5 DNever; OEnd; OSend 0 (VInt 3)]).
    apply (nested_app [OSend 0 (VInt 2)]); [constructor; reflexivity|].
    apply (nested_app [OSend 7 (VInt 9)]); [constructor; reflexivity|].
    apply (nested_app [OBegin; ODef 5 DNever; OEnd] [OSend 0 (VInt 3)]); [|constructor; reflexivity].
    apply (nested_wrap [ODef 5 DNever]). constructor; reflexivity. }
  split; [reflexivity|]. split; [repeat split|]. split; [constructor|].
  split; [eexists; eexists; vm_compute; reflexivity|].
  eexists; eexists; split; [vm_compute; reflexivity | reflexivity].
Qed.
Print Assumptions C15_nonvacuous.
