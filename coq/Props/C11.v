(* Property C11: loops are transparent forward references; misuse fails fast. Statements only; the
   proofs are in Proofs/SpecBC11a.v (transparency, LoopInv, misuse), Proofs/SpecBC11b.v (substitution
   theorem) and Proofs/SpecBC11c.v (whole transactions, example states). Everything is about the
   executable specification Spec/Sodium.v (DSLoop, DCLoop, loops st, OLoopS, OLoopC, OSample), which
   is run against /repo/src/impl_/{stream_loop,cell_loop,lazy}.rs by the correspondence check. *)
From Coq Require Import List ZArith Bool Arith.
Import ListNotations.
From Sodium Require Import Sodium SpecBBase SpecBMono SpecBLegal SpecBClose SpecBStep SpecBLegalB.
From Sodium Require Import SpecBC11a SpecBC11b SpecBC11c.
Local Open Scope nat_scope.

(* ------------------------------------------------------------------ 1. transparency *)

(* one evaluation step, at every fuel: a looped StreamLoop IS its target; an unlooped one is silent *)
Theorem C11_sloop_step : forall st inj n s t,
    alookup (defs st) s = Some DSLoop -> alookup (loops st) s = Some t ->
    occ st inj (S n) s = occ st inj n t.
Proof. exact sloop_occ_S. Qed.
Print Assumptions C11_sloop_step.

Theorem C11_sloop_step_unlooped : forall st inj n s,
    alookup (defs st) s = Some DSLoop -> alookup (loops st) s = None ->
    occ st inj (S n) s = EV None.
Proof. exact sloop_occ_S_unlooped. Qed.
Print Assumptions C11_sloop_step_unlooped.

Theorem C11_cloop_upd_step : forall st inj n c t,
    alookup (defs st) c = Some DCLoop -> alookup (loops st) c = Some t ->
    upd st inj (S n) c = upd st inj n t.
Proof. exact cloop_upd_S. Qed.
Print Assumptions C11_cloop_upd_step.

Theorem C11_cloop_cur_step : forall st n c t,
    alookup (defs st) c = Some DCLoop -> alookup (loops st) c = Some t ->
    alookup (cvals st) c = None ->
    cur st (S n) c = cur st n t.
Proof. exact cloop_cur_S. Qed.
Print Assumptions C11_cloop_cur_step.

(* top-level fuel, any state: whatever the loop yields, its target yields *)
Theorem C11_sloop_top_EV : forall st inj s t r,
    alookup (defs st) s = Some DSLoop -> alookup (loops st) s = Some t ->
    occ st inj (F st) s = EV r -> occ st inj (F st) t = EV r.
Proof. exact sloop_occ_F_EV. Qed.
Print Assumptions C11_sloop_top_EV.

Theorem C11_cloop_upd_top_EV : forall st inj c t r,
    alookup (defs st) c = Some DCLoop -> alookup (loops st) c = Some t ->
    upd st inj (F st) c = EV r -> upd st inj (F st) t = EV r.
Proof. exact cloop_upd_F_EV. Qed.
Print Assumptions C11_cloop_upd_top_EV.

Theorem C11_cloop_cur_top_EV : forall st c t v,
    LoopInv st ->
    alookup (defs st) c = Some DCLoop -> alookup (loops st) c = Some t ->
    cur st (F st) c = EV v -> cur st (F st) t = EV v.
Proof. exact cloop_cur_F_EV_inv. Qed.
Print Assumptions C11_cloop_cur_top_EV.

(* top-level fuel, legal states: full equations, errors included *)
Theorem C11_sloop_top : forall st inj s t,
    Legal st inj ->
    alookup (defs st) s = Some DSLoop -> alookup (loops st) s = Some t ->
    occ st inj (F st) s = occ st inj (F st) t.
Proof. exact sloop_occ_F. Qed.
Print Assumptions C11_sloop_top.

Theorem C11_sloop_top_unlooped : forall st inj s,
    alookup (defs st) s = Some DSLoop -> alookup (loops st) s = None ->
    occ st inj (F st) s = EV None.
Proof. exact sloop_occ_F_unlooped. Qed.
Print Assumptions C11_sloop_top_unlooped.

Theorem C11_cloop_upd_top : forall st inj c t,
    Legal st inj ->
    alookup (defs st) c = Some DCLoop -> alookup (loops st) c = Some t ->
    upd st inj (F st) c = upd st inj (F st) t.
Proof. exact cloop_upd_F. Qed.
Print Assumptions C11_cloop_upd_top.

Theorem C11_cloop_cur_top : forall st inj c t,
    Legal st inj -> LoopInv st ->
    alookup (defs st) c = Some DCLoop -> alookup (loops st) c = Some t ->
    cur st (F st) c = cur st (F st) t.
Proof. exact cloop_cur_F. Qed.
Print Assumptions C11_cloop_cur_top.

(* ------------------------------------------------------------------ 2. resolved cell loops *)

(* LoopInv st: the committed value of a cell loop equals the committed value of its target *)
Theorem C11_loopinv_init : LoopInv init_state.
Proof. exact LoopInv_init. Qed.
Print Assumptions C11_loopinv_init.

Theorem C11_loopinv_close : forall st inj p r,
    close_txn st inj p = EV r -> LoopInv st -> LoopInv (r_state r).
Proof. exact LoopInv_close. Qed.
Print Assumptions C11_loopinv_close.

(* every operation that binds / loops only slots holding no committed value keeps it, hence every
   script step (deferred transactions included) and every script *)
Theorem C11_loopinv_body : forall st o st' ob,
    binds_unresolved st o -> body st o = EV (st', ob) -> LoopInv st -> LoopInv st'.
Proof. exact body_keeps_loopinv. Qed.
Print Assumptions C11_loopinv_body.

Theorem C11_loopinv_step : forall choice st o r,
    binds_unresolved st o -> step choice st o = EV r -> LoopInv st -> LoopInv (fst (fst r)).
Proof. exact step_keeps_loopinv. Qed.
Print Assumptions C11_loopinv_step.

Theorem C11_loopinv_script : forall ops choices st',
    script_binds_unresolved choices init_state ops ->
    run_script choices init_state ops = EV st' -> LoopInv st'.
Proof. exact script_from_init_loopinv. Qed.
Print Assumptions C11_loopinv_script.

(* ------------------------------------------------------------------ 3. the substitution theorem *)

(* res_s / res_c are the kind-aware resolutions of a stream / cell reference *)
Theorem C11_res_s_spec : forall st x,
    res_s st x = match alookup (defs st) x, alookup (loops st) x with Some DSLoop, Some t => t | _, _ => x end.
Proof. exact res_s_spec. Qed.
Print Assumptions C11_res_s_spec.

Theorem C11_res_c_spec : forall st x,
    res_c st x = match alookup (defs st) x, alookup (loops st) x with Some DCLoop, Some t => t | _, _ => x end.
Proof. exact res_c_spec. Qed.
Print Assumptions C11_res_c_spec.

(* the program in which every use of a loop is replaced by what it is looped to denotes, at EVERY key,
   the same current values, occurrences and updates (errors included) *)
Theorem C11_substitution : forall st inj rc ro,
    LegalR st inj rc ro -> LoopInv st ->
    F (subst_state st) = F st /\
    forall h,
      cur (subst_state st) (F st) h = cur st (F st) h /\
      occ (subst_state st) inj (F st) h = occ st inj (F st) h /\
      upd (subst_state st) inj (F st) h = upd st inj (F st) h.
Proof. exact loop_substitution. Qed.
Print Assumptions C11_substitution.

Theorem C11_substitution_Legal : forall st inj,
    Legal st inj -> LoopInv st ->
    forall h,
      cur (subst_state st) (F (subst_state st)) h = cur st (F st) h /\
      occ (subst_state st) inj (F (subst_state st)) h = occ st inj (F st) h /\
      upd (subst_state st) inj (F (subst_state st)) h = upd st inj (F st) h.
Proof. exact loop_substitution_Legal. Qed.
Print Assumptions C11_substitution_Legal.

(* and a reference denotes in the program what its resolution denotes in the substituted program *)
Theorem C11_substitution_refs : forall st inj rc ro,
    LegalR st inj rc ro -> LoopInv st ->
    (forall a, occ (subst_state st) inj (F st) (res_s st a) = occ st inj (F st) a) /\
    (forall c, upd (subst_state st) inj (F st) (res_c st c) = upd st inj (F st) c) /\
    (forall c, cur (subst_state st) (F st) (res_c st c) = cur st (F st) c).
Proof. exact ref_substitution. Qed.
Print Assumptions C11_substitution_refs.

(* a whole transaction: same listener calls, same deferred work, same committed values / once flags /
   lazies, same failure; the next state is the substituted next state *)
Theorem C11_substitution_txn : forall st inj rc ro,
    LegalR st inj rc ro -> LoopInv st ->
    forall p,
      close_txn (subst_state st) inj p =
      match close_txn st inj p with
      | EV r => EV (mkRes (subst_state (r_state r)) (r_obs r) (r_deferred r))
      | EErr e => EErr e
      end.
Proof. exact close_subst. Qed.
Print Assumptions C11_substitution_txn.

(* LoopInv cannot be dropped: a legal state (slot 1 reused: first a constant, then a CellLoop) where the
   substituted program reads another value *)
Theorem C11_loopinv_needed :
  LegalR stN [] rkN rkN /\ ~ LoopInv stN /\
  cur stN (F stN) 3 = EV (VInt 1) /\ cur (subst_state stN) (F stN) 3 = EV (VInt 2).
Proof. exact loopinv_needed. Qed.
Print Assumptions C11_loopinv_needed.

(* ------------------------------------------------------------------ 4. misuse fails fast *)

Theorem C11_loop_twice_S : forall choice st l t t0,
    alookup (loops st) l = Some t0 -> step choice st (OLoopS l t) = EErr AlreadyLooped.
Proof. exact step_loopS_twice. Qed.
Print Assumptions C11_loop_twice_S.

Theorem C11_loop_twice_C : forall choice st l t t0,
    alookup (loops st) l = Some t0 -> step choice st (OLoopC l t) = EErr AlreadyLooped.
Proof. exact step_loopC_twice. Qed.
Print Assumptions C11_loop_twice_C.

Theorem C11_loop_twice_body : forall st l t st1 ob t',
    body st (OLoopS l t) = EV (st1, ob) ->
    alookup (loops st1) l = Some t /\ ob = [] /\
    body st1 (OLoopS l t') = EErr AlreadyLooped /\ body st1 (OLoopC l t') = EErr AlreadyLooped.
Proof. exact loop_once_then_fails. Qed.
Print Assumptions C11_loop_twice_body.

Theorem C11_sample_unlooped_body : forall st c,
    alookup (defs st) c = Some DCLoop -> alookup (cvals st) c = None -> alookup (loops st) c = None ->
    body st (OSample c) = EErr SampledBeforeLoop.
Proof. exact body_sample_unlooped. Qed.
Print Assumptions C11_sample_unlooped_body.

Theorem C11_sample_unlooped : forall choice st c,
    alookup (defs st) c = Some DCLoop -> alookup (cvals st) c = None -> alookup (loops st) c = None ->
    step choice st (OSample c) = EErr SampledBeforeLoop.
Proof. exact step_sample_unlooped. Qed.
Print Assumptions C11_sample_unlooped.

(* the error propagates through the cells computed from it *)
Theorem C11_mapc_unlooped : forall st h c g,
    alookup (defs st) h = Some (DMapC c g) -> alookup (cvals st) h = None -> Unlooped st c ->
    cur st (F st) h = EErr SampledBeforeLoop.
Proof. exact cur_mapc_unlooped. Qed.
Print Assumptions C11_mapc_unlooped.

Theorem C11_lift_unlooped : forall st h pre c post g vs,
    alookup (defs st) h = Some (DLift (pre ++ c :: post) g) -> alookup (cvals st) h = None ->
    emap (cur st (S (length (defs st)))) pre = EV vs ->
    Unlooped st c ->
    cur st (F st) h = EErr SampledBeforeLoop.
Proof. exact cur_lift_unlooped. Qed.
Print Assumptions C11_lift_unlooped.

(* closing a transaction invents no value for it, nor for a mapped cell hanging on it *)
Theorem C11_close_keeps_unlooped : forall st inj p r c,
    close_txn st inj p = EV r -> Unlooped st c -> Unlooped (r_state r) c.
Proof. exact close_keeps_unlooped. Qed.
Print Assumptions C11_close_keeps_unlooped.

Theorem C11_close_keeps_mapc_unresolved : forall st inj p r h c g,
    close_txn st inj p = EV r ->
    alookup (defs st) h = Some (DMapC c g) -> alookup (cvals st) h = None -> Unlooped st c ->
    alookup (cvals (r_state r)) h = None.
Proof. exact close_keeps_mapc_unresolved. Qed.
Print Assumptions C11_close_keeps_mapc_unresolved.

(* sampling keeps failing, whatever else the script does, until the cell loop is looped *)
Theorem C11_sample_keeps_failing : forall c ops choices st st' choice,
    Forall (leaves_unlooped c) ops ->
    run_script choices st ops = EV st' -> Unlooped st c ->
    step choice st' (OSample c) = EErr SampledBeforeLoop.
Proof. exact script_sample_keeps_failing. Qed.
Print Assumptions C11_sample_keeps_failing.

(* ------------------------------------------------------------------ examples *)

(* A: StreamLoop 1 looped to snapshot 3, which reads hold 2 of the loop (dependency through a delay).
   The state is the result of the script, is legal with explicit ranks, satisfies LoopInv; in the
   substituted program the hold is fed by the snapshot directly; a send of 5 is observed through the loop *)
Example C11_example_stream_loop :
  run_ops init_state
          [OBegin; ODef 0 (DSink None); ODef 1 DSLoop; OHold 2 1 (VInt 0);
           ODef 3 (DSnapshot 0 [2] (NF2 GAdd)); OLoopS 1 3; OListen 0 1; OEnd] = Some stA /\
  LegalR stA [(0, VInt 5)] (rank_of []) (rank_of [(0, 0); (3, 1); (1, 2); (2, 3)]) /\
  Legal stA [(0, VInt 5)] /\ LoopInv stA /\
  defs (subst_state stA) = [(3, DSnapshot 0 [2] (NF2 GAdd)); (2, DHold 3); (1, DSLoop); (0, DSink None)] /\
  exists r, close_txn stA [(0, VInt 5)] [] = EV r /\ r_obs r = [BCall 0 (VInt 5)] /\
            alookup (cvals (r_state r)) 2 = Some (VInt 5).
Proof.
  split; [exact stA_run|]. split; [exact stA_legal|].
  split; [exists rcA, roA; exact stA_legal|]. split; [exact stA_loopinv|].
  split; [exact stA_subst_defs | exact stA_txn].
Qed.
Print Assumptions C11_example_stream_loop.

(* B: the accumulator written with CellLoop 1 looped to hold 3. B0: inside the building transaction
   (looped, nothing resolved, the loop reads as its target); B1: after it (both resolved, equal) *)
Example C11_example_cell_loop :
  run_ops init_state opsB0 = Some stB0 /\ run_ops init_state (opsB0 ++ [OEnd]) = Some stB1 /\
  LegalR stB0 (sends stB0) rcB roB /\ LoopInv stB0 /\
  LegalR stB1 [(0, VInt 5)] rcB roB /\ LoopInv stB1 /\
  (alookup (defs stB0) 1 = Some DCLoop /\ alookup (loops stB0) 1 = Some 3 /\ alookup (cvals stB0) 1 = None /\
   cur stB0 (F stB0) 1 = EV (VInt 0) /\ cur stB0 (F stB0) 3 = EV (VInt 0)) /\
  defs (subst_state stB1) =
  [(5, DUpdates 3); (4, DMapC 3 (FAdd 100%Z)); (3, DHold 2); (2, DSnapshot 0 [3] (NF2 GAdd));
   (1, DCLoop); (0, DSink None)] /\
  exists r r', close_txn stB1 [(0, VInt 5)] [] = EV r /\ close_txn (subst_state stB1) [(0, VInt 5)] [] = EV r' /\
               r_obs r = [BCall 0 (VInt 12); BCall 1 (VInt 12)] /\ r_obs r' = r_obs r /\
               cvals (r_state r') = cvals (r_state r) /\
               alookup (cvals (r_state r)) 1 = Some (VInt 12) /\ alookup (cvals (r_state r)) 3 = Some (VInt 12).
Proof.
  split; [exact stB0_run|]. split; [exact stB1_run|]. split; [exact stB0_legal|]. split; [exact stB0_loopinv|].
  split; [exact stB1_legal|]. split; [exact stB1_loopinv|]. split; [exact stB0_unresolved_loop|].
  split; [exact stB1_subst_defs | exact stB1_txn].
Qed.
Print Assumptions C11_example_cell_loop.

(* the script of B binds only unresolved slots (hypothesis of C11_loopinv_script) *)
Example C11_example_script :
  script_binds_unresolved [] init_state (opsB0 ++ [OEnd; OSend 0 (VInt 5)]) /\
  exists st', run_script [] init_state (opsB0 ++ [OEnd; OSend 0 (VInt 5)]) = EV st' /\
              alookup (cvals st') 1 = Some (VInt 12) /\ alookup (cvals st') 3 = Some (VInt 12).
Proof. exact opsB_script. Qed.
Print Assumptions C11_example_script.

(* the fail-fast errors, computed: M1 = [OBegin; ODef 1 DCLoop; ODef 2 (DMapC 1 FId)] (transaction
   open), M2 = the same without OBegin (transactions closed), M3 = a stream loop 1 and a cell loop 3,
   both looped *)
Example C11_example_misuse :
  Unlooped stM1 1 /\ Unlooped stM2 1 /\
  step [] stM1 (OSample 1) = EErr SampledBeforeLoop /\
  step [] stM1 (OSample 2) = EErr SampledBeforeLoop /\
  step [] stM2 (OSample 1) = EErr SampledBeforeLoop /\
  step [] stM2 (OSample 2) = EErr SampledBeforeLoop /\
  step [] stM3 (OLoopS 1 2) = EErr AlreadyLooped /\
  step [] stM3 (OLoopS 1 0) = EErr AlreadyLooped /\
  step [] stM3 (OLoopC 3 4) = EErr AlreadyLooped /\
  step [] stM3 (OSample 3) = EV (stM3, [BSample 3 VUnit], []).
Proof. exact misuse_examples. Qed.
Print Assumptions C11_example_misuse.
