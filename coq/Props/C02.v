(* Property C02: stream primitives fire exactly as the Sodium denotational semantics prescribes.
   Statements only; proofs in Proofs/SpecB*.v. The statements are about the executable specification
   Spec/Sodium.v ([occ st inj fuel s] = the occurrence of stream s in the transaction with injected
   sends inj, evaluated by the checker with fuel [F st]); the implementation is tied to it by the
   differential check. Three forms are given for each primitive: the one-step equation (any fuel, so
   any depth of composition), the top-level-fuel form for successful results (no hypothesis), and the
   top-level-fuel equation for legal (acyclic) states. *)
From Coq Require Import List ZArith Bool Arith.
Import ListNotations.
From Sodium Require Import Sodium SpecBBase SpecBLegal SpecBLegalB SpecBLegalC SpecBStep SpecBC02.

(* ---- one-step equations: valid for every fuel, for arbitrary sub-streams (compositional) *)

Theorem C02_map : forall st inj n h a f,
    alookup (defs st) h = Some (DMap a f) ->
    occ st inj (S n) h = elet o <- occ st inj n a; EV (option_map (app1 f) o).
Proof. exact occ_DMap. Qed.
Print Assumptions C02_map.

Theorem C02_filter : forall st inj n h a p,
    alookup (defs st) h = Some (DFilter a p) ->
    occ st inj (S n) h =
    elet o <- occ st inj n a;
    EV (match o with Some v => if appP p v then Some v else None | None => None end).
Proof. exact occ_DFilter. Qed.
Print Assumptions C02_filter.

(* merge: the sole event, or the combination with the receiver's (a's) event as LEFT argument *)
Theorem C02_merge : forall st inj n h a b g,
    alookup (defs st) h = Some (DMerge a b g) ->
    occ st inj (S n) h =
    elet x <- occ st inj n a; elet y <- occ st inj n b;
    EV (match x, y with
        | Some u, Some w => Some (app2 g u w)
        | Some u, None => Some u
        | None, Some w => Some w
        | None, None => None
        end).
Proof. exact occ_DMerge. Qed.
Print Assumptions C02_merge.

(* or_else (= merge with GLeft) keeps the left one *)
Theorem C02_or_else : forall x y, merge_occ GLeft x y = match x with Some u => Some u | None => y end.
Proof. exact or_else_occ. Qed.
Print Assumptions C02_or_else.

(* snapshot: the event combined with the cells' PRE-transaction values ([cur] does not see [inj]) *)
Theorem C02_snapshot : forall st inj n h a cs g,
    alookup (defs st) h = Some (DSnapshot a cs g) ->
    occ st inj (S n) h =
    elet o <- occ st inj n a;
    match o with
    | None => EV None
    | Some v => elet vs <- emap (cur st (F st)) cs; EV (Some (appN g (v :: vs)))
    end.
Proof. exact occ_DSnapshot. Qed.
Print Assumptions C02_snapshot.

Theorem C02_snapshot_values : forall st cs g o r,
    snapshot_occ st cs g o = EV r ->
    match o with
    | None => r = None
    | Some v => exists vs, Forall2 (fun c w => cur st (F st) c = EV w) cs vs /\ r = Some (appN g (v :: vs))
    end.
Proof. exact snapshot_occ_Some. Qed.
Print Assumptions C02_snapshot_values.

Theorem C02_gate : forall st inj n h a c,
    alookup (defs st) h = Some (DGate a c) ->
    occ st inj (S n) h =
    elet o <- occ st inj n a;
    match o with
    | None => EV None
    | Some v => elet b <- cur st (F st) c; EV (if truthy b then Some v else None)
    end.
Proof. exact occ_DGate. Qed.
Print Assumptions C02_gate.

(* once: the event iff the node has not fired yet *)
Theorem C02_once : forall st inj n h a,
    alookup (defs st) h = Some (DOnce a) ->
    occ st inj (S n) h = if amem (fired st) h then EV None else occ st inj n a.
Proof. exact occ_DOnce. Qed.
Print Assumptions C02_once.

(* ... and once its first event has passed, it never fires again, whatever script follows *)
Theorem C02_once_only_first : forall st inj p r h a v ops choices st2 a2 inj2 n,
    close_txn st inj p = EV r -> alookup (defs st) h = Some (DOnce a) ->
    occ st inj (F st) h = EV (Some v) ->
    run_script choices (r_state r) ops = EV st2 ->
    alookup (defs st2) h = Some (DOnce a2) ->
    occ st2 inj2 (S n) h = EV None.
Proof. exact once_only_first. Qed.
Print Assumptions C02_once_only_first.

(* a once node is flagged only by a transaction in which it fired *)
Theorem C02_once_flag_only_by_firing : forall st inj p r h,
    close_txn st inj p = EV r -> ~ In h (fired st) ->
    (forall a, In (h, DOnce a) (defs st) -> occ st inj (F st) h = EV None) ->
    ~ In h (fired (r_state r)).
Proof. exact once_not_fired_after. Qed.
Print Assumptions C02_once_flag_only_by_firing.

(* ---- top-level fuel, successful results: whenever the specification yields a value for the node, it
        yields one for its inputs and the values are related as prescribed (no hypothesis on the state) *)

Theorem C02_map_top : forall st inj h a f r,
    alookup (defs st) h = Some (DMap a f) -> occ st inj (F st) h = EV r ->
    exists o, occ st inj (F st) a = EV o /\ r = option_map (app1 f) o.
Proof. exact occ_DMap_EV. Qed.
Print Assumptions C02_map_top.

Theorem C02_filter_top : forall st inj h a p r,
    alookup (defs st) h = Some (DFilter a p) -> occ st inj (F st) h = EV r ->
    exists o, occ st inj (F st) a = EV o /\ r = filter_occ p o.
Proof. exact occ_DFilter_EV. Qed.
Print Assumptions C02_filter_top.

Theorem C02_merge_top : forall st inj h a b g r,
    alookup (defs st) h = Some (DMerge a b g) -> occ st inj (F st) h = EV r ->
    exists x y, occ st inj (F st) a = EV x /\ occ st inj (F st) b = EV y /\ r = merge_occ g x y.
Proof. exact occ_DMerge_EV. Qed.
Print Assumptions C02_merge_top.

Theorem C02_snapshot_top : forall st inj h a cs g r,
    alookup (defs st) h = Some (DSnapshot a cs g) -> occ st inj (F st) h = EV r ->
    exists o, occ st inj (F st) a = EV o /\ snapshot_occ st cs g o = EV r.
Proof. exact occ_DSnapshot_EV. Qed.
Print Assumptions C02_snapshot_top.

Theorem C02_gate_top : forall st inj h a c r,
    alookup (defs st) h = Some (DGate a c) -> occ st inj (F st) h = EV r ->
    exists o, occ st inj (F st) a = EV o /\ gate_ev st c o = EV r.
Proof. exact occ_DGate_EV. Qed.
Print Assumptions C02_gate_top.

Theorem C02_once_top : forall st inj h a r,
    alookup (defs st) h = Some (DOnce a) -> occ st inj (F st) h = EV r ->
    (In h (fired st) /\ r = None) \/ (~ In h (fired st) /\ occ st inj (F st) a = EV r).
Proof. exact occ_DOnce_EV. Qed.
Print Assumptions C02_once_top.

(* ---- top-level fuel, legal states: the equations hold with [F st] on both sides, errors included *)

Theorem C02_map_legal : forall st inj rc ro, LegalR st inj rc ro -> forall h a f,
    alookup (defs st) h = Some (DMap a f) ->
    occ st inj (F st) h = elet o <- occ st inj (F st) a; EV (option_map (app1 f) o).
Proof. exact occ_DMap_L. Qed.
Print Assumptions C02_map_legal.

Theorem C02_filter_legal : forall st inj rc ro, LegalR st inj rc ro -> forall h a p,
    alookup (defs st) h = Some (DFilter a p) ->
    occ st inj (F st) h = elet o <- occ st inj (F st) a; EV (filter_occ p o).
Proof. exact occ_DFilter_L. Qed.
Print Assumptions C02_filter_legal.

Theorem C02_merge_legal : forall st inj rc ro, LegalR st inj rc ro -> forall h a b g,
    alookup (defs st) h = Some (DMerge a b g) ->
    occ st inj (F st) h =
    elet x <- occ st inj (F st) a; elet y <- occ st inj (F st) b; EV (merge_occ g x y).
Proof. exact occ_DMerge_L. Qed.
Print Assumptions C02_merge_legal.

Theorem C02_snapshot_legal : forall st inj rc ro, LegalR st inj rc ro -> forall h a cs g,
    alookup (defs st) h = Some (DSnapshot a cs g) ->
    occ st inj (F st) h = elet o <- occ st inj (F st) a; snapshot_occ st cs g o.
Proof. exact occ_DSnapshot_L. Qed.
Print Assumptions C02_snapshot_legal.

Theorem C02_gate_legal : forall st inj rc ro, LegalR st inj rc ro -> forall h a c,
    alookup (defs st) h = Some (DGate a c) ->
    occ st inj (F st) h = elet o <- occ st inj (F st) a; gate_ev st c o.
Proof. exact occ_DGate_L. Qed.
Print Assumptions C02_gate_legal.

Theorem C02_once_legal : forall st inj rc ro, LegalR st inj rc ro -> forall h a,
    alookup (defs st) h = Some (DOnce a) ->
    occ st inj (F st) h = if amem (fired st) h then EV None else occ st inj (F st) a.
Proof. exact occ_DOnce_L. Qed.
Print Assumptions C02_once_legal.

(* ---- unbounded depth: a chain of k maps / filters (any k, any functions) *)

Theorem C02_chain_any_fuel : forall st inj src sgs out,
    Chain st src sgs out ->
    forall n, occ st inj (length sgs + n) out = elet o <- occ st inj n src; EV (chain_occ sgs o).
Proof. exact chain_fuel. Qed.
Print Assumptions C02_chain_any_fuel.

Theorem C02_chain_top : forall st inj src sgs out r,
    Chain st src sgs out -> occ st inj (F st) out = EV r ->
    exists o, occ st inj (F st) src = EV o /\ r = chain_occ sgs o.
Proof. exact chain_EV. Qed.
Print Assumptions C02_chain_top.

Theorem C02_chain_legal : forall st inj rc ro src sgs out,
    LegalR st inj rc ro -> Chain st src sgs out ->
    occ st inj (F st) out = elet o <- occ st inj (F st) src; EV (chain_occ sgs o).
Proof. exact chain_L. Qed.
Print Assumptions C02_chain_legal.

Theorem C02_chain_k_maps : forall f k o,
    chain_occ (repeat (StMap f) k) o = option_map (fun v => Nat.iter k (app1 f) v) o.
Proof. exact chain_occ_repeat_map. Qed.
Print Assumptions C02_chain_k_maps.

(* ---- listeners observe exactly the occurrences *)

Theorem C02_listener_calls : forall st inj p r l v,
    close_txn st inj p = EV r ->
    (In (BCall l v) (r_obs r) <-> exists s, In (l, s) (listeners st) /\ occ st inj (F st) s = EV (Some v)).
Proof. exact listener_calls. Qed.
Print Assumptions C02_listener_calls.

(* ---- fuel facts used above *)

Theorem C02_fuel_monotone : forall st inj n s r,
    occ st inj n s = EV r -> forall m, (n <= m)%nat -> occ st inj m s = EV r.
Proof. exact SpecBMono.occ_mono. Qed.
Print Assumptions C02_fuel_monotone.

Theorem C02_fuel_enough : forall st inj ro,
    (forall h d, alookup (defs st) h = Some d -> (ro h < F st)%nat) -> (forall h, occ_ok st inj ro h) ->
    forall n s, (ro s < n)%nat -> occ st inj n s = occ st inj (F st) s.
Proof. exact occ_indep_F. Qed.
Print Assumptions C02_fuel_enough.

(* every state whose instantaneous dependency graph is acyclic (ranks decreasing along dependencies,
   no bound asked) is legal: the ranks can be compressed below [F st]; so the top-level fuel suffices *)
Theorem C02_acyclic_is_legal : forall st inj,
    Legal st inj <-> exists rc ro, (forall h, cur_ok st rc h) /\ (forall h, occ_ok st inj ro h).
Proof. exact Legal_iff_acyclic. Qed.
Print Assumptions C02_acyclic_is_legal.

Theorem C02_enough_fuel : forall st inj rc ro,
    (forall h, cur_ok st rc h) -> (forall h, occ_ok st inj ro h) ->
    forall n, (F st <= n)%nat ->
    (forall c, cur st n c = cur st (F st) c) /\
    (forall s, occ st inj n s = occ st inj (F st) s) /\
    (forall c, upd st inj n c = upd st inj (F st) c).
Proof. exact enough_fuel. Qed.
Print Assumptions C02_enough_fuel.

(* ---- non-vacuity: a program built by script operations (map, filter, merge, snapshot, gate, once over
        two sinks and a constant cell) is legal, and the composition fires as computed *)

Example C02_nonvacuous :
  run_ops init_state ex02_ops = Some ex02_st /\
  LegalR ex02_st ex02_inj ex02_rank ex02_rank /\
  Chain ex02_st 0 [StMap (FAdd 1); StFilter PEven] 4 /\
  occ ex02_st ex02_inj (F ex02_st) 8 = EV (Some (VInt 1000002)) /\
  exists r, close_txn ex02_st ex02_inj [] = EV r /\ r_obs r = [BCall 0 (VInt 1000002)] /\
            fired (r_state r) = [8%nat].
Proof.
  split; [vm_compute; reflexivity|]. split; [exact ex02_legal|]. split; [exact ex02_chain|].
  split; [vm_compute; reflexivity|].
  eexists. split; [vm_compute; reflexivity|]. split; reflexivity.
Qed.
Print Assumptions C02_nonvacuous.
