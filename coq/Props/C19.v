(* Property C19: contexts are isolated. The theorem is the frame property of the model in which all state is
   per context (Model/Contexts.v): in ANY interleaving of operations on any number of contexts, each context
   goes through exactly the states and produces exactly the observations of its own operations run alone -
   also while another context's transaction is open. That all state of the implementation IS per context
   is not proved but checked on every run: source scan for global state, and interleaved (one thread) and
   threaded (one OS thread per context) runs of the real library must equal the solo runs bit-exactly,
   memory accounting included. PARTIAL: real parallel execution is runtime behaviour outside the model. *)
From Coq Require Import List Arith Bool ZArith.
Import ListNotations.
From Sodium Require Import Sodium Contexts ContextsFacts.

Theorem C19_frame : forall ops f f' os,
    run_multi f ops = EV (f', os) ->
    forall i, run_solo (f i) (proj i ops) = EV (f' i, proj i os).
Proof. exact frame. Qed.
Print Assumptions C19_frame.

Theorem C19_untouched : forall ops f f' os i,
    run_multi f ops = EV (f', os) -> (forall x, In x ops -> fst x <> i) -> f' i = f i.
Proof. exact untouched. Qed.
Print Assumptions C19_untouched.

(* non-vacuity: two contexts, B's operations fall inside A's open transaction *)
Example C19_nonvacuous :
  match run_multi (fun _ => init_state)
          [(0, ODef 0 (DSink None)); (1, ODef 0 (DSink None)); (0, OListen 0 0); (1, OListen 0 0);
           (0, OBegin); (0, OSend 0 (VInt 1%Z)); (1, OSend 0 (VInt 7%Z)); (0, OEnd)]%nat with
  | EV (_, os) => (proj 0 os = [[]; []; []; []; [BCall 0 (VInt 1%Z)]] /\ proj 1 os = [[]; []; [BCall 0 (VInt 7%Z)]])%nat
  | EErr _ => False
  end.
Proof. vm_compute. split; reflexivity. Qed.
Print Assumptions C19_nonvacuous.
