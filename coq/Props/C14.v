(* Property C14: transaction brackets balance and leave the context quiescent. Statements only; proofs
   in Proofs/SpecABase.v, Proofs/SpecA14.v. They are about the executable specification Spec/Sodium.v
   ([step], [leave], [end_outer], [close_txn]) for ALL states, operations and choice lists. *)
From Coq Require Import List Arith ZArith.
Import ListNotations.
From Sodium Require Import Sodium SpecABase SpecA14.

(* (a) [closes st o] says exactly when a step takes the depth from 1 to 0 (an operation executed at depth 0
   is bracketed: it opens at depth 1 and closes in the same step) *)
Theorem C14_closes_iff : forall st o,
    closes st o = true <->
    (depth st = 0 /\ is_bracket o = false) \/
    (depth st = 1 /\ (o = OEnd \/ exists t, o = OTClose t /\ alookup (tdone st) t = Some false)).
Proof. exact closes_iff. Qed.
Print Assumptions C14_closes_iff.

(* (a) a closing step = its prelude (the body run at depth 1, or the bracket bookkeeping) followed by the
   end of the outermost transaction, in that same step *)
Theorem C14_closing_step : forall ch st o,
    closes st o = true ->
    step ch st o =
    (elet r <- prelude st o;
     elet e <- end_outer ch (fst r);
     EV (fst (fst e), snd r ++ snd (fst e), snd e)).
Proof. exact step_closing. Qed.
Print Assumptions C14_closing_step.

Theorem C14_prelude_at_depth_1 : forall st o st1 os1,
    closes st o = true -> prelude st o = EV (st1, os1) -> depth st1 = 1 /\ Forall passive os1.
Proof. exact prelude_depth. Qed.
Print Assumptions C14_prelude_at_depth_1.

(* (a) every other step (depth >= 2, or depth 1 and not a closing bracket, or an opening bracket) ends no
   transaction: no listener call, no post, no deferred choice, once-flags untouched, committed cell values
   untouched (except that a constant cell is born with its value), sends / posts only appended;
   and it does not look at the choice list *)
Theorem C14_open_step : forall ch st o st' os a,
    closes st o = false ->
    step ch st o = EV (st', os, a) ->
    a = [] /\ Forall passive os /\ depth st' = depth_after st o /\
    fired st' = fired st /\ sends st' = sends st ++ sent o /\ posts st' = posts st ++ posted o /\
    (cvals st' = cvals st \/ exists h v, o = OConst h v /\ cvals st' = aset (cvals st) h v) /\
    (forall ch', step ch' st o = EV (st', os, a)).
Proof. exact step_open. Qed.
Print Assumptions C14_open_step.

Theorem C14_calls_and_posts_only_when_closing : forall ch st o st' os a x,
    step ch st o = EV (st', os, a) -> In x os -> (is_call x = true \/ is_post x = true) -> closes st o = true.
Proof. exact step_calls_only_when_closing. Qed.
Print Assumptions C14_calls_and_posts_only_when_closing.

(* (b) closing a closed or unknown scoped transaction changes nothing; closing is idempotent.
   (Dropping a scoped transaction is the same operation [OTClose].) *)
Theorem C14_tclose_noop : forall ch st t,
    alookup (tdone st) t <> Some false -> step ch st (OTClose t) = EV (st, [], []).
Proof. exact tclose_noop. Qed.
Print Assumptions C14_tclose_noop.

Theorem C14_tclose_idempotent : forall ch ch' st t st' os a,
    step ch st (OTClose t) = EV (st', os, a) -> step ch' st' (OTClose t) = EV (st', [], []).
Proof. exact tclose_idem. Qed.
Print Assumptions C14_tclose_idempotent.

(* (c) quiescence: a closing step always ends quiescent; and "depth 0 implies quiescent" is an invariant
   of [step] (hence of every script run from [init_state]) *)
Theorem C14_closing_step_quiescent : forall ch st o st' os a,
    closes st o = true -> step ch st o = EV (st', os, a) ->
    depth st' = 0 /\ sends st' = [] /\ posts st' = [] /\ fresh st' = [] /\ inits st' = [] /\ linit st' = [].
Proof. exact step_closing_quiescent. Qed.
Print Assumptions C14_closing_step_quiescent.

Theorem C14_quiescent_at_depth_0 : forall ch st o st' os a,
    (depth st = 0 -> quiescent st) ->
    step ch st o = EV (st', os, a) -> depth st' = 0 ->
    sends st' = [] /\ posts st' = [] /\ fresh st' = [] /\ inits st' = [] /\ linit st' = [].
Proof. exact step_quiescent_fields. Qed.
Print Assumptions C14_quiescent_at_depth_0.

Theorem C14_run_quiescent : forall ch ops st' os,
    run ch 0 init_state ops = EV (st', os) -> depth st' = 0 -> quiescent st'.
Proof. exact run_init_quiescent. Qed.
Print Assumptions C14_run_quiescent.

(* (c) the empty transaction observes nothing and changes none of the tables *)
Theorem C14_empty_transaction : forall ch ch' st st1 os1 a1 st2 os2 a2,
    quiescent st ->
    step ch st OBegin = EV (st1, os1, a1) -> step ch' st1 OEnd = EV (st2, os2, a2) ->
    os1 = [] /\ os2 = [] /\ a2 = [] /\ quiescent st2 /\ fired st2 = fired st /\
    defs st2 = defs st /\ listeners st2 = listeners st /\ loops st2 = loops st /\ tdone st2 = tdone st.
Proof. exact empty_txn. Qed.
Print Assumptions C14_empty_transaction.

(* (c) a transaction without sends and without a freshly created value() stream calls no listener *)
Theorem C14_silent_transaction_no_call : forall ch st o st' os a,
    closes st o = true ->
    (forall st1 os1, prelude st o = EV (st1, os1) -> sends st1 = [] /\ no_fresh_value st1) ->
    step ch st o = EV (st', os, a) -> forall x, In x os -> is_call x = false.
Proof. exact silent_step_no_call. Qed.
Print Assumptions C14_silent_transaction_no_call.

(* (d) depth arithmetic *)
Theorem C14_depth_step : forall ch st o st' os a,
    step ch st o = EV (st', os, a) -> depth st' = depth_after st o.
Proof. exact step_depth. Qed.
Print Assumptions C14_depth_step.

Theorem C14_nested_depth : forall ops, nested ops ->
    forall ch i st st' os, run ch i st ops = EV (st', os) -> depth st' = depth st.
Proof. exact run_nested_depth. Qed.
Print Assumptions C14_nested_depth.

Theorem C14_n_begins_n_ends : forall n ch i st st' os,
    run ch i st (repeat OBegin n ++ repeat OEnd n) = EV (st', os) -> depth st' = depth st.
Proof. exact run_repeat_depth. Qed.
Print Assumptions C14_n_begins_n_ends.

(* an unmatched OEnd (depth 0) is ignored by the specification: same state, nothing observed *)
Theorem C14_end_at_depth_0 : forall ch st, depth st = 0 -> step ch st OEnd = EV (st, [], []).
Proof. exact end_at_depth0. Qed.
Print Assumptions C14_end_at_depth_0.

(* the hypothesis of C14_quiescent_at_depth_0 cannot be dropped: on a state that no script reaches (depth 0
   with pending sends) an unmatched OEnd changes nothing *)
Example C14_quiescence_needs_invariant :
  let st := mkState [] [] [] [] [] [] [] [] 0 [] [(0, VInt 1)] [] [] in
  step [] st OEnd = EV (st, [], []) /\ depth st = 0 /\ sends st <> [].
Proof. exact quiescence_needs_invariant. Qed.
Print Assumptions C14_quiescence_needs_invariant.

(* non-vacuity: the hypotheses are satisfiable and the runs exist *)
Example C14_nonvacuous :
  quiescent init_state /\ (depth init_state = 0 -> quiescent init_state) /\
  closes init_state (OSend 0 (VInt 1)) = true /\
  (exists st' os, run (fun _ => []) 0 init_state
                      [ODef 0 (DSink None); OListen 1 0; OBegin; OBegin; OSend 0 (VInt 5); OEnd; OEnd]
                  = EV (st', os) /\ os = [BCall 1 (VInt 5)] /\ depth st' = 0) /\
  (exists st' os, run (fun _ => []) 0 init_state (repeat OBegin 3 ++ repeat OEnd 3) = EV (st', os)).
Proof.
  split; [repeat split|]. split; [intros _; repeat split|]. split; [reflexivity|].
  split; [eexists; eexists; split; [vm_compute; reflexivity | split; reflexivity]|].
  eexists; eexists; vm_compute; reflexivity.
Qed.
Print Assumptions C14_nonvacuous.
