(* Property C08: the cycle collector frees exactly the unreachable objects, once, counts exact.
   Statements only; proofs in Proofs/GcExact*.v. Unbounded: any number of objects, any graph with
   multi-edges and self-loops, any length of contract-respecting operation sequence. The model
   Model/Gc.v is tied to /repo/src/impl_/gc_node.rs by the correspondence check (complete hidden
   state equal after every operation of every bounded script). *)
From Coq Require Import List Arith Bool.
Import ListNotations.
From Sodium Require Import Gc GcExactBase GcExactInv GcExact.

(* every contract-respecting run from the empty context succeeds (no internal panic, no fuel
   exhaustion) and ends in a state satisfying the invariant WF *)
Theorem C08_no_panic : forall ops,
    svalid_run sinit ops = true -> exists s, srun sinit ops = Ok s /\ WF s.
Proof. exact never_stuck. Qed.
Print Assumptions C08_no_panic.

Theorem C08_step : forall s op,
    WF s -> svalid s op = true -> exists s', sstep s op = Ok s' /\ WF s'.
Proof. exact sstep_WF. Qed.
Print Assumptions C08_step.

(* what the invariant says: counts are exact (handles + incoming edges), scratch fields are clean, the
   candidate buffer is consistent, and every unreachable object is covered by a purple buffered root *)
Theorem C08_counts_exact : forall s, WF s ->
    length (ext s) = nobjs (g s) /\
    to_be_freed (g s) = [] /\ NoDup (roots (g s)) /\
    (forall r, In r (roots (g s)) -> r < nobjs (g s)) /\
    (forall o, o < nobjs (g s) ->
       let ob := get (g s) o in
       (forall t, In t (edges ob) -> t < nobjs (g s)) /\
       rc ob = ext_of s o + in_edges (g s) o /\
       (freed ob = true -> rc ob = 0 /\ edges ob = [] /\ ext_of s o = 0) /\
       adj ob = 0 /\ visited ob = false /\
       (col ob = Black \/ col ob = Purple) /\
       (freed ob = false -> (In o (roots (g s)) <-> buffered ob = true)) /\
       (freed ob = false -> ~ live s o ->
          ~ ~ exists r, In r (roots (g s)) /\ col (get (g s) r) = Purple /\ reach (E (g s)) r o)).
Proof. exact WF_facts. Qed.
Print Assumptions C08_counts_exact.

(* a collection frees precisely the objects not reachable from externally held handles, runs each
   freed object's destructor exactly once and no other, leaves survivors' edges untouched, and
   returns with an empty candidate buffer *)
Theorem C08_exact : forall s s',
    WF s -> sstep s GCollect = Ok s' ->
    roots (g s') = [] /\ to_be_freed (g s') = [] /\ ext s' = ext s /\ nobjs (g s') = nobjs (g s) /\
    forall o, o < nobjs (g s) ->
      (freed (get (g s') o) = true <-> (freed (get (g s) o) = true \/ ~ live s o)) /\
      dtor_runs (get (g s') o) = dtor_runs (get (g s) o) +
        (if freed (get (g s) o) then 0 else if freed (get (g s') o) then 1 else 0) /\
      (freed (get (g s') o) = false -> edges (get (g s') o) = edges (get (g s) o)).
Proof. exact collect_exact. Qed.
Print Assumptions C08_exact.

(* nothing is ever freed outside a collection *)
Theorem C08_only_collect_frees : forall s op s',
    WF s -> svalid s op = true -> op <> GCollect -> sstep s op = Ok s' ->
    forall o, freed (get (g s') o) = true -> freed (get (g s) o) = true.
Proof. exact mutator_never_frees_all. Qed.
Print Assumptions C08_only_collect_frees.

(* in every reachable state every destructor has run at most once, and exactly once iff freed *)
Theorem C08_once : forall ops s,
    srun sinit ops = Ok s -> svalid_run sinit ops = true ->
    forall o, o < nobjs (g s) ->
      dtor_runs (get (g s) o) <= 1 /\ (dtor_runs (get (g s) o) = 1 <-> freed (get (g s) o) = true).
Proof. exact dtor_exact. Qed.
Print Assumptions C08_once.

(* non-vacuity: a script with two cyclic components (self-loops, a double edge), one garbage and one
   live, is contract-respecting and the collector frees exactly the garbage component *)
Example C08_nonvacuous :
  svalid_run sinit example_script = true /\
  match srun sinit example_script with
  | Ok s => map freed (objs (g s)) = [true; true; false; false] /\
            map dtor_runs (objs (g s)) = [1; 1; 0; 0] /\
            map edges (objs (g s)) = [[]; []; [3; 3]; [2; 3]] /\
            map rc (objs (g s)) = [0; 0; 2; 3] /\
            roots (g s) = [] /\ to_be_freed (g s) = [] /\ ext s = [0; 0; 1; 0]
  | _ => False
  end.
Proof. split; [exact example_valid | exact example_exact]. Qed.
Print Assumptions C08_nonvacuous.
