(* Refinement of the operational engine to the denotational specification on the static combinational
   fragment (used by C02, C03, C04, C13). Statements only; proofs in Proofs/NetRefine.v.
   Model/Net.v = the engine of Model/Engine.v (tied to update_node/end_of_transaction by the C03
   correspondence: update logs and firings equal) running the transliterated update closures of the
   primitives, one node per definition. *)
From Coq Require Import List Arith Permutation.
Import ListNotations.
From Sodium Require Import Sodium Engine EngineTop Net NetRefine.

(* ONE TRANSACTION: for every program of the fragment (map, filter, merge, snapshot, gate, once, hold,
   constants, map_c, lift, updates, loops, router/route; any size, any depth of composition, any
   function codes), every pre-transaction state and every set of simultaneous sends: the engine's
   propagation terminates; every stream node ends with exactly the occurrence the specification assigns,
   every cell node with exactly the specified update; every update closure ran at most once and only
   after all of its inputs had settled. *)
Theorem Refine_transaction : forall st inj,
    in_fragment st = true -> NoDup (map fst (defs st)) -> refs_ok st = true -> cells_resolved st = true ->
    acyclic st ->
    exists fires lg,
      net_txn st inj = Some (fires, lg) /\
      length fires = nsize st /\
      (forall s d, alookup (defs st) s = Some d -> is_cell d = false ->
                   occ st inj (F st) s = EV (fire_of fires s)) /\
      (forall c d, alookup (defs st) c = Some d -> is_cell d = true ->
                   upd st inj (F st) c = EV (fire_of fires c)) /\
      updates_once_after_deps st fires lg.
Proof. exact net_txn_refines. Qed.
Print Assumptions Refine_transaction.

(* ... for EVERY graph with these dependencies (any registration order of dependents) and EVERY queue
   order of the sends *)
Theorem Refine_any_order : forall st inj gr fs,
    in_fragment st = true -> NoDup (map fst (defs st)) -> refs_ok st = true -> cells_resolved st = true ->
    acyclic st -> net_graph st gr -> Permutation fs (net_sources st inj) ->
    exists fires lg,
      net_run st gr fs = Some (fires, lg) /\
      length fires = nsize st /\
      (forall s d, alookup (defs st) s = Some d -> is_cell d = false ->
                   occ st inj (F st) s = EV (fire_of fires s)) /\
      (forall c d, alookup (defs st) c = Some d -> is_cell d = true ->
                   upd st inj (F st) c = EV (fire_of fires c)) /\
      updates_once_after_deps st fires lg.
Proof. exact net_refines. Qed.
Print Assumptions Refine_any_order.

(* EVERY HISTORY: transaction after transaction (engine run, listener calls, commit of cell values and
   once flags) the operational model delivers to every listener exactly what the specification says *)
Theorem Refine_history : forall txns st, static_ok st ->
    exists os, net_history st txns = Some os /\ spec_history st txns = EV os.
Proof. exact net_history_refines. Qed.
Print Assumptions Refine_history.

(* the hypotheses are preserved from transaction to transaction, and are satisfiable: a 21-definition
   program with a diamond, a hold, a snapshot, a lift2, both kinds of loops, once, a router, a gate *)
Theorem Refine_hyps_preserved : forall st fires, static_ok st -> static_ok (net_commit st fires).
Proof. exact static_ok_commit. Qed.
Print Assumptions Refine_hyps_preserved.

Example Refine_nonvacuous : static_ok ex_st.
Proof. exact ex_static_ok. Qed.
Print Assumptions Refine_nonvacuous.
