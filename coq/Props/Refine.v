(* Refinement of the operational engine to the denotational specification on EVERY program: every
   definition kind, switch_c included (used by C02, C03, C04, C13).  Statements only; proofs in
   Proofs/NetRefine.v.
   Model/Net.v = the engine of Model/Engine.v (tied to update_node/end_of_transaction by the C03
   correspondence: update logs and firings equal, also for nodes that demand other nodes from inside their
   update) running the transliterated update closures of the primitives, one node per definition plus one
   spark node per key (the source that value() creates).
   The static wiring is fixed DURING a transaction; switch_s and switch_c are re-wired by the commit (as in
   pre_post / the update closure); within a transaction the node of a switch_c DEMANDS the update stream of
   the cell it switches to (the dynamic-demand stage of the engine, `update_node2(.., true)` called from
   inside the update closure of /repo/src/impl_/cell.rs `switch_c`).

   The hypotheses on the wiring, `wired_ok st inj`:
     switch_targets_ok st  - the outer cell of every switch_s currently refers to a stream, the outer cell of
                             every switch_c to a cell;
     demands_ok st inj     - an outer cell of a switch_c that is updated in this transaction is updated to a
                             reference to a cell (otherwise the specification is Illegal);
     acyclic_dem st inj    - a rank decreases along every static dependency `ndeps` AND along the demand
                             `sdem st inj` each switch_c makes in this transaction (the cell its outer cell is
                             updated to, as the specification computes it).  The POTENTIAL demand targets of a
                             switch_c (`ndem`: every cell of the program) are not constrained.
                             The static dependency of a switch_s is the stream its outer cell held at the
                             start of the transaction, NOT the outer cell (the repaired
                             /repo/src/impl_/cell.rs `switch_s`): the outer cell's update may depend on the
                             switch's own output (Props/K1.v). *)
From Coq Require Import List ZArith Arith Permutation.
Import ListNotations.
From Sodium Require Import Sodium Engine EngineTop Net NetRefine.

(* ONE TRANSACTION: for every program (sinks, map, filter, merge, snapshot, gate, once, hold, constants,
   map_c, lift, updates, loops, router/route, switch_s, switch_c, defer, split, value; any size, any depth of
   composition, any function codes), every pre-transaction state that is wired (above) and every set of
   simultaneous sends / deferred injection: the engine's propagation terminates; every stream node ends
   with exactly the occurrence the specification assigns, every cell node with exactly the specified
   update; every update closure ran at most once and only after all of its inputs - static dependencies
   and demanded nodes - had settled. *)
Theorem Refine_transaction : forall st inj,
    NoDup (map fst (defs st)) -> refs_ok st = true -> cells_resolved st = true ->
    switch_targets_ok st = true -> demands_ok st inj = true -> acyclic_dem st inj ->
    exists fires lg,
      net_txn st inj = Some (fires, lg) /\
      length fires = gsize st /\
      (forall s d, alookup (defs st) s = Some d -> is_cell d = false ->
                   occ st inj (F st) s = EV (fire_of fires s)) /\
      (forall c d, alookup (defs st) c = Some d -> is_cell d = true ->
                   upd st inj (F st) c = EV (fire_of fires c)) /\
      updates_once_after_deps st fires lg.
Proof. exact net_txn_refines. Qed.
Print Assumptions Refine_transaction.

(* no definition kind is excluded: the former fragment predicate holds of every state *)
Theorem Refine_fragment_is_everything : forall st, in_fragment st = true.
Proof. exact in_fragment_all. Qed.
Print Assumptions Refine_fragment_is_everything.

(* ... for EVERY graph with these dependencies (any registration order of dependents) and EVERY queue
   order of the sources *)
Theorem Refine_any_order : forall st inj gr fs,
    NoDup (map fst (defs st)) -> refs_ok st = true -> cells_resolved st = true ->
    switch_targets_ok st = true -> demands_ok st inj = true -> acyclic_dem st inj ->
    net_graph st gr -> Permutation fs (net_sources st inj) ->
    exists fires lg,
      net_run st gr fs = Some (fires, lg) /\
      length fires = gsize st /\
      (forall s d, alookup (defs st) s = Some d -> is_cell d = false ->
                   occ st inj (F st) s = EV (fire_of fires s)) /\
      (forall c d, alookup (defs st) c = Some d -> is_cell d = true ->
                   upd st inj (F st) c = EV (fire_of fires c)) /\
      updates_once_after_deps st fires lg.
Proof. exact net_refines. Qed.
Print Assumptions Refine_any_order.

(* THE CLOSE of a transaction: listener calls, committed state (cell values, once flags) and the work
   deferred by defer / split are those of the specification *)
Theorem Refine_close : forall st inj posts fires lg,
    NoDup (map fst (defs st)) -> refs_ok st = true -> cells_resolved st = true ->
    switch_targets_ok st = true -> demands_ok st inj = true -> listeners_ok st = true -> lazies_val st = true ->
    acyclic_dem st inj ->
    net_txn st inj = Some (fires, lg) ->
    close_txn st inj posts =
    EV (mkRes (net_commit st fires) (net_calls st fires)
              (net_deferred st fires ++ map (fun p => DPost (fst p) (snd p)) posts)).
Proof. exact close_txn_refines. Qed.
Print Assumptions Refine_close.

(* EVERY HISTORY: transaction after transaction (engine run, listener calls, commit of cell values and
   once flags, switches re-wired) the operational model delivers to every listener exactly what the
   specification says - provided every state in which a transaction is run is wired for what that
   transaction sends (switch targets are streams / cells, no instantaneous cycle through dependencies and
   demands): history_ok st txns *)
Theorem Refine_history : forall txns st, static_ok st -> history_ok st txns ->
    exists os, net_history st txns = Some os /\ spec_history st txns = EV os.
Proof. exact net_history_refines. Qed.
Print Assumptions Refine_history.

(* without switch_s and switch_c the wiring never changes, nothing is demanded, and nothing is assumed of the
   later states *)
Theorem Refine_history_no_switch : forall txns st, static_ok st -> no_switch st = true -> acyclic st ->
    exists os, net_history st txns = Some os /\ spec_history st txns = EV os.
Proof. exact net_history_refines_no_switch. Qed.
Print Assumptions Refine_history_no_switch.

(* AN OUTERMOST CLOSE with its deferred queue (defer, split, post), for every list of scheduling choices:
   final state, observations in order and numbers of alternatives are those of Spec.end_outer (None = out
   of fuel, exactly when the specification is) *)
Theorem Refine_end_outer : forall choice st,
    static_ok st -> posts_ok st (posts st) = true -> outer_ok choice st ->
    end_outer choice st = of_opt (net_end_outer choice st).
Proof. exact net_end_outer_refines. Qed.
Print Assumptions Refine_end_outer.

(* ... with an invariant of the commits in place of the run-dependent predicate: every choice list *)
Theorem Refine_end_outer_inv : forall P : state -> Prop,
    (forall st inj, P st -> wired_ok st inj) ->
    (forall st inj fires lg, P st -> net_txn st inj = Some (fires, lg) -> P (net_commit st fires)) ->
    forall choice st, static_ok st -> posts_ok st (posts st) = true -> P st ->
    end_outer choice st = of_opt (net_end_outer choice st).
Proof. exact net_end_outer_refines_inv. Qed.
Print Assumptions Refine_end_outer_inv.

Theorem Refine_end_outer_no_switch : forall choice st,
    static_ok st -> posts_ok st (posts st) = true -> no_switch st = true -> acyclic st ->
    end_outer choice st = of_opt (net_end_outer choice st).
Proof. exact net_end_outer_refines_no_switch. Qed.
Print Assumptions Refine_end_outer_no_switch.

(* histories of outermost transactions (sends, post closures, choices) *)
Theorem Refine_outer_history : forall txns st, static_ok st -> outer_history_ok st txns ->
    spec_outer_history st txns = of_opt (net_outer_history st txns).
Proof. exact net_outer_history_refines. Qed.
Print Assumptions Refine_outer_history.

(* the static hypotheses are preserved from transaction to transaction; the wiring hypotheses too when
   there is no switch_s / switch_c *)
Theorem Refine_hyps_preserved : forall st fires, static_ok st -> static_ok (net_commit st fires).
Proof. exact static_ok_commit. Qed.
Print Assumptions Refine_hyps_preserved.

Theorem Refine_wiring_preserved : forall st fires inj inj',
    no_switch st = true -> wired_ok st inj -> wired_ok (net_commit st fires) inj'.
Proof. exact wired_ok_commit_no_switch. Qed.
Print Assumptions Refine_wiring_preserved.

(* the hypotheses are satisfiable: a 37-definition program with a diamond, a hold, a snapshot, a lift2,
   both kinds of loops, once, a router, a gate, a switch_s over two candidate streams that is re-wired
   twice during the example histories, a defer, a split, two value()s, and a switch_c between two candidate
   cells - re-wired three times - one of which is updated in the very transaction of the first switch: the
   node of the switch_c demands it (sdem = [36]) and fires that update, 201, not the cell's old value *)
Example Refine_nonvacuous :
  static_ok ex_st /\ wired_ok ex_st ex_inj /\ history_ok ex_st ex_txns /\ outer_history_ok ex_st ex_otxns /\
  (exists c, alookup (defs ex_st) 23 = Some (DSwitchS c)) /\ (exists a, alookup (defs ex_st) 24 = Some (DDefer a)) /\
  (exists c, alookup (defs ex_st) 33 = Some (DSwitchC c)) /\
  sdem ex_st ex_inj 33 = [36] /\ alookup (cvals ex_st) 36 = Some (VInt 0%Z) /\
  upd ex_st ex_inj (F ex_st) 36 = EV (Some (VInt 201%Z)) /\ upd ex_st ex_inj (F ex_st) 33 = EV (Some (VInt 201%Z)) /\
  option_map (fun r => fire_of (fst r) 33) (net_txn ex_st ex_inj) = Some (Some (VInt 201%Z)).
Proof.
  split; [exact ex_static_ok|]. split; [exact ex_wired_ok|]. split; [exact ex_history_ok|].
  split; [exact ex_outer_history_ok|]. split; [exact (ex_intro _ 22 eq_refl)|]. split; [exact (ex_intro _ 23 eq_refl)|].
  split; [exact (ex_intro _ 32 eq_refl)|]. vm_compute. repeat split.
Qed.
Print Assumptions Refine_nonvacuous.

(* the acyclicity of the demands is needed: a switch_c that switches to a cell fed by its own output *)
Example Refine_demand_cycle_excluded :
  static_ok cd_st /\ switch_targets_ok cd_st = true /\ acyclic cd_st /\
  demands_ok cd_st [(0, VInt 5%Z)] = true /\ sdem cd_st [(0, VInt 5%Z)] 3 = [6] /\
  ~ acyclic_dem cd_st [(0, VInt 5%Z)] /\
  upd cd_st [(0, VInt 5%Z)] (F cd_st) 3 = EErr Illegal.
Proof.
  destruct cd_cyclic_demand as (A & B & C & D & E & G & _).
  exact (conj A (conj B (conj C (conj D (conj E (conj cd_not_acyclic_dem G)))))).
Qed.
Print Assumptions Refine_demand_cycle_excluded.
