(* Refinement of the operational engine to the denotational specification on every program without
   switch_c (used by C02, C03, C04, C13).  Statements only; proofs in Proofs/NetRefine.v.
   Model/Net.v = the engine of Model/Engine.v (tied to update_node/end_of_transaction by the C03
   correspondence: update logs and firings equal) running the transliterated update closures of the
   primitives, one node per definition plus one spark node per key (the source that value() creates).
   The wiring is fixed DURING a transaction; switch_s is re-wired by the commit (as in pre_post). *)
From Coq Require Import List Arith Permutation.
Import ListNotations.
From Sodium Require Import Sodium Engine EngineTop Net NetRefine.

(* ONE TRANSACTION: for every program of the fragment (map, filter, merge, snapshot, gate, once, hold,
   constants, map_c, lift, updates, loops, router/route, switch_s, defer, split, value; any size, any
   depth of composition, any function codes), every pre-transaction state in which the outer cell of
   every switch_s refers to a stream and the graph so wired is acyclic, and every set of simultaneous
   sends / deferred injection: the engine's propagation terminates; every stream node ends with exactly
   the occurrence the specification assigns, every cell node with exactly the specified update; every
   update closure ran at most once and only after all of its inputs had settled. *)
Theorem Refine_transaction : forall st inj,
    in_fragment st = true -> NoDup (map fst (defs st)) -> refs_ok st = true -> cells_resolved st = true ->
    switch_targets_ok st = true -> acyclic st ->
    exists fires lg,
      net_txn st inj = Some (fires, lg) /\
      length fires = gsize st /\
      (forall s d, alookup (defs st) s = Some d -> is_cell d = false ->
                   occ st inj (F st) s = EV (fire_of fires s)) /\
      (forall c d, alookup (defs st) c = Some d -> is_cell d = true ->
                   upd st inj (F st) c = EV (fire_of fires c)) /\
      updates_once_after_deps st fires lg.
Proof. exact net_txn_refines. Qed.
Print Assumptions Refine_transaction.

(* ... for EVERY graph with these dependencies (any registration order of dependents) and EVERY queue
   order of the sources *)
Theorem Refine_any_order : forall st inj gr fs,
    in_fragment st = true -> NoDup (map fst (defs st)) -> refs_ok st = true -> cells_resolved st = true ->
    switch_targets_ok st = true -> acyclic st -> net_graph st gr -> Permutation fs (net_sources st inj) ->
    exists fires lg,
      net_run st gr fs = Some (fires, lg) /\
      length fires = gsize st /\
      (forall s d, alookup (defs st) s = Some d -> is_cell d = false ->
                   occ st inj (F st) s = EV (fire_of fires s)) /\
      (forall c d, alookup (defs st) c = Some d -> is_cell d = true ->
                   upd st inj (F st) c = EV (fire_of fires c)) /\
      updates_once_after_deps st fires lg.
Proof. exact net_refines. Qed.
Print Assumptions Refine_any_order.

(* THE CLOSE of a transaction: listener calls, committed state (cell values, once flags) and the work
   deferred by defer / split are those of the specification *)
Theorem Refine_close : forall st inj posts fires lg,
    in_fragment st = true -> NoDup (map fst (defs st)) -> refs_ok st = true -> cells_resolved st = true ->
    switch_targets_ok st = true -> listeners_ok st = true -> lazies_val st = true -> acyclic st ->
    net_txn st inj = Some (fires, lg) ->
    close_txn st inj posts =
    EV (mkRes (net_commit st fires) (net_calls st fires)
              (net_deferred st fires ++ map (fun p => DPost (fst p) (snd p)) posts)).
Proof. exact close_txn_refines. Qed.
Print Assumptions Refine_close.

(* EVERY HISTORY: transaction after transaction (engine run, listener calls, commit of cell values and
   once flags, switches re-wired) the operational model delivers to every listener exactly what the
   specification says - provided every state in which a transaction is run is wired (switch targets are
   streams, no instantaneous cycle): history_ok st txns *)
Theorem Refine_history : forall txns st, static_ok st -> history_ok st txns ->
    exists os, net_history st txns = Some os /\ spec_history st txns = EV os.
Proof. exact net_history_refines. Qed.
Print Assumptions Refine_history.

(* without switch_s the wiring never changes and nothing is assumed of the later states *)
Theorem Refine_history_no_switch : forall txns st, static_ok st -> no_switch st = true -> acyclic st ->
    exists os, net_history st txns = Some os /\ spec_history st txns = EV os.
Proof. exact net_history_refines_no_switch. Qed.
Print Assumptions Refine_history_no_switch.

(* AN OUTERMOST CLOSE with its deferred queue (defer, split, post), for every list of scheduling choices:
   final state, observations in order and numbers of alternatives are those of Spec.end_outer (None = out
   of fuel, exactly when the specification is) *)
Theorem Refine_end_outer : forall choice st,
    static_ok st -> posts_ok st (posts st) = true -> outer_ok choice st ->
    end_outer choice st = of_opt (net_end_outer choice st).
Proof. exact net_end_outer_refines. Qed.
Print Assumptions Refine_end_outer.

(* ... with an invariant of the commits in place of the run-dependent predicate: every choice list *)
Theorem Refine_end_outer_inv : forall P : state -> Prop,
    (forall st, P st -> wired_ok st) ->
    (forall st inj fires lg, P st -> net_txn st inj = Some (fires, lg) -> P (net_commit st fires)) ->
    forall choice st, static_ok st -> posts_ok st (posts st) = true -> P st ->
    end_outer choice st = of_opt (net_end_outer choice st).
Proof. exact net_end_outer_refines_inv. Qed.
Print Assumptions Refine_end_outer_inv.

Theorem Refine_end_outer_no_switch : forall choice st,
    static_ok st -> posts_ok st (posts st) = true -> no_switch st = true -> acyclic st ->
    end_outer choice st = of_opt (net_end_outer choice st).
Proof. exact net_end_outer_refines_no_switch. Qed.
Print Assumptions Refine_end_outer_no_switch.

(* histories of outermost transactions (sends, post closures, choices) *)
Theorem Refine_outer_history : forall txns st, static_ok st -> outer_history_ok st txns ->
    spec_outer_history st txns = of_opt (net_outer_history st txns).
Proof. exact net_outer_history_refines. Qed.
Print Assumptions Refine_outer_history.

(* the static hypotheses are preserved from transaction to transaction; the wiring hypotheses too when
   there is no switch_s *)
Theorem Refine_hyps_preserved : forall st fires, static_ok st -> static_ok (net_commit st fires).
Proof. exact static_ok_commit. Qed.
Print Assumptions Refine_hyps_preserved.

Theorem Refine_wiring_preserved : forall st fires,
    no_switch st = true -> wired_ok st -> wired_ok (net_commit st fires).
Proof. exact wired_ok_commit_no_switch. Qed.
Print Assumptions Refine_wiring_preserved.

(* the hypotheses are satisfiable: a 31-definition program with a diamond, a hold, a snapshot, a lift2,
   both kinds of loops, once, a router, a gate, a switch_s over two candidate streams that is re-wired
   twice during the example histories, a defer, a split and two value()s *)
Example Refine_nonvacuous :
  static_ok ex_st /\ wired_ok ex_st /\ history_ok ex_st ex_txns /\ outer_history_ok ex_st ex_otxns /\
  (exists c, alookup (defs ex_st) 23 = Some (DSwitchS c)) /\ (exists a, alookup (defs ex_st) 24 = Some (DDefer a)).
Proof.
  exact (conj ex_static_ok (conj ex_wired_ok (conj ex_history_ok (conj ex_outer_history_ok
          (conj (ex_intro _ 22 eq_refl) (ex_intro _ 23 eq_refl)))))).
Qed.
Print Assumptions Refine_nonvacuous.
