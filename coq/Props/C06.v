(* Property C06: nothing reachable from a live handle or registered listener is ever reclaimed; no
   internal reference-counting abort. Statements only; proofs in Proofs/GcExact*.v, Proofs/GcHeap.v.
   The theorems are about the collector model (Model/Gc.v, tied bit-exactly to gc_node.rs) under the
   contract WF "count = handles + reported edges". That the FRP primitives keep this contract is not proved
   but MEASURED on the real heap by the harness's audit after every collection (rc of every reachable node
   = handles held + edges reported by the real tracers), see DESIGN.md; observational transparency of
   clone/drop/gc is the specification correspondence of this property's profile. *)
From Coq Require Import List Arith Bool.
Import ListNotations.
From Sodium Require Import Gc GcExactBase GcExactInv GcExact GcHeap Heap HeapFacts HeapGhost.

(* through ANY contract-respecting interleaving of handle clones, drops, edge changes, transient upgrades
   and collections, an object reachable from a held handle is never freed *)
Theorem C06_reachable_never_reclaimed : forall ops s,
    srun sinit ops = Ok s -> svalid_run sinit ops = true ->
    forall o, live s o -> freed (get (g s) o) = false.
Proof. exact reachable_never_reclaimed. Qed.
Print Assumptions C06_reachable_never_reclaimed.

Theorem C06_live_kept_by_collect : forall s s',
    WF s -> sstep s GCollect = Ok s' ->
    forall o, o < nobjs (g s) -> live s o -> freed (get (g s') o) = false.
Proof. exact after_collect_live_kept. Qed.
Print Assumptions C06_live_kept_by_collect.

(* no internal consistency panic (adjusted count above count, freed node with non-zero count, inc_ref
   on a freed node) and no fuel exhaustion in any contract-respecting run *)
Theorem C06_no_abort : forall ops,
    svalid_run sinit ops = true -> exists s, srun sinit ops = Ok s /\ WF s.
Proof. exact never_stuck. Qed.
Print Assumptions C06_no_abort.

(* nothing is freed outside a collection *)
Theorem C06_only_collect_frees : forall s op s',
    WF s -> svalid s op = true -> op <> GCollect -> sstep s op = Ok s' ->
    forall o, freed (get (g s') o) = true -> freed (get (g s) o) = true.
Proof. exact mutator_never_frees_all. Qed.
Print Assumptions C06_only_collect_frees.

Example C06_nonvacuous : svalid_run sinit example_script = true.
Proof. exact example_valid. Qed.
Print Assumptions C06_nonvacuous.

(* ---- the FRP level (Model/Heap.v: every primitive of the static fragment compiled to collector operations, tied
   object by object to the real heap by the correspondence check) ---- *)

(* every program runs without any reference-counting abort and keeps the contract WF *)
Theorem C06_program_no_abort : forall ops, exists st, hrun hinit ops = Ok st /\ WF (hs st).
Proof. exact hrun_total. Qed.
Print Assumptions C06_program_no_abort.

(* the collector's handle count of every object is exactly what the program's slots and listeners hold on it *)
Theorem C06_program_handles_exact : forall ops st,
    hrun hinit ops = Ok st -> forall o, ext_of (hs st) o = count_occ Nat.eq_dec (held st) o.
Proof. exact hrun_tracked. Qed.
Print Assumptions C06_program_handles_exact.

(* in every state any program reaches, whatever is reachable from a handle the program holds (a slot, a registered
   listener, the context's keep-alive of a strong listener) is not freed *)
Theorem C06_program_held_never_freed : forall ops st,
    hrun hinit ops = Ok st ->
    forall h o, In h (held st) -> reach (E (g (hs st))) h o -> freed (get (g (hs st)) o) = false.
Proof. exact program_held_never_freed. Qed.
Print Assumptions C06_program_held_never_freed.

(* the model's ghost handles (its way of navigating cell -> updates stream under Gc.v's ownership contract) never keep
   anything alive that the handles the program really holds would not keep alive: the live heap is the one the view shows *)
Theorem C06_ghosts_do_not_extend_life : forall ops st,
    hrun hinit ops = Ok st ->
    forall o, (exists h, In h (held st) /\ reach (E (g (hs st))) h o) <->
              (exists h, In h (real_held st) /\ reach (E (g (hs st))) h o).
Proof. exact ghosts_do_not_extend_life. Qed.
Print Assumptions C06_ghosts_do_not_extend_life.

(* non-vacuity: an accumulator over a sink, listened to, then the sink's handle dropped and a collection run: the
   sink (object 0) is still held up by the accumulator's snapshot node and is not freed *)
Example C06_program_nonvacuous :
  match hrun hinit [HDef 0 PSink [] []; HDef 1 PAccum [0] []; HDef 2 PValue [1] []; HListen 0 2 true; HDrop 0; HCollect] with
  | Ok st => map (fun o => freed (get (g (hs st)) o)) (seq 0 (nobjs (g (hs st))))
             = [false; false; true; false; false; false; false; false; false; false]
             /\ length (held st) = 5
  | _ => False
  end.
Proof. vm_compute. split; reflexivity. Qed.
Print Assumptions C06_program_nonvacuous.
