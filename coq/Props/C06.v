(* Property C06: nothing reachable from a live handle or registered listener is ever reclaimed; no
   internal reference-counting abort. Statements only; proofs in Proofs/GcExact*.v, Proofs/GcHeap.v.
   The theorems are about the collector model (Model/Gc.v, tied bit-exactly to gc_node.rs) under the
   contract WF "count = handles + reported edges". That the FRP primitives keep this contract is not proved
   but MEASURED on the real heap by the harness's audit after every collection (rc of every reachable node
   = handles held + edges reported by the real tracers), see DESIGN.md; observational transparency of
   clone/drop/gc is the specification correspondence of this property's profile. *)
From Coq Require Import List Arith Bool.
Import ListNotations.
From Sodium Require Import Gc GcExactBase GcExactInv GcExact GcHeap.

(* through ANY contract-respecting interleaving of handle clones, drops, edge changes, transient upgrades
   and collections, an object reachable from a held handle is never freed *)
Theorem C06_reachable_never_reclaimed : forall ops s,
    srun sinit ops = Ok s -> svalid_run sinit ops = true ->
    forall o, live s o -> freed (get (g s) o) = false.
Proof. exact reachable_never_reclaimed. Qed.
Print Assumptions C06_reachable_never_reclaimed.

Theorem C06_live_kept_by_collect : forall s s',
    WF s -> sstep s GCollect = Ok s' ->
    forall o, o < nobjs (g s) -> live s o -> freed (get (g s') o) = false.
Proof. exact after_collect_live_kept. Qed.
Print Assumptions C06_live_kept_by_collect.

(* no internal consistency panic (adjusted count above count, freed node with non-zero count, inc_ref
   on a freed node) and no fuel exhaustion in any contract-respecting run *)
Theorem C06_no_abort : forall ops,
    svalid_run sinit ops = true -> exists s, srun sinit ops = Ok s /\ WF s.
Proof. exact never_stuck. Qed.
Print Assumptions C06_no_abort.

(* nothing is freed outside a collection *)
Theorem C06_only_collect_frees : forall s op s',
    WF s -> svalid s op = true -> op <> GCollect -> sstep s op = Ok s' ->
    forall o, freed (get (g s') o) = true -> freed (get (g s) o) = true.
Proof. exact mutator_never_frees_all. Qed.
Print Assumptions C06_only_collect_frees.

Example C06_nonvacuous : svalid_run sinit example_script = true.
Proof. exact example_valid. Qed.
Print Assumptions C06_nonvacuous.
