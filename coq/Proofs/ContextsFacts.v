From Coq Require Import List Arith Bool.
Import ListNotations.
From Sodium Require Import Sodium Contexts.

Lemma upd_ctx_same f i s : upd_ctx f i s i = s.
Proof. unfold upd_ctx. rewrite Nat.eqb_refl. reflexivity. Qed.

Lemma upd_ctx_other f i j s : j <> i -> upd_ctx f i s j = f j.
Proof. intros H. unfold upd_ctx. destruct (Nat.eqb j i) eqn:E; [apply Nat.eqb_eq in E; congruence | reflexivity]. Qed.

(* frame property: in any interleaving, each context goes through exactly the run it would have alone, and
   produces exactly the observations it would produce alone *)
Theorem frame : forall ops f f' os,
    run_multi f ops = EV (f', os) ->
    forall i, run_solo (f i) (proj i ops) = EV (f' i, proj i os).
Proof.
  induction ops as [|[j o] t IH]; intros f f' os E i; cbn [run_multi] in E.
  - injection E as <- <-. reflexivity.
  - destruct (step [] (f j) o) as [[[s' ob] cs]|e] eqn:Es; [|discriminate].
    destruct (run_multi (upd_ctx f j s') t) as [[f2 rest]|e] eqn:Er; [|discriminate].
    injection E as <- <-.
    specialize (IH _ _ _ Er i).
    unfold proj in *. cbn [filter fst].
    destruct (Nat.eqb j i) eqn:Eji.
    + apply Nat.eqb_eq in Eji. subst j. cbn [map snd run_solo]. rewrite Es.
      rewrite upd_ctx_same in IH. rewrite IH. reflexivity.
    + apply Nat.eqb_neq in Eji. rewrite upd_ctx_other in IH by congruence. exact IH.
Qed.

(* a context nobody touches is left untouched *)
Corollary untouched : forall ops f f' os i,
    run_multi f ops = EV (f', os) -> (forall x, In x ops -> fst x <> i) -> f' i = f i.
Proof.
  intros ops f f' os i E H. pose proof (frame ops f f' os E i) as F.
  assert (P : proj i ops = []).
  { unfold proj. clear E F. induction ops as [|x t IH]; [reflexivity|]. cbn [filter].
    destruct (Nat.eqb (fst x) i) eqn:X.
    - apply Nat.eqb_eq in X. exfalso. apply (H x); [left; reflexivity | exact X].
    - apply IH. intros y Hy. apply H. right. exact Hy. }
  rewrite P in F. cbn [run_solo] in F. injection F as F _. symmetry. exact F.
Qed.
