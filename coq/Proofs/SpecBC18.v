(* Property C18 (router = filters) of the denotational specification Spec/Sodium.v.

   "For every key k, the stream returned by filter_matches(k) fires in exactly the transactions in
    which the input stream fires with a value whose selector result contains k, carrying that value
    once even if the selector lists k several times."

   Part 1  one-step equation of a route key, characterisation of [route_filter], duplicates in the
           selector result do not matter (the result depends on the SET of keys only).
   Part 2  a route is a filter: [DRoute] and [DFilter] are the same generalised filter [filter_occ];
           concrete instances (PEven = key 0 of SMod 2 / SDup 2 / SMulti, ...).
   Part 3  the same at the top-level fuel [F st]: EV-form without legality, equations under [Legal].
   Part 4  listener-level consequence through [close_txn].
   Part 5  operational lemma: a transliteration of the update closure and of [filter_matches] of
           /repo/src/impl_/router.rs.
   Part 6  concrete examples (states built by script operations, a [Legal] witness). *)
From Coq Require Import List ZArith Bool Arith Lia.
Import ListNotations.
From Sodium Require Import Sodium SpecBBase SpecBMono SpecBLegal SpecBClose SpecBStep.
Local Open Scope nat_scope.

(* ================================================================== Part 1 *)

(* what a route on key [k] of a router with selector [sl] lets through *)
Definition route_filter (k : Z) (sl : sel) (o : option val) : option val :=
  match o with
  | Some v => if existsb (Z.eqb k) (app_sel sl v) then Some v else None
  | None => None
  end.

(* the same over an arbitrary selector function *)
Definition keys_filter (k : Z) (ks : val -> list Z) (o : option val) : option val :=
  match o with
  | Some v => if existsb (Z.eqb k) (ks v) then Some v else None
  | None => None
  end.

Lemma route_filter_keys : forall k sl o, route_filter k sl o = keys_filter k (app_sel sl) o.
Proof. reflexivity. Qed.

Lemma occ_route_S : forall st inj n h r k a sl,
    alookup (defs st) h = Some (DRoute r k) ->
    alookup (defs st) r = Some (DRouter a sl) ->
    occ st inj (S n) h = elet o <- occ st inj n a; EV (route_filter k sl o).
Proof.
  intros st inj n h r k a sl Hh Hr. rewrite occ_S.
  rewrite (def_of_Some _ _ _ Hh). cbn [ebind].
  rewrite (def_of_Some _ _ _ Hr). cbn [ebind]. reflexivity.
Qed.

(* a route whose router slot is not a router is illegal *)
Lemma occ_route_S_dangling : forall st inj n h r k,
    alookup (defs st) h = Some (DRoute r k) ->
    (forall a sl, alookup (defs st) r <> Some (DRouter a sl)) ->
    occ st inj (S n) h = EErr Illegal.
Proof.
  intros st inj n h r k Hh Hr. rewrite occ_S.
  rewrite (def_of_Some _ _ _ Hh). cbn [ebind].
  unfold def_of. destruct (alookup (defs st) r) as [d|] eqn:E; [|reflexivity]. cbn [ebind].
  destruct d; try reflexivity. exfalso. exact (Hr s sl eq_refl).
Qed.

Lemma existsb_Zeqb_In : forall k l, existsb (Z.eqb k) l = true <-> In k l.
Proof.
  intros k l. rewrite existsb_exists. split.
  - intros [x [Hin E]]. apply Z.eqb_eq in E. subst x. exact Hin.
  - intros Hin. exists k. split; [exact Hin | apply Z.eqb_refl].
Qed.

Lemma existsb_Zeqb_notIn : forall k l, existsb (Z.eqb k) l = false <-> ~ In k l.
Proof.
  intros k l. rewrite <- existsb_Zeqb_In. destruct (existsb (Z.eqb k) l); split; intros H.
  - discriminate H.
  - exfalso. apply H. reflexivity.
  - intros H'. discriminate H'.
  - reflexivity.
Qed.

Lemma keys_filter_Some_iff : forall k ks o v,
    keys_filter k ks o = Some v <-> o = Some v /\ In k (ks v).
Proof.
  intros k ks o v. unfold keys_filter. destruct o as [w|].
  - destruct (existsb (Z.eqb k) (ks w)) eqn:E.
    + apply existsb_Zeqb_In in E. split.
      * intros H. injection H as <-. split; [reflexivity | exact E].
      * intros [H _]. exact H.
    + apply existsb_Zeqb_notIn in E. split.
      * intros H. discriminate H.
      * intros [H Hin]. injection H as ->. exfalso. exact (E Hin).
  - split; [intros H; discriminate H | intros [H _]; discriminate H].
Qed.

(* fires exactly when the input fires with a value whose selector result contains k, with that value *)
Lemma route_filter_Some_iff : forall k sl o v,
    route_filter k sl o = Some v <-> o = Some v /\ In k (app_sel sl v).
Proof. intros k sl o v. rewrite route_filter_keys. apply keys_filter_Some_iff. Qed.

Lemma route_filter_None_iff : forall k sl o,
    route_filter k sl o = None <-> o = None \/ exists v, o = Some v /\ ~ In k (app_sel sl v).
Proof.
  intros k sl o. unfold route_filter. destruct o as [w|].
  - destruct (existsb (Z.eqb k) (app_sel sl w)) eqn:E.
    + apply existsb_Zeqb_In in E. split.
      * intros H. discriminate H.
      * intros [H|[v [H Hn]]]; [discriminate H|]. injection H as ->. exfalso. exact (Hn E).
    + apply existsb_Zeqb_notIn in E. split.
      * intros _. right. exists w. split; [reflexivity | exact E].
      * intros _. reflexivity.
  - split; [intros _; left; reflexivity | intros _; reflexivity].
Qed.

(* at most one occurrence, and it is the input's value *)
Lemma route_filter_value : forall k sl o, route_filter k sl o = None \/ route_filter k sl o = o.
Proof.
  intros k sl o. unfold route_filter. destruct o as [w|]; [|left; reflexivity].
  destruct (existsb (Z.eqb k) (app_sel sl w)); [right | left]; reflexivity.
Qed.

(* the multiplicity of k in the selector result is irrelevant beyond being positive *)
Lemma route_filter_count : forall k sl v,
    route_filter k sl (Some v) = if 0 <? count_occ Z.eq_dec (app_sel sl v) k then Some v else None.
Proof.
  intros k sl v. unfold route_filter.
  destruct (existsb (Z.eqb k) (app_sel sl v)) eqn:E.
  - apply existsb_Zeqb_In in E. apply (count_occ_In Z.eq_dec) in E.
    destruct (0 <? count_occ Z.eq_dec (app_sel sl v) k) eqn:E2; [reflexivity|].
    apply Nat.ltb_ge in E2. lia.
  - apply existsb_Zeqb_notIn in E. apply (count_occ_not_In Z.eq_dec) in E. rewrite E. reflexivity.
Qed.

Lemma existsb_Zeqb_set : forall k l1 l2,
    (forall x, In x l1 <-> In x l2) -> existsb (Z.eqb k) l1 = existsb (Z.eqb k) l2.
Proof.
  intros k l1 l2 H. destruct (existsb (Z.eqb k) l2) eqn:E.
  - apply existsb_Zeqb_In. apply H. apply existsb_Zeqb_In. exact E.
  - apply existsb_Zeqb_notIn. intros Hin. apply existsb_Zeqb_notIn in E. apply E. apply H. exact Hin.
Qed.

(* the result depends only on the SET of keys the selector returns *)
Lemma keys_filter_set : forall k ks1 ks2 o,
    (forall v x, In x (ks1 v) <-> In x (ks2 v)) -> keys_filter k ks1 o = keys_filter k ks2 o.
Proof.
  intros k ks1 ks2 o H. unfold keys_filter. destruct o as [v|]; [|reflexivity].
  rewrite (existsb_Zeqb_set k (ks1 v) (ks2 v) (H v)). reflexivity.
Qed.

Lemma route_filter_set : forall k sl1 sl2 o,
    (forall v x, In x (app_sel sl1 v) <-> In x (app_sel sl2 v)) ->
    route_filter k sl1 o = route_filter k sl2 o.
Proof. intros k sl1 sl2 o H. rewrite !route_filter_keys. apply keys_filter_set. exact H. Qed.

(* SDup lists its key twice: same routes as SMod *)
Lemma route_filter_SDup : forall k m o, route_filter k (SDup m) o = route_filter k (SMod m) o.
Proof.
  intros k m o. apply route_filter_set. intros v x. simpl. tauto.
Qed.

(* SMulti lists [x mod 2] twice: same routes as the duplicate-free selector *)
Lemma route_filter_SMulti : forall k o,
    route_filter k SMulti o =
    keys_filter k (fun v => [(toint v mod 2)%Z; (2 + toint v mod 3)%Z]) o.
Proof.
  intros k o. rewrite route_filter_keys. apply keys_filter_set. intros v x. simpl. tauto.
Qed.

(* ================================================================== Part 2 *)

Definition sel_pred (k : Z) (sl : sel) (v : val) : bool := existsb (Z.eqb k) (app_sel sl v).

Definition filter_occ (p : val -> bool) (o : option val) : option val :=
  match o with Some v => if p v then Some v else None | None => None end.

Lemma route_filter_is_filter_occ : forall k sl o, route_filter k sl o = filter_occ (sel_pred k sl) o.
Proof. reflexivity. Qed.

Lemma filter_occ_ext : forall p q o, (forall v, p v = q v) -> filter_occ p o = filter_occ q o.
Proof. intros p q o H. unfold filter_occ. destruct o as [v|]; [rewrite (H v)|]; reflexivity. Qed.

Lemma filter_occ_Some_iff : forall p o v, filter_occ p o = Some v <-> o = Some v /\ p v = true.
Proof.
  intros p o v. unfold filter_occ. destruct o as [w|].
  - destruct (p w) eqn:E; split.
    + intros H. injection H as <-. split; [reflexivity | exact E].
    + intros [H _]. exact H.
    + intros H. discriminate H.
    + intros [H Hp]. injection H as ->. congruence.
  - split; [intros H; discriminate H | intros [H _]; discriminate H].
Qed.

Lemma occ_filter_S : forall st inj n h a p,
    alookup (defs st) h = Some (DFilter a p) ->
    occ st inj (S n) h = elet o <- occ st inj n a; EV (filter_occ (appP p) o).
Proof.
  intros st inj n h a p Hh. rewrite occ_S. rewrite (def_of_Some _ _ _ Hh). cbn [ebind]. reflexivity.
Qed.

Lemma occ_route_S_filter : forall st inj n h r k a sl,
    alookup (defs st) h = Some (DRoute r k) ->
    alookup (defs st) r = Some (DRouter a sl) ->
    occ st inj (S n) h = elet o <- occ st inj n a; EV (filter_occ (sel_pred k sl) o).
Proof. intros st inj n h r k a sl Hh Hr. exact (occ_route_S st inj n h r k a sl Hh Hr). Qed.

(* a route and a filter of the router's input with an equivalent predicate: equal at every fuel *)
Lemma occ_route_eq_filter : forall st inj h r k a sl h' p,
    alookup (defs st) h = Some (DRoute r k) ->
    alookup (defs st) r = Some (DRouter a sl) ->
    alookup (defs st) h' = Some (DFilter a p) ->
    (forall v, appP p v = sel_pred k sl v) ->
    forall n, occ st inj n h = occ st inj n h'.
Proof.
  intros st inj h r k a sl h' p Hh Hr Hh' Hp n. destruct n as [|n]; [reflexivity|].
  rewrite (occ_route_S_filter st inj n h r k a sl Hh Hr), (occ_filter_S st inj n h' a p Hh').
  destruct (occ st inj n a) as [o|e]; [|reflexivity]. cbn [ebind].
  rewrite (filter_occ_ext (appP p) (sel_pred k sl) o Hp). reflexivity.
Qed.

Lemma occ_route_eq_filter_S : forall st inj h r k a sl h' p,
    alookup (defs st) h = Some (DRoute r k) ->
    alookup (defs st) r = Some (DRouter a sl) ->
    alookup (defs st) h' = Some (DFilter a p) ->
    (forall v, appP p v = sel_pred k sl v) ->
    forall n, occ st inj (S n) h = occ st inj (S n) h'.
Proof. intros st inj h r k a sl h' p Hh Hr Hh' Hp n. exact (occ_route_eq_filter st inj h r k a sl h' p Hh Hr Hh' Hp (S n)). Qed.

(* ---- concrete instances: p1 codes that are routes *)

Lemma even_mod2 : forall x : Z, Z.even x = Z.eqb 0 (x mod 2).
Proof.
  intros x. destruct (Z.even x) eqn:E.
  - apply Z.even_spec in E. destruct E as [y ->]. rewrite Z.mul_comm, Z_mod_mult. reflexivity.
  - rewrite <- Z.negb_odd in E. apply negb_false_iff in E. apply Z.odd_spec in E.
    destruct E as [y ->]. rewrite Z.add_comm, Z.mul_comm, Z_mod_plus_full. reflexivity.
Qed.

(* true for EVERY value, negative [toint] included: Z.modulo by a positive number is non-negative *)
Lemma PEven_is_SMod2_key0 : forall v, appP PEven v = sel_pred 0 (SMod 2) v.
Proof.
  intros v. unfold sel_pred, app_sel. cbn [existsb appP]. rewrite orb_false_r. apply even_mod2.
Qed.

Lemma PEven_is_SDup2_key0 : forall v, appP PEven v = sel_pred 0 (SDup 2) v.
Proof.
  intros v. unfold sel_pred, app_sel. cbn [existsb appP]. rewrite orb_false_r, orb_diag. apply even_mod2.
Qed.

Lemma PEven_is_SMulti_key0 : forall v, appP PEven v = sel_pred 0 SMulti v.
Proof.
  intros v. unfold sel_pred, app_sel. cbn [existsb appP]. rewrite orb_false_r.
  assert (E : Z.eqb 0 (2 + toint v mod 3) = false).
  { apply Z.eqb_neq. pose proof (Z.mod_pos_bound (toint v) 3 eq_refl) as Hb. lia. }
  rewrite E. rewrite orb_false_l, orb_diag. apply even_mod2.
Qed.

Lemma PTrue_is_SMod1_key0 : forall v, appP PTrue v = sel_pred 0 (SMod 1) v.
Proof. intros v. unfold sel_pred, app_sel. cbn [existsb appP]. rewrite Z.mod_1_r. reflexivity. Qed.

Lemma PFalse_is_SMod2_key5 : forall v, appP PFalse v = sel_pred 5 (SMod 2) v.
Proof.
  intros v. unfold sel_pred, app_sel. cbn [existsb appP]. rewrite orb_false_r. symmetry. apply Z.eqb_neq.
  pose proof (Z.mod_pos_bound (toint v) 2 eq_refl) as Hb. lia.
Qed.

(* the headline instance: filter_matches(0) of router(s, x -> [x mod 2]) IS filter(s, even) *)
Lemma occ_route_SMod2_0_is_even_filter : forall st inj h r a h',
    alookup (defs st) h = Some (DRoute r 0) ->
    alookup (defs st) r = Some (DRouter a (SMod 2)) ->
    alookup (defs st) h' = Some (DFilter a PEven) ->
    forall n, occ st inj n h = occ st inj n h'.
Proof.
  intros st inj h r a h' Hh Hr Hh'.
  exact (occ_route_eq_filter st inj h r 0%Z a (SMod 2) h' PEven Hh Hr Hh' PEven_is_SMod2_key0).
Qed.

Lemma occ_route_SMulti_0_is_even_filter : forall st inj h r a h',
    alookup (defs st) h = Some (DRoute r 0) ->
    alookup (defs st) r = Some (DRouter a SMulti) ->
    alookup (defs st) h' = Some (DFilter a PEven) ->
    forall n, occ st inj n h = occ st inj n h'.
Proof.
  intros st inj h r a h' Hh Hr Hh'.
  exact (occ_route_eq_filter st inj h r 0%Z a SMulti h' PEven Hh Hr Hh' PEven_is_SMulti_key0).
Qed.

(* ================================================================== Part 3 *)

(* the router key itself repeats its input *)
Lemma occ_router_S : forall st inj n r a sl,
    alookup (defs st) r = Some (DRouter a sl) -> occ st inj (S n) r = occ st inj n a.
Proof.
  intros st inj n r a sl Hr. rewrite occ_S. rewrite (def_of_Some _ _ _ Hr). cbn [ebind]. reflexivity.
Qed.

Lemma occ_router_F_EV : forall st inj r a sl o,
    alookup (defs st) r = Some (DRouter a sl) ->
    occ st inj (F st) r = EV o -> occ st inj (F st) a = EV o.
Proof.
  intros st inj r a sl o Hr H. rewrite F_eq in H. rewrite (occ_router_S _ _ _ _ _ _ Hr) in H.
  apply (occ_mono _ _ _ _ _ H). rewrite F_eq. lia.
Qed.

Lemma occ_router_F_legal : forall st inj r a sl,
    Legal st inj -> alookup (defs st) r = Some (DRouter a sl) ->
    occ st inj (F st) r = occ st inj (F st) a.
Proof.
  intros st inj r a sl [rc [ro [Hbc [Hbo [Hcur Hocc]]]]] Hr.
  pose proof (Hocc r) as Hk. unfold occ_ok in Hk. rewrite Hr in Hk.
  rewrite F_eq at 1. rewrite (occ_router_S _ _ _ _ _ _ Hr).
  exact (occ_sub_F st inj ro Hbo Hocc r _ a Hr Hk).
Qed.

(* EV-form, no legality hypothesis *)
Lemma occ_route_F_EV : forall st inj h r k a sl res,
    alookup (defs st) h = Some (DRoute r k) ->
    alookup (defs st) r = Some (DRouter a sl) ->
    occ st inj (F st) h = EV res ->
    exists o, occ st inj (F st) a = EV o /\ res = route_filter k sl o.
Proof.
  intros st inj h r k a sl res Hh Hr H. rewrite F_eq in H.
  rewrite (occ_route_S _ _ _ _ _ _ _ _ Hh Hr) in H.
  apply ebind_EV in H. destruct H as [o [Ho H]]. injection H as <-.
  exists o. split; [|reflexivity].
  apply (occ_mono _ _ _ _ _ Ho). rewrite F_eq. lia.
Qed.

(* conversely a successful input evaluation makes the route succeed one fuel unit later *)
Lemma occ_route_of_input : forall st inj n h r k a sl o,
    alookup (defs st) h = Some (DRoute r k) ->
    alookup (defs st) r = Some (DRouter a sl) ->
    occ st inj n a = EV o -> occ st inj (S n) h = EV (route_filter k sl o).
Proof.
  intros st inj n h r k a sl o Hh Hr Ho.
  rewrite (occ_route_S _ _ _ _ _ _ _ _ Hh Hr), Ho. reflexivity.
Qed.

(* fires (EV-form): input fired that value and the selector result contains k *)
Lemma occ_route_F_fires : forall st inj h r k a sl v,
    alookup (defs st) h = Some (DRoute r k) ->
    alookup (defs st) r = Some (DRouter a sl) ->
    occ st inj (F st) h = EV (Some v) ->
    occ st inj (F st) a = EV (Some v) /\ In k (app_sel sl v).
Proof.
  intros st inj h r k a sl v Hh Hr H.
  destruct (occ_route_F_EV _ _ _ _ _ _ _ _ Hh Hr H) as [o [Ho Hq]].
  symmetry in Hq. apply route_filter_Some_iff in Hq. destruct Hq as [-> Hin].
  split; [exact Ho | exact Hin].
Qed.

(* the equation at the top-level fuel, errors included, for legal states *)
Lemma occ_route_F_legal : forall st inj h r k a sl,
    Legal st inj ->
    alookup (defs st) h = Some (DRoute r k) ->
    alookup (defs st) r = Some (DRouter a sl) ->
    occ st inj (F st) h = elet o <- occ st inj (F st) a; EV (route_filter k sl o).
Proof.
  intros st inj h r k a sl [rc [ro [Hbc [Hbo [Hcur Hocc]]]]] Hh Hr.
  pose proof (Hocc h) as Hk. unfold occ_ok in Hk. rewrite Hh, Hr in Hk.
  rewrite F_eq at 1. rewrite (occ_route_S _ _ _ _ _ _ _ _ Hh Hr).
  rewrite (occ_sub_F st inj ro Hbo Hocc h _ a Hh Hk). reflexivity.
Qed.

Lemma occ_filter_F_legal : forall st inj h a p,
    Legal st inj ->
    alookup (defs st) h = Some (DFilter a p) ->
    occ st inj (F st) h = elet o <- occ st inj (F st) a; EV (filter_occ (appP p) o).
Proof.
  intros st inj h a p [rc [ro [Hbc [Hbo [Hcur Hocc]]]]] Hh.
  pose proof (Hocc h) as Hk. unfold occ_ok in Hk. rewrite Hh in Hk.
  rewrite F_eq at 1. rewrite (occ_filter_S _ _ _ _ _ _ Hh).
  rewrite (occ_sub_F st inj ro Hbo Hocc h _ a Hh Hk). reflexivity.
Qed.

(* C18 at the level of occurrences, legal states: "fires in exactly the transactions ..." *)
Lemma occ_route_F_fires_iff : forall st inj h r k a sl v,
    Legal st inj ->
    alookup (defs st) h = Some (DRoute r k) ->
    alookup (defs st) r = Some (DRouter a sl) ->
    (occ st inj (F st) h = EV (Some v) <->
     occ st inj (F st) a = EV (Some v) /\ In k (app_sel sl v)).
Proof.
  intros st inj h r k a sl v HL Hh Hr. split.
  - exact (occ_route_F_fires _ _ _ _ _ _ _ _ Hh Hr).
  - intros [Ho Hin]. rewrite (occ_route_F_legal _ _ _ _ _ _ _ HL Hh Hr), Ho. cbn [ebind].
    f_equal. apply route_filter_Some_iff. split; [reflexivity | exact Hin].
Qed.

Lemma occ_route_F_silent_iff : forall st inj h r k a sl,
    Legal st inj ->
    alookup (defs st) h = Some (DRoute r k) ->
    alookup (defs st) r = Some (DRouter a sl) ->
    (occ st inj (F st) h = EV None <->
     occ st inj (F st) a = EV None \/
     exists v, occ st inj (F st) a = EV (Some v) /\ ~ In k (app_sel sl v)).
Proof.
  intros st inj h r k a sl HL Hh Hr. rewrite (occ_route_F_legal _ _ _ _ _ _ _ HL Hh Hr). split.
  - intros H. apply ebind_EV in H. destruct H as [o [Ho H]]. injection H as H.
    apply route_filter_None_iff in H. destruct H as [->|[v [-> Hn]]].
    + left. exact Ho.
    + right. exists v. split; [exact Ho | exact Hn].
  - intros [Ho|[v [Ho Hn]]]; rewrite Ho; cbn [ebind].
    + reflexivity.
    + assert (E : route_filter k sl (Some v) = None).
      { apply route_filter_None_iff. right. exists v. split; [reflexivity | exact Hn]. }
      rewrite E. reflexivity.
Qed.

(* route = filter at the top-level fuel: true at every fuel, hence no legality needed *)
Lemma occ_route_eq_filter_F : forall st inj h r k a sl h' p,
    alookup (defs st) h = Some (DRoute r k) ->
    alookup (defs st) r = Some (DRouter a sl) ->
    alookup (defs st) h' = Some (DFilter a p) ->
    (forall v, appP p v = sel_pred k sl v) ->
    occ st inj (F st) h = occ st inj (F st) h'.
Proof.
  intros st inj h r k a sl h' p Hh Hr Hh' Hp.
  exact (occ_route_eq_filter st inj h r k a sl h' p Hh Hr Hh' Hp (F st)).
Qed.

(* two routes of one router on the same key are the same stream (filter_matches reuses it) *)
Lemma occ_route_same_key : forall st inj h1 h2 r k,
    alookup (defs st) h1 = Some (DRoute r k) ->
    alookup (defs st) h2 = Some (DRoute r k) ->
    forall n, occ st inj n h1 = occ st inj n h2.
Proof.
  intros st inj h1 h2 r k H1 H2 n. destruct n as [|n]; [reflexivity|].
  rewrite !occ_S. rewrite (def_of_Some _ _ _ H1), (def_of_Some _ _ _ H2). reflexivity.
Qed.

(* ================================================================== Part 4 *)

(* a successful close evaluated the occurrence of every listened stream *)
Lemma close_listener_evaluated : forall st inj p res l s,
    close_txn st inj p = EV res -> In (l, s) (listeners st) ->
    exists o, occ st inj (F st) s = EV o.
Proof.
  intros st inj p res l s H Hin. apply close_txn_inv in H.
  destruct H as (calls & nv & lz & o & dd & Hc & _ & _ & _ & _ & _).
  apply in_rev in Hin.
  destruct (emap_In (call_of st inj) _ calls (l, s) Hc Hin) as [y [Hy _]].
  unfold call_of in Hy. simpl in Hy.
  apply ebind_EV in Hy. destruct Hy as [oo [Ho _]]. exists oo. exact Ho.
Qed.

(* the occurrence of a listened route, after a successful close: no legality hypothesis needed *)
Lemma close_route_occ : forall st inj p res l h r k a sl,
    close_txn st inj p = EV res -> In (l, h) (listeners st) ->
    alookup (defs st) h = Some (DRoute r k) ->
    alookup (defs st) r = Some (DRouter a sl) ->
    exists o, occ st inj (F st) a = EV o /\ occ st inj (F st) h = EV (route_filter k sl o).
Proof.
  intros st inj p res l h r k a sl H Hin Hh Hr.
  destruct (close_listener_evaluated _ _ _ _ _ _ H Hin) as [oh Hoh].
  destruct (occ_route_F_EV _ _ _ _ _ _ _ _ Hh Hr Hoh) as [o [Ho ->]].
  exists o. split; [exact Ho | exact Hoh].
Qed.

(* if some listener on the route is called with v, the input fired v and k is selected *)
Lemma close_route_call_sound : forall st inj p res l h r k a sl v,
    close_txn st inj p = EV res ->
    (forall s, In (l, s) (listeners st) -> s = h) ->
    alookup (defs st) h = Some (DRoute r k) ->
    alookup (defs st) r = Some (DRouter a sl) ->
    In (BCall l v) (r_obs res) ->
    occ st inj (F st) a = EV (Some v) /\ In k (app_sel sl v).
Proof.
  intros st inj p res l h r k a sl v H Hu Hh Hr Hc.
  apply (close_calls _ _ _ _ l v H) in Hc. destruct Hc as [s [Hin Ho]].
  rewrite (Hu s Hin) in Ho. exact (occ_route_F_fires _ _ _ _ _ _ _ _ Hh Hr Ho).
Qed.

(* if the input fires v and k is selected, every listener on the route is called with v *)
Lemma close_route_call_complete : forall st inj p res l h r k a sl v,
    close_txn st inj p = EV res ->
    In (l, h) (listeners st) ->
    alookup (defs st) h = Some (DRoute r k) ->
    alookup (defs st) r = Some (DRouter a sl) ->
    occ st inj (F st) a = EV (Some v) -> In k (app_sel sl v) ->
    In (BCall l v) (r_obs res).
Proof.
  intros st inj p res l h r k a sl v H Hin Hh Hr Ho Hk.
  apply (close_calls _ _ _ _ l v H). exists h. split; [exact Hin|].
  destruct (close_route_occ _ _ _ _ _ _ _ _ _ _ H Hin Hh Hr) as [o [Ho' Hoh]].
  rewrite Ho in Ho'. injection Ho' as <-. rewrite Hoh. f_equal.
  apply route_filter_Some_iff. split; [reflexivity | exact Hk].
Qed.

(* C18 at the level of listener calls *)
Lemma close_route_call_iff : forall st inj p res l h r k a sl v,
    close_txn st inj p = EV res ->
    In (l, h) (listeners st) ->
    (forall s, In (l, s) (listeners st) -> s = h) ->
    alookup (defs st) h = Some (DRoute r k) ->
    alookup (defs st) r = Some (DRouter a sl) ->
    (In (BCall l v) (r_obs res) <->
     occ st inj (F st) a = EV (Some v) /\ In k (app_sel sl v)).
Proof.
  intros st inj p res l h r k a sl v H Hin Hu Hh Hr. split.
  - exact (close_route_call_sound _ _ _ _ _ _ _ _ _ _ _ H Hu Hh Hr).
  - intros [Ho Hk]. exact (close_route_call_complete _ _ _ _ _ _ _ _ _ _ _ H Hin Hh Hr Ho Hk).
Qed.

(* ---- "carrying that value once": the exact list of calls of one listener *)

Definition is_call (l : nat) (ob : obs) : bool :=
  match ob with BCall l' _ => Nat.eqb l' l | _ => false end.

Definition calls_of (l : nat) (obl : list obs) : list obs := filter (is_call l) obl.

Lemma calls_of_app : forall l x y, calls_of l (x ++ y) = calls_of l x ++ calls_of l y.
Proof. intros l x y. unfold calls_of. apply filter_app. Qed.

Lemma call_of_other : forall st inj l lh y,
    call_of st inj lh = EV y -> fst lh <> l -> calls_of l y = [].
Proof.
  intros st inj l lh y H Hne. unfold call_of in H. apply ebind_EV in H. destruct H as [o [_ H]].
  injection H as <-. destruct o as [w|]; [|reflexivity].
  unfold calls_of. simpl. destruct (Nat.eqb (fst lh) l) eqn:E; [|reflexivity].
  apply Nat.eqb_eq in E. congruence.
Qed.

Lemma calls_of_notin : forall st inj l ls cs,
    Forall2 (fun x y => call_of st inj x = EV y) ls cs -> ~ In l (map fst ls) ->
    calls_of l (concat cs) = [].
Proof.
  intros st inj l ls cs HF. induction HF as [|x y ls' cs' Hxy HF IH]; intros Hn; [reflexivity|].
  simpl. rewrite calls_of_app.
  rewrite (call_of_other _ _ l _ _ Hxy) by (intros E; apply Hn; left; exact E).
  simpl. apply IH. intros Hin. apply Hn. right. exact Hin.
Qed.

Lemma calls_of_unique : forall st inj l s ls cs,
    Forall2 (fun x y => call_of st inj x = EV y) ls cs -> NoDup (map fst ls) -> In (l, s) ls ->
    exists o, occ st inj (F st) s = EV o /\
              calls_of l (concat cs) = match o with Some v => [BCall l v] | None => [] end.
Proof.
  intros st inj l s ls cs HF. induction HF as [|x y ls' cs' Hxy HF IH]; intros Hnd Hin; [destruct Hin|].
  simpl in Hnd. inversion Hnd as [|x0 l0 Hx Hnd']; subst.
  simpl. rewrite calls_of_app. destruct Hin as [->|Hin].
  - simpl in Hx. rewrite (calls_of_notin _ _ _ _ _ HF Hx), app_nil_r.
    unfold call_of in Hxy. simpl in Hxy. apply ebind_EV in Hxy. destruct Hxy as [o [Ho Hy]].
    injection Hy as <-. exists o. split; [exact Ho|].
    destruct o as [w|]; [|reflexivity]. unfold calls_of. simpl. rewrite Nat.eqb_refl. reflexivity.
  - assert (Hne : fst x <> l).
    { intros E. apply Hx. rewrite E. apply in_map_iff. exists (l, s). split; [reflexivity | exact Hin]. }
    rewrite (call_of_other _ _ l _ _ Hxy Hne). simpl. exact (IH Hnd' Hin).
Qed.

(* with distinct listener ids (which [aset] maintains) listener l of stream s is called exactly once
   when s fires and not at all otherwise *)
Lemma close_calls_exact : forall st inj p res l s,
    close_txn st inj p = EV res -> NoDup (map fst (listeners st)) -> In (l, s) (listeners st) ->
    exists o, occ st inj (F st) s = EV o /\
              calls_of l (r_obs res) = match o with Some v => [BCall l v] | None => [] end.
Proof.
  intros st inj p res l s H Hnd Hin. apply close_txn_inv in H.
  destruct H as (calls & nv & lz & o & dd & Hc & _ & _ & _ & _ & ->). simpl.
  apply emap_EV_iff in Hc.
  apply (calls_of_unique st inj l s _ _ Hc).
  - rewrite map_rev. apply NoDup_rev. exact Hnd.
  - apply in_rev in Hin. exact Hin.
Qed.

(* the calls of a listener on a route: exactly one call carrying the input's value when the selector
   result contains k (however many times), none otherwise *)
Lemma close_route_calls_exact : forall st inj p res l h r k a sl,
    close_txn st inj p = EV res -> NoDup (map fst (listeners st)) -> In (l, h) (listeners st) ->
    alookup (defs st) h = Some (DRoute r k) ->
    alookup (defs st) r = Some (DRouter a sl) ->
    exists o, occ st inj (F st) a = EV o /\
              calls_of l (r_obs res) =
              match route_filter k sl o with Some v => [BCall l v] | None => [] end.
Proof.
  intros st inj p res l h r k a sl H Hnd Hin Hh Hr.
  destruct (close_calls_exact _ _ _ _ _ _ H Hnd Hin) as [oh [Hoh Hc]].
  destruct (occ_route_F_EV _ _ _ _ _ _ _ _ Hh Hr Hoh) as [o [Ho ->]].
  exists o. split; [exact Ho | exact Hc].
Qed.

Lemma close_route_calls_length : forall st inj p res l h r k a sl,
    close_txn st inj p = EV res -> NoDup (map fst (listeners st)) -> In (l, h) (listeners st) ->
    alookup (defs st) h = Some (DRoute r k) ->
    alookup (defs st) r = Some (DRouter a sl) ->
    length (calls_of l (r_obs res)) <= 1.
Proof.
  intros st inj p res l h r k a sl H Hnd Hin Hh Hr.
  destruct (close_route_calls_exact _ _ _ _ _ _ _ _ _ _ H Hnd Hin Hh Hr) as [o [_ ->]].
  destruct (route_filter k sl o); simpl; lia.
Qed.

(* ================================================================== Part 5 *)

(* Transliteration of /repo/src/impl_/router.rs.

   Router::new's update closure:
       if let Some((keys, firing)) = in_stream.firing_op.map(|f| (selector(f), f.clone())) {
           for key in keys {
               if let Some(weak_stream) = table.get(&key) {
                   if let Some(stream) = weak_stream.upgrade() { stream._send(firing.clone()); ... }
                   else { remove the dead entry }
               } } }
   The table is modelled by its live entries only (an entry whose weak stream does not upgrade behaves
   like a missing one: nothing is sent). Streams made by filter_matches come from Stream::new, which has
   no coalescer, so Stream::_send (stream.rs) executes [data.firing_op = Some(a)]: within one
   transaction it SETS the firing; a second _send of the same value leaves a single firing. *)

Definition table := list (Z * nat).           (* key -> live stream id *)

Fixpoint tlookup (t : table) (k : Z) : option nat :=
  match t with
  | [] => None
  | (k', s) :: t' => if Z.eqb k k' then Some s else tlookup t' k
  end.

Record rstate := mkR {
  firing : nat -> option val;     (* firing_op of every stream *)
  nsend : nat -> nat              (* number of _send calls received, for the multiset variant *)
}.

Definition send (rs : rstate) (s : nat) (v : val) : rstate :=
  mkR (fun x => if Nat.eqb x s then Some v else firing rs x)
      (fun x => if Nat.eqb x s then S (nsend rs x) else nsend rs x).

Definition route_one (t : table) (v : val) (rs : rstate) (key : Z) : rstate :=
  match tlookup t key with Some s => send rs s v | None => rs end.

(* for key in keys { ... } *)
Definition route_loop (t : table) (keys : list Z) (v : val) (rs : rstate) : rstate :=
  fold_left (route_one t v) keys rs.

(* the whole update closure *)
Definition router_update (t : table) (selector : val -> list Z) (input : option val) (rs : rstate) : rstate :=
  match input with
  | Some v => route_loop t (selector v) v rs
  | None => rs
  end.

(* does the key list hit stream s through the table? *)
Definition hits (t : table) (s : nat) (key : Z) : bool :=
  match tlookup t key with Some s' => Nat.eqb s s' | None => false end.

Lemma route_loop_firing : forall t keys v rs s,
    firing (route_loop t keys v rs) s = if existsb (hits t s) keys then Some v else firing rs s.
Proof.
  intros t keys v. induction keys as [|key keys IH]; intros rs s.
  - reflexivity.
  - unfold route_loop in *. simpl. rewrite IH. unfold hits at 2, route_one.
    destruct (existsb (hits t s) keys).
    + rewrite orb_true_r. reflexivity.
    + rewrite orb_false_r. destruct (tlookup t key) as [s'|]; [|reflexivity].
      simpl. reflexivity.
Qed.

Lemma route_loop_nsend : forall t keys v rs s,
    nsend (route_loop t keys v rs) s = nsend rs s + length (filter (hits t s) keys).
Proof.
  intros t keys v. induction keys as [|key keys IH]; intros rs s.
  - simpl. lia.
  - unfold route_loop in *. simpl. rewrite IH. unfold hits at 2, route_one.
    destruct (tlookup t key) as [s'|]; [|lia].
    simpl. destruct (Nat.eqb s s'); simpl; lia.
Qed.

(* at most one firing per stream, whatever the key list: a firing is an [option] and the only value
   the loop ever stores is v *)
Lemma route_loop_single_value : forall t keys v rs s,
    firing (route_loop t keys v rs) s = Some v \/ firing (route_loop t keys v rs) s = firing rs s.
Proof.
  intros t keys v rs s. rewrite route_loop_firing. destruct (existsb (hits t s) keys); [left | right]; reflexivity.
Qed.

(* ---- the table invariant: distinct keys, distinct streams, streams allocated below [next] *)

Definition twf (t : table) (next : nat) : Prop :=
  NoDup (map fst t) /\ NoDup (map snd t) /\ forall k s, In (k, s) t -> s < next.

Lemma tlookup_In : forall t k s, tlookup t k = Some s -> In (k, s) t.
Proof.
  induction t as [|[k' s'] t IH]; intros k s H; simpl in H.
  - discriminate H.
  - destruct (Z.eqb k k') eqn:E.
    + apply Z.eqb_eq in E. injection H as <-. subst k'. left. reflexivity.
    + right. exact (IH _ _ H).
Qed.

Lemma tlookup_None : forall t k, tlookup t k = None -> ~ In k (map fst t).
Proof.
  induction t as [|[k' s'] t IH]; intros k H; simpl in H.
  - intros [].
  - destruct (Z.eqb k k') eqn:E; [discriminate H|]. apply Z.eqb_neq in E.
    simpl. intros [Hq|Hin]; [congruence | exact (IH _ H Hin)].
Qed.

Lemma In_tlookup : forall t k s, NoDup (map fst t) -> In (k, s) t -> tlookup t k = Some s.
Proof.
  induction t as [|[k' s'] t IH]; intros k s Hnd Hin; [destruct Hin|].
  simpl in Hnd. inversion Hnd as [|x l Hx Hnd']; subst. simpl.
  destruct Hin as [Hq|Hin].
  - injection Hq as -> ->. rewrite Z.eqb_refl. reflexivity.
  - destruct (Z.eqb k k') eqn:E.
    + apply Z.eqb_eq in E. subst k'. exfalso. apply Hx. apply in_map_iff. exists (k, s). split; [reflexivity | exact Hin].
    + exact (IH _ _ Hnd' Hin).
Qed.

(* distinct keys map to distinct streams *)
Lemma twf_injective : forall t next k1 k2 s,
    twf t next -> tlookup t k1 = Some s -> tlookup t k2 = Some s -> k1 = k2.
Proof.
  intros t next k1 k2 s [_ [Hs _]] H1 H2. apply tlookup_In in H1. apply tlookup_In in H2.
  clear next. induction t as [|[k' s'] t IH]; [destruct H1|].
  simpl in Hs. inversion Hs as [|x l Hx Hs']; subst.
  assert (G : forall k, In (k, s') t -> False).
  { intros k Hin. apply Hx. apply in_map_iff. exists (k, s'). split; [reflexivity | exact Hin]. }
  destruct H1 as [H1|H1]; destruct H2 as [H2|H2].
  - congruence.
  - injection H1 as -> ->. exfalso. exact (G _ H2).
  - injection H2 as -> ->. exfalso. exact (G _ H1).
  - exact (IH Hs' H1 H2).
Qed.

(* for a registered stream the table hit test is the key test *)
Lemma hits_registered : forall t next k s key,
    twf t next -> tlookup t k = Some s -> hits t s key = Z.eqb k key.
Proof.
  intros t next k s key Hwf Hk. unfold hits.
  destruct (Z.eqb k key) eqn:E.
  - apply Z.eqb_eq in E. subst key. rewrite Hk. apply Nat.eqb_refl.
  - apply Z.eqb_neq in E. destruct (tlookup t key) as [s'|] eqn:Ek; [|reflexivity].
    destruct (Nat.eqb s s') eqn:Es; [|reflexivity].
    apply Nat.eqb_eq in Es. subst s'. exfalso. apply E. exact (twf_injective _ _ _ _ _ Hwf Hk Ek).
Qed.

(* THE operational lemma: after the loop the stream registered under k holds the single firing v iff
   k is in the key list, duplicates or not; otherwise it keeps what it had (nothing, in a transaction
   that starts with all firings empty) *)
Lemma route_loop_registered : forall t next keys v rs k s,
    twf t next -> tlookup t k = Some s ->
    firing (route_loop t keys v rs) s = if existsb (Z.eqb k) keys then Some v else firing rs s.
Proof.
  intros t next keys v rs k s Hwf Hk. rewrite route_loop_firing.
  assert (E : existsb (hits t s) keys = existsb (Z.eqb k) keys).
  { clear rs. induction keys as [|key keys IH]; [reflexivity|].
    simpl. rewrite IH, (hits_registered _ _ _ _ key Hwf Hk). reflexivity. }
  rewrite E. reflexivity.
Qed.

Lemma route_loop_registered_iff : forall t next keys v rs k s,
    twf t next -> tlookup t k = Some s -> firing rs s = None ->
    forall w, firing (route_loop t keys v rs) s = Some w <-> w = v /\ In k keys.
Proof.
  intros t next keys v rs k s Hwf Hk H0 w.
  rewrite (route_loop_registered _ _ keys v rs _ _ Hwf Hk), H0.
  destruct (existsb (Z.eqb k) keys) eqn:E.
  - apply existsb_Zeqb_In in E. split.
    + intros H. injection H as <-. split; [reflexivity | exact E].
    + intros [-> _]. reflexivity.
  - apply existsb_Zeqb_notIn in E. split.
    + intros H. discriminate H.
    + intros [_ Hin]. exfalso. exact (E Hin).
Qed.

(* an unregistered stream (no key maps to it) is never touched *)
Lemma route_loop_unregistered : forall t keys v rs s,
    (forall k, tlookup t k <> Some s) ->
    firing (route_loop t keys v rs) s = firing rs s /\ nsend (route_loop t keys v rs) s = nsend rs s.
Proof.
  intros t keys v rs s Hn.
  assert (E : forall key, hits t s key = false).
  { intros key. unfold hits. destruct (tlookup t key) as [s'|] eqn:Ek; [|reflexivity].
    destruct (Nat.eqb s s') eqn:Es; [|reflexivity]. apply Nat.eqb_eq in Es. subst s'.
    exfalso. exact (Hn key Ek). }
  rewrite route_loop_firing, route_loop_nsend. split.
  - assert (E2 : existsb (hits t s) keys = false).
    { induction keys as [|key keys IH]; [reflexivity|]. simpl. rewrite E, IH. reflexivity. }
    rewrite E2. reflexivity.
  - assert (E2 : filter (hits t s) keys = []).
    { induction keys as [|key keys IH]; [reflexivity|]. simpl. rewrite E. exact IH. }
    rewrite E2. simpl. lia.
Qed.

(* the multiset variant: the number of _send calls is the multiplicity of k in the key list *)
Lemma route_loop_registered_nsend : forall t next keys v rs k s,
    twf t next -> tlookup t k = Some s ->
    nsend (route_loop t keys v rs) s = nsend rs s + count_occ Z.eq_dec keys k.
Proof.
  intros t next keys v rs k s Hwf Hk. rewrite route_loop_nsend. f_equal.
  clear rs. induction keys as [|key keys IH]; [reflexivity|].
  simpl. rewrite (hits_registered _ _ _ _ key Hwf Hk).
  destruct (Z.eq_dec key k) as [->|Hne].
  - rewrite Z.eqb_refl. simpl. f_equal. exact IH.
  - assert (E : Z.eqb k key = false) by (apply Z.eqb_neq; congruence). rewrite E. exact IH.
Qed.

(* several _send calls, one firing: made explicit *)
Lemma route_loop_many_sends_one_firing : forall t next keys v rs k s,
    twf t next -> tlookup t k = Some s -> firing rs s = None -> nsend rs s = 0 ->
    nsend (route_loop t keys v rs) s = count_occ Z.eq_dec keys k /\
    firing (route_loop t keys v rs) s = (if 0 <? count_occ Z.eq_dec keys k then Some v else None).
Proof.
  intros t next keys v rs k s Hwf Hk H0 Hn. split.
  - rewrite (route_loop_registered_nsend _ _ keys v rs _ _ Hwf Hk), Hn. reflexivity.
  - rewrite (route_loop_registered _ _ keys v rs _ _ Hwf Hk), H0.
    destruct (existsb (Z.eqb k) keys) eqn:E.
    + apply existsb_Zeqb_In in E. apply (count_occ_In Z.eq_dec) in E.
      destruct (0 <? count_occ Z.eq_dec keys k) eqn:E2; [reflexivity|]. apply Nat.ltb_ge in E2. lia.
    + apply existsb_Zeqb_notIn in E. apply (count_occ_not_In Z.eq_dec) in E. rewrite E. reflexivity.
Qed.

(* the implementation loop computes the specification's [route_filter] *)
Lemma router_update_is_route_filter : forall t next sl input rs k s,
    twf t next -> tlookup t k = Some s -> firing rs s = None ->
    firing (router_update t (app_sel sl) input rs) s = route_filter k sl input.
Proof.
  intros t next sl input rs k s Hwf Hk H0. unfold router_update, route_filter.
  destruct input as [v|]; [|exact H0].
  rewrite (route_loop_registered _ _ _ v rs _ _ Hwf Hk), H0. reflexivity.
Qed.

(* the key list of SMulti for an even value is [0; 2 + x mod 3; 0]: key 0's stream receives two
   _send calls and ends with ONE firing *)
Lemma router_update_SMulti_dup : forall t next rs s v,
    twf t next -> tlookup t 0%Z = Some s -> firing rs s = None -> nsend rs s = 0 ->
    Z.even (toint v) = true ->
    nsend (router_update t (app_sel SMulti) (Some v) rs) s = 2 /\
    firing (router_update t (app_sel SMulti) (Some v) rs) s = Some v.
Proof.
  intros t next rs s v Hwf Hk H0 Hn He. unfold router_update.
  destruct (route_loop_many_sends_one_firing _ _ (app_sel SMulti v) v rs _ _ Hwf Hk H0 Hn) as [H1 H2].
  assert (Em : (toint v mod 2 = 0)%Z).
  { rewrite even_mod2 in He. apply Z.eqb_eq in He. symmetry. exact He. }
  assert (Ec : count_occ Z.eq_dec (app_sel SMulti v) 0%Z = 2).
  { unfold app_sel. cbv zeta. rewrite Em. cbn [count_occ].
    destruct (Z.eq_dec 0 0) as [_|Hc]; [|congruence].
    destruct (Z.eq_dec (2 + toint v mod 3) 0) as [Hc|_]; [|reflexivity].
    pose proof (Z.mod_pos_bound (toint v) 3 eq_refl) as Hb. lia. }
  rewrite H1, H2, Ec. split; reflexivity.
Qed.

(* ---- filter_matches: lookup, else allocate a fresh stream and insert *)

Definition filter_matches (t : table) (next : nat) (k : Z) : table * nat * nat :=
  match tlookup t k with
  | Some s => (t, next, s)
  | None => ((k, next) :: t, S next, next)
  end.

Lemma filter_matches_wf : forall t next k t' next' s,
    twf t next -> filter_matches t next k = (t', next', s) -> twf t' next'.
Proof.
  intros t next k t' next' s [Hk [Hs Hb]] H. unfold filter_matches in H.
  destruct (tlookup t k) as [s0|] eqn:E.
  - injection H as <- <- <-. split; [exact Hk | split; [exact Hs | exact Hb]].
  - injection H as <- <- <-. split; [|split].
    + simpl. constructor; [exact (tlookup_None _ _ E) | exact Hk].
    + simpl. constructor; [|exact Hs]. intros Hin. apply in_map_iff in Hin.
      destruct Hin as [[k0 s0] [Hq Hin]]. simpl in Hq. subst s0. specialize (Hb _ _ Hin). lia.
    + intros k0 s0 [Hq|Hin]; [injection Hq as <- <-; lia | specialize (Hb _ _ Hin); lia].
Qed.

Lemma filter_matches_lookup : forall t next k t' next' s,
    filter_matches t next k = (t', next', s) -> tlookup t' k = Some s.
Proof.
  intros t next k t' next' s H. unfold filter_matches in H.
  destruct (tlookup t k) as [s0|] eqn:E; injection H as <- <- <-.
  - exact E.
  - simpl. rewrite Z.eqb_refl. reflexivity.
Qed.

(* the entries of other keys, and existing entries of the same key, are left alone *)
Lemma filter_matches_preserves : forall t next k t' next' s k0 s0,
    filter_matches t next k = (t', next', s) -> tlookup t k0 = Some s0 -> tlookup t' k0 = Some s0.
Proof.
  intros t next k t' next' s k0 s0 H H0. unfold filter_matches in H.
  destruct (tlookup t k) as [s1|] eqn:E; injection H as <- <- <-.
  - exact H0.
  - simpl. destruct (Z.eqb k0 k) eqn:Ek; [|exact H0].
    apply Z.eqb_eq in Ek. subst k0. congruence.
Qed.

(* the same key gives the same stream, and the second call changes nothing *)
Lemma filter_matches_same_key : forall t next k t1 n1 s1,
    filter_matches t next k = (t1, n1, s1) -> filter_matches t1 n1 k = (t1, n1, s1).
Proof.
  intros t next k t1 n1 s1 H. pose proof (filter_matches_lookup _ _ _ _ _ _ H) as Hl.
  unfold filter_matches. rewrite Hl. reflexivity.
Qed.

(* ... also after any number of filter_matches calls on other (or the same) keys *)
Lemma filter_matches_stable : forall t next k t1 n1 s1 k2 t2 n2 s2,
    filter_matches t next k = (t1, n1, s1) -> filter_matches t1 n1 k2 = (t2, n2, s2) ->
    filter_matches t2 n2 k = (t2, n2, s1).
Proof.
  intros t next k t1 n1 s1 k2 t2 n2 s2 H1 H2.
  pose proof (filter_matches_lookup _ _ _ _ _ _ H1) as Hl.
  pose proof (filter_matches_preserves _ _ _ _ _ _ _ _ H2 Hl) as Hl2.
  unfold filter_matches. rewrite Hl2. reflexivity.
Qed.

(* different keys give different streams *)
Lemma filter_matches_distinct : forall t next k1 t1 n1 s1 k2 t2 n2 s2,
    twf t next -> filter_matches t next k1 = (t1, n1, s1) -> filter_matches t1 n1 k2 = (t2, n2, s2) ->
    k1 <> k2 -> s1 <> s2.
Proof.
  intros t next k1 t1 n1 s1 k2 t2 n2 s2 Hwf H1 H2 Hne Hs. subst s2.
  pose proof (filter_matches_wf _ _ _ _ _ _ Hwf H1) as Hwf1.
  pose proof (filter_matches_wf _ _ _ _ _ _ Hwf1 H2) as Hwf2.
  pose proof (filter_matches_lookup _ _ _ _ _ _ H1) as Hl1.
  pose proof (filter_matches_preserves _ _ _ _ _ _ _ _ H2 Hl1) as Hl1'.
  pose proof (filter_matches_lookup _ _ _ _ _ _ H2) as Hl2.
  exact (Hne (twf_injective _ _ _ _ _ Hwf2 Hl1' Hl2)).
Qed.

Lemma twf_empty : twf [] 0.
Proof. split; [constructor | split; [constructor | intros k s []]]. Qed.

(* end to end: the stream obtained from filter_matches(k) on a well-formed table, after the update
   closure ran in a transaction where it had no firing yet, holds exactly [route_filter k sl input] *)
Lemma filter_matches_then_update : forall t next k t' next' s sl input rs,
    twf t next -> filter_matches t next k = (t', next', s) -> firing rs s = None ->
    firing (router_update t' (app_sel sl) input rs) s = route_filter k sl input.
Proof.
  intros t next k t' next' s sl input rs Hwf H H0.
  exact (router_update_is_route_filter t' next' sl input rs k s
           (filter_matches_wf _ _ _ _ _ _ Hwf H) (filter_matches_lookup _ _ _ _ _ _ H) H0).
Qed.

(* ================================================================== Part 4b *)

(* the hypothesis [NoDup (map fst (listeners st))] of Part 4 holds in every state a script reaches *)

Lemma NoDup_keys_filter : forall {A} (f : nat * A -> bool) (l : list (nat * A)),
    NoDup (map fst l) -> NoDup (map fst (filter f l)).
Proof.
  intros A f l. induction l as [|[k v] t IH]; intros H; [constructor|].
  simpl in H. inversion H as [|x l0 Hx Hnd]; subst. simpl.
  destruct (f (k, v)); [|exact (IH Hnd)].
  simpl. constructor; [|exact (IH Hnd)].
  intros Hin. apply Hx. apply in_map_iff in Hin. destruct Hin as [[k0 v0] [Hq Hin]].
  apply filter_In in Hin. destruct Hin as [Hin _]. apply in_map_iff. exists (k0, v0). split; assumption.
Qed.

Lemma NoDup_keys_aset : forall {A} (l : list (nat * A)) k v,
    NoDup (map fst l) -> NoDup (map fst (aset l k v)).
Proof.
  intros A l k v H. unfold aset. simpl. constructor; [|apply NoDup_keys_filter; exact H].
  intros Hin. apply in_map_iff in Hin. destruct Hin as [[k0 v0] [Hq Hin]].
  apply filter_In in Hin. destruct Hin as [_ Hf]. simpl in Hq, Hf. subst k0.
  rewrite Nat.eqb_refl in Hf. discriminate Hf.
Qed.

Definition listeners_nodup (st : state) : Prop := NoDup (map fst (listeners st)).

Lemma listeners_nodup_body : forall st o st' ob,
    True -> body st o = EV (st', ob) -> listeners_nodup st -> listeners_nodup st'.
Proof.
  intros st o st' ob _ H HP. unfold listeners_nodup in *.
  destruct o; simpl in H; try (injection H as <- <-; simpl; exact HP).
  - destruct (alookup (loops st) l); [discriminate H|]. injection H as <- <-. simpl. exact HP.
  - destruct (alookup (loops st) l); [discriminate H|]. injection H as <- <-. simpl. exact HP.
  - injection H as <- <-. exact (NoDup_keys_aset (listeners st) l s HP).
  - injection H as <- <-. exact (NoDup_keys_filter _ (listeners st) HP).
  - injection H as <- <-. exact (NoDup_keys_aset (listeners st) l vh HP).
  - apply ebind_EV in H. destruct H as [v [_ H]]. injection H as <- <-. exact HP.
  - destruct (alookup (lazies st) z) as [[[v|c] i]|]; [| |discriminate H].
    + injection H as <- <-. exact HP.
    + apply ebind_EV in H. destruct H as [v [_ H]]. injection H as <- <-. exact HP.
  - destruct (alookup (lazies st) z) as [e|]; [|discriminate H]. injection H as <- <-. simpl. exact HP.
Qed.

Theorem script_listeners_nodup : forall ops choices st st',
    run_script choices st ops = EV st' -> listeners_nodup st -> listeners_nodup st'.
Proof.
  intros ops choices st st' H HP.
  apply (script_inv listeners_nodup (fun _ => True)) with (ops := ops) (choices := choices) (st := st).
  - exact listeners_nodup_body.
  - intros s inj p r Hc HPs. unfold listeners_nodup. rewrite (close_listeners _ _ _ _ Hc). exact HPs.
  - intros s n HPs. exact HPs.
  - intros s t b HPs. exact HPs.
  - apply Forall_forall. intros x _. exact I.
  - exact H.
  - exact HP.
Qed.

Lemma listeners_nodup_init : listeners_nodup init_state.
Proof. constructor. Qed.

(* with distinct listener ids the listener's stream is unique *)
Lemma listeners_nodup_unique : forall st l h s,
    listeners_nodup st -> In (l, h) (listeners st) -> In (l, s) (listeners st) -> s = h.
Proof.
  intros st l h s. unfold listeners_nodup. induction (listeners st) as [|[l0 s0] t IH]; intros Hnd H1 H2.
  - destruct H1.
  - simpl in Hnd. inversion Hnd as [|x l1 Hx Hnd']; subst.
    assert (G : forall y, In (l0, y) t -> False).
    { intros y Hin. apply Hx. apply in_map_iff. exists (l0, y). split; [reflexivity | exact Hin]. }
    destruct H1 as [H1|H1]; destruct H2 as [H2|H2].
    + congruence.
    + injection H1 as -> ->. exfalso. exact (G _ H2).
    + injection H2 as -> ->. exfalso. exact (G _ H1).
    + exact (IH Hnd' H1 H2).
Qed.

(* C18 at listener level for states with distinct listener ids *)
Lemma close_route_call_iff_nodup : forall st inj p res l h r k a sl v,
    close_txn st inj p = EV res ->
    listeners_nodup st -> In (l, h) (listeners st) ->
    alookup (defs st) h = Some (DRoute r k) ->
    alookup (defs st) r = Some (DRouter a sl) ->
    (In (BCall l v) (r_obs res) <->
     occ st inj (F st) a = EV (Some v) /\ In k (app_sel sl v)).
Proof.
  intros st inj p res l h r k a sl v H Hnd Hin Hh Hr.
  apply (close_route_call_iff st inj p res l h r k a sl v H Hin); [|exact Hh | exact Hr].
  intros s Hs. exact (listeners_nodup_unique _ _ _ _ Hnd Hin Hs).
Qed.

(* ================================================================== Part 6: concrete examples *)

(* run a script (no choice among deferred sources arises here), collecting the observations *)
Fixpoint c18_run (st : state) (ops : list op) : ev (state * list obs) :=
  match ops with
  | [] => EV (st, [])
  | o :: t => elet r <- step [] st o;
              elet r2 <- c18_run (fst (fst r)) t;
              EV (fst r2, snd (fst r) ++ snd r2)
  end.
(* sink 0; router 1 over it with the selector x -> [x mod 2; 2 + x mod 3; x mod 2] (key x mod 2 listed
   twice); route 2 = filter_matches(0); filter 3 = filter(even) of the sink; route 4 = filter_matches(2);
   listeners 10 / 11 / 12 / 13 on route 2 / filter 3 / route 4 / the router itself *)
Definition c18_setup : list op :=
  [ODef 0 (DSink None); ODef 1 (DRouter 0 SMulti); ODef 2 (DRoute 1 0%Z); ODef 3 (DFilter 0 PEven);
   ODef 4 (DRoute 1 2%Z); OListen 10 2; OListen 11 3; OListen 12 4; OListen 13 1].

(* 4 -> keys [0; 3; 0]: route 2 is called ONCE (and agrees with the even filter 3);
   3 -> keys [1; 2; 1] and -3 -> keys [1; 2; 1]: route 4 *)
Lemma c18_ex_script :
  exists st, c18_run init_state (c18_setup ++ [OSend 0 (VInt 4); OSend 0 (VInt 3); OSend 0 (VInt (-3))]) =
             EV (st, [BCall 10 (VInt 4); BCall 11 (VInt 4); BCall 13 (VInt 4);
                      BCall 12 (VInt 3); BCall 13 (VInt 3);
                      BCall 12 (VInt (-3)); BCall 13 (VInt (-3))]).
Proof. eexists; vm_compute; reflexivity. Qed.
(* the state inside an open transaction in which 4 was sent: satisfies the hypotheses of the theorems *)
Definition c18_ex_st : state :=
  match c18_run init_state (c18_setup ++ [OBegin; OSend 0 (VInt 4)]) with
  | EV (st, _) => st
  | EErr _ => init_state
  end.

Lemma c18_ex_defs :
  alookup (defs c18_ex_st) 2 = Some (DRoute 1 0%Z) /\
  alookup (defs c18_ex_st) 4 = Some (DRoute 1 2%Z) /\
  alookup (defs c18_ex_st) 1 = Some (DRouter 0 SMulti) /\
  alookup (defs c18_ex_st) 3 = Some (DFilter 0 PEven) /\
  sends c18_ex_st = [(0, VInt 4)] /\
  listeners c18_ex_st = [(13, 1); (12, 4); (11, 3); (10, 2)] /\
  listeners_nodup c18_ex_st.
Proof.
  vm_compute.
  do 6 (split; [reflexivity|]).
  repeat (constructor; [simpl; intros Hin; repeat (destruct Hin as [Hin|Hin]; [discriminate Hin|]); exact Hin|]).
  constructor.
Qed.
Lemma c18_ex_close :
  exists res, close_txn c18_ex_st (sends c18_ex_st) (posts c18_ex_st) = EV res /\
              r_obs res = [BCall 10 (VInt 4); BCall 11 (VInt 4); BCall 13 (VInt 4)] /\
              occ c18_ex_st (sends c18_ex_st) (F c18_ex_st) 0 = EV (Some (VInt 4)) /\
              app_sel SMulti (VInt 4) = [0; 3; 0]%Z /\
              calls_of 10 (r_obs res) = [BCall 10 (VInt 4)] /\
              calls_of 12 (r_obs res) = [].
Proof.
  eexists.
  split; [vm_compute; reflexivity|].
  vm_compute; repeat split.
Qed.
(* a Legal witness: cells have rank 0 (there are none), streams are ranked by their slot number,
   which decreases along sink 0 <- router 1 <- routes 2, 4 and sink 0 <- filter 3 *)
Lemma c18_ex_legalR : LegalR c18_ex_st (sends c18_ex_st) (fun _ => 0) (fun h => h).
Proof.
  unfold LegalR. split; [|split; [|split]].
  - intros h d _. vm_compute; lia.
  - intros h d H. do 5 (destruct h as [|h]; [vm_compute; lia|]). vm_compute in H. discriminate H.
  - intros h. unfold cur_ok. do 5 (destruct h as [|h]; [vm_compute; exact I|]). vm_compute. exact I.
  - intros h. unfold occ_ok.
    do 5 (destruct h as [|h]; [vm_compute; try exact I; lia|]). vm_compute. exact I.
Qed.
Lemma c18_ex_legal : Legal c18_ex_st (sends c18_ex_st).
Proof. exists (fun _ => 0), (fun h => h). exact c18_ex_legalR. Qed.

(* an ILLEGAL state (not covered by the Legal equations, covered by the EV-forms): a route whose
   router's input is the route itself never evaluates *)
Definition c18_ex_cyclic : state :=
  match c18_run init_state [OBegin; ODef 1 (DRouter 2 SMulti); ODef 2 (DRoute 1 0%Z)] with
  | EV (st, _) => st
  | EErr _ => init_state
  end.

Lemma c18_ex_cyclic_illegal :
  occ c18_ex_cyclic [] (F c18_ex_cyclic) 2 = EErr Illegal /\ ~ Legal c18_ex_cyclic [].
Proof.
  split; [vm_compute; reflexivity|].
  intros [rc [ro [_ [_ [_ Hocc]]]]].
  pose proof (Hocc 1) as H1. pose proof (Hocc 2) as H2.
  unfold occ_ok in H1, H2; vm_compute in H1; vm_compute in H2. lia.
Qed.

(* the operational model on the same data: filter_matches(0), filter_matches(2), filter_matches(0)
   return streams 0, 1, 0; the update closure on input 4 (keys [0; 3; 0]) sends twice to stream 0,
   which ends with one firing; stream 1 (key 2) gets nothing *)
Lemma c18_ex_operational :
  let '(t1, n1, s1) := filter_matches [] 0 0%Z in
  let '(t2, n2, s2) := filter_matches t1 n1 2%Z in
  let '(t3, n3, s3) := filter_matches t2 n2 0%Z in
  let rs := router_update t3 (app_sel SMulti) (Some (VInt 4)) (mkR (fun _ => None) (fun _ => 0)) in
  (s1, s2, s3) = (0, 1, 0) /\ t3 = t2 /\ twf t3 n3 /\
  firing rs 0 = Some (VInt 4) /\ nsend rs 0 = 2 /\
  firing rs 1 = None /\ nsend rs 1 = 0.
Proof.
  vm_compute.
  split; [reflexivity|]. split; [reflexivity|]. split; [|repeat split].
  unfold twf. split; [|split].
  - repeat constructor; simpl; intuition discriminate.
  - repeat constructor; simpl; intuition discriminate.
  - intros k s [H|[H|[]]]; injection H as <- <-; lia.
Qed.

(* the listener-level theorem applied to the example: every hypothesis is met *)
Lemma c18_ex_apply : forall res,
    close_txn c18_ex_st (sends c18_ex_st) (posts c18_ex_st) = EV res ->
    In (BCall 10 (VInt 4)) (r_obs res) /\ ~ In (BCall 12 (VInt 4)) (r_obs res).
Proof.
  intros res H. destruct c18_ex_defs as (H2 & H4 & H1 & _ & _ & HL & Hnd). split.
  - apply (close_route_call_iff_nodup _ _ _ _ 10 2 1 0%Z 0 SMulti (VInt 4) H Hnd); [rewrite HL; simpl; tauto | exact H2 | exact H1 |].
    split; [vm_compute; reflexivity | vm_compute; tauto].
  - intros Hc.
    apply (close_route_call_iff_nodup _ _ _ _ 12 4 1 2%Z 0 SMulti (VInt 4) H Hnd) in Hc; [| rewrite HL; simpl; tauto | exact H4 | exact H1].
    destruct Hc as [_ Hin]. vm_compute in Hin. intuition discriminate.
Qed.
