(* C01: atomicity. Listener calls are produced only by the close of a transaction; one call per active
   listener whose stream has an occurrence, none for the others; nothing carries over. *)
From Coq Require Import List ZArith Bool Arith Lia Permutation.
Import ListNotations.
From Sodium Require Import Sodium SpecABase SpecA14 SpecAEquiv SpecA12 SpecA15.
Open Scope nat_scope.

(* the call a listener receives in the transaction *)
Definition call_of (st : state) (inj : list (nat * val)) (lh : nat * nat) : list obs :=
  match occ st inj (F st) (snd lh) with
  | EV (Some v) => [BCall (fst lh) v]
  | _ => []
  end.

Lemma calls_of_flat_map : forall st inj calls,
    calls_of st inj = EV calls ->
    concat calls = flat_map (call_of st inj) (rev (listeners st)) /\
    forall lh, In lh (listeners st) -> exists o, occ st inj (F st) (snd lh) = EV o.
Proof.
  intros st inj calls H. unfold calls_of in H. apply emap_Forall2 in H. split.
  - induction H as [|lh y l ys Hy HF IH]; [reflexivity|].
    cbn [concat flat_map]. rewrite IH. f_equal. unfold call_of.
    ebind_inv Hy o Eo. rewrite Eo. destruct o; congruence.
  - intros lh Hin. apply in_rev in Hin. revert Hin.
    induction H as [|lh0 y l ys Hy HF IH]; intros Hin; [destruct Hin|].
    destruct Hin as [->|Hin]; [|auto]. ebind_inv Hy o Eo. eauto.
Qed.

(* the observations of a transaction are exactly the calls of its listeners, oldest listener first *)
Lemma close_calls : forall st inj ps r,
    close_txn st inj ps = EV r -> r_obs r = flat_map (call_of st inj) (rev (listeners st)).
Proof.
  intros st inj ps r H.
  apply close_txn_inv in H as (calls & nv & lzs & onces & defers & E1 & _ & _ & _ & _ & ->). prj.
  apply calls_of_flat_map in E1 as [E1 _]. exact E1.
Qed.

Lemma close_listeners_evaluate : forall st inj ps r l s,
    close_txn st inj ps = EV r -> In (l, s) (listeners st) -> exists o, occ st inj (F st) s = EV o.
Proof.
  intros st inj ps r l s H Hin.
  apply close_txn_inv in H as (calls & nv & lzs & onces & defers & E1 & _ & _ & _ & _ & ->).
  apply calls_of_flat_map in E1 as [_ E1]. apply (E1 (l, s) Hin).
Qed.

Lemma close_calls_iff : forall st inj ps r x,
    close_txn st inj ps = EV r ->
    (In x (r_obs r) <->
     exists l s v, x = BCall l v /\ In (l, s) (listeners st) /\ occ st inj (F st) s = EV (Some v)).
Proof.
  intros st inj ps r x H. rewrite (close_calls _ _ _ _ H). rewrite in_flat_map. split.
  - intros ([l s] & Hin & Hx). apply in_rev in Hin. unfold call_of in Hx. cbn [fst snd] in Hx.
    destruct (occ st inj (F st) s) as [[v|]|e] eqn:E; try destruct Hx as [<-|[]]; try destruct Hx.
    exists l, s, v. auto.
  - intros (l & s & v & -> & Hin & E). exists (l, s). split; [apply in_rev in Hin; exact Hin|].
    unfold call_of. cbn [fst snd]. rewrite E. left; reflexivity.
Qed.

Definition call_id (o : obs) : nat := match o with BCall l _ => l | _ => 0 end.

Lemma call_ids_sub : forall st inj L l,
    In l (map call_id (flat_map (call_of st inj) L)) -> In l (keys L).
Proof.
  induction L as [|lh t IH]; intros l Hin; [destruct Hin|].
  cbn [flat_map] in Hin. rewrite map_app in Hin. apply in_app_or in Hin as [Hin|Hin].
  - left. unfold call_of in Hin. destruct (occ st inj (F st) (snd lh)) as [[v|]|e]; try destruct Hin.
    + cbn in H. exact H.
    + destruct H.
  - right. apply IH. exact Hin.
Qed.

Lemma call_ids_nodup : forall st inj L, NoDup (keys L) -> NoDup (map call_id (flat_map (call_of st inj) L)).
Proof.
  induction L as [|lh t IH]; intros ND; [constructor|].
  cbn in ND. inversion ND as [|? ? Hn ND']; subst.
  cbn [flat_map]. rewrite map_app. unfold call_of at 1.
  destruct (occ st inj (F st) (snd lh)) as [[v|]|e]; cbn [map app]; auto.
  constructor; auto. intros Hin. apply Hn. eapply call_ids_sub; eauto.
Qed.

(* with distinct listener ids: every listener is called at most once, and exactly according to its stream *)
Lemma close_calls_nodup : forall st inj ps r,
    NoDup (keys (listeners st)) -> close_txn st inj ps = EV r ->
    NoDup (map call_id (r_obs r)) /\ Forall (fun x => is_call x = true) (r_obs r).
Proof.
  intros st inj ps r ND H. rewrite (close_calls _ _ _ _ H). split.
  - apply call_ids_nodup. unfold keys. rewrite map_rev. apply NoDup_rev. exact ND.
  - rewrite Forall_forall. intros x Hx. apply in_flat_map in Hx as (lh & _ & Hx).
    unfold call_of in Hx. destruct (occ st inj (F st) (snd lh)) as [[v|]|e]; try destruct Hx as [<-|[]]; try destruct Hx.
    reflexivity.
Qed.

Lemma close_call_of_listener : forall st inj ps r l s,
    NoDup (keys (listeners st)) -> close_txn st inj ps = EV r ->
    alookup (listeners st) l = Some s ->
    exists o, occ st inj (F st) s = EV o /\
              filter (fun x => Nat.eqb (call_id x) l) (r_obs r) =
              match o with Some v => [BCall l v] | None => [] end.
Proof.
  intros st inj ps r l s ND H Hl.
  pose proof (alookup_In _ _ _ _ Hl) as Hin.
  destruct (close_listeners_evaluate _ _ _ _ _ _ H Hin) as [o Eo]. exists o. split; [exact Eo|].
  rewrite (close_calls _ _ _ _ H).
  assert (NDr : NoDup (keys (rev (listeners st)))) by (unfold keys; rewrite map_rev; apply NoDup_rev; exact ND).
  apply in_rev in Hin. revert NDr Hin. generalize (rev (listeners st)) as L.
  induction L as [|[l0 s0] t IH]; intros NDr Hin; [destruct Hin|].
  cbn in NDr. inversion NDr as [|? ? Hn ND']; subst.
  cbn [flat_map]. rewrite filter_app. destruct Hin as [Hin|Hin].
  - injection Hin as -> ->. unfold call_of at 1. cbn [fst snd]. rewrite Eo.
    assert (Hrest : filter (fun x => Nat.eqb (call_id x) l) (flat_map (call_of st inj) t) = []).
    { destruct (filter _ (flat_map (call_of st inj) t)) as [|x xs] eqn:Ef; [reflexivity|].
      exfalso. apply Hn. assert (Hx : In x (x :: xs)) by (left; reflexivity). rewrite <- Ef in Hx.
      apply filter_In in Hx as [Hx Hid]. apply Nat.eqb_eq in Hid. rewrite <- Hid.
      eapply call_ids_sub. apply in_map. exact Hx. }
    rewrite Hrest, app_nil_r. destruct o; cbn; rewrite ?Nat.eqb_refl; reflexivity.
  - assert (Hne : l0 <> l).
    { intros ->. apply Hn. unfold keys. change l with (fst (l, s)). apply in_map. exact Hin. }
    rewrite (IH ND' Hin).
    assert (Hhd : filter (fun x => Nat.eqb (call_id x) l) (call_of st inj (l0, s0)) = []).
    { unfold call_of. cbn [fst snd]. destruct (occ st inj (F st) s0) as [[v|]|e]; try reflexivity.
      cbn. apply Nat.eqb_neq in Hne. rewrite Hne. reflexivity. }
    rewrite Hhd. reflexivity.
Qed.

(* ------------------------------------------------------------------ the observations of a closing step *)

Lemma closing_step_obs : forall ch st o st' os a,
    closes st o = true -> step ch st o = EV (st', os, a) ->
    exists st1 os1 r tr,
      prelude st o = EV (st1, os1) /\ Forall passive os1 /\ depth st1 = 1 /\
      close_txn st1 (sends st1) (posts st1) = EV r /\
      os = os1 ++ r_obs r ++ trace_obs tr /\
      forall e, In e tr ->
        committed_from (r_state r) (e_state e) /\
        match e_item e with
        | DEvent h v => exists r', close_txn (e_state e) [(h, v)] [] = EV r' /\ e_obs e = r_obs r'
        | DPost k cs => exists vs, emap (cur (e_state e) (F (e_state e))) cs = EV vs /\ e_obs e = [BPost k vs]
        end.
Proof.
  intros ch st o st' os a Hc H. rewrite step_closing in H by exact Hc.
  ebind_inv H r1 E1. ebind_inv H e Ee. injection H as <- <- <-. destruct r1 as [st1 os1], e as [[s2 o2] a2].
  prj_in Ee. prj. destruct (prelude_depth _ _ _ _ Hc E1) as [Hd Hp].
  apply end_outer_deferred in Ee as (r & tr & enq & Er & -> & Hs & _ & He & _).
  exists st1, os1, r, tr. split; [exact E1|]. split; [exact Hp|]. split; [exact Hd|]. split; [exact Er|].
  split; [reflexivity|]. intros e He'. split; [rewrite Forall_forall in Hs; apply Hs; exact He' | apply He; exact He'].
Qed.

(* ------------------------------------------------------------------ nothing carries over *)

(* [close_txn_ignores_sends], [occ_ignores_sends] (SpecAEquiv): the denotation of a transaction reads neither
   the nesting depth nor the sends / posts fields of the state: what is injected is its explicit argument only *)

(* two consecutive closure transactions: the second injects only its own sends *)
Lemma second_txn_own_sends : forall ch i st ops1 ops2 st1 os1 st2 os2,
    quiescent st -> nested ops1 -> nested ops2 ->
    run ch i st (OBegin :: ops1 ++ [OEnd]) = EV (st1, os1) ->
    run ch (i + S (S (length ops1))) st1 (OBegin :: ops2) = EV (st2, os2) ->
    quiescent st1 /\ sends st2 = flat_map sent ops2 /\
    forall ch', end_outer ch' st2 =
                (elet r <- close_txn st2 (flat_map sent ops2) (flat_map posted ops2);
                 run_deferred 200 ch' (r_state r) (r_deferred r) (r_obs r)).
Proof.
  intros ch i st ops1 ops2 st1 os1 st2 os2 Hq Hn1 Hn2 H1 H2.
  assert (Hq1 : quiescent st1).
  { change (OBegin :: ops1 ++ [OEnd]) with ((OBegin :: ops1) ++ [OEnd]) in H1.
    rewrite run_app in H1. ebind_inv H1 ra Ea. ebind_inv H1 rb Eb. injection H1 as <- <-.
    destruct ra as [sa oa], rb as [sb ob]. prj_in Eb. prj.
    destruct (txn_injects_sends _ _ _ _ _ _ Hq Hn1 Ea) as (_ & _ & _ & Hc & _).
    cbn [run] in Eb. ebind_inv Eb rc Ec. cbn [ebind] in Eb. injection Eb as <- <-.
    destruct rc as [[sc oc] ac]. prj. eapply step_closing_quiescent; eauto. }
  split; [exact Hq1|].
  destruct (txn_injects_sends _ _ _ _ _ _ Hq1 Hn2 H2) as (_ & Hs & _ & _ & _ & Hall).
  split; [exact Hs|]. intros ch'. apply (Hall ch').
Qed.
