(* C14: transaction brackets balance and leave the context quiescent. *)
From Coq Require Import List ZArith Bool Arith Lia Permutation.
Import ListNotations.
From Sodium Require Import Sodium SpecABase.
Open Scope nat_scope.

(* ------------------------------------------------------------------ unfolding occ / upd / cur *)

Lemma cur_S : forall st f c,
    cur st (S f) c =
    match alookup (cvals st) c with
    | Some v => EV v
    | None =>
      elet d <- def_of st c;
      match d with
      | DHold _ =>
        match alookup (inits st) c with
        | Some v => EV v
        | None =>
          match alookup (linit st) c with
          | Some z => match alookup (lazies st) z with
                      | Some (LzVal v, _) => EV v
                      | Some (LzCell c', _) => cur st f c'
                      | None => EErr Illegal
                      end
          | None => EErr Illegal
          end
        end
      | DMapC c' g => elet v <- cur st f c'; EV (app1 g v)
      | DLift cs g => elet vs <- emap (cur st f) cs; EV (appN g vs)
      | DSwitchC c' => elet v <- cur st f c'; match v with VRef n => cur st f n | _ => EErr Illegal end
      | DCLoop => match alookup (loops st) c with Some t => cur st f t | None => EErr SampledBeforeLoop end
      | _ => EErr Illegal
      end
    end.
Proof. reflexivity. Qed.

Lemma occ_S : forall st inj f s,
    occ st inj (S f) s =
    elet d <- def_of st s;
    match d with
    | DSink co => EV (coalesce co (injected inj s))
    | DNever => EV None
    | DMap a g => elet o <- occ st inj f a; EV (option_map (app1 g) o)
    | DFilter a p => elet o <- occ st inj f a;
                     EV (match o with Some v => if appP p v then Some v else None | None => None end)
    | DMerge a b g =>
      elet x <- occ st inj f a; elet y <- occ st inj f b;
      EV (match x, y with
          | Some u, Some w => Some (app2 g u w)
          | Some u, None => Some u
          | None, Some w => Some w
          | None, None => None
          end)
    | DSnapshot a cs g =>
      elet o <- occ st inj f a;
      match o with
      | None => EV None
      | Some v => elet vs <- emap (cur st (F st)) cs; EV (Some (appN g (v :: vs)))
      end
    | DGate a c =>
      elet o <- occ st inj f a;
      match o with
      | None => EV None
      | Some v => elet b <- cur st (F st) c; EV (if truthy b then Some v else None)
      end
    | DOnce a => if amem (fired st) s then EV None else occ st inj f a
    | DUpdates c => upd st inj f c
    | DValue c =>
      elet u <- upd st inj f c;
      if amem (fresh st) s
      then match u with Some v => EV (Some v) | None => elet v <- cur st (F st) c; EV (Some v) end
      else EV u
    | DSwitchS c => elet v <- cur st (F st) c; match v with VRef n => occ st inj f n | _ => EErr Illegal end
    | DSLoop => match alookup (loops st) s with Some t => occ st inj f t | None => EV None end
    | DDefer _ | DSplit _ => EV (coalesce None (injected inj s))
    | DRouter a _ => occ st inj f a
    | DRoute r k =>
      elet dr <- def_of st r;
      match dr with
      | DRouter a sl =>
        elet o <- occ st inj f a;
        EV (match o with
            | Some v => if existsb (Z.eqb k) (app_sel sl v) then Some v else None
            | None => None
            end)
      | _ => EErr Illegal
      end
    | _ => EErr Illegal
    end.
Proof. reflexivity. Qed.

Lemma upd_S : forall st inj f c,
    upd st inj (S f) c =
    elet d <- def_of st c;
    match d with
    | DHold a => occ st inj f a
    | DConst => EV None
    | DMapC c' g => elet o <- upd st inj f c'; EV (option_map (app1 g) o)
    | DLift cs g =>
      elet us <- emap (upd st inj f) cs;
      if existsb (fun o => match o with Some _ => true | None => false end) us
      then elet vs <- emap (fun c' => elet o <- upd st inj f c';
                                      match o with Some v => EV v | None => cur st (F st) c' end) cs;
           EV (Some (appN g vs))
      else EV None
    | DSwitchC c' =>
      elet o <- upd st inj f c';
      match o with
      | Some (VRef n) =>
        elet u <- upd st inj f n;
        match u with Some v => EV (Some v) | None => elet v <- cur st (F st) n; EV (Some v) end
      | Some _ => EErr Illegal
      | None => elet v <- cur st (F st) c'; match v with VRef i => upd st inj f i | _ => EErr Illegal end
      end
    | DCLoop => match alookup (loops st) c with Some t => upd st inj f t | None => EV None end
    | _ => EErr Illegal
    end.
Proof. reflexivity. Qed.

Lemma def_of_EV : forall st h d, def_of st h = EV d <-> alookup (defs st) h = Some d.
Proof.
  intros st h d; unfold def_of. destruct (alookup (defs st) h); split; intros H; try discriminate; congruence.
Qed.

(* ------------------------------------------------------------------ run_deferred, end_outer, leave: frames *)

Lemma run_deferred_frame : forall f ch st q acc st' os a,
    run_deferred f ch st q acc = EV (st', os, a) ->
    (st' = st \/ quiescent st') /\
    defs st' = defs st /\ loops st' = loops st /\ listeners st' = listeners st /\ tdone st' = tdone st.
Proof.
  induction f as [|f IH]; intros ch st q acc st' os a H; [discriminate|].
  rewrite run_deferred_S in H. destruct q as [|x t].
  - injection H as <- <- <-. auto.
  - cbv zeta in H. destruct (dpick ch (x :: t)) as [h v|kk cs].
    + ebind_inv H r Er. ebind_inv H rest Erest. injection H as <- <- <-.
      destruct rest as [[s1 o1] a1]. apply IH in Erest as (Hq & Hd & Hl & Hls & Ht). prj.
      destruct (close_txn_frame _ _ _ _ Er) as (Fd & Fl & Fls & Ft).
      split; [|repeat split; congruence].
      right. destruct Hq as [->|Hq]; [eapply close_txn_quiescent; eauto | exact Hq].
    + ebind_inv H vs Evs. ebind_inv H rest Erest. injection H as <- <- <-.
      destruct rest as [[s1 o1] a1]. apply IH in Erest. exact Erest.
Qed.

Lemma end_outer_frame : forall ch st st' os a,
    end_outer ch st = EV (st', os, a) ->
    quiescent st' /\
    defs st' = defs st /\ loops st' = loops st /\ listeners st' = listeners st /\ tdone st' = tdone st.
Proof.
  intros ch st st' os a H. unfold end_outer in H. ebind_inv H r Er.
  apply run_deferred_frame in H as (Hq & Hd & Hl & Hls & Ht).
  destruct (close_txn_frame _ _ _ _ Er) as (Fd & Fl & Fls & Ft).
  split; [|repeat split; congruence].
  destruct Hq as [->|Hq]; [eapply close_txn_quiescent; eauto | exact Hq].
Qed.

Lemma leave_eq : forall ch st acc,
    leave ch st acc =
    if Nat.eqb (depth st) 1
    then elet r <- end_outer ch st; EV (fst (fst r), acc ++ snd (fst r), snd r)
    else EV (set_depth st (pred (depth st)), acc, []).
Proof. intros ch st acc. unfold leave. destruct (depth st) as [|[|n]]; reflexivity. Qed.

(* ------------------------------------------------------------------ (a) which steps close *)

Definition closes (st : state) (o : op) : bool :=
  match o with
  | OBegin | OTNew _ => false
  | OEnd => Nat.eqb (depth st) 1
  | OTClose t => match alookup (tdone st) t with Some false => Nat.eqb (depth st) 1 | _ => false end
  | _ => Nat.eqb (depth st) 0
  end.

Definition depth_after (st : state) (o : op) : nat :=
  match o with
  | OBegin | OTNew _ => S (depth st)
  | OEnd => pred (depth st)
  | OTClose t => match alookup (tdone st) t with Some false => pred (depth st) | _ => depth st end
  | _ => depth st
  end.

Definition mark_closed (st : state) (t : nat) : state :=
  mkState (defs st) (cvals st) (inits st) (linit st) (fired st) (fresh st) (loops st)
          (listeners st) (depth st) (aset (tdone st) t true) (sends st) (posts st) (lazies st).

(* what a closing step does before the outermost transaction ends *)
Definition prelude (st : state) (o : op) : ev (state * list obs) :=
  match o with
  | OEnd => EV (st, [])
  | OTClose t => EV (mark_closed st t, [])
  | _ => body (set_depth st 1) o
  end.

Lemma closes_depth : forall st o, closes st o = true -> depth st <= 1.
Proof.
  intros st o H. destruct o; cbn in H; try discriminate;
    try (apply Nat.eqb_eq in H; lia).
  destruct (alookup (tdone st) t) as [[|]|]; try discriminate. apply Nat.eqb_eq in H; lia.
Qed.

Lemma prelude_depth : forall st o st1 os1,
    closes st o = true -> prelude st o = EV (st1, os1) -> depth st1 = 1 /\ Forall passive os1.
Proof.
  intros st o st1 os1 Hc H.
  destruct (is_bracket o) eqn:Eb.
  - destruct o; try discriminate Eb; cbn in Hc; try discriminate Hc; cbn in H.
    + injection H as <- <-. apply Nat.eqb_eq in Hc. auto.
    + injection H as <- <-. destruct (alookup (tdone st) t) as [[|]|]; try discriminate.
      apply Nat.eqb_eq in Hc. auto.
  - assert (Hb : prelude st o = body (set_depth st 1) o) by (destruct o; try discriminate Eb; reflexivity).
    rewrite Hb in H. split; [|eapply body_obs; eauto].
    apply body_frame in H as (Hd & _). rewrite Hd. reflexivity.
Qed.

(* (a), closing case: the step is the prelude (run at depth 1) followed by the end of the outermost
   transaction, in the same step *)
Lemma step_closing : forall ch st o,
    closes st o = true ->
    step ch st o =
    (elet r <- prelude st o;
     elet e <- end_outer ch (fst r);
     EV (fst (fst e), snd r ++ snd (fst e), snd e)).
Proof.
  intros ch st o Hc.
  destruct (is_bracket o) eqn:Eb.
  - destruct o; try discriminate Eb; cbn in Hc; try discriminate Hc.
    + cbn [step prelude ebind fst snd]. rewrite leave_eq, Hc. reflexivity.
    + cbn [step prelude]. destruct (alookup (tdone st) t) as [[|]|]; try discriminate Hc.
      cbn [ebind fst snd]. rewrite leave_eq. unfold mark_closed at 1. prj. rewrite Hc. reflexivity.
  - rewrite step_body_op by exact Eb.
    assert (Hd : depth st = 0) by (destruct o; try discriminate Eb; cbn in Hc; apply Nat.eqb_eq in Hc; exact Hc).
    assert (Hb : prelude st o = body (set_depth st 1) o) by (destruct o; try discriminate Eb; reflexivity).
    rewrite Hd, Hb. destruct (body (set_depth st 1) o) as [[st1 os1]|e] eqn:E; [|reflexivity].
    cbn [ebind fst snd]. rewrite leave_eq.
    apply body_frame in E as (Hd1 & _). rewrite Hd1. reflexivity.
Qed.

(* (a), open case *)
Lemma step_open : forall ch st o st' os a,
    closes st o = false ->
    step ch st o = EV (st', os, a) ->
    a = [] /\ Forall passive os /\ depth st' = depth_after st o /\
    fired st' = fired st /\ sends st' = sends st ++ sent o /\ posts st' = posts st ++ posted o /\
    (cvals st' = cvals st \/ exists h v, o = OConst h v /\ cvals st' = aset (cvals st) h v) /\
    (forall ch', step ch' st o = EV (st', os, a)).
Proof.
  intros ch st o st' os a Hc H.
  destruct (is_bracket o) eqn:Eb.
  - destruct o; try discriminate Eb; cbn [step] in H |- *; cbn [closes] in Hc; cbn [sent posted depth_after].
    + injection H as <- <- <-. prj. rewrite !app_nil_r. repeat split; auto.
    + rewrite leave_eq, Hc in H. injection H as <- <- <-. prj. rewrite !app_nil_r.
      repeat split; auto. intros ch'. rewrite leave_eq, Hc. reflexivity.
    + injection H as <- <- <-. prj. rewrite !app_nil_r. repeat split; auto.
    + destruct (alookup (tdone st) t) as [[|]|].
      * injection H as <- <- <-. rewrite !app_nil_r. repeat split; auto.
      * rewrite leave_eq in H. prj_in H. rewrite Hc in H. injection H as <- <- <-. prj. rewrite !app_nil_r.
        repeat split; auto. intros ch'. rewrite leave_eq. prj. rewrite Hc. reflexivity.
      * injection H as <- <- <-. rewrite !app_nil_r. repeat split; auto.
  - rewrite step_body_op in H by exact Eb.
    assert (Hd : depth st <> 0).
    { destruct o; try discriminate Eb; cbn in Hc; apply Nat.eqb_neq in Hc; exact Hc. }
    assert (Hda : depth_after st o = depth st) by (destruct o; try discriminate Eb; reflexivity).
    destruct (depth st) as [|n] eqn:En; [congruence|].
    ebind_inv H r Er. destruct r as [st1 os1]. injection H as <- <- <-. prj.
    pose proof (body_frame _ _ _ _ Er) as (Hd1 & _ & Hf & _ & _).
    pose proof (body_sends _ _ _ _ Er) as Hs. pose proof (body_posts _ _ _ _ Er) as Hp.
    pose proof (body_obs _ _ _ _ Er) as Ho.
    repeat split; auto; try congruence.
    + destruct o; try discriminate Eb; cbn [body] in Er;
        try (injection Er as <- <-; prj; auto; fail).
      * right. injection Er as <- <-. prj. eauto.
      * destruct (alookup (loops st) l); [discriminate|]. injection Er as <- <-; auto.
      * destruct (alookup (loops st) l); [discriminate|]. injection Er as <- <-; auto.
      * ebind_inv Er v E. injection Er as <- <-. auto.
      * destruct (alookup (lazies st) z) as [[[v|c] m]|]; [| |discriminate].
        -- injection Er as <- <-. auto.
        -- ebind_inv Er v E. injection Er as <- <-. auto.
      * destruct (alookup (lazies st) z); [|discriminate]. injection Er as <- <-; auto.
    + intros ch'. rewrite step_body_op by exact Eb. rewrite En, Er. reflexivity.
Qed.

(* depth arithmetic of one step, closing or not *)
Lemma step_depth : forall ch st o st' os a,
    step ch st o = EV (st', os, a) -> depth st' = depth_after st o.
Proof.
  intros ch st o st' os a H. destruct (closes st o) eqn:Hc.
  - rewrite step_closing in H by exact Hc.
    ebind_inv H r Er. ebind_inv H e Ee. injection H as <- <- <-.
    destruct e as [[s2 o2] a2]. apply end_outer_frame in Ee as ((Hd & _) & _). prj. rewrite Hd.
    pose proof (closes_depth _ _ Hc) as Hle.
    destruct o; cbn in Hc |- *; try discriminate Hc;
      try (apply Nat.eqb_eq in Hc; lia).
    destruct (alookup (tdone st) t) as [[|]|]; try discriminate Hc. apply Nat.eqb_eq in Hc; lia.
  - eapply step_open in H as (_ & _ & Hd & _); eauto.
Qed.

Lemma step_closing_quiescent : forall ch st o st' os a,
    closes st o = true -> step ch st o = EV (st', os, a) -> quiescent st'.
Proof.
  intros ch st o st' os a Hc H. rewrite step_closing in H by exact Hc.
  ebind_inv H r Er. ebind_inv H e Ee. injection H as <- <- <-.
  destruct e as [[s2 o2] a2]. apply end_outer_frame in Ee as (Hq & _). exact Hq.
Qed.

(* calls and posts are produced only by a step that closes the outermost transaction *)
Lemma passive_not_call : forall os, Forall passive os -> forall x, In x os -> is_call x = false /\ is_post x = false.
Proof.
  intros os HF x Hx. rewrite Forall_forall in HF. specialize (HF x Hx). destruct x; cbn in HF; try tauto; auto.
Qed.

Lemma step_calls_only_when_closing : forall ch st o st' os a x,
    step ch st o = EV (st', os, a) -> In x os -> (is_call x = true \/ is_post x = true) -> closes st o = true.
Proof.
  intros ch st o st' os a x H Hx Hcp. destruct (closes st o) eqn:Hc; [reflexivity|].
  eapply step_open in H as (_ & Hp & _); eauto.
  destruct (passive_not_call _ Hp _ Hx) as [H1 H2]. destruct Hcp; congruence.
Qed.

Lemma closes_iff : forall st o,
    closes st o = true <->
    (depth st = 0 /\ is_bracket o = false) \/
    (depth st = 1 /\ (o = OEnd \/ exists t, o = OTClose t /\ alookup (tdone st) t = Some false)).
Proof.
  intros st o; split.
  - intros H. destruct o; cbn in H; try discriminate H;
      try (left; apply Nat.eqb_eq in H; split; [exact H | reflexivity]).
    + right. apply Nat.eqb_eq in H. auto.
    + right. destruct (alookup (tdone st) t) as [[|]|] eqn:E; try discriminate H.
      apply Nat.eqb_eq in H. split; [exact H|]. right; exists t; auto.
  - intros [[Hd Hb]|[Hd [->|[t [-> Ht]]]]].
    + destruct o; try discriminate Hb; cbn; rewrite Hd; reflexivity.
    + cbn; rewrite Hd; reflexivity.
    + cbn; rewrite Ht, Hd; reflexivity.
Qed.

(* ------------------------------------------------------------------ (b) scoped close is idempotent *)

Lemma tclose_noop : forall ch st t,
    alookup (tdone st) t <> Some false -> step ch st (OTClose t) = EV (st, [], []).
Proof.
  intros ch st t H. cbn [step]. destruct (alookup (tdone st) t) as [[|]|]; congruence.
Qed.

Lemma leave_tdone : forall ch st acc st' os a, leave ch st acc = EV (st', os, a) -> tdone st' = tdone st.
Proof.
  intros ch st acc st' os a H. rewrite leave_eq in H. destruct (Nat.eqb (depth st) 1).
  - ebind_inv H r Er. injection H as <- <- <-. destruct r as [[s o] a']. prj.
    apply end_outer_frame in Er as (_ & _ & _ & _ & Ht). exact Ht.
  - injection H as <- <- <-. reflexivity.
Qed.

Lemma tclose_marks : forall ch st t st' os a,
    step ch st (OTClose t) = EV (st', os, a) -> alookup (tdone st') t <> Some false.
Proof.
  intros ch st t st' os a H. cbn [step] in H.
  destruct (alookup (tdone st) t) as [[|]|] eqn:E.
  - injection H as <- <- <-. congruence.
  - apply leave_tdone in H. prj_in H. rewrite H, alookup_aset, Nat.eqb_refl. discriminate.
  - injection H as <- <- <-. congruence.
Qed.

Lemma tclose_idem : forall ch ch' st t st' os a,
    step ch st (OTClose t) = EV (st', os, a) -> step ch' st' (OTClose t) = EV (st', [], []).
Proof. intros. apply tclose_noop. eapply tclose_marks; eauto. Qed.

(* ------------------------------------------------------------------ (c) quiescence *)

Definition qinv (st : state) : Prop := depth st = 0 -> quiescent st.

Lemma step_quiescent : forall ch st o st' os a,
    qinv st -> step ch st o = EV (st', os, a) -> depth st' = 0 -> quiescent st'.
Proof.
  intros ch st o st' os a Hq H Hd. destruct (closes st o) eqn:Hc.
  - eapply step_closing_quiescent; eauto.
  - pose proof (step_open _ _ _ _ _ _ Hc H) as (_ & _ & Hda & _).
    (* an open step ends at depth 0 only for OEnd / OTClose at depth 0 *)
    destruct (is_bracket o) eqn:Eb.
    + destruct o; try discriminate Eb; cbn [depth_after] in Hda; try lia; cbn [step] in H.
      * assert (Hd0 : depth st = 0).
        { cbn in Hc. apply Nat.eqb_neq in Hc. lia. }
        rewrite leave_eq, Hd0 in H. cbn in H. injection H as <- <- <-.
        destruct (Hq Hd0) as (_ & Q2 & Q3 & Q4 & Q5 & Q6). repeat split; auto.
      * cbn in Hc. destruct (alookup (tdone st) t) as [[|]|].
        -- injection H as <- <- <-. auto.
        -- assert (Hd0 : depth st = 0) by (apply Nat.eqb_neq in Hc; lia).
           rewrite leave_eq in H. prj_in H. rewrite Hd0 in H. cbn in H. injection H as <- <- <-.
           destruct (Hq Hd0) as (_ & Q2 & Q3 & Q4 & Q5 & Q6). repeat split; auto.
        -- injection H as <- <- <-. auto.
    + assert (Hd0 : depth st = 0) by (destruct o; try discriminate Eb; cbn in Hda; lia).
      destruct o; try discriminate Eb; cbn in Hc; rewrite Hd0 in Hc; discriminate.
Qed.

Lemma step_qinv : forall ch st o st' os a, qinv st -> step ch st o = EV (st', os, a) -> qinv st'.
Proof. intros; intros Hd; eapply step_quiescent; eauto. Qed.

Lemma run_qinv : forall ch ops i st st' os, qinv st -> run ch i st ops = EV (st', os) -> qinv st'.
Proof.
  induction ops as [|o t IH]; intros i st st' os Hq H; cbn [run] in H.
  - injection H as <- <-. exact Hq.
  - ebind_inv H r Er. ebind_inv H r' Er'. injection H as <- <-.
    destruct r as [[s1 o1] a1], r' as [s2 o2]. eapply IH; [|exact Er']. eapply step_qinv; eauto.
Qed.

Lemma qinv_init : qinv init_state.
Proof. intros _. repeat split. Qed.

(* ---- a transaction without sends and without a freshly created value() stream calls nobody *)

Definition no_fresh_value (st : state) : Prop :=
  forall s c, In s (fresh st) -> alookup (defs st) s <> Some (DValue c).

Lemma emap_all_none : forall (g : nat -> ev (option val)) cs us,
    (forall c o, g c = EV o -> o = None) -> emap g cs = EV us ->
    existsb (fun o => match o with Some _ => true | None => false end) us = false.
Proof.
  intros g cs us Hg H. apply emap_Forall2 in H.
  induction H as [|c u cs us Hcu HF IH]; [reflexivity|].
  cbn. rewrite (Hg _ _ Hcu). exact IH.
Qed.

Lemma silent_occ_upd : forall st, no_fresh_value st ->
    forall f, (forall s o, occ st [] f s = EV o -> o = None) /\ (forall c o, upd st [] f c = EV o -> o = None).
Proof.
  intros st Hnf. induction f as [|f [IHo IHu]]; [split; intros; discriminate|].
  split.
  - intros s o H. rewrite occ_S in H. ebind_inv H d Ed. apply def_of_EV in Ed.
    destruct d; try discriminate H.
    + injection H as <-. reflexivity.
    + injection H as <-. reflexivity.
    + ebind_inv H x Ex. injection H as <-. rewrite (IHo _ _ Ex). reflexivity.
    + ebind_inv H x Ex. injection H as <-. rewrite (IHo _ _ Ex). reflexivity.
    + ebind_inv H x Ex. ebind_inv H y Ey. injection H as <-.
      rewrite (IHo _ _ Ex), (IHo _ _ Ey). reflexivity.
    + ebind_inv H x Ex. rewrite (IHo _ _ Ex) in H. injection H as <-. reflexivity.
    + ebind_inv H x Ex. rewrite (IHo _ _ Ex) in H. injection H as <-. reflexivity.
    + destruct (amem (fired st) s); [injection H as <-; reflexivity | eauto].
    + eauto.
    + ebind_inv H u Eu. destruct (amem (fresh st) s) eqn:Ef.
      * apply amem_In in Ef. exfalso. eapply Hnf; eauto.
      * injection H as <-. eauto.
    + ebind_inv H v Ev. destruct v; try discriminate H. eauto.
    + destruct (alookup (loops st) s); [eauto | injection H as <-; reflexivity].
    + injection H as <-. reflexivity.
    + injection H as <-. reflexivity.
    + eauto.
    + ebind_inv H dr Edr. destruct dr; try discriminate H.
      ebind_inv H x Ex. injection H as <-. rewrite (IHo _ _ Ex). reflexivity.
  - intros c o H. rewrite upd_S in H. ebind_inv H d Ed.
    destruct d; try discriminate H.
    + eauto.
    + injection H as <-; reflexivity.
    + ebind_inv H x Ex. injection H as <-. rewrite (IHu _ _ Ex). reflexivity.
    + ebind_inv H us Eus. rewrite (emap_all_none _ _ _ IHu Eus) in H. injection H as <-; reflexivity.
    + ebind_inv H x Ex. rewrite (IHu _ _ Ex) in H. ebind_inv H v Ev.
      destruct v; try discriminate H. eauto.
    + destruct (alookup (loops st) c); [eauto | injection H as <-; reflexivity].
Qed.

Lemma concat_all_nil : forall A (ls : list (list A)), Forall (fun l => l = []) ls -> concat ls = [].
Proof. induction 1 as [|l ls -> HF IH]; cbn; auto. Qed.

Lemma Forall2_right : forall A B (R : A -> B -> Prop) (P : B -> Prop) l ys,
    Forall2 R l ys -> (forall x y, R x y -> P y) -> Forall P ys.
Proof. induction 1; intros HR; constructor; eauto. Qed.

Lemma silent_close : forall st ps r,
    no_fresh_value st -> close_txn st [] ps = EV r ->
    r_obs r = [] /\ r_deferred r = posts_items ps /\ fired (r_state r) = fired st.
Proof.
  intros st ps r Hnf H.
  destruct (silent_occ_upd st Hnf (F st)) as [Ho Hu].
  apply close_txn_inv in H as (calls & nv & lzs & onces & defers & E1 & _ & _ & E4 & E5 & ->). prj.
  assert (C1 : concat calls = []).
  { apply concat_all_nil. apply emap_Forall2 in E1. eapply Forall2_right; [exact E1|].
    intros lh y Hy; cbn beta in Hy. ebind_inv Hy o Eo. rewrite (Ho _ _ Eo) in Hy. congruence. }
  assert (C4 : concat onces = []).
  { apply concat_all_nil. apply emap_Forall2 in E4. eapply Forall2_right; [exact E4|].
    intros kd y Hy; cbn beta in Hy. destruct (snd kd); try congruence.
    ebind_inv Hy o Eo. rewrite (Ho _ _ Eo) in Hy. congruence. }
  assert (C5 : concat defers = []).
  { apply concat_all_nil. apply emap_Forall2 in E5. eapply Forall2_right; [exact E5|].
    intros kd y Hy; cbn beta in Hy. destruct (snd kd); try congruence.
    - ebind_inv Hy o Eo. rewrite (Ho _ _ Eo) in Hy. congruence.
    - ebind_inv Hy o Eo. rewrite (Ho _ _ Eo) in Hy. congruence. }
  rewrite C1, C4, C5. auto.
Qed.

Definition is_dpost (d : ditem) : Prop := match d with DPost _ _ => True | DEvent _ _ => False end.

Lemma run_deferred_posts_only : forall f ch st q acc st' os a,
    Forall is_dpost q -> run_deferred f ch st q acc = EV (st', os, a) ->
    st' = st /\ exists os', os = acc ++ os' /\ Forall (fun x => is_post x = true) os'.
Proof.
  induction f as [|f IH]; intros ch st q acc st' os a Hq H; [discriminate|].
  rewrite run_deferred_S in H. destruct q as [|x t].
  - injection H as <- <- <-. split; [reflexivity|]. exists []. rewrite app_nil_r. auto.
  - cbv zeta in H.
    assert (Hin : In (dpick ch (x :: t)) (x :: t)).
    { eapply heads_sub. apply dpick_in. discriminate. }
    assert (Hp : is_dpost (dpick ch (x :: t))).
    { rewrite Forall_forall in Hq. apply Hq, Hin. }
    destruct (dpick ch (x :: t)) as [h v|kk cs] eqn:Ed; [destruct Hp|].
    ebind_inv H vs Evs. ebind_inv H rest Erest. injection H as <- <- <-.
    destruct rest as [[s1 o1] a1]. apply IH in Erest as (-> & os' & -> & Hos').
    + prj. split; [reflexivity|]. exists (BPost kk vs :: os'). rewrite <- app_assoc. split; [reflexivity|].
      constructor; auto.
    + rewrite Forall_forall in Hq |- *. intros d Hd. apply Hq. eapply remove_first_sub; eauto.
Qed.

Lemma posts_items_dpost : forall ps, Forall is_dpost (posts_items ps).
Proof. intros ps. unfold posts_items. rewrite Forall_map. rewrite Forall_forall. intros; exact I. Qed.

(* the end of a transaction in which nothing was sent and no value() stream was created *)
Lemma silent_end_outer : forall ch st st' os a,
    sends st = [] -> no_fresh_value st -> end_outer ch st = EV (st', os, a) ->
    Forall (fun x => is_post x = true) os /\ fired st' = fired st /\ (posts st = [] -> os = [] /\ a = []).
Proof.
  intros ch st st' os a Hs Hnf H. unfold end_outer in H. ebind_inv H r Er. rewrite Hs in Er.
  destruct (silent_close _ _ _ Hnf Er) as (Ho & Hd & Hf). rewrite Ho, Hd in H.
  pose proof H as H0.
  apply run_deferred_posts_only in H as (-> & os' & -> & Hos'); [|apply posts_items_dpost].
  split; [exact Hos'|]. split; [exact Hf|].
  intros Hp. rewrite Hp in H0. cbn in H0. injection H0 as E1 E2. cbn in E1. subst. auto.
Qed.

(* the empty transaction  OBegin; OEnd  from a quiescent state: nothing is observed *)
Lemma empty_txn : forall ch ch' st st1 os1 a1 st2 os2 a2,
    quiescent st ->
    step ch st OBegin = EV (st1, os1, a1) -> step ch' st1 OEnd = EV (st2, os2, a2) ->
    os1 = [] /\ os2 = [] /\ a2 = [] /\ quiescent st2 /\ fired st2 = fired st /\
    defs st2 = defs st /\ listeners st2 = listeners st /\ loops st2 = loops st /\ tdone st2 = tdone st.
Proof.
  intros ch ch' st st1 os1 a1 st2 os2 a2 (Q1 & Q2 & Q3 & Q4 & Q5 & Q6) H1 H2.
  cbn [step] in H1. injection H1 as <- <- <-.
  cbn [step] in H2. rewrite leave_eq in H2. prj_in H2. rewrite Q1 in H2. cbn [Nat.eqb] in H2.
  ebind_inv H2 r Er. injection H2 as <- <- <-. destruct r as [[s o] a]. prj.
  pose proof (end_outer_frame _ _ _ _ _ Er) as (Hq & Hd & Hl & Hls & Ht).
  apply silent_end_outer in Er as (_ & Hf & Hemp); [| exact Q2 | intros s' c' Hin; prj_in Hin; rewrite Q4 in Hin; destruct Hin].
  destruct (Hemp Q3) as [-> ->]. repeat split; auto; apply Hq.
Qed.

(* a step whose transaction saw no send and no fresh value() calls nobody *)
Lemma silent_step_no_call : forall ch st o st' os a,
    closes st o = true ->
    (forall st1 os1, prelude st o = EV (st1, os1) -> sends st1 = [] /\ no_fresh_value st1) ->
    step ch st o = EV (st', os, a) -> forall x, In x os -> is_call x = false.
Proof.
  intros ch st o st' os a Hc Hpre H x Hx. rewrite step_closing in H by exact Hc.
  ebind_inv H r Er. ebind_inv H e Ee. injection H as <- <- <-. destruct r as [st1 os1], e as [[s2 o2] a2].
  prj_in Ee. prj_in Hx. destruct (Hpre _ _ Er) as [Hs Hnf].
  apply in_app_or in Hx as [Hx|Hx].
  - destruct (prelude_depth _ _ _ _ Hc Er) as [_ Hp]. eapply passive_not_call; eauto.
  - eapply silent_end_outer in Ee as (Hp & _); eauto. rewrite Forall_forall in Hp.
    specialize (Hp _ Hx). destruct x; try discriminate Hp; reflexivity.
Qed.

(* ------------------------------------------------------------------ (d) depth arithmetic *)

Lemma end_at_depth0 : forall ch st, depth st = 0 -> step ch st OEnd = EV (st, [], []).
Proof.
  intros ch st Hd. cbn [step]. rewrite leave_eq, Hd. cbn. rewrite <- Hd at 1. rewrite set_depth_same. reflexivity.
Qed.

Lemma tclose_at_depth0 : forall ch st t,
    depth st = 0 -> alookup (tdone st) t = Some false ->
    step ch st (OTClose t) = EV (mark_closed st t, [], []).
Proof.
  intros ch st t Hd Ht. cbn [step]. rewrite Ht, leave_eq. prj. rewrite Hd. cbn.
  unfold mark_closed. rewrite Hd. reflexivity.
Qed.

Inductive nested : list op -> Prop :=
| nested_nil : nested []
| nested_op : forall o, is_bracket o = false -> nested [o]
| nested_wrap : forall l, nested l -> nested (OBegin :: l ++ [OEnd])
| nested_app : forall l1 l2, nested l1 -> nested l2 -> nested (l1 ++ l2).

Lemma run_nested_depth : forall ops, nested ops ->
    forall ch i st st' os, run ch i st ops = EV (st', os) -> depth st' = depth st.
Proof.
  induction 1 as [|o Hb|l Hl IH|l1 l2 H1 IH1 H2 IH2]; intros ch i st st' os H.
  - cbn in H. injection H as <- <-. reflexivity.
  - cbn [run] in H. ebind_inv H r Er. cbn [run ebind] in H. injection H as <- <-.
    destruct r as [[s1 o1] a1]. apply step_depth in Er. prj. rewrite Er.
    destruct o; try discriminate Hb; reflexivity.
  - cbn [run] in H. ebind_inv H r Er. cbn [step] in Er. injection Er as <-. prj_in H.
    ebind_inv H r' Er'. injection H as <- <-. rewrite run_app in Er'.
    ebind_inv Er' r1 E1. ebind_inv Er' r2 E2. injection Er' as <-. prj.
    destruct r1 as [s1 o1]. apply IH in E1. prj_in E1. prj_in E2.
    cbn [run] in E2. ebind_inv E2 r3 E3. cbn [ebind] in E2. injection E2 as <-. prj.
    destruct r3 as [[s3 o3] a3]. apply step_depth in E3. prj. rewrite E3. cbn [depth_after]. rewrite E1. reflexivity.
  - rewrite run_app in H. ebind_inv H r1 E1. ebind_inv H r2 E2. injection H as <- <-.
    destruct r1 as [s1 o1], r2 as [s2 o2]. apply IH1 in E1. apply IH2 in E2. prj_in E2. prj. congruence.
Qed.

(* n opens followed by n closes *)
Lemma nested_repeat : forall n, nested (repeat OBegin n ++ repeat OEnd n).
Proof.
  induction n as [|n IH]; [constructor|].
  replace (repeat OEnd (S n)) with (repeat OEnd n ++ [OEnd]).
  - cbn [repeat app]. rewrite app_assoc. apply nested_wrap. exact IH.
  - clear. induction n; cbn; [reflexivity|]. rewrite IHn at 1. reflexivity.
Qed.

(* ------------------------------------------------------------------ the tables keep distinct keys *)

Definition tables_ok (st : state) : Prop := NoDup (keys (defs st)) /\ NoDup (keys (listeners st)).

Lemma body_tables_ok : forall st o st' os, tables_ok st -> body st o = EV (st', os) -> tables_ok st'.
Proof.
  intros st o st' os [Hd Hl] H. unfold tables_ok.
  destruct o; cbn [body] in H;
    try (injection H as <- <-; prj; split;
         auto using NoDup_keys_aset, NoDup_keys_filter; fail).
  - destruct (alookup (loops st) l); [discriminate|]. injection H as <- <-; auto.
  - destruct (alookup (loops st) l); [discriminate|]. injection H as <- <-; auto.
  - ebind_inv H v E. injection H as <- <-. auto.
  - destruct (alookup (lazies st) z) as [[[v|c] m]|]; [| |discriminate].
    + injection H as <- <-. auto.
    + ebind_inv H v E. injection H as <- <-. auto.
  - destruct (alookup (lazies st) z); [|discriminate]. injection H as <- <-; auto.
Qed.

Lemma prelude_tables_ok : forall st o st1 os1, tables_ok st -> prelude st o = EV (st1, os1) -> tables_ok st1.
Proof.
  intros st o st1 os1 Hok H.
  destruct (is_bracket o) eqn:Eb.
  - destruct o; try discriminate Eb; cbn in H; injection H as <- <-; exact Hok.
  - assert (Hb : prelude st o = body (set_depth st 1) o) by (destruct o; try discriminate Eb; reflexivity).
    rewrite Hb in H. eapply body_tables_ok; [|exact H]. exact Hok.
Qed.

Lemma step_tables_ok : forall ch st o st' os a, tables_ok st -> step ch st o = EV (st', os, a) -> tables_ok st'.
Proof.
  intros ch st o st' os a Hok H. destruct (closes st o) eqn:Hc.
  - rewrite step_closing in H by exact Hc.
    ebind_inv H r Er. ebind_inv H e Ee. injection H as <- <- <-. destruct r as [st1 os1], e as [[s2 o2] a2].
    prj_in Ee. prj. apply prelude_tables_ok in Er; [|exact Hok].
    apply end_outer_frame in Ee as (_ & Hd & _ & Hl & _). unfold tables_ok in *. rewrite Hd, Hl. exact Er.
  - destruct (is_bracket o) eqn:Eb.
    + destruct o; try discriminate Eb; cbn [step] in H; cbn [closes] in Hc.
      * injection H as <- <- <-. exact Hok.
      * rewrite leave_eq, Hc in H. injection H as <- <- <-. exact Hok.
      * injection H as <- <- <-. exact Hok.
      * destruct (alookup (tdone st) t) as [[|]|].
        -- injection H as <- <- <-. exact Hok.
        -- rewrite leave_eq in H. prj_in H. rewrite Hc in H. injection H as <- <- <-. exact Hok.
        -- injection H as <- <- <-. exact Hok.
    + rewrite step_body_op in H by exact Eb.
      destruct (depth st) as [|n] eqn:En.
      { destruct o; try discriminate Eb; cbn in Hc; rewrite En in Hc; discriminate. }
      ebind_inv H r Er. destruct r as [st1 os1]. injection H as <- <- <-. prj.
      eapply body_tables_ok; eauto.
Qed.

Lemma run_tables_ok : forall ch ops i st st' os, tables_ok st -> run ch i st ops = EV (st', os) -> tables_ok st'.
Proof.
  induction ops as [|o t IH]; intros i st st' os Hq H; cbn [run] in H.
  - injection H as <- <-. exact Hq.
  - ebind_inv H r Er. ebind_inv H r' Er'. injection H as <- <-.
    destruct r as [[s1 o1] a1], r' as [s2 o2]. eapply IH; [|exact Er']. eapply step_tables_ok; eauto.
Qed.

Lemma tables_ok_init : tables_ok init_state.
Proof. split; constructor. Qed.

(* ------------------------------------------------------------------ corollaries in the form quoted by Props *)

Lemma step_quiescent_fields : forall ch st o st' os a,
    (depth st = 0 -> quiescent st) ->
    step ch st o = EV (st', os, a) -> depth st' = 0 ->
    sends st' = [] /\ posts st' = [] /\ fresh st' = [] /\ inits st' = [] /\ linit st' = [].
Proof. intros ch st o st' os a Hq H Hd. exact (proj2 (step_quiescent ch st o st' os a Hq H Hd)). Qed.

Lemma run_init_quiescent : forall ch ops st' os,
    run ch 0 init_state ops = EV (st', os) -> depth st' = 0 -> quiescent st'.
Proof. intros ch ops st' os H. exact (run_qinv ch ops 0 init_state st' os qinv_init H). Qed.

Lemma run_repeat_depth : forall n ch i st st' os,
    run ch i st (repeat OBegin n ++ repeat OEnd n) = EV (st', os) -> depth st' = depth st.
Proof. intros n. exact (run_nested_depth _ (nested_repeat n)). Qed.

Lemma run_init_tables : forall ch ops st' os,
    run ch 0 init_state ops = EV (st', os) -> NoDup (keys (defs st')) /\ NoDup (keys (listeners st')).
Proof. intros ch ops st' os H. exact (run_tables_ok ch ops 0 init_state st' os tables_ok_init H). Qed.

Lemma run_init_listeners_nodup : forall ch ops st' os,
    run ch 0 init_state ops = EV (st', os) -> NoDup (keys (listeners st')).
Proof. intros ch ops st' os H. exact (proj2 (run_init_tables ch ops st' os H)). Qed.

Lemma closing_sends_emptied : forall ch st o st' os a,
    closes st o = true -> step ch st o = EV (st', os, a) -> sends st' = [] /\ posts st' = [].
Proof. intros ch st o st' os a Hc H. destruct (step_closing_quiescent ch st o st' os a Hc H) as (_ & H1 & H2 & _). auto. Qed.

(* why (c) needs its hypothesis: on a state no script can reach (depth 0 with pending sends) an unmatched
   OEnd changes nothing, so the sends stay *)
Lemma quiescence_needs_invariant :
  let st := mkState [] [] [] [] [] [] [] [] 0 [] [(0, VInt 1)] [] [] in
  step [] st OEnd = EV (st, [], []) /\ depth st = 0 /\ sends st <> [].
Proof. cbv zeta. split; [reflexivity|]. split; [reflexivity | discriminate]. Qed.
