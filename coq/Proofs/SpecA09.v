(* C09: independence of construction order, of handle lifetime and of collection timing. *)
From Coq Require Import List ZArith Bool Arith Lia Permutation.
Import ListNotations.
From Sodium Require Import Sodium SpecABase SpecA14 SpecAEquiv SpecA12 SpecA15 SpecA01.
Open Scope nat_scope.

(* ------------------------------------------------------------------ (a) ONop: clone / drop / gc *)

Lemma nop_inside : forall ch st, depth st <> 0 -> step ch st ONop = EV (st, [], []).
Proof.
  intros ch st Hd. rewrite step_body_op by reflexivity. destruct (depth st); [congruence | reflexivity].
Qed.

Lemma nop_is_empty_txn : forall ch st, depth st = 0 -> step ch st ONop = step ch (set_depth st 1) OEnd.
Proof. intros ch st Hd. rewrite step_body_op by reflexivity. rewrite Hd. reflexivity. Qed.

Definition lazies_resolved (st : state) : Prop :=
  Forall (fun zl : nat * (lz * nat) => match fst (snd zl) with LzVal _ => True | LzCell _ => False end) (lazies st).

Lemma lzs_resolved_id : forall st lzs, lazies_resolved st -> lzs_of st = EV lzs -> lzs = lazies st.
Proof.
  intros st lzs Hr H. unfold lzs_of in H. unfold lazies_resolved in Hr. apply emap_Forall2 in H.
  revert Hr. induction H as [|zl y l ys Hy HF IH]; intros Hr; [reflexivity|].
  inversion Hr as [|? ? Hz Ht]; subst. rewrite (IH Ht). f_equal.
  destruct (fst (snd zl)); [congruence | destruct Hz].
Qed.

Lemma close_lazies_resolved : forall st inj ps r, close_txn st inj ps = EV r -> lazies_resolved (r_state r).
Proof.
  intros st inj ps r H.
  apply close_txn_inv in H as (calls & nv & lzs & onces & defers & _ & _ & E3 & _ & _ & ->).
  unfold lazies_resolved, closed_state; prj. unfold lzs_of in E3. apply emap_Forall2 in E3.
  induction E3 as [|zl y l ys Hy HF IH]; constructor; auto.
  destruct (fst (snd zl)) eqn:E.
  - injection Hy as <-. rewrite E. exact I.
  - ebind_inv Hy v Ev. injection Hy as <-. exact I.
Qed.

Lemma steq_set_depth : forall st n, steq (set_depth st n) st.
Proof. intros; constructor; reflexivity. Qed.

(* outside a transaction ONop runs the empty transaction: nothing is observed, no deferred choice, every
   table is kept, every cell keeps the value a sample would have returned *)
Lemma nop_outside : forall ch st st' os a,
    quiescent st -> step ch st ONop = EV (st', os, a) ->
    os = [] /\ a = [] /\ quiescent st' /\
    defs st' = defs st /\ loops st' = loops st /\ listeners st' = listeners st /\ tdone st' = tdone st /\
    fired st' = fired st /\
    (lazies_resolved st -> lazies st' = lazies st) /\
    (forall c d v, alookup (defs st) c = Some d -> is_cell d = true -> cur st (F st) c = EV v ->
                   alookup (cvals st') c = Some v /\ forall f, cur st' (S f) c = EV v).
Proof.
  intros ch st st' os a (Q1 & Q2 & Q3 & Q4 & Q5 & Q6) H.
  rewrite nop_is_empty_txn in H by exact Q1. cbn [step] in H. rewrite leave_eq in H. cbn [set_depth depth Nat.eqb] in H.
  ebind_inv H e Ee. injection H as <- <- <-. destruct e as [[s2 o2] a2]. prj.
  set (st1 := set_depth st 1) in *.
  assert (Hnf : no_fresh_value st1) by (intros s c Hin; subst st1; prj_in Hin; rewrite Q4 in Hin; destruct Hin).
  unfold end_outer in Ee. ebind_inv Ee r Er.
  assert (Hs1 : sends st1 = []) by exact Q2. assert (Hp1 : posts st1 = []) by exact Q3.
  rewrite Hs1, Hp1 in Er.
  destruct (silent_close _ _ _ Hnf Er) as (Ho & Hd & Hf). rewrite Ho, Hd in Ee. cbn in Ee.
  injection Ee as <- <- <-.
  destruct (close_txn_frame _ _ _ _ Er) as (Fd & Fl & Fls & Ft).
  split; [reflexivity|]. split; [reflexivity|]. split; [eapply close_txn_quiescent; eauto|].
  split; [exact Fd|]. split; [exact Fl|]. split; [exact Fls|]. split; [exact Ft|]. split; [exact Hf|]. split.
  - intros Hr. apply close_txn_inv in Er as (calls & nv & lzs & onces & defers & _ & _ & E3 & _ & _ & ->).
    unfold closed_state; prj. apply (lzs_resolved_id st1); [exact Hr | exact E3].
  - intros c d v Hdc Hcell Hcur.
    assert (E : alookup (cvals (r_state r)) c = Some v).
    { rewrite (close_cvals _ _ _ _ c d Er Hdc Hcell).
      assert (Hc1 : cur st1 (F st1) c = EV v).
      { rewrite (cur_steq _ _ (steq_set_depth st 1)). exact Hcur. }
      rewrite Hc1. destruct (silent_occ_upd st1 Hnf (F st1)) as [_ Hu].
      destruct (upd st1 [] (F st1) c) as [[w|]|e] eqn:Eu; try reflexivity.
      specialize (Hu _ _ Eu). discriminate. }
    split; [exact E|]. intros f. rewrite cur_S, E. reflexivity.
Qed.

(* ------------------------------------------------------------------ (b) lookups only *)

Lemma alookup_perm : forall A (l l' : list (nat * A)),
    NoDup (keys l) -> Permutation l l' -> forall k, alookup l k = alookup l' k.
Proof.
  intros A l l' ND HP k.
  assert (ND' : NoDup (keys l')).
  { eapply Permutation_NoDup; [|exact ND]. unfold keys. apply Permutation_map. exact HP. }
  destruct (alookup l k) as [v|] eqn:E.
  - apply alookup_In in E. symmetry. apply In_alookup_NoDup; [exact ND'|].
    eapply Permutation_in; eauto.
  - symmetry. apply alookup_None. apply alookup_None in E. intros Hin. apply E.
    unfold keys in *. eapply Permutation_in; [apply Permutation_map; symmetry; exact HP | exact Hin].
Qed.

Lemma amem_perm : forall l l', Permutation l l' -> forall k, amem l k = amem l' k.
Proof.
  intros l l' HP k. destruct (amem l k) eqn:E.
  - symmetry. apply amem_In. apply amem_In in E. eapply Permutation_in; eauto.
  - destruct (amem l' k) eqn:E'; [|reflexivity].
    apply amem_In in E'. assert (Hin : In k l) by (eapply Permutation_in; [symmetry; exact HP | exact E']).
    pose proof (proj2 (amem_In l k) Hin) as Ht. congruence.
Qed.

(* reordering the tables (distinct keys) does not change the denotation *)
Lemma steq_of_perm : forall st st',
    NoDup (keys (defs st)) -> NoDup (keys (cvals st)) -> NoDup (keys (inits st)) -> NoDup (keys (linit st)) ->
    NoDup (keys (lazies st)) -> NoDup (keys (loops st)) ->
    Permutation (defs st) (defs st') -> Permutation (cvals st) (cvals st') ->
    Permutation (inits st) (inits st') -> Permutation (linit st) (linit st') ->
    Permutation (lazies st) (lazies st') -> Permutation (loops st) (loops st') ->
    Permutation (fired st) (fired st') -> Permutation (fresh st) (fresh st') ->
    steq st st'.
Proof.
  intros st st' N1 N2 N3 N4 N5 N6 P1 P2 P3 P4 P5 P6 P7 P8.
  constructor; try (apply alookup_perm; assumption); try (apply amem_perm; assumption).
  apply Permutation_length. exact P1.
Qed.

(* per-listener observations of a transaction depend on the state only up to [steq] and on the listener
   table only through its lookups: two construction orders give every listener the same calls *)
Lemma close_per_listener : forall st st' inj ps ps' r r' l,
    steq st st' -> (forall k, alookup (listeners st) k = alookup (listeners st') k) ->
    NoDup (keys (listeners st)) -> NoDup (keys (listeners st')) ->
    close_txn st inj ps = EV r -> close_txn st' inj ps' = EV r' ->
    filter (fun x => Nat.eqb (call_id x) l) (r_obs r) = filter (fun x => Nat.eqb (call_id x) l) (r_obs r').
Proof.
  intros st st' inj ps ps' r r' l Heq Hl ND ND' H H'.
  destruct (alookup (listeners st) l) as [s|] eqn:E.
  - destruct (close_call_of_listener _ _ _ _ _ _ ND H E) as (o & Eo & ->).
    rewrite Hl in E. destruct (close_call_of_listener _ _ _ _ _ _ ND' H' E) as (o' & Eo' & ->).
    rewrite (steq_F _ _ Heq), (occ_steq _ _ inj Heq) in Eo. rewrite Eo in Eo'. injection Eo' as <-. reflexivity.
  - assert (Hnone : forall stx psx rx, close_txn stx inj psx = EV rx -> alookup (listeners stx) l = None ->
                      filter (fun x => Nat.eqb (call_id x) l) (r_obs rx) = []).
    { intros stx psx rx Hx Ex. destruct (filter _ (r_obs rx)) as [|x xs] eqn:Ef; [reflexivity|].
      exfalso. assert (Hin : In x (x :: xs)) by (left; reflexivity). rewrite <- Ef in Hin.
      apply filter_In in Hin as [Hin Hid]. apply Nat.eqb_eq in Hid.
      apply (close_calls_iff _ _ _ _ _ Hx) in Hin as (l0 & s0 & v0 & -> & Hin & _). cbn in Hid. subst l0.
      apply alookup_None in Ex. apply Ex. unfold keys. change l with (fst (l, s0)). apply in_map. exact Hin. }
    rewrite (Hnone _ _ _ H E). rewrite Hl in E. rewrite (Hnone _ _ _ H' E). reflexivity.
Qed.

(* ------------------------------------------------------------------ (c) the only open choice *)

Lemma run_deferred_nil : forall f ch st acc, run_deferred (S f) ch st [] acc = EV (st, acc, []).
Proof. reflexivity. Qed.

Lemma leave_via_leave_q : forall ch st acc,
    leave ch st acc =
    (elet x <- leave_q st acc;
     elet r <- run_deferred 200 ch (fst (fst x)) (snd x) [];
     EV (fst (fst r), snd (fst x) ++ snd (fst r), snd r)).
Proof.
  intros ch st acc. unfold leave, leave_q. destruct (depth st) as [|[|n]].
  - cbn [ebind fst snd]. rewrite run_deferred_nil. cbn [ebind fst snd]. rewrite app_nil_r. reflexivity.
  - unfold end_outer. destruct (close_txn st (sends st) (posts st)) as [r0|e]; [|reflexivity].
    cbn [ebind fst snd]. rewrite run_deferred_acc.
    destruct (run_deferred 200 ch (r_state r0) (r_deferred r0) []) as [[[s1 o1] a1]|e]; [|reflexivity].
    cbn [ebind fst snd]. rewrite app_assoc. reflexivity.
  - cbn [ebind fst snd]. rewrite run_deferred_nil. cbn [ebind fst snd]. rewrite app_nil_r. reflexivity.
Qed.

(* [step] = the choice-free [step_q] followed by the deferred work: [choice] enters only there *)
Lemma step_via_step_q : forall ch st o,
    step ch st o =
    (elet x <- step_q st o;
     elet r <- run_deferred 200 ch (fst (fst x)) (snd x) [];
     EV (fst (fst r), snd (fst x) ++ snd (fst r), snd r)).
Proof.
  intros ch st o. destruct (is_bracket o) eqn:Eb.
  - destruct o; try discriminate Eb; cbn [step step_q].
    + cbn [ebind fst snd]. rewrite run_deferred_nil. reflexivity.
    + apply leave_via_leave_q.
    + cbn [ebind fst snd]. rewrite run_deferred_nil. reflexivity.
    + destruct (alookup (tdone st) t) as [[|]|].
      * cbn [ebind fst snd]. rewrite run_deferred_nil. reflexivity.
      * apply leave_via_leave_q.
      * cbn [ebind fst snd]. rewrite run_deferred_nil. reflexivity.
  - rewrite step_body_op, step_q_body_op by exact Eb. destruct (depth st).
    + destruct (body (set_depth st 1) o) as [[s1 o1]|e]; [|reflexivity]. cbn [ebind fst snd].
      apply leave_via_leave_q.
    + destruct (body st o) as [[s1 o1]|e]; [|reflexivity]. cbn [ebind fst snd].
      rewrite run_deferred_nil. cbn [ebind fst snd]. rewrite app_nil_r. reflexivity.
Qed.

Lemma dpick_single : forall ch ch' q, length (heads [] q) <= 1 -> dpick ch q = dpick ch' q.
Proof.
  intros ch ch' q Hl. unfold dpick.
  assert (Hnil : forall n (d : ditem), nth n [] d = d) by (intros [|n] d; reflexivity).
  destruct (heads [] q) as [|h0 [|h1 t]]; cbn [length] in *; try lia.
  - rewrite !Hnil. reflexivity.
  - destruct ch as [|c ?], ch' as [|c' ?]; rewrite ?Nat.mod_1_r; reflexivity.
Qed.

(* when no step of the deferred run had more than one candidate, the choice list is irrelevant *)
Lemma run_deferred_choice_irrelevant : forall f ch st q acc st' os a,
    run_deferred f ch st q acc = EV (st', os, a) -> Forall (fun n => n <= 1) a ->
    forall ch', run_deferred f ch' st q acc = EV (st', os, a).
Proof.
  induction f as [|f IH]; intros ch st q acc st' os a H Ha ch'; [discriminate|].
  rewrite run_deferred_S in H |- *. destruct q as [|x t]; [exact H|]. cbv zeta in H |- *.
  assert (Hlen : length (heads [] (x :: t)) <= 1).
  { destruct (dpick ch (x :: t)).
    - ebind_inv H r Er. ebind_inv H rest Erest. injection H as _ _ <-. inversion Ha; assumption.
    - ebind_inv H vs Evs. ebind_inv H rest Erest. injection H as _ _ <-. inversion Ha; assumption. }
  rewrite <- (dpick_single ch ch' _ Hlen).
  destruct (dpick ch (x :: t)) as [h v|kk cs].
  - ebind_inv H r Er. ebind_inv H rest Erest. injection H as <- <- <-. destruct rest as [[s1 o1] a1].
    rewrite Er. cbn [ebind]. inversion Ha as [|? ? _ Ha']; subst. prj_in Ha'.
    rewrite (IH _ _ _ _ _ _ _ Erest Ha' (tl ch')). reflexivity.
  - ebind_inv H vs Evs. ebind_inv H rest Erest. injection H as <- <- <-. destruct rest as [[s1 o1] a1].
    rewrite Evs. cbn [ebind]. inversion Ha as [|? ? _ Ha']; subst. prj_in Ha'.
    rewrite (IH _ _ _ _ _ _ _ Erest Ha' (tl ch')). reflexivity.
Qed.

Lemma step_choice_irrelevant : forall ch st o st' os a,
    step ch st o = EV (st', os, a) -> Forall (fun n => n <= 1) a ->
    forall ch', step ch' st o = EV (st', os, a).
Proof.
  intros ch st o st' os a H Ha ch'. rewrite step_via_step_q in H |- *.
  generalize dependent 200; intros fuel H.
  destruct (step_q st o) as [[[s1 o1] q]|e]; [|discriminate]. cbn [ebind fst snd] in H |- *.
  ebind_inv H r Er. injection H as <- <- <-. destruct r as [[s2 o2] a2]. prj_in Ha. prj_in Er.
  pose proof (run_deferred_choice_irrelevant _ _ _ _ _ _ _ _ Er Ha ch') as E'.
  rewrite E'. reflexivity.
Qed.

(* ------------------------------------------------------------------ (b) close_txn respects reordering *)

Lemma emap_perm : forall A B (f : A -> ev B) l l',
    Permutation l l' -> forall ys, emap f l = EV ys -> exists ys', emap f l' = EV ys' /\ Permutation ys ys'.
Proof.
  intros A B f l l' HP. induction HP as [|x l l' HP IH|x y l|l l' l'' HP1 IH1 HP2 IH2]; intros ys H.
  - exists ys. split; [exact H | reflexivity].
  - cbn [emap] in H. ebind_inv H y Ey. ebind_inv H ys0 E0. injection H as <-.
    destruct (IH _ E0) as (ys0' & E0' & HP0). exists (y :: ys0'). cbn [emap]. rewrite Ey. cbn [ebind].
    rewrite E0'. cbn [ebind]. split; [reflexivity | constructor; exact HP0].
  - cbn [emap] in H. ebind_inv H fy Ey. ebind_inv H r1 E1. ebind_inv E1 fx Ex. ebind_inv E1 ys0 E0.
    injection E1 as <-. injection H as <-.
    exists (fx :: fy :: ys0). cbn [emap]. rewrite Ex. cbn [ebind]. rewrite Ey. cbn [ebind]. rewrite E0. cbn [ebind].
    split; [reflexivity | apply perm_swap].
  - destruct (IH1 _ H) as (ys1 & E1 & P1). destruct (IH2 _ E1) as (ys2 & E2 & P2).
    exists ys2. split; [exact E2 | etransitivity; eauto].
Qed.

Lemma Permutation_concat : forall A (ls ls' : list (list A)),
    Permutation ls ls' -> Permutation (concat ls) (concat ls').
Proof.
  intros A ls ls' HP. induction HP as [|x l l' HP IH|x y l|l l' l'' HP1 IH1 HP2 IH2]; cbn [concat].
  - constructor.
  - apply Permutation_app_head. exact IH.
  - rewrite !app_assoc. apply Permutation_app_tail. apply Permutation_app_comm.
  - etransitivity; eauto.
Qed.

Lemma Permutation_filter' : forall A (p : A -> bool) l l', Permutation l l' -> Permutation (filter p l) (filter p l').
Proof.
  intros A p l l' HP. induction HP as [|x l l' HP IH|x y l|l l' l'' HP1 IH1 HP2 IH2]; cbn [filter].
  - constructor.
  - destruct (p x); [constructor|]; exact IH.
  - destruct (p x), (p y); try reflexivity. apply perm_swap.
  - etransitivity; eauto.
Qed.

Lemma emap_perm_ext : forall A B (f g : A -> ev B) l l' ys,
    Permutation l l' -> (forall x, f x = g x) -> emap f l = EV ys ->
    exists ys', emap g l' = EV ys' /\ Permutation ys ys'.
Proof.
  intros A B f g l l' ys HP Hfg H. rewrite (emap_ext _ _ f g l (fun x _ => Hfg x)) in H.
  eapply emap_perm; eauto.
Qed.

Lemma amem_app : forall a b k, amem (a ++ b) k = amem a k || amem b k.
Proof. intros; unfold amem. apply existsb_app. Qed.

Lemma close_cvals_noncell : forall st inj ps r c,
    NoDup (keys (defs st)) -> close_txn st inj ps = EV r ->
    (forall d, alookup (defs st) c = Some d -> is_cell d = false) ->
    alookup (cvals (r_state r)) c = None.
Proof.
  intros st inj ps r c ND H Hd.
  apply close_txn_inv in H as (calls & nv & lzs & onces & defers & _ & E2 & _ & _ & _ & ->).
  unfold closed_state; prj. unfold newvals_of in E2. apply emap_Forall2 in E2.
  apply alookup_None. intros Hin.
  apply (concat_keys_sub (commit_of st inj) _ nv c (commit_of_shape st inj) E2) in Hin.
  unfold keys in Hin. apply in_map_iff in Hin as ([k d] & Hk & Hin). cbn in Hk; subst k.
  apply filter_In in Hin as [Hin Hcell]. cbn in Hcell.
  apply In_alookup_NoDup in Hin; [|exact ND]. rewrite (Hd _ Hin) in Hcell. discriminate.
Qed.

(* the relation: same lookups, tables are permutations of one another, keys distinct *)
Record stperm (st st' : state) : Prop := mkStperm {
  sp_steq : steq st st';
  sp_defs : Permutation (defs st) (defs st');
  sp_listeners : Permutation (listeners st) (listeners st');
  sp_lazies : Permutation (lazies st) (lazies st');
  sp_nd_defs : NoDup (keys (defs st));
  sp_nd_lazies : NoDup (keys (lazies st));
  sp_tdone : tdone st = tdone st'
}.

Lemma NoDup_keys_perm : forall A (l l' : list (nat * A)), Permutation l l' -> NoDup (keys l) -> NoDup (keys l').
Proof. intros A l l' HP ND. eapply Permutation_NoDup; [|exact ND]. unfold keys. apply Permutation_map. exact HP. Qed.

Lemma lzs_keys : forall st lzs, lzs_of st = EV lzs -> keys lzs = keys (lazies st).
Proof.
  intros st lzs H. unfold lzs_of in H. apply emap_Forall2 in H.
  induction H as [|zl y l ys Hy HF IH]; [reflexivity|]. unfold keys in *. cbn [map]. rewrite IH. f_equal.
  destruct (fst (snd zl)); [congruence|]. ebind_inv Hy v Ev. injection Hy as <-. reflexivity.
Qed.

Lemma close_txn_perm : forall st st' inj ps r,
    stperm st st' -> close_txn st inj ps = EV r ->
    exists r', close_txn st' inj ps = EV r' /\
               Permutation (r_obs r) (r_obs r') /\
               Permutation (r_deferred r) (r_deferred r') /\
               stperm (r_state r) (r_state r').
Proof.
  intros st st' inj ps r [Heq Pd Pl Pz NDd NDz Htd] H.
  assert (HF : F st = F st') by (apply steq_F; exact Heq).
  assert (Hocc : forall s, occ st inj (F st) s = occ st' inj (F st') s) by (intros; rewrite HF; apply occ_steq; exact Heq).
  assert (Hupd : forall s, upd st inj (F st) s = upd st' inj (F st') s) by (intros; rewrite HF; apply upd_steq; exact Heq).
  assert (Hcur : forall s, cur st (F st) s = cur st' (F st') s) by (intros; rewrite HF; apply cur_steq; exact Heq).
  assert (NDd' : NoDup (keys (defs st'))) by (eapply NoDup_keys_perm; eauto).
  pose proof H as H0.
  apply close_txn_inv in H as (calls & nv & lzs & onces & defers & E1 & E2 & E3 & E4 & E5 & Er).
  (* each of the five traversals succeeds on the reordered tables, with a permuted result *)
  assert (X1 : exists calls', calls_of st' inj = EV calls' /\ Permutation calls calls').
  { unfold calls_of in *. eapply emap_perm_ext; [| |exact E1].
    - rewrite <- !Permutation_rev. exact Pl.
    - intros x; cbn beta. rewrite Hocc. reflexivity. }
  assert (X2 : exists nv', newvals_of st' inj = EV nv' /\ Permutation nv nv').
  { unfold newvals_of in *. eapply emap_perm_ext; [| |exact E2].
    - apply Permutation_filter'. exact Pd.
    - intros x; cbn beta. rewrite Hupd, Hcur. reflexivity. }
  assert (X3 : exists lzs', lzs_of st' = EV lzs' /\ Permutation lzs lzs').
  { unfold lzs_of in *. eapply emap_perm_ext; [exact Pz| |exact E3].
    intros x; cbn beta. destruct (fst (snd x)); [reflexivity|]. rewrite Hcur. reflexivity. }
  assert (X4 : exists onces', onces_of st' inj = EV onces' /\ Permutation onces onces').
  { unfold onces_of in *. eapply emap_perm_ext; [exact Pd| |exact E4].
    intros x; cbn beta. destruct (snd x); try reflexivity. rewrite Hocc. reflexivity. }
  assert (X5 : exists defers', defers_of st' inj = EV defers' /\ Permutation defers defers').
  { unfold defers_of in *. eapply emap_perm_ext; [| |exact E5].
    - rewrite <- !Permutation_rev. exact Pd.
    - intros x; cbn beta. destruct (snd x); try reflexivity; rewrite Hocc; reflexivity. }
  destruct X1 as (calls' & E1' & P1), X2 as (nv' & E2' & P2), X3 as (lzs' & E3' & P3),
           X4 as (onces' & E4' & P4), X5 as (defers' & E5' & P5).
  eexists. split; [rewrite close_txn_eq, E1', E2', E3', E4', E5'; cbn [ebind]; reflexivity|].
  assert (Hr' : close_txn st' inj ps = EV (mkRes (closed_state st' (concat nv') (concat onces') lzs') (concat calls')
                                               (concat defers' ++ posts_items ps)))
    by (rewrite close_txn_eq, E1', E2', E3', E4', E5'; reflexivity).
  subst r. prj.
  split; [apply Permutation_concat; exact P1|].
  split; [apply Permutation_app_tail, Permutation_concat; exact P5|].
  (* the committed states are related again *)
  constructor; unfold closed_state; prj.
  - constructor; prj; try (intros; reflexivity).
    + apply (eq_defs _ _ Heq).
    + intros k.
      change (concat nv) with (cvals (r_state (mkRes (closed_state st (concat nv) (concat onces) lzs) (concat calls)
                                                     (concat defers ++ posts_items ps)))).
      change (concat nv') with (cvals (r_state (mkRes (closed_state st' (concat nv') (concat onces') lzs') (concat calls')
                                                      (concat defers' ++ posts_items ps)))).
      destruct (alookup (defs st) k) as [d|] eqn:Ed.
      * destruct (is_cell d) eqn:Ec.
        -- rewrite (close_cvals _ _ _ _ k d H0 Ed Ec).
           rewrite (eq_defs _ _ Heq) in Ed. rewrite (close_cvals _ _ _ _ k d Hr' Ed Ec).
           rewrite Hupd, Hcur. reflexivity.
        -- rewrite (close_cvals_noncell _ _ _ _ k NDd H0) by (intros d' Hd'; congruence).
           rewrite (eq_defs _ _ Heq) in Ed.
           rewrite (close_cvals_noncell _ _ _ _ k NDd' Hr') by (intros d' Hd'; congruence). reflexivity.
      * rewrite (close_cvals_noncell _ _ _ _ k NDd H0) by (intros d' Hd'; congruence).
        rewrite (eq_defs _ _ Heq) in Ed.
        rewrite (close_cvals_noncell _ _ _ _ k NDd' Hr') by (intros d' Hd'; congruence). reflexivity.
    + apply alookup_perm; [|exact P3]. rewrite (lzs_keys _ _ E3). exact NDz.
    + apply (eq_loops _ _ Heq).
    + intros k. rewrite !amem_app. rewrite (eq_fired _ _ Heq). f_equal.
      apply amem_perm. apply Permutation_concat. exact P4.
    + apply (eq_len _ _ Heq).
  - exact Pd.
  - exact Pl.
  - exact P3.
  - exact NDd.
  - rewrite (lzs_keys _ _ E3). exact NDz.
  - exact Htd.
Qed.

Lemma stperm_refl : forall st, NoDup (keys (defs st)) -> NoDup (keys (lazies st)) -> stperm st st.
Proof. intros st N1 N2. constructor; auto using steq_refl. Qed.

Lemma stperm_of_perm : forall st st',
    NoDup (keys (defs st)) -> NoDup (keys (cvals st)) -> NoDup (keys (inits st)) -> NoDup (keys (linit st)) ->
    NoDup (keys (lazies st)) -> NoDup (keys (loops st)) ->
    Permutation (defs st) (defs st') -> Permutation (cvals st) (cvals st') ->
    Permutation (inits st) (inits st') -> Permutation (linit st) (linit st') ->
    Permutation (lazies st) (lazies st') -> Permutation (loops st) (loops st') ->
    Permutation (fired st) (fired st') -> Permutation (fresh st) (fresh st') ->
    Permutation (listeners st) (listeners st') -> tdone st = tdone st' ->
    stperm st st'.
Proof.
  intros st st' N1 N2 N3 N4 N5 N6 P1 P2 P3 P4 P5 P6 P7 P8 P9 Ht.
  constructor; auto. apply steq_of_perm; assumption.
Qed.

(* two construction orders of the same network *)
Definition build (ops : list op) : state :=
  match run (fun _ => []) 0 init_state ops with EV (s, _) => s | EErr _ => init_state end.

Definition order_a : list op :=
  [ODef 0 (DSink None); ODef 1 (DMap 0 (FAdd 1)); ODef 2 (DMap 0 (FMul 2)); OListen 10 1; OListen 11 2].
Definition order_b : list op :=
  [ODef 0 (DSink None); ODef 2 (DMap 0 (FMul 2)); ODef 1 (DMap 0 (FAdd 1)); OListen 11 2; OListen 10 1].

Lemma orders_related : stperm (build order_a) (build order_b).
Proof.
  apply stperm_of_perm; vm_compute;
    try (repeat constructor; cbn; intuition discriminate);
    try reflexivity.
Qed.
