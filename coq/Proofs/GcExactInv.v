(* C08 exactness proof: liveness, the at-rest invariant WF, and the mutator operations. *)
From Coq Require Import List Arith Bool Lia.
Import ListNotations.
From Sodium Require Import Gc GcExactBase GcExactWalks.

(* ---------- liveness ---------- *)
Inductive live (s : sstate) : nat -> Prop :=
| live_ext h : ext_of s h > 0 -> live s h
| live_edge u v : live s u -> In v (edges (get (g s) u)) -> live s v.

(* the same notion on a collector state with an explicit handle-count function *)
Definition glive (ex : nat -> nat) (st : gstate) (v : nat) : Prop :=
  exists h, ex h > 0 /\ reach (E st) h v.

Lemma live_glive s v : live s v <-> glive (ext_of s) (g s) v.
Proof.
  split.
  - induction 1 as [h H|u v _ (h & Hh & R) Hin].
    + exists h. split; [auto|apply reach_refl].
    + exists h. split; auto. eapply reach_last; eauto.
  - intros (h & Hh & R). apply (live_ext s) in Hh. revert Hh.
    induction R as [|u t v Hin R IH]; auto. intros Hu. apply IH. eapply live_edge; eauto.
Qed.

Lemma reach_inv e a b : reach e a b -> a = b \/ exists u, reach e a u /\ In b (e u).
Proof.
  induction 1 as [|u t v Hin R [->|(w & Rw & Hw)]]; auto.
  - right. exists u. split; [apply reach_refl|auto].
  - right. exists w. split; auto. eapply reach_step; eauto.
Qed.

(* ---------- the invariant ---------- *)
(* FIt ex st todo: the collector-side invariant while the references in [todo] are still
   counted but no longer backed by an edge or a handle *)
Record FIt (ex : nat -> nat) (st : gstate) (todo : list nat) : Prop := {
  fi_exr : forall h, nobjs st <= h -> ex h = 0;
  fi_eir : eir st;
  fi_rc : forall v, v < nobjs st -> rc (get st v) = ex v + in_edges st v + cnt todo v;
  fi_freed : forall v, v < nobjs st -> freed (get st v) = true -> edges (get st v) = [] /\ ex v = 0;
  fi_adj : forall v, adj (get st v) = 0 /\ visited (get st v) = false;
  fi_tbf : to_be_freed st = [];
  fi_nodup : NoDup (roots st);
  fi_roots : forall r, In r (roots st) -> r < nobjs st /\ buffered (get st r) = true;
  fi_buf : forall v, v < nobjs st -> freed (get st v) = false -> buffered (get st v) = true -> In v (roots st);
  fi_col : forall v, col (get st v) = Black \/ col (get st v) = Purple;
  fi_purple : forall v, col (get st v) = Purple -> buffered (get st v) = true;
  fi_todo : forall t, In t todo -> t < nobjs st
}.

Definition covered (st : gstate) (o : nat) : Prop :=
  ~ (forall r, In r (roots st) -> col (get st r) = Purple -> ~ reach (E st) r o).

Record GI (ex : nat -> nat) (st : gstate) : Prop := {
  gi_fi : FIt ex st [];
  gi_zero : forall v, v < nobjs st -> freed (get st v) = false -> rc (get st v) = 0 -> col (get st v) = Purple;
  gi_frc : forall v, v < nobjs st -> freed (get st v) = true -> rc (get st v) = 0;
  gi_cover : forall v, v < nobjs st -> freed (get st v) = false -> ~ glive ex st v -> covered st v
}.

Definition WF (s : sstate) : Prop :=
  length (ext s) = nobjs (g s) /\ GI (ext_of s) (g s).

(* ---------- dec_ref under the invariant ---------- *)
Lemma in_edges_ext st st' v :
  nobjs st' = nobjs st -> (forall u, edges (get st' u) = edges (get st u)) ->
  in_edges st' v = in_edges st v.
Proof. intros N H. unfold in_edges. symmetry. apply cnt_in_ext; auto. Qed.

Lemma eir_ext st st' :
  nobjs st' = nobjs st -> (forall u, edges (get st' u) = edges (get st u)) -> eir st -> eir st'.
Proof. intros N H Ei u t Hu Hin. rewrite N in *. rewrite H in Hin. eauto. Qed.

Definition same_core (o o' : gobj) : Prop :=
  freed o' = freed o /\ edges o' = edges o /\ dtor_runs o' = dtor_runs o /\
  adj o' = adj o /\ visited o' = visited o.

Local Ltac fin :=
  repeat match goal with |- _ /\ _ => split end; auto;
  try (subst; reflexivity); try (intros; congruence);
  try (rewrite ?nobjs_with_roots, nobjs_set; auto; fail);
  try (rewrite ?get_with_roots, get_set_same; auto; fail);
  try (intros; rewrite ?get_with_roots, get_set_other; auto; fail);
  try (unfold same_core; cbn; auto 10; fail).

Lemma dec_ref_spec ex st t todo :
  FIt ex st (t :: todo) ->
  let st' := dec_ref st t in
  FIt ex st' todo /\ nobjs st' = nobjs st /\
  (forall v, v <> t -> get st' v = get st v) /\
  same_core (get st t) (get st' t) /\ rc (get st' t) = pred (rc (get st t)) /\
  col (get st' t) = Purple /\
  (forall r, In r (roots st) -> In r (roots st')) /\
  (forall r, In r (roots st') -> In r (roots st) \/ r = t) /\
  (freed (get st t) = false -> In t (roots st')).
Proof.
  intros F st'. pose proof (fi_todo _ _ _ F t ltac:(left; auto)) as Ht.
  assert (Rpos : rc (get st t) <> 0).
  { rewrite (fi_rc _ _ _ F t Ht). rewrite cnt_cons. destruct (Nat.eq_dec t t); [lia|congruence]. }
  remember (get st t) as o eqn:Ho.
  remember (set st t (set_rc o (pred (rc o)))) as st1 eqn:Hst1.
  assert (N1 : nobjs st1 = nobjs st) by (subst st1; apply nobjs_set).
  assert (G1t : get st1 t = set_rc o (pred (rc o))) by (subst st1; apply get_set_same; auto).
  assert (G1o : forall v, v <> t -> get st1 v = get st v) by (intros; subst st1; apply get_set_other; auto).
  assert (Eq : st' = possible_root st1 t).
  { subst st'. unfold dec_ref. rewrite <- Ho. apply Nat.eqb_neq in Rpos. rewrite Rpos. subst st1. reflexivity. }
  (* describe the final object and root list *)
  assert (D : exists o' rs', nobjs st' = nobjs st /\ get st' t = o' /\
            (forall v, v <> t -> get st' v = get st v) /\ roots st' = rs' /\ to_be_freed st' = to_be_freed st /\
            same_core o o' /\ rc o' = pred (rc o) /\ col o' = Purple /\
            (col o = Purple -> buffered o' = buffered o) /\ (col o <> Purple -> buffered o' = true) /\
            ((rs' = roots st /\ (buffered o = true \/ col o = Purple)) \/
             (rs' = roots st ++ [t] /\ buffered o = false))).
  { rewrite Eq. unfold possible_root. rewrite G1t. cbn [col set_rc].
    assert (Ht1 : t < nobjs st1) by lia.
    destruct (color_eqb (col o) Purple) eqn:CP.
    - apply color_eqb_eq in CP. exists (set_rc o (pred (rc o))), (roots st). fin.
    - apply color_eqb_neq in CP. cbn [buffered set_col set_rc].
      destruct (buffered o) eqn:Bo.
      + exists (set_col (set_rc o (pred (rc o))) Purple), (roots st). fin.
      + exists (set_buffered (set_col (set_rc o (pred (rc o))) Purple) true), (roots st ++ [t]). fin. }
  destruct D as (o' & rs' & N' & Gt' & Go' & Rs' & T' & SC & RC' & CP' & BP & BNP & RS).
  destruct SC as (Sf & Se & Sd & Sa & Sv).
  assert (Ed : forall u, edges (get st' u) = edges (get st u)).
  { intros u. destruct (Nat.eq_dec u t) as [->|Ne]; [rewrite Gt', <- Ho; auto|rewrite Go'; auto]. }
  assert (Bt : buffered o' = true).
  { destruct (color_eqb (col o) Purple) eqn:CP.
    - apply color_eqb_eq in CP. rewrite (BP CP). rewrite Ho. apply (fi_purple _ _ _ F). rewrite <- Ho. auto.
    - apply color_eqb_neq in CP. auto. }
  assert (Rin : forall r, In r (roots st) -> In r rs').
  { intros r Hr. destruct RS as [(-> & _)|(-> & _)]; auto. apply in_or_app; auto. }
  assert (Rout : forall r, In r rs' -> In r (roots st) \/ r = t).
  { intros r Hr. destruct RS as [(-> & _)|(-> & _)]; auto.
    apply in_app_or in Hr as [|[<-|[]]]; auto. }
  split; [|split; [auto|split; [auto|split; [|split; [|split; [|split; [|split]]]]]]].
  - constructor.
    + rewrite N'. apply (fi_exr _ _ _ F).
    + eapply eir_ext; eauto. apply (fi_eir _ _ _ F).
    + intros v Hv. rewrite N' in Hv. rewrite (in_edges_ext st st' v N' Ed).
      pose proof (fi_rc _ _ _ F v Hv) as X. rewrite cnt_cons in X.
      destruct (Nat.eq_dec t v) as [<-|Ne].
      * rewrite Gt', RC'. rewrite <- Ho in X. lia.
      * rewrite Go' by auto. lia.
    + intros v Hv Fv. rewrite N' in Hv. rewrite Ed. apply (fi_freed _ _ _ F v Hv).
      destruct (Nat.eq_dec v t) as [->|Ne]; [rewrite Gt', Sf, Ho in Fv; auto|rewrite Go' in Fv; auto].
    + intros v. destruct (Nat.eq_dec v t) as [->|Ne].
      * rewrite Gt', Sa, Sv, Ho. apply (fi_adj _ _ _ F).
      * rewrite Go' by auto. apply (fi_adj _ _ _ F).
    + rewrite T'. apply (fi_tbf _ _ _ F).
    + rewrite Rs'. destruct RS as [(-> & _)|(-> & Bo)]; [apply (fi_nodup _ _ _ F)|].
      apply nodup_app; [apply (fi_nodup _ _ _ F)|constructor; [intros []|constructor]|].
      intros x Hx [<-|[]]. destruct (fi_roots _ _ _ F t Hx) as (_ & B). rewrite <- Ho in B. congruence.
    + intros r Hr. rewrite Rs' in Hr. rewrite N'. destruct (Nat.eq_dec r t) as [->|Ne].
      * rewrite Gt'. auto.
      * rewrite Go' by auto. destruct (Rout r Hr) as [X|X]; [apply (fi_roots _ _ _ F r X)|contradiction].
    + intros v Hv Fv Bv. rewrite N' in Hv. rewrite Rs'. destruct (Nat.eq_dec v t) as [->|Ne].
      * destruct RS as [(-> & [Bo|Po])|(-> & _)]; [| |apply in_or_app; right; left; auto].
        { apply (fi_buf _ _ _ F t Ht); rewrite <- Ho; auto. rewrite Gt', Sf in Fv. auto. }
        { apply (fi_buf _ _ _ F t Ht); rewrite <- Ho. { rewrite Gt', Sf in Fv; auto. }
          rewrite Ho. apply (fi_purple _ _ _ F). rewrite <- Ho. auto. }
      * rewrite Go' in * by auto. apply Rin. apply (fi_buf _ _ _ F v Hv); auto.
    + intros v. destruct (Nat.eq_dec v t) as [->|Ne]; [rewrite Gt'; auto|rewrite Go' by auto; apply (fi_col _ _ _ F)].
    + intros v. destruct (Nat.eq_dec v t) as [->|Ne]; [rewrite Gt'; auto|rewrite Go' by auto; apply (fi_purple _ _ _ F)].
    + intros x Hx. rewrite N'. apply (fi_todo _ _ _ F). right; auto.
  - rewrite Gt'. unfold same_core. auto.
  - rewrite Gt'. auto.
  - rewrite Gt'. auto.
  - rewrite Rs'. auto.
  - rewrite Rs'. auto.
  - intros Fo. rewrite Rs'. destruct RS as [(-> & [Bo|Po])|(-> & _)]; [| |apply in_or_app; right; left; auto].
    + apply (fi_buf _ _ _ F t Ht); rewrite <- Ho; auto.
    + apply (fi_buf _ _ _ F t Ht); rewrite <- Ho; auto.
      rewrite Ho. apply (fi_purple _ _ _ F). rewrite <- Ho. auto.
Qed.
