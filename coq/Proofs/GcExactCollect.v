(* C08 exactness proof: set-level safety/completeness of the trial deletion, then collect_roots. *)
From Coq Require Import List Arith Bool Lia.
Import ListNotations.
From Sodium Require Import Gc GcExactBase GcExactWalks GcExactInv GcExactPhases.

Section Sets.
  Variable ex : nat -> nat.
  Variables st0 stm st2 : gstate.
  Hypothesis G : GI ex st0.
  Hypothesis P : PM st0 stm.
  Hypothesis S2 : PS stm st2.
  Let F := gi_fi _ _ G.
  Let n := nobjs st0.

  Lemma has_edges_range st u t : In t (edges (get st u)) -> u < nobjs st.
  Proof.
    intros Hin. destruct (Nat.lt_ge_cases u (nobjs st)); auto. rewrite get_oor in Hin; auto. destruct Hin.
  Qed.

  Lemma gray_range v : col (get stm v) = Gray -> v < n.
  Proof.
    intros Gv. destruct (Nat.lt_ge_cases v n); auto. rewrite get_oor in Gv; [discriminate|].
    rewrite (pm_n _ _ P). auto.
  Qed.

  (* rc = handles + edges from gray + edges from non-gray; adj = edges from gray *)
  Lemma rc_split v : v < n ->
    rc (get stm v) = ex v + adj (get stm v) + cnt_in (fun o => negb (isGray o)) stm v.
  Proof.
    intros Hv. destruct (pm_obj _ _ P v) as (_ & -> & _). rewrite (fi_rc _ _ _ F v Hv).
    change (cnt [] v) with 0. rewrite (pm_adj _ _ P v).
    rewrite <- (in_edges_ext st0 stm v (pm_n _ _ P)); [|intros u; eapply pm_edges; eauto].
    rewrite (cnt_in_split isGray stm v). lia.
  Qed.

  Lemma outside_pred u t :
    In t (edges (get st0 u)) -> col (get stm u) <> Gray -> col (get st2 t) = White -> False.
  Proof.
    intros Hin NGu Wt. destruct (ps_white _ _ S2 t Wt) as (Gt & At).
    pose proof (has_edges_range _ _ _ Hin) as Hu. fold n in Hu.
    pose proof (gray_range t Gt) as Ht. pose proof (rc_split t Ht) as X.
    assert (cnt_in (fun o => negb (isGray o)) stm t > 0); [|lia].
    apply (cnt_in_ge _ stm u t).
    - rewrite (pm_n _ _ P). auto.
    - unfold isGray. apply color_eqb_neq in NGu. rewrite NGu. reflexivity.
    - rewrite (pm_edges st0 stm P). auto.
  Qed.

  Lemma white_pred u t : In t (edges (get st0 u)) -> col (get st2 t) = White -> col (get st2 u) = White.
  Proof.
    intros Hin Wt. destruct (color_eqb (col (get stm u)) Gray) eqn:C.
    - apply color_eqb_eq in C. destruct (ps_in _ _ S2 u C) as [X|X]; auto.
      rewrite (ps_bclosed _ _ S2 u t C X) in Wt; [discriminate|].
      rewrite (pm_edges st0 stm P). auto.
    - apply color_eqb_neq in C. exfalso. eapply outside_pred; eauto.
  Qed.

  Lemma white_back a v : reach (E st0) a v -> col (get st2 v) = White -> col (get st2 a) = White.
  Proof. induction 1 as [|u t v Hin R IH]; auto. intros W. eapply white_pred; eauto. Qed.

  (* safety: white objects are not reachable from any handle *)
  Lemma white_not_live v : col (get st2 v) = White -> ~ glive ex st0 v.
  Proof.
    intros Wv (h & Hh & R). pose proof (white_back h v R Wv) as Wh.
    destruct (ps_white _ _ S2 h Wh) as (Gh & Ah).
    pose proof (rc_split h (gray_range h Gh)). lia.
  Qed.

  Lemma reach_stm a b : reach (E st0) a b -> reach (E stm) a b.
  Proof. apply reach_mono. intros u t. unfold E. rewrite (pm_edges st0 stm P). auto. Qed.

  Lemma gray_of_nonlive v :
    v < n -> freed (get st0 v) = false -> ~ glive ex st0 v -> col (get stm v) = Gray.
  Proof.
    intros Hv Fv NL. destruct (color_eqb (col (get stm v)) Gray) eqn:C; [apply color_eqb_eq; auto|].
    apply color_eqb_neq in C. exfalso. apply (gi_cover _ _ G v Hv Fv NL).
    intros r Hr Pr Rr. apply C. apply (pm_gray_reach st0 stm P r v); [apply reach_stm; auto|].
    apply (pm_purple _ _ P r Hr Pr).
  Qed.

  (* completeness: unreachable unfreed objects are white *)
  Lemma nonlive_white v :
    v < n -> freed (get st0 v) = false -> ~ glive ex st0 v -> col (get st2 v) = White.
  Proof.
    intros Hv Fv NL. pose proof (gray_of_nonlive v Hv Fv NL) as Gv.
    destruct (ps_in _ _ S2 v Gv) as [X|X]; auto. exfalso.
    destruct (ps_bsrc _ _ S2 v Gv X) as (x & (Gx & Ax) & Rx).
    pose proof (gray_range x Gx) as Hx. pose proof (rc_split x Hx) as Y.
    assert (Rx0 : reach (E st0) x v).
    { revert Rx. apply reach_mono. intros u t. unfold E. rewrite (pm_edges st0 stm P). auto. }
    destruct (ex x) eqn:Ex.
    2:{ apply NL. exists x. split; [lia|auto]. }
    destruct (cnt_in_pos (fun o => negb (isGray o)) stm x) as (u & Hu & NGu & Hin); [lia|].
    rewrite (pm_n _ _ P) in Hu. fold n in Hu. rewrite (pm_edges st0 stm P) in Hin.
    assert (Fu : freed (get st0 u) = false).
    { destruct (freed (get st0 u)) eqn:Z; auto. destruct (fi_freed _ _ _ F u Hu Z) as (Ed & _).
      rewrite Ed in Hin. destruct Hin. }
    assert (NLu : ~ glive ex st0 u).
    { intros (h & Hh & Rh). apply NL. exists h. split; auto.
      eapply reach_trans; [exact Rh|]. eapply reach_step; eauto. }
    pose proof (gray_of_nonlive u Hu Fu NLu) as Gu. unfold isGray in NGu. rewrite Gu in NGu. discriminate.
  Qed.
End Sets.

(* ---- the collect_white loop of collect_roots ---- *)
Definition cr_go :=
  fix go (acc : gstate * list nat) (rs : list nat) : res (gstate * list nat) :=
    match rs with
    | [] => Ok acc
    | root :: t =>
      let '(st, white) := acc in
      let st1 := set st root (set_buffered (get st root) false) in
      do acc1 <- collect_white (wfuel st1) (st1, white) root;
      go acc1 t
    end.

Lemma collect_roots_eq st : collect_roots st =
  let rs := roots st in
  let st := with_roots st [] in
  do r <- cr_go (st, []) rs;
  let '(st, white) := r in
  let st := free_list st white in
  let tbf := to_be_freed st in
  let st := with_tbf st [] in
  let st := free_list st tbf in
  do st <- check_zero st white;
  check_zero st tbf.
Proof. reflexivity. Qed.

Section CLoop.
  Variable s2 : gstate.     (* the state at loop entry *)
  Hypothesis s2_eir : eir s2.

  Record CL (done white : list nat) (st : gstate) : Prop := {
    c_n : nobjs st = nobjs s2;
    c_tbf : to_be_freed st = to_be_freed s2;
    c_roots : roots st = roots s2;
    c_obj : forall v, scab (get s2 v) (get st v) /\ adj (get st v) = adj (get s2 v);
    c_col : forall v, col (get st v) = col (get s2 v) \/
              (col (get s2 v) = White /\ col (get st v) = Black /\
               forall t, In t (edges (get s2 v)) -> col (get st t) <> White);
    c_nd : NoDup white;
    c_white : forall v, In v white <-> (col (get s2 v) = White /\ col (get st v) <> White);
    c_done : forall r, In r done -> col (get st r) <> White;
    c_b1 : forall r, In r done -> buffered (get st r) = false;
    c_b2 : forall v, ~ In v done -> buffered (get st v) = buffered (get s2 v)
  }.

  Lemma isWhite_true o : isWhite o = true <-> col o = White.
  Proof. unfold isWhite. apply color_eqb_eq. Qed.
  Lemma isWhite_false o : isWhite o = false <-> col o <> White.
  Proof. unfold isWhite. apply color_eqb_neq. Qed.

  Lemma CL_step done white st r :
    CL done white st -> r < nobjs s2 ->
    exists st' white', 
      collect_white (wfuel (set st r (set_buffered (get st r) false)))
                    (set st r (set_buffered (get st r) false), white) r = Ok (st', white') /\
      CL (done ++ [r]) white' st'.
  Proof.
    intros L Hr.
    remember (set st r (set_buffered (get st r) false)) as st1 eqn:Hst1.
    assert (Hr' : r < nobjs st) by (rewrite (c_n _ _ _ L); auto).
    assert (N1 : nobjs st1 = nobjs s2) by (subst st1; rewrite nobjs_set; apply L).
    assert (G1r : get st1 r = set_buffered (get st r) false) by (subst st1; apply get_set_same; auto).
    assert (G1o : forall v, v <> r -> get st1 v = get st v) by (intros; subst st1; apply get_set_other; auto).
    assert (Cs : forall v, col (get st1 v) = col (get st v) /\ edges (get st1 v) = edges (get st v) /\
                           adj (get st1 v) = adj (get st v) /\ scab (get st v) (get st1 v)).
    { intros v. destruct (Nat.eq_dec v r) as [->|Ne]; [rewrite G1r|rewrite G1o by auto];
        repeat split; auto. }
    assert (Ed1 : forall v, edges (get st1 v) = edges (get s2 v)).
    { intros v. destruct (Cs v) as (_ & -> & _). destruct (c_obj _ _ _ L v) as ((_ & _ & _ & X & _) & _). auto. }
    assert (Ei1 : eir st1).
    { intros u t Hu Hin. rewrite N1 in *. rewrite Ed1 in Hin. eauto. }
    destruct (collect_white_spec (wfuel st1) st1 white r) as ((st' & new & Eq & W & ND & InN) & Qr); auto.
    { pose proof (count_le_nobjs isWhite st1). unfold wfuel. lia. }
    { lia. }
    exists st', (white ++ new). split; auto.
    specialize (Qr _ _ Eq).
    pose proof W as (N' & R' & T' & H').
    assert (Sc' : forall v, scab (get st1 v) (get st' v) /\ adj (get st' v) = adj (get st1 v) /\
                            buffered (get st' v) = buffered (get st1 v)).
    { intros v. destruct (H' v) as [->|(_ & -> & _)]; unfold enB; cbn; repeat split; auto. }
    assert (Wst : forall v, isWhite (get st1 v) = isWhite (get st v)).
    { intros v. unfold isWhite. destruct (Cs v) as (-> & _). auto. }
    constructor.
    - congruence.
    - rewrite T'. subst st1. apply L.
    - rewrite R'. subst st1. apply L.
    - intros v. destruct (Sc' v) as (A & B & _). destruct (Cs v) as (_ & _ & C & D).
      destruct (c_obj _ _ _ L v) as (X & Y). split; [|congruence].
      eapply scab_trans; [exact X|]. eapply scab_trans; eauto.
    - intros v. destruct (H' v) as [Ev|(Wv & Ev & _ & Cl)].
      + rewrite Ev. destruct (Cs v) as (-> & _). destruct (c_col _ _ _ L v) as [X|(X & Y & Cl)]; auto.
        right. split; auto. split; auto. intros t Ht. apply isWhite_false.
        eapply WR_off; [exact W|]. rewrite Wst. apply isWhite_false. auto.
      + right. apply isWhite_true in Wv. destruct (Cs v) as (Cv & _). rewrite Cv in Wv.
        assert (W2 : col (get s2 v) = White).
        { destruct (c_col _ _ _ L v) as [X|(_ & X & _)]; congruence. }
        split; auto. split; [rewrite Ev; reflexivity|].
        intros t Ht. apply isWhite_false. apply Cl. rewrite Ed1. auto.
    - apply nodup_app; auto. apply L. intros x Hx Hn. apply (c_white _ _ _ L) in Hx as (_ & X).
      apply InN in Hn as (Y & _). rewrite Wst in Y. apply isWhite_true in Y. contradiction.
    - intros v. rewrite in_app_iff, (c_white _ _ _ L v), InN. unfold entered. rewrite Wst.
      rewrite isWhite_true, isWhite_false. split.
      + intros [(A & B)|(A & B)].
        * split; auto. apply isWhite_false. eapply WR_off; [exact W|]. rewrite Wst. apply isWhite_false; auto.
        * split; auto. destruct (c_col _ _ _ L v) as [X|(_ & X & _)]; congruence.
      + intros (A & B). destruct (color_eqb (col (get st v)) White) eqn:C.
        * apply color_eqb_eq in C. auto.
        * apply color_eqb_neq in C. auto.
    - intros x Hx. apply in_app_or in Hx as [Hx|[<-|[]]].
      + apply isWhite_false. eapply WR_off; [exact W|]. rewrite Wst. apply isWhite_false. apply (c_done _ _ _ L); auto.
      + apply isWhite_false. auto.
    - intros x Hx. destruct (Sc' x) as (_ & _ & ->). apply in_app_or in Hx as [Hx|[<-|[]]].
      + destruct (Nat.eq_dec x r) as [->|Ne]; [rewrite G1r; reflexivity|].
        rewrite G1o by auto. apply (c_b1 _ _ _ L); auto.
      + rewrite G1r. reflexivity.
    - intros v Hv. destruct (Sc' v) as (_ & _ & ->).
      assert (Ne : v <> r) by (intros ->; apply Hv; apply in_or_app; right; left; auto).
      rewrite G1o by auto. apply (c_b2 _ _ _ L). intros Hd. apply Hv. apply in_or_app; auto.
  Qed.

  Lemma cr_go_spec : forall rest done white st,
    CL done white st -> (forall r, In r rest -> r < nobjs s2) ->
    exists st' white', cr_go (st, white) rest = Ok (st', white') /\ CL (done ++ rest) white' st'.
  Proof.
    induction rest as [|r rest IH]; intros done white st L Hr.
    - exists st, white. rewrite app_nil_r. auto.
    - destruct (CL_step done white st r L) as (st1 & w1 & Eq & L1); [apply Hr; left; auto|].
      cbn [cr_go]. fold cr_go. cbv zeta. rewrite Eq. cbn [bind].
      destruct (IH (done ++ [r]) w1 st1 L1) as (st' & w' & Eq' & L'); [intros; apply Hr; right; auto|].
      exists st', w'. rewrite <- app_assoc in L'. auto.
  Qed.
End CLoop.

(* ---- freeing ---- *)
Lemma same_core_refl o : same_core o o.
Proof. unfold same_core. auto. Qed.
Lemma same_core_trans a b c : same_core a b -> same_core b c -> same_core a c.
Proof. unfold same_core. intuition congruence. Qed.

Lemma dec_refs_spec ex : forall es st,
  FIt ex st es ->
  FIt ex (dec_refs st es) [] /\ nobjs (dec_refs st es) = nobjs st /\
  (forall v, same_core (get st v) (get (dec_refs st es) v)) /\
  (forall v, buffered (get st v) = true -> buffered (get (dec_refs st es) v) = true).
Proof.
  induction es as [|t es IH]; intros st F; cbn [dec_refs].
  - split; auto. split; auto. split; auto. intros; apply same_core_refl.
  - destruct (dec_ref_spec ex st t es F) as (F' & N' & Go & SC & _ & _ & Rin & _ & _).
    destruct (IH _ F') as (F'' & N'' & SC'' & B'').
    split; auto. split; [congruence|]. split.
    + intros v. eapply same_core_trans; [|apply SC''].
      destruct (Nat.eq_dec v t) as [->|Ne]; [auto|rewrite Go by auto; apply same_core_refl].
    + intros v Bv. apply B''. destruct (Nat.eq_dec v t) as [->|Ne]; [|rewrite Go; auto].
      pose proof (fi_todo _ _ _ F t ltac:(left; auto)) as Ht.
      destruct (fi_col _ _ _ F' t) as [X|X].
      * (* dec_ref leaves t purple *) destruct (dec_ref_spec ex st t es F) as (_ & _ & _ & _ & _ & CP & _). congruence.
      * apply (fi_purple _ _ _ F'). auto.
Qed.

Definition free1 (st : gstate) (i : nat) : gstate := remove_root (free st i) i.

Lemma free1_spec ex st i :
  FIt ex st [] -> i < nobjs st -> freed (get st i) = false -> ex i = 0 ->
  let st' := free1 st i in
  FIt ex st' [] /\ nobjs st' = nobjs st /\
  (forall v, v <> i -> same_core (get st v) (get st' v)) /\
  freed (get st' i) = true /\ edges (get st' i) = [] /\
  dtor_runs (get st' i) = S (dtor_runs (get st i)) /\
  adj (get st' i) = adj (get st i) /\ visited (get st' i) = visited (get st i).
Proof.
  intros F Hi Fi Ei st'. subst st'. unfold free1, free.
  remember (get st i) as o eqn:Ho.
  remember (mkObj true (rc o) (adj o) (visited o) (col o) (buffered o) [] (S (dtor_runs o))) as o1 eqn:Ho1.
  remember (set st i o1) as sa eqn:Hsa.
  assert (Na : nobjs sa = nobjs st) by (subst sa; apply nobjs_set).
  assert (Gai : get sa i = o1) by (subst sa; apply get_set_same; auto).
  assert (Gao : forall v, v <> i -> get sa v = get st v) by (intros; subst sa; apply get_set_other; auto).
  assert (Fa : FIt ex sa (edges o)).
  { constructor.
    - rewrite Na. apply (fi_exr _ _ _ F).
    - intros u t Hu Hin. rewrite Na in *. destruct (Nat.eq_dec u i) as [->|Ne].
      + rewrite Gai, Ho1 in Hin. destruct Hin.
      + rewrite Gao in Hin by auto. eapply (fi_eir _ _ _ F); eauto.
    - intros v Hv. rewrite Na in Hv.
      pose proof (cnt_in_set (fun _ => true) st i o1 v Hi) as X. cbv beta iota in X.
      rewrite <- Ho in X. fold (in_edges st v) in X.
      assert (IE : in_edges sa v + cnt (edges o) v = in_edges st v).
      { subst sa. unfold in_edges in *. rewrite X, Ho1. cbn [edges]. change (cnt [] v) with 0. lia. }
      pose proof (fi_rc _ _ _ F v Hv) as Y. change (cnt [] v) with 0 in Y.
      destruct (Nat.eq_dec v i) as [->|Ne]; [rewrite Gai, Ho1; cbn [rc]; rewrite <- Ho in Y|rewrite Gao by auto]; lia.
    - intros v Hv Fv. rewrite Na in Hv. destruct (Nat.eq_dec v i) as [->|Ne].
      + rewrite Gai, Ho1. cbn. auto.
      + rewrite Gao in * by auto. apply (fi_freed _ _ _ F v Hv Fv).
    - intros v. destruct (Nat.eq_dec v i) as [->|Ne]; [rewrite Gai, Ho1, Ho; cbn [adj visited]|rewrite Gao by auto]; apply (fi_adj _ _ _ F).
    - subst sa. apply (fi_tbf _ _ _ F).
    - subst sa. apply (fi_nodup _ _ _ F).
    - intros r Hr. assert (Hr0 : In r (roots st)) by (subst sa; exact Hr).
      rewrite Na. destruct (fi_roots _ _ _ F r Hr0) as (A & B). split; auto.
      destruct (Nat.eq_dec r i) as [->|Ne]; [rewrite Gai, Ho1, Ho; cbn; auto|rewrite Gao; auto].
    - intros v Hv Fv Bv. rewrite Na in Hv. assert (X : In v (roots st)); [|subst sa; exact X].
      destruct (Nat.eq_dec v i) as [->|Ne].
      + rewrite Gai, Ho1 in Fv. discriminate.
      + rewrite Gao in * by auto. apply (fi_buf _ _ _ F v Hv); auto.
    - intros v. destruct (Nat.eq_dec v i) as [->|Ne]; [rewrite Gai, Ho1, Ho; cbn [col]|rewrite Gao by auto]; apply (fi_col _ _ _ F).
    - intros v. destruct (Nat.eq_dec v i) as [->|Ne]; [rewrite Gai, Ho1, Ho; cbn [col buffered]|rewrite Gao by auto]; apply (fi_purple _ _ _ F).
    - intros t Hin. rewrite Na. apply (fi_eir _ _ _ F i t Hi). rewrite <- Ho. auto. }
  destruct (dec_refs_spec ex (edges o) sa Fa) as (Fb & Nb & SCb & _).
  remember (dec_refs sa (edges o)) as sb eqn:Hsb.
  assert (Gr : forall v, get (remove_root sb i) v = get sb v) by reflexivity.
  assert (Fbi : freed (get sb i) = true).
  { destruct (SCb i) as (X & _). rewrite X, Gai, Ho1. reflexivity. }
  split; [|split; [|split; [|split; [|split; [|split; [|split]]]]]].
  - constructor.
    + exact (fi_exr _ _ _ Fb).
    + exact (fi_eir _ _ _ Fb).
    + exact (fi_rc _ _ _ Fb).
    + exact (fi_freed _ _ _ Fb).
    + exact (fi_adj _ _ _ Fb).
    + exact (fi_tbf _ _ _ Fb).
    + unfold remove_root. cbn [roots with_roots]. apply NoDup_filter. apply (fi_nodup _ _ _ Fb).
    + intros r Hr. unfold remove_root in Hr. cbn [roots with_roots] in Hr. apply filter_In in Hr as (Hr & _).
      apply (fi_roots _ _ _ Fb r Hr).
    + intros v Hv Fv Bv. unfold remove_root. cbn [roots with_roots]. apply filter_In. split.
      * apply (fi_buf _ _ _ Fb v Hv); auto.
      * apply negb_true_iff. apply Nat.eqb_neq. intros ->. rewrite Gr in Fv. congruence.
    + exact (fi_col _ _ _ Fb).
    + exact (fi_purple _ _ _ Fb).
    + exact (fi_todo _ _ _ Fb).
  - change (nobjs (remove_root sb i)) with (nobjs sb). congruence.
  - intros v Ne. rewrite Gr. eapply same_core_trans; [|apply SCb]. rewrite Gao by auto. apply same_core_refl.
  - rewrite Gr. auto.
  - rewrite Gr. destruct (SCb i) as (_ & X & _). rewrite X, Gai, Ho1. reflexivity.
  - rewrite Gr. destruct (SCb i) as (_ & _ & X & _). rewrite X, Gai, Ho1. reflexivity.
  - rewrite Gr. destruct (SCb i) as (_ & _ & _ & X & _). rewrite X, Gai, Ho1. reflexivity.
  - rewrite Gr. destruct (SCb i) as (_ & _ & _ & _ & X). rewrite X, Gai, Ho1. reflexivity.
Qed.

(* what a sequence of frees of the objects in W does to the per-object core fields *)
Definition frel (W : list nat) (st st' : gstate) : Prop :=
  nobjs st' = nobjs st /\
  forall v, adj (get st' v) = adj (get st v) /\ visited (get st' v) = visited (get st v) /\
    (freed (get st' v) = true <-> freed (get st v) = true \/ In v W) /\
    edges (get st' v) = (if freed (get st' v) then [] else edges (get st v)) /\
    dtor_runs (get st' v) = dtor_runs (get st v) +
       (if freed (get st v) then 0 else if freed (get st' v) then 1 else 0).

Lemma freed_edges_nil ex st todo v : FIt ex st todo -> freed (get st v) = true -> edges (get st v) = [].
Proof.
  intros F Fv. destruct (Nat.lt_ge_cases v (nobjs st)) as [L|L].
  - apply (fi_freed _ _ _ F v L Fv).
  - rewrite get_oor; auto.
Qed.

Lemma frel_refl ex st : FIt ex st [] -> frel [] st st.
Proof.
  intros F. split; auto. intros v. repeat split; auto.
  - intros [H|[]]; auto.
  - destruct (freed (get st v)) eqn:Fv; auto. eapply freed_edges_nil; eauto.
  - destruct (freed (get st v)); lia.
Qed.

Lemma frel_trans W1 W2 a b c : frel W1 a b -> frel W2 b c -> frel (W1 ++ W2) a c.
Proof.
  intros (N1 & H1) (N2 & H2). split; [congruence|]. intros v.
  destruct (H1 v) as (A1 & V1 & F1 & E1 & D1). destruct (H2 v) as (A2 & V2 & F2 & E2 & D2).
  split; [congruence|]. split; [congruence|]. split; [|split].
  - rewrite F2, F1, in_app_iff. tauto.
  - rewrite E2, E1. destruct (freed (get c v)) eqn:Fc; auto.
    destruct (freed (get b v)) eqn:Fb; auto. exfalso.
    assert (X : false = true) by (apply F2; auto). discriminate.
  - rewrite D2, D1.
    destruct (freed (get a v)) eqn:Fa; destruct (freed (get b v)) eqn:Fb; destruct (freed (get c v)) eqn:Fc; try lia; exfalso;
      first [ assert (X : false = true) by (apply F1; auto); discriminate
            | assert (X : false = true) by (apply F2; auto); discriminate ].
Qed.

Lemma free1_frel ex st i :
  FIt ex st [] -> i < nobjs st -> freed (get st i) = false -> ex i = 0 ->
  FIt ex (free1 st i) [] /\ frel [i] st (free1 st i).
Proof.
  intros F Hi Fi Ei. destruct (free1_spec ex st i F Hi Fi Ei) as (F' & N' & SC & Fr & Ed & Dt & Ad & Vi).
  split; auto. split; auto. intros v. destruct (Nat.eq_dec v i) as [->|Ne].
  - rewrite Fr, Ed, Dt, Fi, Ad, Vi. repeat split; auto; cbv iota; try lia. intros _. right; left; auto.
  - destruct (SC v Ne) as (Sf & Se & Sd & Sa & Sv). rewrite Sf, Se, Sd, Sa, Sv. repeat split; auto.
    + intros [H|[H|[]]]; auto; congruence.
    + destruct (freed (get st v)) eqn:Fv; auto. eapply freed_edges_nil; eauto.
    + destruct (freed (get st v)); lia.
Qed.

Lemma free_list_cons st i t : free_list st (i :: t) =
  if freed (get st i) then free_list st t else free_list (free1 st i) t.
Proof. reflexivity. Qed.

Lemma free_list_spec ex : forall W st,
  FIt ex st [] -> (forall i, In i W -> i < nobjs st /\ ex i = 0) ->
  FIt ex (free_list st W) [] /\ frel W st (free_list st W) /\
  ((forall i, In i W -> freed (get st i) = true) -> free_list st W = st).
Proof.
  induction W as [|i t IH]; intros st F HW.
  - cbn [free_list]. split; auto. split; [eapply frel_refl; eauto|auto].
  - rewrite free_list_cons. destruct (HW i ltac:(left; auto)) as (Hi & Ei).
    destruct (freed (get st i)) eqn:Fi.
    + destruct (IH st F) as (F' & R' & Z'); [intros; apply HW; right; auto|].
      split; auto. split.
      * destruct R' as (N' & H'). split; auto. intros v. destruct (H' v) as (A & V & Fr & Ed & Dt).
        repeat split; auto.
        -- intros X. apply Fr in X as [X|X]; auto. right; right; auto.
        -- intros [X|[<-|X]]; apply Fr; auto.
      * intros All. apply Z'. intros j Hj. apply All. right; auto.
    + destruct (free1_frel ex st i F Hi Fi Ei) as (F1 & R1).
      destruct (IH (free1 st i) F1) as (F' & R' & _).
      { destruct R1 as (N1 & _). intros j Hj. rewrite N1. apply HW. right; auto. }
      split; auto. split.
      * apply (frel_trans [i] t _ _ _ R1 R').
      * intros All. rewrite All in Fi by (left; auto). discriminate.
Qed.

Lemma check_zero_ok st W : (forall i, In i W -> rc (get st i) = 0) -> check_zero st W = Ok st.
Proof.
  induction W as [|i t IH]; intros H; cbn [check_zero]; auto.
  rewrite (H i) by (left; auto). cbn [Nat.eqb]. apply IH. intros; apply H; right; auto.
Qed.

(* ---- the state after the collect_white loop ---- *)
Section AfterWhite.
  Variable ex : nat -> nat.
  Variables st0 stm st2 st3 : gstate.
  Variable W : list nat.
  Hypothesis G : GI ex st0.
  Hypothesis P : PM st0 stm.
  Hypothesis S2 : PS stm st2.
  Hypothesis C : CL (with_roots st2 []) (roots st2) W st3.
  Let F := gi_fi _ _ G.
  Let n := nobjs st0.

  Lemma aw_n : nobjs st3 = n.
  Proof. rewrite (c_n _ _ _ _ C). change (nobjs (with_roots st2 [])) with (nobjs st2). rewrite (ps_n _ _ S2). apply (pm_n _ _ P). Qed.

  Lemma aw_obj v : scab (get st0 v) (get st3 v) /\ adj (get st3 v) = 0.
  Proof.
    destruct (c_obj _ _ _ _ C v) as (A & B). change (get (with_roots st2 []) v) with (get st2 v) in *.
    destruct (ps_obj _ _ S2 v) as (A2 & _ & B2). split; [|congruence].
    eapply scab_trans; [apply (pm_obj _ _ P)|]. eapply scab_trans; eauto.
  Qed.

  Lemma aw_edges v : edges (get st3 v) = edges (get st0 v).
  Proof. destruct (aw_obj v) as ((_ & _ & _ & X & _) & _). auto. Qed.
  Lemma aw_freed v : freed (get st3 v) = freed (get st0 v).
  Proof. destruct (aw_obj v) as ((X & _) & _). auto. Qed.
  Lemma aw_rc v : rc (get st3 v) = rc (get st0 v).
  Proof. destruct (aw_obj v) as ((_ & X & _) & _). auto. Qed.

  Lemma aw_edges2 v : edges (get st2 v) = edges (get st0 v).
  Proof.
    destruct (ps_obj _ _ S2 v) as ((_ & _ & _ & X & _) & _). rewrite X. apply (pm_edges _ _ P).
  Qed.

  Lemma rs_sub r : In r (roots st2) -> In r (roots st0) /\ col (get stm r) = Gray.
  Proof. rewrite (ps_rts _ _ S2). apply (pm_roots _ _ P). Qed.

  (* every white object has been collected *)
  Lemma aw_nowhite v : col (get st3 v) <> White.
  Proof.
    intros W3.
    assert (W2 : col (get st2 v) = White).
    { destruct (c_col _ _ _ _ C v) as [X|(_ & X & _)]; [|congruence].
      change (get (with_roots st2 []) v) with (get st2 v) in X. congruence. }
    destruct (ps_white _ _ S2 v W2) as (Gv & _).
    destruct (pm_sound _ _ P v Gv) as (r & Hr & Rr).
    rewrite <- (ps_rts _ _ S2) in Hr.
    assert (K : forall a b, reach (E st0) a b -> col (get st2 b) = White ->
                 col (get st3 a) <> White -> col (get st3 b) <> White).
    { intros a b R. induction R as [|u t x Hin R IH]; auto. intros Wx NWu. apply (IH Wx).
      pose proof (white_back ex st0 stm st2 G P S2 u x (reach_step _ _ _ _ Hin R) Wx) as Wu.
      destruct (c_col _ _ _ _ C u) as [X|(_ & _ & Cl)].
      - change (get (with_roots st2 []) u) with (get st2 u) in X. congruence.
      - apply Cl. change (get (with_roots st2 []) u) with (get st2 u). rewrite aw_edges2. exact Hin. }
    apply (K r v Rr W2); auto. apply (c_done _ _ _ _ C r). exact Hr.
  Qed.

  Lemma aw_W v : In v W <-> col (get st2 v) = White.
  Proof.
    rewrite (c_white _ _ _ _ C v). change (get (with_roots st2 []) v) with (get st2 v).
    split; [intros (A & _); auto|intros A; split; [auto|apply aw_nowhite]].
  Qed.

  Lemma aw_col v : (col (get stm v) = Gray /\ col (get st3 v) = Black) \/
                   (col (get stm v) <> Gray /\ col (get st3 v) = col (get st0 v)).
  Proof.
    destruct (color_eqb (col (get stm v)) Gray) eqn:Cg.
    - apply color_eqb_eq in Cg. left. split; auto.
      destruct (c_col _ _ _ _ C v) as [X|(_ & X & _)]; auto.
      change (get (with_roots st2 []) v) with (get st2 v) in X.
      destruct (ps_in _ _ S2 v Cg) as [Y|Y]; [|congruence].
      exfalso. apply (aw_nowhite v). congruence.
    - apply color_eqb_neq in Cg. right. split; auto.
      destruct (c_col _ _ _ _ C v) as [X|(X & _)]; change (get (with_roots st2 []) v) with (get st2 v) in X.
      + rewrite X, (ps_out _ _ S2 v Cg). destruct (pm_col _ _ P v); congruence.
      + destruct (ps_white _ _ S2 v X). contradiction.
  Qed.

  Lemma aw_buf v : freed (get st0 v) = false \/ col (get st3 v) = Purple -> v < n ->
    buffered (get st3 v) = true -> col (get st3 v) = Purple /\ ~ In v (roots st0) /\ buffered (get st0 v) = true.
  Proof.
    intros Hyp Hv Bv.
    assert (NR : ~ In v (roots st2)).
    { intros Hr. rewrite (c_b1 _ _ _ _ C v) in Bv; [discriminate|auto]. }
    rewrite (c_b2 _ _ _ _ C v) in Bv by auto.
    change (get (with_roots st2 []) v) with (get st2 v) in Bv.
    destruct (ps_obj _ _ S2 v) as (_ & B2 & _). rewrite B2 in Bv.
    rewrite (ps_rts _ _ S2) in NR.
    destruct (in_dec Nat.eq_dec v (roots st0)) as [I0|I0].
    { rewrite (pm_b1 _ _ P v I0 NR) in Bv. discriminate. }
    rewrite (pm_b2 _ _ P v (or_introl I0)) in Bv.
    destruct Hyp as [Fv|Pv].
    - exfalso. apply I0. apply (fi_buf _ _ _ F v Hv Fv Bv).
    - auto.
  Qed.

  Lemma aw_FIt : FIt ex st3 [].
  Proof.
    constructor.
    - rewrite aw_n. apply (fi_exr _ _ _ F).
    - intros u t Hu Hin. rewrite aw_n in *. rewrite aw_edges in Hin. apply (fi_eir _ _ _ F u t Hu Hin).
    - intros v Hv. rewrite aw_n in Hv. rewrite aw_rc, (fi_rc _ _ _ F v Hv).
      rewrite (in_edges_ext st0 st3 v aw_n aw_edges). reflexivity.
    - intros v Hv Fv. rewrite aw_n in Hv. rewrite aw_freed in Fv. rewrite aw_edges. apply (fi_freed _ _ _ F v Hv Fv).
    - intros v. destruct (aw_obj v) as ((_ & _ & X & _) & Y). rewrite X. split; auto. apply (fi_adj _ _ _ F).
    - rewrite (c_tbf _ _ _ _ C). change (to_be_freed (with_roots st2 [])) with (to_be_freed st2).
      rewrite (ps_tbf _ _ S2). apply (pm_tbf _ _ P).
    - rewrite (c_roots _ _ _ _ C). constructor.
    - intros r Hr. rewrite (c_roots _ _ _ _ C) in Hr. destruct Hr.
    - intros v Hv Fv Bv. exfalso. rewrite aw_n in Hv. rewrite aw_freed in Fv.
      destruct (aw_buf v (or_introl Fv) Hv Bv) as (_ & I0 & B0). apply I0. apply (fi_buf _ _ _ F v Hv Fv B0).
    - intros v. destruct (aw_col v) as [(_ & X)|(_ & X)]; [auto|rewrite X; apply (fi_col _ _ _ F)].
    - intros v Pv. destruct (aw_col v) as [(_ & X)|(NG & X)]; [congruence|].
      rewrite X in Pv. pose proof (fi_purple _ _ _ F v Pv) as B0.
      assert (I0 : ~ In v (roots st0)).
      { intros I0. apply NG. apply (pm_purple _ _ P v I0 Pv). }
      assert (NR : ~ In v (roots st2)).
      { intros Hr. apply I0. apply (rs_sub v Hr). }
      rewrite (c_b2 _ _ _ _ C v NR). change (get (with_roots st2 []) v) with (get st2 v).
      destruct (ps_obj _ _ S2 v) as (_ & -> & _). rewrite (pm_b2 _ _ P v (or_introl I0)). auto.
    - intros t [].
  Qed.
End AfterWhite.
