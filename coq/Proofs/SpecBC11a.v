(* Property C11, part a: StreamLoop / CellLoop are transparent forward references (one-step and
   top-level-fuel equations), the committed value of a resolved cell loop equals that of its target
   (LoopInv, preserved by close_txn), and misuse (looping twice, sampling an unlooped cell loop)
   fails with an error instead of producing a value. *)
From Coq Require Import List ZArith Bool Arith Lia.
Import ListNotations.
From Sodium Require Import Sodium SpecBBase SpecBMono SpecBLegal SpecBClose SpecBStep.
Local Open Scope nat_scope.

(* ------------------------------------------------------------------ 1. transparency, one step *)

Lemma sloop_occ_S : forall st inj n s t,
    alookup (defs st) s = Some DSLoop -> alookup (loops st) s = Some t ->
    occ st inj (S n) s = occ st inj n t.
Proof.
  intros st inj n s t Hd Hl. rewrite occ_S. unfold def_of. rewrite Hd. cbn [ebind]. rewrite Hl. reflexivity.
Qed.

Lemma sloop_occ_S_unlooped : forall st inj n s,
    alookup (defs st) s = Some DSLoop -> alookup (loops st) s = None ->
    occ st inj (S n) s = EV None.
Proof.
  intros st inj n s Hd Hl. rewrite occ_S. unfold def_of. rewrite Hd. cbn [ebind]. rewrite Hl. reflexivity.
Qed.

Lemma cloop_upd_S : forall st inj n c t,
    alookup (defs st) c = Some DCLoop -> alookup (loops st) c = Some t ->
    upd st inj (S n) c = upd st inj n t.
Proof.
  intros st inj n c t Hd Hl. rewrite upd_S. unfold def_of. rewrite Hd. cbn [ebind]. rewrite Hl. reflexivity.
Qed.

Lemma cloop_upd_S_unlooped : forall st inj n c,
    alookup (defs st) c = Some DCLoop -> alookup (loops st) c = None ->
    upd st inj (S n) c = EV None.
Proof.
  intros st inj n c Hd Hl. rewrite upd_S. unfold def_of. rewrite Hd. cbn [ebind]. rewrite Hl. reflexivity.
Qed.

Lemma cloop_cur_S : forall st n c t,
    alookup (defs st) c = Some DCLoop -> alookup (loops st) c = Some t ->
    alookup (cvals st) c = None ->
    cur st (S n) c = cur st n t.
Proof.
  intros st n c t Hd Hl Hv. rewrite cur_S, Hv. unfold def_of. rewrite Hd. cbn [ebind]. rewrite Hl. reflexivity.
Qed.

Lemma cloop_cur_S_unlooped : forall st n c,
    alookup (defs st) c = Some DCLoop -> alookup (loops st) c = None ->
    alookup (cvals st) c = None ->
    cur st (S n) c = EErr SampledBeforeLoop.
Proof.
  intros st n c Hd Hl Hv. rewrite cur_S, Hv. unfold def_of. rewrite Hd. cbn [ebind]. rewrite Hl. reflexivity.
Qed.

(* ------------------------------------------------------------------ top-level fuel, successful results *)

Lemma F_pred_le : forall st, S (length (defs st)) <= F st.
Proof. intros st. rewrite F_eq. lia. Qed.

Lemma sloop_occ_F_EV : forall st inj s t r,
    alookup (defs st) s = Some DSLoop -> alookup (loops st) s = Some t ->
    occ st inj (F st) s = EV r -> occ st inj (F st) t = EV r.
Proof.
  intros st inj s t r Hd Hl H. rewrite F_eq in H. rewrite (sloop_occ_S _ _ _ _ _ Hd Hl) in H.
  exact (occ_F_of _ _ _ _ _ H (F_pred_le st)).
Qed.

Lemma cloop_upd_F_EV : forall st inj c t r,
    alookup (defs st) c = Some DCLoop -> alookup (loops st) c = Some t ->
    upd st inj (F st) c = EV r -> upd st inj (F st) t = EV r.
Proof.
  intros st inj c t r Hd Hl H. rewrite F_eq in H. rewrite (cloop_upd_S _ _ _ _ _ Hd Hl) in H.
  exact (upd_F_of _ _ _ _ _ H (F_pred_le st)).
Qed.

Lemma cloop_cur_F_EV : forall st c t v,
    alookup (defs st) c = Some DCLoop -> alookup (loops st) c = Some t ->
    alookup (cvals st) c = None ->
    cur st (F st) c = EV v -> cur st (F st) t = EV v.
Proof.
  intros st c t v Hd Hl Hv H. rewrite F_eq in H. rewrite (cloop_cur_S _ _ _ _ Hd Hl Hv) in H.
  exact (cur_F_of _ _ _ _ H (F_pred_le st)).
Qed.

(* ------------------------------------------------------------------ top-level fuel, legal states: full equations *)

Theorem sloop_occ_F : forall st inj s t,
    Legal st inj ->
    alookup (defs st) s = Some DSLoop -> alookup (loops st) s = Some t ->
    occ st inj (F st) s = occ st inj (F st) t.
Proof.
  intros st inj s t (rc & ro & _ & Hbo & _ & Ho) Hd Hl.
  rewrite F_eq at 1. rewrite (sloop_occ_S _ _ _ _ _ Hd Hl).
  apply (occ_sub_F st inj ro Hbo Ho s DSLoop t Hd).
  pose proof (Ho s) as Hs. unfold occ_ok in Hs. rewrite Hd, Hl in Hs. exact Hs.
Qed.

Theorem sloop_occ_F_unlooped : forall st inj s,
    alookup (defs st) s = Some DSLoop -> alookup (loops st) s = None ->
    occ st inj (F st) s = EV None.
Proof. intros st inj s Hd Hl. rewrite F_eq. exact (sloop_occ_S_unlooped _ _ _ _ Hd Hl). Qed.

Theorem cloop_upd_F : forall st inj c t,
    Legal st inj ->
    alookup (defs st) c = Some DCLoop -> alookup (loops st) c = Some t ->
    upd st inj (F st) c = upd st inj (F st) t.
Proof.
  intros st inj c t (rc & ro & _ & Hbo & _ & Ho) Hd Hl.
  rewrite F_eq at 1. rewrite (cloop_upd_S _ _ _ _ _ Hd Hl).
  apply (upd_sub_F st inj ro Hbo Ho c DCLoop t Hd).
  pose proof (Ho c) as Hs. unfold occ_ok in Hs. rewrite Hd, Hl in Hs. exact Hs.
Qed.

Theorem cloop_upd_F_unlooped : forall st inj c,
    alookup (defs st) c = Some DCLoop -> alookup (loops st) c = None ->
    upd st inj (F st) c = EV None.
Proof. intros st inj c Hd Hl. rewrite F_eq. exact (cloop_upd_S_unlooped _ _ _ _ Hd Hl). Qed.

Theorem cloop_cur_F_unresolved : forall st inj c t,
    Legal st inj ->
    alookup (defs st) c = Some DCLoop -> alookup (loops st) c = Some t ->
    alookup (cvals st) c = None ->
    cur st (F st) c = cur st (F st) t.
Proof.
  intros st inj c t (rc & ro & Hbc & _ & Hc & _) Hd Hl Hv.
  rewrite F_eq at 1. rewrite (cloop_cur_S _ _ _ _ Hd Hl Hv).
  apply (cur_indep_F st rc Hbc Hc).
  pose proof (Hc c) as Hs. unfold cur_ok in Hs. rewrite Hv, Hd, Hl in Hs.
  pose proof (Hbc c DCLoop Hd) as Hb. rewrite F_eq in Hb. lia.
Qed.

(* ------------------------------------------------------------------ 2. resolved cell loops *)

(* the committed value of a cell loop is the committed value of its target *)
Definition LoopInv (st : state) : Prop :=
  forall c t v, alookup (defs st) c = Some DCLoop -> alookup (loops st) c = Some t ->
                alookup (cvals st) c = Some v -> alookup (cvals st) t = Some v.

Lemma LoopInv_init : LoopInv init_state.
Proof. intros c t v H. discriminate H. Qed.

Theorem LoopInv_close : forall st inj p r,
    close_txn st inj p = EV r -> LoopInv st -> LoopInv (r_state r).
Proof.
  intros st inj p r H Hinv c t v Hd Hl Hv.
  rewrite (close_defs _ _ _ _ H) in Hd. rewrite (close_loops _ _ _ _ H) in Hl.
  apply (close_cvals_Some _ _ _ _ _ _ H) in Hv. apply commit_Some_inv in Hv.
  destruct Hv as [Hu | [Hu Hc]].
  - apply (cloop_upd_F_EV _ _ _ _ _ Hd Hl) in Hu.
    rewrite (close_cvals_upd _ _ _ _ _ _ _ H Hu). apply commit_upd_Some. exact Hu.
  - apply (cloop_upd_F_EV _ _ _ _ _ Hd Hl) in Hu.
    rewrite (close_cvals_upd _ _ _ _ _ _ _ H Hu). apply commit_upd_None; [exact Hu|].
    destruct (alookup (cvals st) c) as [w|] eqn:Ev.
    + rewrite (cur_resolved_F _ _ _ Ev) in Hc. injection Hc as ->.
      apply cur_resolved_F. exact (Hinv c t v Hd Hl Ev).
    + exact (cloop_cur_F_EV _ _ _ _ Hd Hl Ev Hc).
Qed.

(* the invariant does not look at the bookkeeping fields *)
Lemma LoopInv_set_depth : forall st n, LoopInv st -> LoopInv (set_depth st n).
Proof. intros st n H. exact H. Qed.

Lemma LoopInv_set_tdone : forall st t b, LoopInv st -> LoopInv (set_tdone st t b).
Proof. intros st t b H. exact H. Qed.

(* consequently a cell loop always reads as its target, resolved or not *)
Theorem cloop_cur_F : forall st inj c t,
    Legal st inj -> LoopInv st ->
    alookup (defs st) c = Some DCLoop -> alookup (loops st) c = Some t ->
    cur st (F st) c = cur st (F st) t.
Proof.
  intros st inj c t HL Hinv Hd Hl. destruct (alookup (cvals st) c) as [v|] eqn:Ev.
  - rewrite (cur_resolved_F _ _ _ Ev). symmetry. apply cur_resolved_F. exact (Hinv c t v Hd Hl Ev).
  - exact (cloop_cur_F_unresolved _ _ _ _ HL Hd Hl Ev).
Qed.

Theorem cloop_cur_F_EV_inv : forall st c t v,
    LoopInv st ->
    alookup (defs st) c = Some DCLoop -> alookup (loops st) c = Some t ->
    cur st (F st) c = EV v -> cur st (F st) t = EV v.
Proof.
  intros st c t v Hinv Hd Hl H. destruct (alookup (cvals st) c) as [w|] eqn:Ev.
  - rewrite (cur_resolved_F _ _ _ Ev) in H. injection H as ->.
    apply cur_resolved_F. exact (Hinv c t v Hd Hl Ev).
  - exact (cloop_cur_F_EV _ _ _ _ Hd Hl Ev H).
Qed.

(* after a successful close, a looped cell loop and its target hold the same committed value *)
Theorem close_cloop_same_value : forall st inj p r c t,
    close_txn st inj p = EV r -> LoopInv st ->
    alookup (defs st) c = Some DCLoop -> alookup (loops st) c = Some t ->
    forall v, alookup (cvals (r_state r)) c = Some v -> alookup (cvals (r_state r)) t = Some v.
Proof.
  intros st inj p r c t H Hinv Hd Hl v Hv.
  apply (LoopInv_close _ _ _ _ H Hinv c t v); [| |exact Hv].
  - rewrite (close_defs _ _ _ _ H). exact Hd.
  - rewrite (close_loops _ _ _ _ H). exact Hl.
Qed.

(* ------------------------------------------------------------------ 4. misuse fails fast *)

Lemma body_loopS_twice : forall st l t t0,
    alookup (loops st) l = Some t0 -> body st (OLoopS l t) = EErr AlreadyLooped.
Proof. intros st l t t0 H. unfold body. rewrite H. reflexivity. Qed.

Lemma body_loopC_twice : forall st l t t0,
    alookup (loops st) l = Some t0 -> body st (OLoopC l t) = EErr AlreadyLooped.
Proof. intros st l t t0 H. unfold body. rewrite H. reflexivity. Qed.

Theorem step_loopS_twice : forall choice st l t t0,
    alookup (loops st) l = Some t0 -> step choice st (OLoopS l t) = EErr AlreadyLooped.
Proof.
  intros choice st l t t0 H. unfold step. destruct (depth st).
  - rewrite (body_loopS_twice (set_depth st 1) l t t0 H). reflexivity.
  - rewrite (body_loopS_twice st l t t0 H). reflexivity.
Qed.

Theorem step_loopC_twice : forall choice st l t t0,
    alookup (loops st) l = Some t0 -> step choice st (OLoopC l t) = EErr AlreadyLooped.
Proof.
  intros choice st l t t0 H. unfold step. destruct (depth st).
  - rewrite (body_loopC_twice (set_depth st 1) l t t0 H). reflexivity.
  - rewrite (body_loopC_twice st l t t0 H). reflexivity.
Qed.

Theorem step_q_loopS_twice : forall st l t t0,
    alookup (loops st) l = Some t0 -> step_q st (OLoopS l t) = EErr AlreadyLooped.
Proof.
  intros st l t t0 H. unfold step_q. destruct (depth st).
  - rewrite (body_loopS_twice (set_depth st 1) l t t0 H). reflexivity.
  - rewrite (body_loopS_twice st l t t0 H). reflexivity.
Qed.

Theorem step_q_loopC_twice : forall st l t t0,
    alookup (loops st) l = Some t0 -> step_q st (OLoopC l t) = EErr AlreadyLooped.
Proof.
  intros st l t t0 H. unfold step_q. destruct (depth st).
  - rewrite (body_loopC_twice (set_depth st 1) l t t0 H). reflexivity.
  - rewrite (body_loopC_twice st l t t0 H). reflexivity.
Qed.

(* the first loop_ of a key succeeds and records exactly that entry, so the second one fails *)
Theorem loop_once_then_fails : forall st l t st1 ob t',
    body st (OLoopS l t) = EV (st1, ob) ->
    alookup (loops st1) l = Some t /\ ob = [] /\
    body st1 (OLoopS l t') = EErr AlreadyLooped /\ body st1 (OLoopC l t') = EErr AlreadyLooped.
Proof.
  intros st l t st1 ob t' H. unfold body in H. destruct (alookup (loops st) l); [discriminate H|].
  injection H as <- <-.
  assert (E : alookup (loops (mkState (defs st) (cvals st) (inits st) (linit st) (fired st) (fresh st)
                                      (aset (loops st) l t) (listeners st) (depth st) (tdone st)
                                      (sends st) (posts st) (lazies st))) l = Some t).
  { cbn [loops]. apply alookup_aset_eq. }
  split; [exact E|]. split; [reflexivity|]. split.
  - exact (body_loopS_twice _ l t' t E).
  - exact (body_loopC_twice _ l t' t E).
Qed.

(* an unlooped, unresolved cell loop *)
Definition Unlooped (st : state) (c : nat) : Prop :=
  alookup (defs st) c = Some DCLoop /\ alookup (cvals st) c = None /\ alookup (loops st) c = None.

Lemma cur_unlooped_F : forall st c, Unlooped st c -> cur st (F st) c = EErr SampledBeforeLoop.
Proof. intros st c (Hd & Hv & Hl). rewrite F_eq. exact (cloop_cur_S_unlooped _ _ _ Hd Hl Hv). Qed.

Lemma cur_unlooped_S : forall st n c, Unlooped st c -> cur st (S n) c = EErr SampledBeforeLoop.
Proof. intros st n c (Hd & Hv & Hl). exact (cloop_cur_S_unlooped _ _ _ Hd Hl Hv). Qed.

Lemma body_sample_unlooped : forall st c,
    alookup (defs st) c = Some DCLoop -> alookup (cvals st) c = None -> alookup (loops st) c = None ->
    body st (OSample c) = EErr SampledBeforeLoop.
Proof.
  intros st c Hd Hv Hl. unfold body. rewrite (cur_unlooped_F st c (conj Hd (conj Hv Hl))). reflexivity.
Qed.

Theorem step_sample_unlooped : forall choice st c,
    alookup (defs st) c = Some DCLoop -> alookup (cvals st) c = None -> alookup (loops st) c = None ->
    step choice st (OSample c) = EErr SampledBeforeLoop.
Proof.
  intros choice st c Hd Hv Hl. unfold step. destruct (depth st).
  - rewrite (body_sample_unlooped (set_depth st 1) c Hd Hv Hl). reflexivity.
  - rewrite (body_sample_unlooped st c Hd Hv Hl). reflexivity.
Qed.

Theorem step_q_sample_unlooped : forall st c,
    alookup (defs st) c = Some DCLoop -> alookup (cvals st) c = None -> alookup (loops st) c = None ->
    step_q st (OSample c) = EErr SampledBeforeLoop.
Proof.
  intros st c Hd Hv Hl. unfold step_q. destruct (depth st).
  - rewrite (body_sample_unlooped (set_depth st 1) c Hd Hv Hl). reflexivity.
  - rewrite (body_sample_unlooped st c Hd Hv Hl). reflexivity.
Qed.

(* an error result carries neither a state nor an observation *)
Lemma EErr_no_value : forall {A} (e : perr) (a : A), EErr e <> EV a.
Proof. intros A e a H. discriminate H. Qed.

(* the error propagates through cells computed from the unlooped cell loop *)
Theorem cur_mapc_unlooped : forall st h c g,
    alookup (defs st) h = Some (DMapC c g) -> alookup (cvals st) h = None -> Unlooped st c ->
    cur st (F st) h = EErr SampledBeforeLoop.
Proof.
  intros st h c g Hd Hv Hu. rewrite F_eq, cur_S, Hv. unfold def_of. rewrite Hd. cbn [ebind].
  rewrite (cur_unlooped_S st _ c Hu). reflexivity.
Qed.

Theorem cur_lift_unlooped : forall st h pre c post g vs,
    alookup (defs st) h = Some (DLift (pre ++ c :: post) g) -> alookup (cvals st) h = None ->
    emap (cur st (S (length (defs st)))) pre = EV vs ->   (* the cells read before it have values *)
    Unlooped st c ->
    cur st (F st) h = EErr SampledBeforeLoop.
Proof.
  intros st h pre c post g vs Hd Hv Hpre Hu. rewrite F_eq, cur_S, Hv. unfold def_of. rewrite Hd. cbn [ebind].
  assert (E : emap (cur st (S (length (defs st)))) (pre ++ c :: post) = EErr SampledBeforeLoop).
  { clear Hd. revert vs Hpre. induction pre as [|x pre IH]; intros vs Hpre.
    - simpl. rewrite (cur_unlooped_S st _ c Hu). reflexivity.
    - simpl app. rewrite emap_cons in Hpre |- *.
      apply ebind_EV in Hpre. destruct Hpre as [y [Hy Hpre]].
      apply ebind_EV in Hpre. destruct Hpre as [ys [Hys _]].
      rewrite Hy. cbn [ebind]. rewrite (IH ys Hys). reflexivity. }
  rewrite E. reflexivity.
Qed.

Theorem cur_switchc_unlooped : forall st h c,
    alookup (defs st) h = Some (DSwitchC c) -> alookup (cvals st) h = None -> Unlooped st c ->
    cur st (F st) h = EErr SampledBeforeLoop.
Proof.
  intros st h c Hd Hv Hu. rewrite F_eq, cur_S, Hv. unfold def_of. rewrite Hd. cbn [ebind].
  rewrite (cur_unlooped_S st _ c Hu). reflexivity.
Qed.

(* a cell loop looped to an unlooped cell loop *)
Theorem cur_cloop_unlooped : forall st h c,
    alookup (defs st) h = Some DCLoop -> alookup (cvals st) h = None -> alookup (loops st) h = Some c ->
    Unlooped st c ->
    cur st (F st) h = EErr SampledBeforeLoop.
Proof.
  intros st h c Hd Hv Hl Hu. rewrite F_eq, (cloop_cur_S _ _ _ _ Hd Hl Hv). exact (cur_unlooped_S st _ c Hu).
Qed.

(* close_txn leaves the unlooped cell loop unresolved: no value is invented for it *)
Theorem close_keeps_unlooped : forall st inj p r c,
    close_txn st inj p = EV r -> Unlooped st c -> Unlooped (r_state r) c.
Proof.
  intros st inj p r c H (Hd & Hv & Hl). unfold Unlooped.
  rewrite (close_defs _ _ _ _ H), (close_loops _ _ _ _ H). split; [exact Hd|]. split; [|exact Hl].
  rewrite (proj1 (close_cvals_cell _ _ _ _ c DCLoop H Hd eq_refl)).
  unfold commit. rewrite (cloop_upd_F_unlooped _ inj _ Hd Hl).
  rewrite (cur_unlooped_F st c (conj Hd (conj Hv Hl))). reflexivity.
Qed.

Lemma newval_of_unlooped : forall st inj c d, Unlooped st c -> newval_of st inj (c, d) = EV [].
Proof.
  intros st inj c d (Hd & Hv & Hl). unfold newval_of. cbn [fst].
  rewrite (cloop_upd_F_unlooped _ inj _ Hd Hl). cbn [ebind].
  rewrite (cur_unlooped_F st c (conj Hd (conj Hv Hl))). reflexivity.
Qed.

(* the same for a mapped cell hanging on it (created in this transaction, so not resolved yet) *)
Theorem close_keeps_mapc_unresolved : forall st inj p r h c g,
    close_txn st inj p = EV r ->
    alookup (defs st) h = Some (DMapC c g) -> alookup (cvals st) h = None -> Unlooped st c ->
    alookup (cvals (r_state r)) h = None.
Proof.
  intros st inj p r h c g H Hd Hv Hu.
  destruct (close_cvals_cell _ _ _ _ h (DMapC c g) H Hd eq_refl) as [E [u Hup]]. rewrite E.
  unfold commit. rewrite Hup. rewrite (cur_mapc_unlooped _ _ _ _ Hd Hv Hu).
  destruct u as [v|]; [|reflexivity].
  (* an update of h would need an update of c, but an unlooped loop has none *)
  exfalso. rewrite F_eq, upd_S in Hup. unfold def_of in Hup. rewrite Hd in Hup. cbn [ebind] in Hup.
  destruct Hu as (Hdc & _ & Hlc). rewrite (cloop_upd_S_unlooped _ _ _ _ Hdc Hlc) in Hup.
  cbn [ebind option_map] in Hup. discriminate Hup.
Qed.

(* ------------------------------------------------------------------ reading keeps failing until it is looped *)

(* operations that neither (re)define slot c nor loop it *)
Definition leaves_unlooped (c : nat) (o : op) : Prop :=
  match o with
  | ODef h _ | OHold h _ _ | OHoldLazy h _ _ | OConst h _ => h <> c
  | OListenC _ vh _ => vh <> c
  | OLoopS l _ | OLoopC l _ => l <> c
  | _ => True
  end.

Lemma alookup_aset_other : forall {A} (l : list (nat * A)) k k' v x,
    k' <> k -> alookup l k = x -> alookup (aset l k' v) k = x.
Proof. intros A l k k' v x Hne H. rewrite alookup_aset_neq; [exact H | congruence]. Qed.

Lemma body_keeps_unlooped : forall c st o st' ob,
    leaves_unlooped c o -> body st o = EV (st', ob) -> Unlooped st c -> Unlooped st' c.
Proof.
  intros c st o st' ob HQ H (Hd & Hv & Hl). unfold Unlooped.
  destruct o; cbn [body leaves_unlooped] in H, HQ;
    try (injection H as <- <-; cbn [defs cvals loops with_defs];
         repeat split; try assumption; apply alookup_aset_other; assumption).
  - (* OLoopS *) destruct (alookup (loops st) l); [discriminate H|]. injection H as <- <-.
    cbn [defs cvals loops]. repeat split; try assumption. apply alookup_aset_other; assumption.
  - (* OLoopC *) destruct (alookup (loops st) l); [discriminate H|]. injection H as <- <-.
    cbn [defs cvals loops]. repeat split; try assumption. apply alookup_aset_other; assumption.
  - (* OSample *) apply ebind_EV in H. destruct H as [v [_ H]]. injection H as <- <-.
    repeat split; assumption.
  - (* OForce *) destruct (alookup (lazies st) z) as [[[v|c0] i]|]; [| |discriminate H].
    + injection H as <- <-. repeat split; assumption.
    + apply ebind_EV in H. destruct H as [v [_ H]]. injection H as <- <-. repeat split; assumption.
  - (* OCloneLazy *) destruct (alookup (lazies st) z); [|discriminate H]. injection H as <- <-.
    repeat split; assumption.
Qed.

Theorem step_keeps_unlooped : forall c choice st o r,
    leaves_unlooped c o -> step choice st o = EV r -> Unlooped st c -> Unlooped (fst (fst r)) c.
Proof.
  intros c. apply (step_inv (fun st => Unlooped st c) (leaves_unlooped c)).
  - intros st o st' ob HQ H HP. exact (body_keeps_unlooped c st o st' ob HQ H HP).
  - intros st inj p r H HP. exact (close_keeps_unlooped _ _ _ _ _ H HP).
  - intros st n HP. exact HP.
  - intros st t b HP. exact HP.
Qed.

(* over a whole script that never loops (nor redefines) the cell loop, every later sample fails *)
Theorem script_sample_keeps_failing : forall c ops choices st st' choice,
    Forall (leaves_unlooped c) ops ->
    run_script choices st ops = EV st' -> Unlooped st c ->
    step choice st' (OSample c) = EErr SampledBeforeLoop.
Proof.
  intros c ops choices st st' choice HQ H HP.
  assert (HP' : Unlooped st' c).
  { apply (script_inv (fun s => Unlooped s c) (leaves_unlooped c)) with (ops := ops) (choices := choices) (st := st);
      try assumption.
    - intros s o s' ob Hq Hb Hs. exact (body_keeps_unlooped c s o s' ob Hq Hb Hs).
    - intros s inj p r Hc Hs. exact (close_keeps_unlooped _ _ _ _ _ Hc Hs).
    - intros s n Hs. exact Hs.
    - intros s t b Hs. exact Hs. }
  destruct HP' as (Hd & Hv & Hl). exact (step_sample_unlooped choice st' c Hd Hv Hl).
Qed.

(* ------------------------------------------------------------------ LoopInv along scripts *)

(* operations that bind or loop only slots holding no committed value (scripts never reuse the slot of
   a resolved cell; a cell loop that was not looped in its transaction stays unresolved, see above) *)
Definition binds_unresolved (st : state) (o : op) : Prop :=
  match o with
  | ODef h _ | OHold h _ _ | OHoldLazy h _ _ | OConst h _ => alookup (cvals st) h = None
  | OListenC _ vh _ => alookup (cvals st) vh = None
  | OLoopS l _ | OLoopC l _ => alookup (cvals st) l = None
  | _ => True
  end.

Lemma LoopInv_ext : forall st st',
    defs st' = defs st -> cvals st' = cvals st -> loops st' = loops st -> LoopInv st -> LoopInv st'.
Proof. intros st st' H1 H2 H3 H c t v. rewrite H1, H2, H3. apply H. Qed.

Lemma LoopInv_with_defs : forall st h d,
    alookup (cvals st) h = None -> LoopInv st -> LoopInv (with_defs st h d).
Proof.
  intros st h d HQ Hinv c t v. cbn [defs cvals loops with_defs]. intros Hd Hl Hv.
  destruct (Nat.eq_dec c h) as [->|Hne]; [congruence|].
  rewrite alookup_aset_neq in Hd by exact Hne. exact (Hinv c t v Hd Hl Hv).
Qed.

Theorem body_keeps_loopinv : forall st o st' ob,
    binds_unresolved st o -> body st o = EV (st', ob) -> LoopInv st -> LoopInv st'.
Proof.
  intros st o st' ob HQ H Hinv.
  destruct o; cbn [body binds_unresolved] in H, HQ;
    try (injection H as <- <-; first [ exact Hinv | exact (LoopInv_ext st _ eq_refl eq_refl eq_refl Hinv) ]).
  - (* ODef *) injection H as <- <-. apply LoopInv_with_defs; assumption.
  - (* OHold *) injection H as <- <-.
    apply (LoopInv_ext (with_defs st h (DHold s))); try reflexivity. apply LoopInv_with_defs; assumption.
  - (* OHoldLazy *) injection H as <- <-.
    apply (LoopInv_ext (with_defs st h (DHold s))); try reflexivity. apply LoopInv_with_defs; assumption.
  - (* OConst *) injection H as <- <-. intros c t w. cbn [defs cvals loops with_defs]. intros Hd Hl Hv.
    destruct (Nat.eq_dec c h) as [->|Hne].
    + rewrite alookup_aset_eq in Hd. discriminate Hd.
    + rewrite alookup_aset_neq in Hd by exact Hne. rewrite alookup_aset_neq in Hv by exact Hne.
      pose proof (Hinv c t w Hd Hl Hv) as Ht.
      destruct (Nat.eq_dec t h) as [->|Hne2]; [congruence|].
      rewrite alookup_aset_neq by exact Hne2. exact Ht.
  - (* OLoopS *) destruct (alookup (loops st) l) eqn:El; [discriminate H|]. injection H as <- <-.
    intros c t0 w. cbn [defs cvals loops]. intros Hd Hl Hv.
    destruct (Nat.eq_dec c l) as [->|Hne]; [congruence|].
    rewrite alookup_aset_neq in Hl by exact Hne. exact (Hinv c t0 w Hd Hl Hv).
  - (* OLoopC *) destruct (alookup (loops st) l) eqn:El; [discriminate H|]. injection H as <- <-.
    intros c t0 w. cbn [defs cvals loops]. intros Hd Hl Hv.
    destruct (Nat.eq_dec c l) as [->|Hne]; [congruence|].
    rewrite alookup_aset_neq in Hl by exact Hne. exact (Hinv c t0 w Hd Hl Hv).
  - (* OListenC *) injection H as <- <-.
    apply (LoopInv_ext (with_defs st vh (DValue c))); try reflexivity. apply LoopInv_with_defs; assumption.
  - (* OSample *) apply ebind_EV in H. destruct H as [v [_ H]]. injection H as <- <-. exact Hinv.
  - (* OForce *) destruct (alookup (lazies st) z) as [[[v|c0] i]|]; [| |discriminate H].
    + injection H as <- <-. exact Hinv.
    + apply ebind_EV in H. destruct H as [v [_ H]]. injection H as <- <-. exact Hinv.
  - (* OCloneLazy *) destruct (alookup (lazies st) z); [|discriminate H]. injection H as <- <-.
    exact (LoopInv_ext st _ eq_refl eq_refl eq_refl Hinv).
Qed.

Definition is_bracket (o : op) : Prop :=
  match o with OBegin | OEnd | OTNew _ | OTClose _ => True | _ => False end.

Theorem step_keeps_loopinv : forall choice st o r,
    binds_unresolved st o -> step choice st o = EV r -> LoopInv st -> LoopInv (fst (fst r)).
Proof.
  intros choice st o r HQ H Hinv.
  assert (G : forall o', binds_unresolved st o' ->
                         (match depth st with
                          | O => elet r0 <- body (set_depth st 1) o'; leave choice (fst r0) (snd r0)
                          | _ => elet r0 <- body st o'; EV (fst r0, snd r0, [])
                          end) = EV r -> LoopInv (fst (fst r))).
  { intros o' HQ' H'. destruct (depth st).
    - apply ebind_EV in H'. destruct H' as [[st1 ob] [H1 H']]. cbn [fst snd] in H'.
      apply (leave_inv LoopInv LoopInv_close LoopInv_set_depth) in H'; [exact H'|].
      apply (body_keeps_loopinv (set_depth st 1) o' st1 ob); [exact HQ' | exact H1 | exact Hinv].
    - apply ebind_EV in H'. destruct H' as [[st1 ob] [H1 H']]. injection H' as <-. cbn [fst snd].
      exact (body_keeps_loopinv st o' st1 ob HQ' H1 Hinv). }
  destruct o; try exact (G _ HQ H);
    (lazymatch type of H with
     | step _ _ ?o0 = _ =>
       refine (step_inv LoopInv is_bracket _ LoopInv_close LoopInv_set_depth LoopInv_set_tdone
                        choice st o0 r I H Hinv)
     end;
     intros s o s' ob Hq Hb Hs; destruct o; try contradiction; injection Hb as <- <-; exact Hs).
Qed.

(* a whole script, the precondition being checked at every step against the state reached *)
Fixpoint script_binds_unresolved (choices : list (list nat)) (st : state) (ops : list op) : Prop :=
  match ops with
  | [] => True
  | o :: t => binds_unresolved st o /\
              match step (hd [] choices) st o with
              | EV r => script_binds_unresolved (tl choices) (fst (fst r)) t
              | EErr _ => True
              end
  end.

Theorem script_keeps_loopinv : forall ops choices st st',
    script_binds_unresolved choices st ops ->
    run_script choices st ops = EV st' -> LoopInv st -> LoopInv st'.
Proof.
  induction ops as [|o t IH]; intros choices st st' HQ H Hinv.
  - injection H as <-. exact Hinv.
  - cbn [run_script] in H. apply ebind_EV in H. destruct H as [r [H1 H]].
    cbn [script_binds_unresolved] in HQ. destruct HQ as [HQ1 HQ2]. rewrite H1 in HQ2.
    apply (IH _ _ _ HQ2 H). exact (step_keeps_loopinv _ _ _ _ HQ1 H1 Hinv).
Qed.

Corollary script_from_init_loopinv : forall ops choices st',
    script_binds_unresolved choices init_state ops ->
    run_script choices init_state ops = EV st' -> LoopInv st'.
Proof. intros ops choices st' HQ H. exact (script_keeps_loopinv ops choices init_state st' HQ H LoopInv_init). Qed.
