(* C13: lifted / mapped cells always equal the function of their inputs' current values. *)
From Coq Require Import List ZArith Bool Arith Lia.
Import ListNotations.
From Sodium Require Import Sodium SpecBBase SpecBMono SpecBLegal SpecBClose SpecBStep SpecBBody SpecBC02.
Local Open Scope nat_scope.

Definition is_some (o : option val) : bool := match o with Some _ => true | None => false end.

(* the value an input has after the transaction as seen by the lift: its update, else its current value *)
Definition new_or_cur (st : state) (inj : list (nat * val)) (n : nat) (c : nat) : ev val :=
  elet o <- upd st inj n c; match o with Some v => EV v | None => cur st (F st) c end.

(* the invariant on committed values *)
Definition ConsistentMap (st : state) : Prop :=
  forall h c f v, alookup (defs st) h = Some (DMapC c f) -> alookup (cvals st) h = Some v ->
                  exists vc, alookup (cvals st) c = Some vc /\ v = app1 f vc.

Definition ConsistentLift (st : state) : Prop :=
  forall h cs g v, alookup (defs st) h = Some (DLift cs g) -> alookup (cvals st) h = Some v ->
                   exists vs, Forall2 (fun c w => alookup (cvals st) c = Some w) cs vs /\ v = appN g vs.

Definition Consistent (st : state) : Prop := ConsistentMap st /\ ConsistentLift st.

Lemma Consistent_init : Consistent init_state.
Proof. split; intros h c f v Hd; discriminate Hd. Qed.

Lemma Forall2_imp : forall {A B} (R R' : A -> B -> Prop) l l',
    (forall a b, R a b -> R' a b) -> Forall2 R l l' -> Forall2 R' l l'.
Proof. intros A B R R' l l' Himp H. induction H; constructor; auto. Qed.

Lemma Forall2_impl_In : forall {A B} (R R' : A -> B -> Prop) l l',
    Forall2 R l l' -> (forall a b, In a l -> R a b -> R' a b) -> Forall2 R' l l'.
Proof.
  intros A B R R' l l' H. induction H as [|a b l l' Hab H IH]; intros Himp; constructor.
  - apply Himp; [left; reflexivity | exact Hab].
  - apply IH. intros a0 b0 Hin. apply Himp. right. exact Hin.
Qed.

(* ------------------------------------------------------------------ one-step equations *)

Section Eqs.
  Variable st : state.
  Variable inj : list (nat * val).

  Lemma cur_DMapC : forall n h c f, alookup (cvals st) h = None -> alookup (defs st) h = Some (DMapC c f) ->
      cur st (S n) h = elet v <- cur st n c; EV (app1 f v).
  Proof. intros n h c f Hc Hd. rewrite cur_S, Hc, (def_of_Some _ _ _ Hd). reflexivity. Qed.

  Lemma cur_DLift : forall n h cs g, alookup (cvals st) h = None -> alookup (defs st) h = Some (DLift cs g) ->
      cur st (S n) h = elet vs <- emap (cur st n) cs; EV (appN g vs).
  Proof. intros n h cs g Hc Hd. rewrite cur_S, Hc, (def_of_Some _ _ _ Hd). reflexivity. Qed.

  Lemma upd_DMapC : forall n h c f, alookup (defs st) h = Some (DMapC c f) ->
      upd st inj (S n) h = elet o <- upd st inj n c; EV (option_map (app1 f) o).
  Proof. intros n h c f Hd. rewrite upd_S, (def_of_Some _ _ _ Hd). reflexivity. Qed.

  Lemma upd_DLift : forall n h cs g, alookup (defs st) h = Some (DLift cs g) ->
      upd st inj (S n) h =
      elet us <- emap (upd st inj n) cs;
      if existsb is_some us
      then elet vs <- emap (new_or_cur st inj n) cs; EV (Some (appN g vs))
      else EV None.
  Proof. intros n h cs g Hd. rewrite upd_S, (def_of_Some _ _ _ Hd). reflexivity. Qed.

  Lemma all_none : forall n cs us,
      emap (upd st inj n) cs = EV us -> existsb is_some us = false ->
      forall c, In c cs -> upd st inj n c = EV None.
  Proof.
    intros n cs us H Hex c Hin. destruct (emap_In _ _ _ _ H Hin) as [y [Hy Hyin]].
    destruct y as [w|]; [|exact Hy]. exfalso.
    assert (X : existsb is_some us = true) by (apply existsb_exists; exists (Some w); split; [exact Hyin | reflexivity]).
    congruence.
  Qed.

  (* the update of a lift fires exactly when some input updates, with g of the new-or-current inputs *)
  Lemma upd_DLift_inv : forall n h cs g r, alookup (defs st) h = Some (DLift cs g) ->
      upd st inj (S n) h = EV r ->
      exists us, Forall2 (fun c u => upd st inj n c = EV u) cs us /\
                 ((exists u, In u us /\ u <> None) <-> r <> None) /\
                 forall v, r = Some v ->
                           exists vs, Forall2 (fun c w => new_or_cur st inj n c = EV w) cs vs /\ v = appN g vs.
  Proof.
    intros n h cs g r Hd H. rewrite (upd_DLift _ _ _ _ Hd) in H.
    apply ebind_EV in H. destruct H as [us [H1 H2]]. exists us.
    split; [apply emap_EV_iff; exact H1|].
    destruct (existsb is_some us) eqn:Ex.
    - apply ebind_EV in H2. destruct H2 as [vs [H2 H3]]. injection H3 as <-. split.
      + split; [intros _; discriminate|]. intros _. apply existsb_exists in Ex.
        destruct Ex as [u [Hin Hu]]. exists u. split; [exact Hin|]. destruct u; [discriminate | discriminate Hu].
      + intros v Hv. injection Hv as <-. exists vs. split; [apply emap_EV_iff; exact H2 | reflexivity].
    - injection H2 as <-. split.
      + split; [|intros X; congruence]. intros [u [Hin Hu]]. exfalso.
        assert (X : existsb is_some us = true).
        { apply existsb_exists. exists u. split; [exact Hin|]. destruct u; [reflexivity | congruence]. }
        congruence.
      + intros v Hv. discriminate Hv.
  Qed.

  Lemma upd_DMapC_inv : forall n h c f r, alookup (defs st) h = Some (DMapC c f) ->
      upd st inj (S n) h = EV r -> exists o, upd st inj n c = EV o /\ r = option_map (app1 f) o.
  Proof.
    intros n h c f r Hd H. rewrite (upd_DMapC _ _ _ _ Hd) in H. apply ebind_EV in H.
    destruct H as [o [H1 H2]]. exists o. split; [exact H1 | congruence].
  Qed.

  (* top-level fuel, successful results *)
  Lemma upd_DMapC_EV : forall h c f r, alookup (defs st) h = Some (DMapC c f) ->
      upd st inj (F st) h = EV r -> exists o, upd st inj (F st) c = EV o /\ r = option_map (app1 f) o.
  Proof.
    intros h c f r Hd H. change (F st) with (S (S (length (defs st)))) in H at 1.
    destruct (upd_DMapC_inv _ _ _ _ _ Hd H) as [o [H1 H2]]. exists o.
    split; [exact (upd_F_of _ _ _ _ _ H1 (F_pred_le st)) | exact H2].
  Qed.

  Lemma new_or_cur_F_of : forall n c w, n <= F st -> new_or_cur st inj n c = EV w -> new_or_cur st inj (F st) c = EV w.
  Proof.
    intros n c w Hle H. unfold new_or_cur in *. apply ebind_EV in H. destruct H as [o [H1 H2]].
    rewrite (upd_F_of _ _ _ _ _ H1 Hle). exact H2.
  Qed.

  Lemma upd_DLift_EV : forall h cs g r, alookup (defs st) h = Some (DLift cs g) ->
      upd st inj (F st) h = EV r ->
      exists us, Forall2 (fun c u => upd st inj (F st) c = EV u) cs us /\
                 ((exists u, In u us /\ u <> None) <-> r <> None) /\
                 forall v, r = Some v ->
                           exists vs, Forall2 (fun c w => new_or_cur st inj (F st) c = EV w) cs vs /\ v = appN g vs.
  Proof.
    intros h cs g r Hd H. change (F st) with (S (S (length (defs st)))) in H at 1.
    destruct (upd_DLift_inv _ _ _ _ _ Hd H) as [us [H1 [H2 H3]]]. exists us. split.
    - apply Forall2_imp with (2 := H1). intros c u Hu. exact (upd_F_of _ _ _ _ _ Hu (F_pred_le st)).
    - split; [exact H2|]. intros v Hv. destruct (H3 v Hv) as [vs [Hvs ->]]. exists vs. split; [|reflexivity].
      apply Forall2_imp with (2 := Hvs). intros c w Hw. exact (new_or_cur_F_of _ _ _ (F_pred_le st) Hw).
  Qed.

  (* top-level fuel, legal states *)
  Section LegalEqs.
    Variables rc ro : nat -> nat.
    Hypothesis HL : LegalR st inj rc ro.
    Let Hbc : forall h d, alookup (defs st) h = Some d -> rc h < F st := proj1 HL.
    Let Hb : forall h d, alookup (defs st) h = Some d -> ro h < F st := proj1 (proj2 HL).
    Let Hokc : forall h, cur_ok st rc h := proj1 (proj2 (proj2 HL)).
    Let Hok : forall h, occ_ok st inj ro h := proj2 (proj2 (proj2 HL)).

    Lemma upd_DMapC_L : forall h c f, alookup (defs st) h = Some (DMapC c f) ->
        upd st inj (F st) h = elet o <- upd st inj (F st) c; EV (option_map (app1 f) o).
    Proof.
      intros h c f Hd. pose proof (Hok h) as X. unfold occ_ok in X. rewrite Hd in X.
      rewrite <- (upd_sub_F st inj ro Hb Hok h _ c Hd X). exact (upd_DMapC _ _ _ _ Hd).
    Qed.

    Lemma upd_DLift_L : forall h cs g, alookup (defs st) h = Some (DLift cs g) ->
        upd st inj (F st) h =
        elet us <- emap (upd st inj (F st)) cs;
        if existsb is_some us
        then elet vs <- emap (new_or_cur st inj (F st)) cs; EV (Some (appN g vs))
        else EV None.
    Proof.
      intros h cs g Hd. pose proof (Hok h) as X. unfold occ_ok in X. rewrite Hd in X.
      assert (E : forall c, In c cs -> upd st inj (S (length (defs st))) c = upd st inj (F st) c).
      { intros c Hin. exact (upd_sub_F st inj ro Hb Hok h _ c Hd (X c Hin)). }
      change (F st) with (S (S (length (defs st)))) at 1. rewrite (upd_DLift _ _ _ _ Hd).
      rewrite (emap_ext _ _ cs E).
      assert (E2 : emap (new_or_cur st inj (S (length (defs st)))) cs = emap (new_or_cur st inj (F st)) cs).
      { apply emap_ext. intros c Hin. unfold new_or_cur. rewrite (E c Hin). reflexivity. }
      rewrite E2. reflexivity.
    Qed.

    Lemma cur_sub_F : forall h d c, alookup (defs st) h = Some d -> rc c < rc h ->
        cur st (S (length (defs st))) c = cur st (F st) c.
    Proof.
      intros h d c Hd Hlt. apply (cur_indep_F st rc Hbc Hokc).
      pose proof (Hbc h d Hd) as X. rewrite F_eq in X. lia.
    Qed.

    Lemma cur_DMapC_L : forall h c f, alookup (cvals st) h = None -> alookup (defs st) h = Some (DMapC c f) ->
        cur st (F st) h = elet v <- cur st (F st) c; EV (app1 f v).
    Proof.
      intros h c f Hc Hd. pose proof (Hokc h) as X. unfold cur_ok in X. rewrite Hc, Hd in X.
      rewrite <- (cur_sub_F h _ c Hd X). exact (cur_DMapC _ _ _ _ Hc Hd).
    Qed.

    Lemma cur_DLift_L : forall h cs g, alookup (cvals st) h = None -> alookup (defs st) h = Some (DLift cs g) ->
        cur st (F st) h = elet vs <- emap (cur st (F st)) cs; EV (appN g vs).
    Proof.
      intros h cs g Hc Hd. pose proof (Hokc h) as X. unfold cur_ok in X. rewrite Hc, Hd in X.
      change (F st) with (S (S (length (defs st)))) at 1. rewrite (cur_DLift _ _ _ _ Hc Hd).
      rewrite (emap_ext (cur st (S (length (defs st)))) (cur st (F st)) cs); [reflexivity|].
      intros c Hin. exact (cur_sub_F h _ c Hd (X c Hin)).
    Qed.

    (* sampling a mapped / lifted cell, resolved or not, is the function of sampling its inputs *)
    Theorem sample_DMapC_L : forall h c f, Consistent st -> alookup (defs st) h = Some (DMapC c f) ->
        cur st (F st) h = elet v <- cur st (F st) c; EV (app1 f v).
    Proof.
      intros h c f [HM _] Hd. destruct (alookup (cvals st) h) as [v|] eqn:Hc.
      - destruct (HM h c f v Hd Hc) as [vc [Hvc ->]].
        rewrite (cur_resolved_F _ _ _ Hc), (cur_resolved_F _ _ _ Hvc). reflexivity.
      - exact (cur_DMapC_L _ _ _ Hc Hd).
    Qed.

    Theorem sample_DLift_L : forall h cs g, Consistent st -> alookup (defs st) h = Some (DLift cs g) ->
        cur st (F st) h = elet vs <- emap (cur st (F st)) cs; EV (appN g vs).
    Proof.
      intros h cs g [_ HLf] Hd. destruct (alookup (cvals st) h) as [v|] eqn:Hc.
      - destruct (HLf h cs g v Hd Hc) as [vs [Hvs ->]].
        rewrite (cur_resolved_F _ _ _ Hc).
        assert (E : emap (cur st (F st)) cs = EV vs).
        { apply emap_EV_iff. apply Forall2_imp with (2 := Hvs). intros c w Hw. exact (cur_resolved_F _ _ _ Hw). }
        rewrite E. reflexivity.
      - exact (cur_DLift_L _ _ _ Hc Hd).
    Qed.
  End LegalEqs.

  (* the same for successful reads, without legality *)
  Theorem sample_DMapC_EV : forall h c f v, Consistent st -> alookup (defs st) h = Some (DMapC c f) ->
      cur st (F st) h = EV v -> exists vc, cur st (F st) c = EV vc /\ v = app1 f vc.
  Proof.
    intros h c f v [HM _] Hd H. destruct (alookup (cvals st) h) as [v0|] eqn:Hc.
    - rewrite (cur_resolved_F _ _ _ Hc) in H. injection H as <-.
      destruct (HM h c f v0 Hd Hc) as [vc [Hvc ->]]. exists vc. split; [exact (cur_resolved_F _ _ _ Hvc) | reflexivity].
    - change (F st) with (S (S (length (defs st)))) in H at 1. rewrite (cur_DMapC _ _ _ _ Hc Hd) in H.
      apply ebind_EV in H. destruct H as [vc [H1 H2]]. exists vc.
      split; [exact (cur_F_of _ _ _ _ H1 (F_pred_le st)) | congruence].
  Qed.

  Theorem sample_DLift_EV : forall h cs g v, Consistent st -> alookup (defs st) h = Some (DLift cs g) ->
      cur st (F st) h = EV v ->
      exists vs, Forall2 (fun c w => cur st (F st) c = EV w) cs vs /\ v = appN g vs.
  Proof.
    intros h cs g v [_ HLf] Hd H. destruct (alookup (cvals st) h) as [v0|] eqn:Hc.
    - rewrite (cur_resolved_F _ _ _ Hc) in H. injection H as <-.
      destruct (HLf h cs g v0 Hd Hc) as [vs [Hvs ->]]. exists vs. split; [|reflexivity].
      apply Forall2_imp with (2 := Hvs). intros c w Hw. exact (cur_resolved_F _ _ _ Hw).
    - change (F st) with (S (S (length (defs st)))) in H at 1. rewrite (cur_DLift _ _ _ _ Hc Hd) in H.
      apply ebind_EV in H. destruct H as [vs [H1 H2]]. exists vs. split; [|congruence].
      apply emap_EV_iff in H1. apply Forall2_imp with (2 := H1).
      intros c w Hw. exact (cur_F_of _ _ _ _ Hw (F_pred_le st)).
  Qed.
End Eqs.

(* ------------------------------------------------------------------ close_txn preserves consistency *)

(* an input whose update evaluated at the recursive fuel: its committed value *)
Lemma commit_input_new : forall st inj p r c w,
    close_txn st inj p = EV r -> upd st inj (S (length (defs st))) c = EV (Some w) ->
    alookup (cvals (r_state r)) c = Some w.
Proof.
  intros st inj p r c w Hc Hu. rewrite (close_cvals_upd _ _ _ _ _ _ _ Hc Hu).
  apply commit_upd_Some. exact (upd_F_of _ _ _ _ _ Hu (F_pred_le st)).
Qed.

Lemma commit_input_old : forall st inj p r c w,
    close_txn st inj p = EV r -> upd st inj (S (length (defs st))) c = EV None ->
    cur st (F st) c = EV w -> alookup (cvals (r_state r)) c = Some w.
Proof.
  intros st inj p r c w Hc Hu Hw. rewrite (close_cvals_upd _ _ _ _ _ _ _ Hc Hu).
  apply commit_upd_None; [exact (upd_F_of _ _ _ _ _ Hu (F_pred_le st)) | exact Hw].
Qed.

Lemma commit_input_new_or_cur : forall st inj p r c w,
    close_txn st inj p = EV r -> new_or_cur st inj (S (length (defs st))) c = EV w ->
    alookup (cvals (r_state r)) c = Some w.
Proof.
  intros st inj p r c w Hc H. unfold new_or_cur in H. apply ebind_EV in H. destruct H as [o [H1 H2]].
  destruct o as [v|].
  - injection H2 as <-. exact (commit_input_new _ _ _ _ _ _ Hc H1).
  - exact (commit_input_old _ _ _ _ _ _ Hc H1 H2).
Qed.

Theorem close_ConsistentMap : forall st inj p r,
    close_txn st inj p = EV r -> ConsistentMap st -> ConsistentMap (r_state r).
Proof.
  intros st inj p r Hc HM h c f v Hd Hv. rewrite (close_defs _ _ _ _ Hc) in Hd.
  pose proof (close_cvals_Some _ _ _ _ _ _ Hc Hv) as Hcm.
  destruct (commit_Some_inv _ _ _ _ Hcm) as [Hu|[Hu Hcur]];
    change (F st) with (S (S (length (defs st)))) in Hu at 1;
    destruct (upd_DMapC_inv _ _ _ _ _ _ _ Hd Hu) as [o [Ho Hr]].
  - destruct o as [vc|]; [|discriminate Hr]. injection Hr as ->.
    exists vc. split; [exact (commit_input_new _ _ _ _ _ _ Hc Ho) | reflexivity].
  - destruct o as [vc|]; [discriminate Hr|].
    destruct (alookup (cvals st) h) as [v0|] eqn:Hcv.
    + rewrite (cur_resolved_F _ _ _ Hcv) in Hcur. injection Hcur as <-.
      destruct (HM h c f v0 Hd Hcv) as [vc [Hvc ->]]. exists vc. split; [|reflexivity].
      exact (commit_input_old _ _ _ _ _ _ Hc Ho (cur_resolved_F _ _ _ Hvc)).
    + change (F st) with (S (S (length (defs st)))) in Hcur at 1. rewrite (cur_DMapC _ _ _ _ _ Hcv Hd) in Hcur.
      apply ebind_EV in Hcur. destruct Hcur as [vc [H1 H2]]. injection H2 as <-.
      exists vc. split; [|reflexivity].
      exact (commit_input_old _ _ _ _ _ _ Hc Ho (cur_F_of _ _ _ _ H1 (F_pred_le st))).
Qed.

Theorem close_ConsistentLift : forall st inj p r,
    close_txn st inj p = EV r -> ConsistentLift st -> ConsistentLift (r_state r).
Proof.
  intros st inj p r Hc HLf h cs g v Hd Hv. rewrite (close_defs _ _ _ _ Hc) in Hd.
  pose proof (close_cvals_Some _ _ _ _ _ _ Hc Hv) as Hcm.
  destruct (commit_Some_inv _ _ _ _ Hcm) as [Hu|[Hu Hcur]];
    change (F st) with (S (S (length (defs st)))) in Hu at 1.
  - destruct (upd_DLift_inv _ _ _ _ _ _ _ Hd Hu) as [us [_ [_ H3]]].
    destruct (H3 v eq_refl) as [vs [Hvs ->]]. exists vs. split; [|reflexivity].
    apply Forall2_imp with (2 := Hvs). intros c w Hw. exact (commit_input_new_or_cur _ _ _ _ _ _ Hc Hw).
  - assert (Hnone : forall c, In c cs -> upd st inj (S (length (defs st))) c = EV None).
    { rewrite (upd_DLift _ _ _ _ _ _ Hd) in Hu. apply ebind_EV in Hu. destruct Hu as [us [H1 H2]].
      destruct (existsb is_some us) eqn:Ex.
      - apply ebind_EV in H2. destruct H2 as [vs [_ H2]]. discriminate H2.
      - exact (all_none _ _ _ _ _ H1 Ex). }
    destruct (alookup (cvals st) h) as [v0|] eqn:Hcv.
    + rewrite (cur_resolved_F _ _ _ Hcv) in Hcur. injection Hcur as <-.
      destruct (HLf h cs g v0 Hd Hcv) as [vs [Hvs ->]]. exists vs. split; [|reflexivity].
      apply Forall2_impl_In with (1 := Hvs). intros c w Hin Hw.
      exact (commit_input_old _ _ _ _ _ _ Hc (Hnone c Hin) (cur_resolved_F _ _ _ Hw)).
    + change (F st) with (S (S (length (defs st)))) in Hcur at 1. rewrite (cur_DLift _ _ _ _ _ Hcv Hd) in Hcur.
      apply ebind_EV in Hcur. destruct Hcur as [vs [H1 H2]]. injection H2 as <-.
      exists vs. split; [|reflexivity]. apply emap_EV_iff in H1.
      apply Forall2_impl_In with (1 := H1). intros c w Hin Hw.
      exact (commit_input_old _ _ _ _ _ _ Hc (Hnone c Hin) (cur_F_of _ _ _ _ Hw (F_pred_le st))).
Qed.

Theorem close_Consistent : forall st inj p r,
    close_txn st inj p = EV r -> Consistent st -> Consistent (r_state r).
Proof.
  intros st inj p r Hc [HM HLf]. split;
    [exact (close_ConsistentMap _ _ _ _ Hc HM) | exact (close_ConsistentLift _ _ _ _ Hc HLf)].
Qed.

(* ------------------------------------------------------------------ consistency is reachable *)

(* an operation is well-scoped when the key it binds carries no committed value *)
Definition binds_unresolved (st : state) (o : op) : Prop :=
  forall h, binds o h -> alookup (cvals st) h = None.

Lemma body_defs_bound : forall st o st' ob h d,
    body st o = EV (st', ob) -> alookup (defs st') h = Some d -> alookup (defs st) h = Some d \/ binds o h.
Proof.
  intros st o st' ob h d H Hd.
  assert (X : {binds o h} + {~ binds o h}).
  { destruct o; cbn [binds]; try (right; tauto); apply Nat.eq_dec. }
  destruct X as [Y|N]; [right; exact Y | left].
  rewrite <- (body_defs_other _ _ _ _ _ H N). exact Hd.
Qed.

Lemma body_cvals_grow : forall st o st' ob h v,
    body st o = EV (st', ob) -> binds_unresolved st o ->
    alookup (cvals st) h = Some v -> alookup (cvals st') h = Some v.
Proof.
  intros st o st' ob h v H Hbu Hv.
  assert (N : ~ binds o h) by (intros Y; rewrite (Hbu h Y) in Hv; discriminate Hv).
  rewrite (body_cvals_other _ _ _ _ _ H N). exact Hv.
Qed.

Lemma body_cvals_bound : forall st o st' ob h v,
    body st o = EV (st', ob) -> alookup (cvals st') h = Some v ->
    alookup (cvals st) h = Some v \/ (binds o h /\ alookup (defs st') h = Some DConst).
Proof.
  intros st o st' ob h v H Hv.
  assert (X : {binds o h} + {~ binds o h}).
  { destruct o; cbn [binds]; try (right; tauto); apply Nat.eq_dec. }
  destruct X as [Y|N].
  - body_inv H; cbn [binds] in Y; try destruct Y; cbn [cvals with_defs defs] in Hv |- *;
      try (left; exact Hv).
    right. split; [reflexivity | apply alookup_aset_eq].
  - left. rewrite <- (body_cvals_other _ _ _ _ _ H N). exact Hv.
Qed.

Theorem body_Consistent : forall st o st' ob,
    binds_unresolved st o -> body st o = EV (st', ob) -> Consistent st -> Consistent st'.
Proof.
  intros st o st' ob Hbu H [HM HLf]. split.
  - intros h c f v Hd Hv.
    destruct (body_cvals_bound _ _ _ _ _ _ H Hv) as [Hv0|[_ Hk]]; [|congruence].
    destruct (body_defs_bound _ _ _ _ _ _ H Hd) as [Hd0|Y]; [|rewrite (Hbu h Y) in Hv0; discriminate Hv0].
    destruct (HM h c f v Hd0 Hv0) as [vc [Hvc ->]]. exists vc.
    split; [exact (body_cvals_grow _ _ _ _ _ _ H Hbu Hvc) | reflexivity].
  - intros h cs g v Hd Hv.
    destruct (body_cvals_bound _ _ _ _ _ _ H Hv) as [Hv0|[_ Hk]]; [|congruence].
    destruct (body_defs_bound _ _ _ _ _ _ H Hd) as [Hd0|Y]; [|rewrite (Hbu h Y) in Hv0; discriminate Hv0].
    destruct (HLf h cs g v Hd0 Hv0) as [vs [Hvs ->]]. exists vs. split; [|reflexivity].
    apply Forall2_imp with (2 := Hvs). intros c w Hw. exact (body_cvals_grow _ _ _ _ _ _ H Hbu Hw).
Qed.

Lemma Consistent_set_depth : forall st k, Consistent st -> Consistent (set_depth st k).
Proof. intros st k H. exact H. Qed.

Lemma Consistent_set_tdone : forall st t b, Consistent st -> Consistent (set_tdone st t b).
Proof. intros st t b H. exact H. Qed.

Theorem step_Consistent : forall choice st o r,
    binds_unresolved st o -> step choice st o = EV r -> Consistent st -> Consistent (fst (fst r)).
Proof.
  intros choice st o r Hbu H HC.
  assert (Hleave : forall ch s acc r0, leave ch s acc = EV r0 -> Consistent s -> Consistent (fst (fst r0))).
  { intros ch s acc r0. apply (leave_inv Consistent).
    - intros s0 i p r1. apply close_Consistent.
    - exact Consistent_set_depth. }
  assert (Hbody : (match depth st with
                   | O => elet r0 <- body (set_depth st 1) o; leave choice (fst r0) (snd r0)
                   | _ => elet r0 <- body st o; EV (fst r0, snd r0, [])
                   end) = EV r -> Consistent (fst (fst r))).
  { intros Hb. destruct (depth st).
    - apply ebind_EV in Hb. destruct Hb as [[st1 ob] [H1 H2]]. simpl in H2.
      apply (Hleave _ _ _ _ H2). apply (body_Consistent (set_depth st 1) o st1 ob); [exact Hbu | exact H1 | exact HC].
    - apply ebind_EV in Hb. destruct Hb as [[st1 ob] [H1 H2]]. injection H2 as <-. simpl.
      exact (body_Consistent _ _ _ _ Hbu H1 HC). }
  destruct o; try exact (Hbody H).
  - simpl in H. injection H as <-. exact HC.
  - simpl in H. exact (Hleave _ _ _ _ H HC).
  - simpl in H. injection H as <-. exact HC.
  - simpl in H. destruct (alookup (tdone st) t) as [[|]|].
    + injection H as <-. exact HC.
    + exact (Hleave _ _ _ _ H HC).
    + injection H as <-. exact HC.
Qed.

(* scripts all of whose operations are well-scoped in the state they are executed in *)
Fixpoint script_scoped (choices : list (list nat)) (st : state) (ops : list op) : Prop :=
  match ops with
  | [] => True
  | o :: t => binds_unresolved st o /\
              match step (hd [] choices) st o with
              | EV r => script_scoped (tl choices) (fst (fst r)) t
              | EErr _ => True
              end
  end.

Theorem script_Consistent : forall ops choices st st',
    script_scoped choices st ops -> run_script choices st ops = EV st' -> Consistent st -> Consistent st'.
Proof.
  induction ops as [|o t IH]; intros choices st st' Hs H HC.
  - injection H as <-. exact HC.
  - simpl in H. apply ebind_EV in H. destruct H as [r [H1 H2]].
    destruct Hs as [Hbu Hs]. rewrite H1 in Hs.
    apply (IH _ _ _ Hs H2). exact (step_Consistent _ _ _ _ Hbu H1 HC).
Qed.

Corollary reachable_Consistent : forall ops choices st',
    script_scoped choices init_state ops -> run_script choices init_state ops = EV st' -> Consistent st'.
Proof. intros ops choices st' Hs H. exact (script_Consistent _ _ _ _ Hs H Consistent_init). Qed.

(* a boolean version of [script_scoped], for examples *)
Definition bound_key (o : op) : option nat :=
  match o with
  | ODef k _ | OHold k _ _ | OHoldLazy k _ _ | OConst k _ => Some k
  | OListenC _ vh _ => Some vh
  | _ => None
  end.

Definition scoped_opb (st : state) (o : op) : bool :=
  match bound_key o with
  | Some k => match alookup (cvals st) k with None => true | Some _ => false end
  | None => true
  end.

Lemma scoped_opb_sound : forall st o, scoped_opb st o = true -> binds_unresolved st o.
Proof.
  intros st o H k Hb. unfold scoped_opb in H.
  destruct o; cbn [binds] in Hb; try contradiction; subst; cbn [bound_key] in H;
    match goal with |- ?x = None => destruct x end; (reflexivity || discriminate H).
Qed.

Fixpoint script_scopedb (choices : list (list nat)) (st : state) (ops : list op) : bool :=
  match ops with
  | [] => true
  | o :: t => scoped_opb st o &&
              match step (hd [] choices) st o with
              | EV r => script_scopedb (tl choices) (fst (fst r)) t
              | EErr _ => true
              end
  end.

Lemma script_scopedb_sound : forall ops choices st,
    script_scopedb choices st ops = true -> script_scoped choices st ops.
Proof.
  induction ops as [|o t IH]; intros choices st H; [exact I|].
  simpl in H. apply andb_true_iff in H. destruct H as [H1 H2]. split.
  - apply scoped_opb_sound. exact H1.
  - destruct (step (hd [] choices) st o) as [r|e]; [apply IH; exact H2 | exact I].
Qed.

(* ------------------------------------------------------------------ a concrete program (for the examples) *)
From Sodium Require Import SpecBLegalB.

Definition ex13_ops : list op :=
  [ODef 0 (DSink None); ODef 1 (DSink None); OHold 2 0 (VInt 1); OHold 3 1 (VInt 2);
   ODef 4 (DLift [2; 3] (NF2 GSub)); ODef 5 (DMapC 4 (FMul 3)); ODef 6 (DLift [4; 5; 2] NWsum)].

Definition ex13_st : state := match run_ops init_state ex13_ops with Some st => st | None => init_state end.
Definition ex13_rank : nat -> nat := rank_of [(0,0);(1,0);(2,1);(3,1);(4,2);(5,3);(6,4)].

Lemma ex13_run : run_script [] init_state ex13_ops = EV ex13_st.
Proof. vm_compute. reflexivity. Qed.

Lemma ex13_consistent : Consistent ex13_st.
Proof.
  apply (reachable_Consistent ex13_ops []); [|exact ex13_run].
  apply script_scopedb_sound. vm_compute. reflexivity.
Qed.

Lemma ex13_legal : forall inj, LegalR ex13_st inj ex13_rank ex13_rank.
Proof. intros inj. apply legalb_sound. vm_compute. reflexivity. Qed.

(* the scoping hypothesis cannot be dropped: re-binding a key that already carries a committed value
   (which the driver never does: it allocates fresh keys) leaves a mapped cell stale *)
Definition ex13_rebind_ops : list op := [OConst 1 (VInt 5); ODef 2 (DMapC 1 FId); OConst 1 (VInt 6)].
Definition ex13_rebind_st : state :=
  match run_ops init_state ex13_rebind_ops with Some st => st | None => init_state end.

Lemma ex13_rebind_breaks :
  run_ops init_state ex13_rebind_ops = Some ex13_rebind_st /\ ~ Consistent ex13_rebind_st /\
  cur ex13_rebind_st (F ex13_rebind_st) 2 = EV (VInt 5) /\ cur ex13_rebind_st (F ex13_rebind_st) 1 = EV (VInt 6).
Proof.
  split; [vm_compute; reflexivity|]. split; [|split; vm_compute; reflexivity].
  intros [HM _]. destruct (HM 2 1 FId (VInt 5) eq_refl eq_refl) as [vc [H1 H2]].
  vm_compute in H1. injection H1 as <-. discriminate H2.
Qed.
