(* C04: cells are delayed state; hold / accum / collect are the left folds of the event history. *)
From Coq Require Import List ZArith Bool Arith Lia.
Import ListNotations.
From Sodium Require Import Sodium SpecBBase SpecBMono SpecBLegal SpecBClose SpecBStep SpecBBody SpecBC02.
Local Open Scope nat_scope.

(* ------------------------------------------------------------------ (a) reads see the old value *)

(* a sample returns [cur] of the state at that point ... *)
Lemma sample_reads_cur : forall st h,
    body st (OSample h) = elet v <- cur st (F st) h; EV (st, [BSample h v]).
Proof. reflexivity. Qed.

(* ... and operations that create nothing (sends in particular) do not change what is read *)
Fixpoint run_body (st : state) (ops : list op) : ev (state * list obs) :=
  match ops with
  | [] => EV (st, [])
  | o :: t => elet r <- body st o; elet r' <- run_body (fst r) t; EV (fst r', snd r ++ snd r')
  end.

Lemma run_body_passive_cur : forall ops st st' ob,
    Forall passive ops -> run_body st ops = EV (st', ob) ->
    F st' = F st /\ forall n c, cur st' n c = cur st n c.
Proof.
  induction ops as [|o t IH]; intros st st' ob HP H.
  - injection H as <- <-. split; reflexivity.
  - simpl in H. apply ebind_EV in H. destruct H as [[st1 ob1] [H1 H]].
    apply ebind_EV in H. destruct H as [[st2 ob2] [H2 H]]. injection H as <- <-.
    inversion HP as [|o' t' Hp Ht]; subst. simpl in H2.
    destruct (IH _ _ _ Ht H2) as [E1 E2]. split.
    + rewrite E1. exact (body_passive_F _ _ _ _ Hp H1).
    + intros n c. rewrite E2. exact (body_passive_cur _ _ _ _ Hp H1 n c).
Qed.

(* a sample placed after any sequence of sends / listens / samples / posts inside the transaction
   observes the same value as one placed before it *)
Theorem sample_position_irrelevant : forall ops st st' ob h,
    Forall passive ops -> run_body st ops = EV (st', ob) ->
    body st' (OSample h) = elet v <- cur st (F st) h; EV (st', [BSample h v]).
Proof.
  intros ops st st' ob h HP H. destruct (run_body_passive_cur _ _ _ _ HP H) as [E1 E2].
  rewrite sample_reads_cur, E1, E2. reflexivity.
Qed.

Lemma send_keeps_cur : forall st h v st' ob n c,
    body st (OSend h v) = EV (st', ob) -> cur st' n c = cur st n c.
Proof. intros st h v st' ob n c H. exact (body_passive_cur st (OSend h v) st' ob I H n c). Qed.

(* inside an open transaction a step is just the body *)
Lemma step_open_body : forall choice st o,
    depth st <> 0 ->
    match o with OBegin | OEnd | OTNew _ | OTClose _ => False | _ => True end ->
    step choice st o = elet r <- body st o; EV (fst r, snd r, []).
Proof.
  intros choice st o Hd Ho. destruct (depth st) as [|k] eqn:E; [congruence|].
  destruct o; try destruct Ho; unfold step; rewrite E; reflexivity.
Qed.

(* ------------------------------------------------------------------ (b) hold *)

Lemma hold_fresh_cur : forall st n h a v0,
    alookup (cvals st) h = None -> alookup (defs st) h = Some (DHold a) ->
    alookup (inits st) h = Some v0 -> cur st (S n) h = EV v0.
Proof. intros st n h a v0 Hc Hd Hi. rewrite cur_S, Hc, (def_of_Some _ _ _ Hd). cbn [ebind]. rewrite Hi. reflexivity. Qed.

Definition opt_of_ev {A} (x : ev A) : option A := match x with EV a => Some a | EErr _ => None end.

Definition hold_next (v : val) (o : option val) : val := match o with Some x => x | None => v end.

(* the committed value of a hold: the event of its source in this transaction, else unchanged;
   no hypothesis on listeners: it holds with [listeners st = []] as with any other set *)
Theorem hold_commit : forall st inj p r h a,
    close_txn st inj p = EV r -> alookup (defs st) h = Some (DHold a) ->
    exists o, occ st inj (F st) a = EV o /\ upd st inj (F st) h = EV o /\
              alookup (cvals (r_state r)) h =
              match o with Some v => Some v | None => opt_of_ev (cur st (F st) h) end.
Proof.
  intros st inj p r h a Hc Hd.
  destruct (close_cvals_cell _ _ _ _ _ _ Hc Hd eq_refl) as [E [u Hu]].
  pose proof Hu as Hu'. change (F st) with (S (S (length (defs st)))) in Hu' at 1.
  rewrite (upd_DHold _ _ _ _ _ Hd) in Hu'. apply occ_F_of in Hu'; [|apply F_pred_le].
  exists u. split; [exact Hu'|]. split; [exact Hu|].
  rewrite E. unfold commit. rewrite Hu. destruct u as [v|]; [reflexivity|].
  destruct (cur st (F st) h); reflexivity.
Qed.

Corollary hold_commit_unobserved : forall st inj p r h a,
    listeners st = [] ->
    close_txn st inj p = EV r -> alookup (defs st) h = Some (DHold a) ->
    exists o, occ st inj (F st) a = EV o /\
              alookup (cvals (r_state r)) h =
              match o with Some v => Some v | None => opt_of_ev (cur st (F st) h) end.
Proof.
  intros st inj p r h a _ Hc Hd. destruct (hold_commit _ _ _ _ _ _ Hc Hd) as [o [H1 [_ H2]]].
  exists o. split; assumption.
Qed.

Corollary hold_next_cur : forall st inj p r h a o v,
    close_txn st inj p = EV r -> alookup (defs st) h = Some (DHold a) ->
    occ st inj (F st) a = EV o -> cur st (F st) h = EV v ->
    cur (r_state r) (F (r_state r)) h = EV (hold_next v o).
Proof.
  intros st inj p r h a o v Hc Hd Ho Hv. destruct (hold_commit _ _ _ _ _ _ Hc Hd) as [o' [H1 [_ H2]]].
  assert (o' = o) by congruence. subst o'. apply cur_resolved_F. rewrite H2, Hv.
  destruct o; reflexivity.
Qed.

(* ------------------------------------------------------------------ histories *)

(* steps other than transactions must leave the cell's value alone *)
Definition keeps (h : nat) (st st1 : state) : Prop :=
  forall v, cur st (F st) h = EV v -> cur st1 (F st1) h = EV v.

(* a history seen from cell [h] with source stream [s]: transactions (each a close_txn, whatever was
   injected, deferred transactions included) interleaved with arbitrary other state changes that keep
   the cell's value; [I] is required of the state at each transaction *)
Inductive Hist (I : state -> Prop) (h s : nat) : state -> list (option val) -> state -> Prop :=
| Hist_nil : forall st, Hist I h s st [] st
| Hist_txn : forall st inj p r o tr st',
    I st -> close_txn st inj p = EV r -> occ st inj (F st) s = EV o ->
    Hist I h s (r_state r) tr st' -> Hist I h s st (o :: tr) st'
| Hist_other : forall st st1 tr st',
    keeps h st st1 -> Hist I h s st1 tr st' -> Hist I h s st tr st'.

Theorem hist_fold : forall (I : state -> Prop) h s (next : val -> option val -> val),
    (forall st inj p r o v, I st -> close_txn st inj p = EV r -> occ st inj (F st) s = EV o ->
                            cur st (F st) h = EV v -> cur (r_state r) (F (r_state r)) h = EV (next v o)) ->
    forall st tr st', Hist I h s st tr st' ->
    forall v0, cur st (F st) h = EV v0 -> cur st' (F st') h = EV (fold_left next tr v0).
Proof.
  intros I h s next Hstep st tr st' HH.
  induction HH as [st|st inj p r o tr st' HI Hc Ho HH IH|st st1 tr st' Hk HH IH]; intros v0 Hv.
  - exact Hv.
  - simpl. apply IH. exact (Hstep _ _ _ _ _ _ HI Hc Ho Hv).
  - apply IH. exact (Hk _ Hv).
Qed.

Definition somes (tr : list (option val)) : list val :=
  flat_map (fun o => match o with Some a => [a] | None => [] end) tr.

Lemma fold_somes : forall (g : val -> val -> val) tr v0,
    fold_left (fun acc o => match o with Some a => g acc a | None => acc end) tr v0 =
    fold_left g (somes tr) v0.
Proof.
  intros g tr. induction tr as [|[a|] t IH]; intros v0; simpl; [reflexivity | apply IH | apply IH].
Qed.

Lemma last_default : forall (y : val) t d1 d2, last (y :: t) d1 = last (y :: t) d2.
Proof.
  intros y t. revert y. induction t as [|z t IH]; intros y d1 d2; [reflexivity|].
  change (last (z :: t) d1 = last (z :: t) d2). apply IH.
Qed.

Lemma fold_last : forall (l : list val) v0, fold_left (fun _ a0 : val => a0) l v0 = last l v0.
Proof.
  induction l as [|x t IH]; intros v0; [reflexivity|]. simpl fold_left. rewrite IH.
  destruct t as [|y t]; [reflexivity|]. change (last (y :: t) x = last (y :: t) v0). apply last_default.
Qed.

(* hold = the last event so far, or the initial value *)
Theorem hold_history : forall h a st tr st' v0,
    Hist (fun st => alookup (defs st) h = Some (DHold a)) h a st tr st' ->
    cur st (F st) h = EV v0 ->
    cur st' (F st') h = EV (last (somes tr) v0).
Proof.
  intros h a st tr st' v0 HH Hv.
  assert (Hstep : forall st0 inj p r o v, alookup (defs st0) h = Some (DHold a) ->
            close_txn st0 inj p = EV r -> occ st0 inj (F st0) a = EV o -> cur st0 (F st0) h = EV v ->
            cur (r_state r) (F (r_state r)) h = EV (hold_next v o)).
  { intros st0 inj p r o v HI Hc Ho Hv0. exact (hold_next_cur _ _ _ _ _ _ _ _ Hc HI Ho Hv0). }
  rewrite (hist_fold _ h a hold_next Hstep st tr st' HH v0 Hv).
  f_equal. unfold hold_next.
  rewrite (fold_somes (fun _ a0 => a0) tr v0).
  apply fold_last.
Qed.

(* other steps: an operation body that does not rebind [h] keeps a resolved cell *)
Lemma keeps_resolved : forall h st st1,
    (forall v, alookup (cvals st) h = Some v -> alookup (cvals st1) h = Some v) ->
    alookup (cvals st) h <> None -> keeps h st st1.
Proof.
  intros h st st1 H Hn v Hv. destruct (alookup (cvals st) h) as [w|] eqn:E; [|congruence].
  rewrite (cur_resolved_F _ _ _ E) in Hv. injection Hv as <-.
  apply cur_resolved_F. apply H. reflexivity.
Qed.

Lemma body_keeps_resolved : forall h st o st1 ob,
    body st o = EV (st1, ob) -> ~ binds o h -> alookup (cvals st) h <> None -> keeps h st st1.
Proof.
  intros h st o st1 ob Hb Hn Hr. apply keeps_resolved; [|exact Hr].
  intros v Hv. rewrite (body_cvals_other _ _ _ _ _ Hb Hn). exact Hv.
Qed.

Lemma set_depth_keeps : forall h st k, keeps h st (set_depth st k).
Proof. intros h st k v Hv. rewrite F_set_depth, cur_set_depth. exact Hv. Qed.

(* ------------------------------------------------------------------ (c) accum *)

Definition accum_ops (k1 c k2 s : nat) (v0 : val) (f : f2) : list op :=
  [ODef k1 DSLoop; OHold c k1 v0; ODef k2 (DSnapshot s [c] (NF2 f)); OLoopS k1 k2].

Definition AccumWired (st : state) (s c k1 k2 : nat) (f : f2) : Prop :=
  alookup (defs st) k1 = Some DSLoop /\ alookup (loops st) k1 = Some k2 /\
  alookup (defs st) c = Some (DHold k1) /\ alookup (defs st) k2 = Some (DSnapshot s [c] (NF2 f)).

(* the four operations the driver emits for [accum] wire the state as expected, whatever it was *)
Theorem accum_ops_wired : forall st k1 c k2 s v0 f,
    k1 <> c -> k1 <> k2 -> c <> k2 -> alookup (loops st) k1 = None -> alookup (cvals st) c = None ->
    exists st4, run_body st (accum_ops k1 c k2 s v0 f) = EV (st4, []) /\
                AccumWired st4 s c k1 k2 f /\
                (forall n, cur st4 (S n) c = EV v0).
Proof.
  intros st k1 c k2 s v0 f N1 N2 N3 Hl Hc. unfold accum_ops. cbn [run_body body ebind fst snd with_defs defs cvals inits linit fired fresh loops listeners depth tdone sends posts lazies app].
  rewrite Hl. cbn [ebind fst snd app].
  eexists. split; [reflexivity|]. split.
  - unfold AccumWired. cbn [defs loops]. repeat split.
    + rewrite alookup_aset_neq by congruence. rewrite alookup_aset_neq by congruence. apply alookup_aset_eq.
    + apply alookup_aset_eq.
    + rewrite alookup_aset_neq by congruence. apply alookup_aset_eq.
    + apply alookup_aset_eq.
  - intros n. apply hold_fresh_cur with (a := k1).
    + cbn [cvals]. exact Hc.
    + cbn [defs]. rewrite alookup_aset_neq by congruence. apply alookup_aset_eq.
    + cbn [inits]. apply alookup_aset_eq.
Qed.

Lemma occ_EV_S : forall st inj n s r, occ st inj n s = EV r -> exists n', n = S n'.
Proof. intros st inj [|n] s r H; [rewrite occ_0 in H; discriminate H | exists n; reflexivity]. Qed.

Lemma occ_DSLoop : forall st inj n h t, alookup (defs st) h = Some DSLoop -> alookup (loops st) h = Some t ->
    occ st inj (S n) h = occ st inj n t.
Proof. intros st inj n h t Hd Hl. rewrite occ_S, (def_of_Some _ _ _ Hd). cbn [ebind]. rewrite Hl. reflexivity. Qed.

Definition accum_upd (f : f2) (o : option val) (v : val) : option val :=
  match o with Some a => Some (app2 f a v) | None => None end.

Definition accum_next (f : f2) (v : val) (o : option val) : val :=
  match o with Some a => app2 f a v | None => v end.

(* the update of the accumulator, successful-result form: no hypothesis beyond the wiring *)
Lemma accum_upd_EV : forall st inj s c k1 k2 f u,
    AccumWired st s c k1 k2 f -> upd st inj (F st) c = EV u ->
    exists o, occ st inj (F st) s = EV o /\
              match o with
              | Some a => exists v, cur st (F st) c = EV v /\ u = Some (app2 f a v)
              | None => u = None
              end.
Proof.
  intros st inj s c k1 k2 f u [W1 [W2 [W3 W4]]] Hu.
  change (F st) with (S (S (length (defs st)))) in Hu at 1.
  rewrite (upd_DHold _ _ _ _ _ W3) in Hu.
  destruct (length (defs st)) as [|l1] eqn:El.
  { rewrite (occ_DSLoop _ _ _ _ _ W1 W2), occ_0 in Hu. discriminate Hu. }
  rewrite (occ_DSLoop _ _ _ _ _ W1 W2) in Hu.
  rewrite (occ_DSnapshot _ _ _ _ _ _ _ W4) in Hu.
  apply ebind_EV in Hu. destruct Hu as [o [H1 H2]].
  exists o. split; [apply (occ_F_of _ _ _ _ _ H1); rewrite F_eq; lia|].
  destruct o as [a|]; cbn [snapshot_occ] in H2.
  - apply ebind_EV in H2. destruct H2 as [vs [H2 H3]].
    rewrite emap_cons in H2. apply ebind_EV in H2. destruct H2 as [v [Hv H2]].
    simpl in H2. injection H2 as <-. injection H3 as <-. exists v. split; [exact Hv | reflexivity].
  - injection H2 as <-. reflexivity.
Qed.

(* per transaction: one update per input event, carrying f(event, state before) *)
Theorem accum_txn : forall st inj p r s c k1 k2 f,
    AccumWired st s c k1 k2 f -> close_txn st inj p = EV r ->
    exists o, occ st inj (F st) s = EV o /\
              match o with
              | Some a => exists v, cur st (F st) c = EV v /\
                                    upd st inj (F st) c = EV (Some (app2 f a v)) /\
                                    alookup (cvals (r_state r)) c = Some (app2 f a v)
              | None => upd st inj (F st) c = EV None /\
                        alookup (cvals (r_state r)) c = opt_of_ev (cur st (F st) c)
              end.
Proof.
  intros st inj p r s c k1 k2 f W Hc. pose proof W as [W1 [W2 [W3 W4]]].
  destruct (close_cvals_cell _ _ _ _ _ _ Hc W3 eq_refl) as [E [u Hu]].
  destruct (accum_upd_EV _ _ _ _ _ _ _ _ W Hu) as [o [Ho Hm]].
  exists o. split; [exact Ho|]. rewrite E. unfold commit. rewrite Hu.
  destruct o as [a|].
  - destruct Hm as [v [Hv ->]]. exists v. split; [exact Hv|]. split; reflexivity.
  - subst u. split; [reflexivity|]. destruct (cur st (F st) c); reflexivity.
Qed.

Corollary accum_next_cur : forall st inj p r s c k1 k2 f o v,
    AccumWired st s c k1 k2 f -> close_txn st inj p = EV r ->
    occ st inj (F st) s = EV o -> cur st (F st) c = EV v ->
    cur (r_state r) (F (r_state r)) c = EV (accum_next f v o).
Proof.
  intros st inj p r s c k1 k2 f o v W Hc Ho Hv.
  destruct (accum_txn _ _ _ _ _ _ _ _ _ W Hc) as [o' [Ho' Hm]].
  assert (o' = o) by congruence. subst o'. apply cur_resolved_F.
  destruct o as [a|].
  - destruct Hm as [v' [Hv' [_ E]]]. assert (v' = v) by congruence. subst v'. exact E.
  - destruct Hm as [_ E]. rewrite E, Hv. reflexivity.
Qed.

(* after a history in which s fired a1..an (in this order) the accumulator is the left fold *)
Theorem accum_history : forall s c k1 k2 f st tr st' v0,
    Hist (fun st => AccumWired st s c k1 k2 f) c s st tr st' ->
    cur st (F st) c = EV v0 ->
    cur st' (F st') c = EV (fold_left (fun acc a => app2 f a acc) (somes tr) v0).
Proof.
  intros s c k1 k2 f st tr st' v0 HH Hv.
  assert (Hstep : forall st0 inj p r o v, AccumWired st0 s c k1 k2 f ->
            close_txn st0 inj p = EV r -> occ st0 inj (F st0) s = EV o -> cur st0 (F st0) c = EV v ->
            cur (r_state r) (F (r_state r)) c = EV (accum_next f v o)).
  { intros st0 inj p r o v HI Hc Ho Hv0. exact (accum_next_cur _ _ _ _ _ _ _ _ _ _ _ HI Hc Ho Hv0). }
  rewrite (hist_fold _ c s (accum_next f) Hstep st tr st' HH v0 Hv).
  f_equal. unfold accum_next. exact (fold_somes (fun acc a => app2 f a acc) tr v0).
Qed.

(* the wiring survives transactions *)
Lemma accum_wired_close : forall st inj p r s c k1 k2 f,
    AccumWired st s c k1 k2 f -> close_txn st inj p = EV r -> AccumWired (r_state r) s c k1 k2 f.
Proof.
  intros st inj p r s c k1 k2 f W Hc. unfold AccumWired in *.
  rewrite (close_defs _ _ _ _ Hc), (close_loops _ _ _ _ Hc). exact W.
Qed.

(* legal states: the equation at top-level fuel *)
Theorem accum_upd_L : forall st inj rc ro s c k1 k2 f,
    LegalR st inj rc ro -> AccumWired st s c k1 k2 f ->
    upd st inj (F st) c =
    elet o <- occ st inj (F st) s;
    match o with
    | None => EV None
    | Some a => elet v <- cur st (F st) c; EV (Some (app2 f a v))
    end.
Proof.
  intros st inj rc ro s c k1 k2 f HL [W1 [W2 [W3 W4]]].
  rewrite (upd_DHold_L _ _ _ _ HL _ _ W3).
  destruct HL as [Hb1 [Hb [Hc Hok]]].
  assert (E1 : occ st inj (F st) k1 = occ st inj (F st) k2).
  { pose proof (Hok k1) as X. unfold occ_ok in X. rewrite W1, W2 in X.
    rewrite <- (occ_sub_F st inj ro Hb Hok k1 _ k2 W1 X). exact (occ_DSLoop _ _ _ _ _ W1 W2). }
  rewrite E1, (occ_DSnapshot_L _ _ _ _ (conj Hb1 (conj Hb (conj Hc Hok))) _ _ _ _ W4).
  destruct (occ st inj (F st) s) as [[a|]|e]; try reflexivity. cbn [ebind snapshot_occ].
  rewrite emap_cons. destruct (cur st (F st) c) as [v|e]; reflexivity.
Qed.

(* ------------------------------------------------------------------ (d) collect *)

Definition collect_ops (k1 c k2 k0 k3 s : nat) (v0 : val) (fa fb : f2) : list op :=
  [ODef k1 DSLoop; OHold c k1 v0; ODef k2 (DSnapshot s [c] (NPairF2 fa fb));
   ODef k0 (DMap k2 FFst); ODef k3 (DMap k2 FSnd); OLoopS k1 k3].

Definition CollectWired (st : state) (s c k1 k2 k0 k3 : nat) (fa fb : f2) : Prop :=
  alookup (defs st) k1 = Some DSLoop /\ alookup (loops st) k1 = Some k3 /\
  alookup (defs st) c = Some (DHold k1) /\
  alookup (defs st) k2 = Some (DSnapshot s [c] (NPairF2 fa fb)) /\
  alookup (defs st) k0 = Some (DMap k2 FFst) /\ alookup (defs st) k3 = Some (DMap k2 FSnd).

Theorem collect_ops_wired : forall st k1 c k2 k0 k3 s v0 fa fb,
    NoDup [k1; c; k2; k0; k3] -> alookup (loops st) k1 = None -> alookup (cvals st) c = None ->
    exists st6, run_body st (collect_ops k1 c k2 k0 k3 s v0 fa fb) = EV (st6, []) /\
                CollectWired st6 s c k1 k2 k0 k3 fa fb /\
                (forall n, cur st6 (S n) c = EV v0).
Proof.
  intros st k1 c k2 k0 k3 s v0 fa fb ND Hl Hc.
  assert (N : k1 <> c /\ k1 <> k2 /\ k1 <> k0 /\ k1 <> k3 /\ c <> k2 /\ c <> k0 /\ c <> k3 /\
              k2 <> k0 /\ k2 <> k3 /\ k0 <> k3).
  { inversion ND as [|x1 l1 A1 ND1]; subst. inversion ND1 as [|x2 l2 A2 ND2]; subst.
    inversion ND2 as [|x3 l3 A3 ND3]; subst. inversion ND3 as [|x4 l4 A4 ND4]; subst.
    simpl in A1, A2, A3, A4. repeat split; intros ->; tauto. }
  destruct N as (N1 & N2 & N3 & N4 & N5 & N6 & N7 & N8 & N9 & N10).
  unfold collect_ops. cbn [run_body body ebind fst snd with_defs defs cvals inits linit fired fresh loops listeners depth tdone sends posts lazies app].
  rewrite Hl. cbn [ebind fst snd app].
  eexists. split; [reflexivity|]. split.
  - unfold CollectWired. cbn [defs loops]. repeat split;
      repeat (first [apply alookup_aset_eq | rewrite alookup_aset_neq by congruence]).
  - intros n. apply hold_fresh_cur with (a := k1).
    + cbn [cvals]. exact Hc.
    + cbn [defs]. repeat (first [apply alookup_aset_eq | rewrite alookup_aset_neq by congruence]).
    + cbn [inits]. apply alookup_aset_eq.
Qed.

Lemma collect_upd_EV : forall st inj s c k1 k2 k0 k3 fa fb u,
    CollectWired st s c k1 k2 k0 k3 fa fb -> upd st inj (F st) c = EV u ->
    exists o, occ st inj (F st) s = EV o /\
              match o with
              | Some a => exists v, cur st (F st) c = EV v /\ u = Some (app2 fb a v) /\
                                    occ st inj (F st) k0 = EV (Some (app2 fa a v))
              | None => u = None /\ occ st inj (F st) k0 = EV None
              end.
Proof.
  intros st inj s c k1 k2 k0 k3 fa fb u (W1 & W2 & W3 & W4 & W5 & W6) Hu.
  change (F st) with (S (S (length (defs st)))) in Hu at 1.
  rewrite (upd_DHold _ _ _ _ _ W3) in Hu.
  destruct (length (defs st)) as [|l1] eqn:El.
  { rewrite (occ_DSLoop _ _ _ _ _ W1 W2), occ_0 in Hu. discriminate Hu. }
  rewrite (occ_DSLoop _ _ _ _ _ W1 W2) in Hu.
  rewrite (occ_DMap _ _ _ _ _ _ W6) in Hu.
  apply ebind_EV in Hu. destruct Hu as [o2 [H2 Hu]]. injection Hu as <-.
  assert (H0 : occ st inj (F st) k0 = EV (map_occ FFst o2)).
  { apply (occ_F_of st inj (S l1)); [|rewrite F_eq; lia].
    rewrite (occ_DMap _ _ _ _ _ _ W5), H2. reflexivity. }
  destruct (occ_EV_S _ _ _ _ _ H2) as [l3 ->].
  rewrite (occ_DSnapshot _ _ _ _ _ _ _ W4) in H2.
  apply ebind_EV in H2. destruct H2 as [o [H1 H2]].
  exists o. split; [apply (occ_F_of _ _ _ _ _ H1); rewrite F_eq; lia|].
  destruct o as [a|]; cbn [snapshot_occ] in H2.
  - apply ebind_EV in H2. destruct H2 as [vs [H2 H3]].
    rewrite emap_cons in H2. apply ebind_EV in H2. destruct H2 as [v [Hv H2]].
    simpl in H2. injection H2 as <-. injection H3 as <-. exists v.
    split; [exact Hv|]. split; [reflexivity | exact H0].
  - injection H2 as <-. split; [reflexivity | exact H0].
Qed.

(* per transaction: output = fa(event, state before), new state = fb(event, state before) *)
Theorem collect_txn : forall st inj p r s c k1 k2 k0 k3 fa fb,
    CollectWired st s c k1 k2 k0 k3 fa fb -> close_txn st inj p = EV r ->
    exists o, occ st inj (F st) s = EV o /\
              match o with
              | Some a => exists v, cur st (F st) c = EV v /\
                                    occ st inj (F st) k0 = EV (Some (app2 fa a v)) /\
                                    alookup (cvals (r_state r)) c = Some (app2 fb a v)
              | None => occ st inj (F st) k0 = EV None /\
                        alookup (cvals (r_state r)) c = opt_of_ev (cur st (F st) c)
              end.
Proof.
  intros st inj p r s c k1 k2 k0 k3 fa fb W Hc. pose proof W as (W1 & W2 & W3 & W4 & W5 & W6).
  destruct (close_cvals_cell _ _ _ _ _ _ Hc W3 eq_refl) as [E [u Hu]].
  destruct (collect_upd_EV _ _ _ _ _ _ _ _ _ _ _ W Hu) as [o [Ho Hm]].
  exists o. split; [exact Ho|]. rewrite E. unfold commit. rewrite Hu.
  destruct o as [a|].
  - destruct Hm as [v [Hv [-> H0]]]. exists v. split; [exact Hv|]. split; [exact H0 | reflexivity].
  - destruct Hm as [-> H0]. split; [exact H0|]. destruct (cur st (F st) c); reflexivity.
Qed.

Corollary collect_next_cur : forall st inj p r s c k1 k2 k0 k3 fa fb o v,
    CollectWired st s c k1 k2 k0 k3 fa fb -> close_txn st inj p = EV r ->
    occ st inj (F st) s = EV o -> cur st (F st) c = EV v ->
    cur (r_state r) (F (r_state r)) c = EV (accum_next fb v o).
Proof.
  intros st inj p r s c k1 k2 k0 k3 fa fb o v W Hc Ho Hv.
  destruct (collect_txn _ _ _ _ _ _ _ _ _ _ _ _ W Hc) as [o' [Ho' Hm]].
  assert (o' = o) by congruence. subst o'. apply cur_resolved_F.
  destruct o as [a|].
  - destruct Hm as [v' [Hv' [_ E]]]. assert (v' = v) by congruence. subst v'. exact E.
  - destruct Hm as [_ E]. rewrite E, Hv. reflexivity.
Qed.

Theorem collect_history : forall s c k1 k2 k0 k3 fa fb st tr st' v0,
    Hist (fun st => CollectWired st s c k1 k2 k0 k3 fa fb) c s st tr st' ->
    cur st (F st) c = EV v0 ->
    cur st' (F st') c = EV (fold_left (fun acc a => app2 fb a acc) (somes tr) v0).
Proof.
  intros s c k1 k2 k0 k3 fa fb st tr st' v0 HH Hv.
  assert (Hstep : forall st0 inj p r o v, CollectWired st0 s c k1 k2 k0 k3 fa fb ->
            close_txn st0 inj p = EV r -> occ st0 inj (F st0) s = EV o -> cur st0 (F st0) c = EV v ->
            cur (r_state r) (F (r_state r)) c = EV (accum_next fb v o)).
  { intros st0 inj p r o v HI Hc Ho Hv0. exact (collect_next_cur _ _ _ _ _ _ _ _ _ _ _ _ _ _ HI Hc Ho Hv0). }
  rewrite (hist_fold _ c s (accum_next fb) Hstep st tr st' HH v0 Hv).
  f_equal. unfold accum_next. exact (fold_somes (fun acc a => app2 fb a acc) tr v0).
Qed.

(* ------------------------------------------------------------------ a concrete program (for the examples) *)
From Sodium Require Import SpecBLegalB.

Definition ex04_ops : list op :=
  [ODef 0 (DSink None); OHold 20 0 (VInt 7); OBegin] ++ accum_ops 11 10 12 0 (VInt 100) GSub ++ [OEnd] ++
  [OBegin] ++ collect_ops 31 30 32 33 34 0 (VInt 1) GAdd GMul10 ++ [OEnd].

Definition ex04_st : state := match run_ops init_state ex04_ops with Some st => st | None => init_state end.
Definition ex04_rank : nat -> nat :=
  rank_of [(0,0);(20,1);(12,1);(11,2);(10,3);(32,1);(33,2);(34,2);(31,3);(30,4)].

Lemma ex04_legal : forall inj, LegalR ex04_st inj ex04_rank ex04_rank.
Proof. intros inj. apply legalb_sound. vm_compute. reflexivity. Qed.

Lemma ex04_accum_wired : AccumWired ex04_st 0 10 11 12 GSub.
Proof. repeat split. Qed.

Lemma ex04_collect_wired : CollectWired ex04_st 0 30 31 32 33 34 GAdd GMul10.
Proof. repeat split. Qed.

(* three transactions: the sink fires 1, nothing, 5 *)
Definition ex04_after (injs : list (list (nat * val))) : state :=
  fold_left (fun st inj => match close_txn st inj [] with EV r => r_state r | EErr _ => st end) injs ex04_st.

Lemma ex04_hist_accum :
  Hist (fun st => AccumWired st 0 10 11 12 GSub) 10 0 ex04_st [Some (VInt 1); None; Some (VInt 5)]
       (ex04_after [[(0, VInt 1)]; []; [(0, VInt 5)]]).
Proof.
  eapply (Hist_txn _ _ _ ex04_st [(0, VInt 1)] []); [exact ex04_accum_wired | vm_compute; reflexivity | vm_compute; reflexivity|].
  eapply (Hist_txn _ _ _ _ [] []); [repeat split | vm_compute; reflexivity | vm_compute; reflexivity|].
  eapply (Hist_txn _ _ _ _ [(0, VInt 5)] []); [repeat split | vm_compute; reflexivity | vm_compute; reflexivity|].
  apply Hist_nil.
Qed.
