(* C08 exactness proof: one full iteration of collect_cycles, then the loop. *)
From Coq Require Import List Arith Bool Lia.
Import ListNotations.
From Sodium Require Import Gc GcExactBase GcExactWalks GcExactInv GcExactPhases GcExactCollect.

(* what one iteration (mark_roots; scan_roots; collect_roots) achieves *)
Record CY (ex : nat -> nat) (st0 stF : gstate) : Prop := {
  cy_gi : GI ex stF;
  cy_n : nobjs stF = nobjs st0;
  cy_freed : forall v, v < nobjs st0 ->
     (freed (get stF v) = true <-> freed (get st0 v) = true \/ ~ glive ex st0 v);
  cy_dtor : forall v, dtor_runs (get stF v) = dtor_runs (get st0 v) +
     (if freed (get st0 v) then 0 else if freed (get stF v) then 1 else 0);
  cy_edges : forall v, freed (get stF v) = false -> edges (get stF v) = edges (get st0 v);
  cy_ng : forall v, v < nobjs st0 -> freed (get stF v) = false -> ~ glive ex stF v -> False;
  cy_quiet : (forall v, v < nobjs st0 -> freed (get st0 v) = false -> ~ glive ex st0 v -> False) ->
             roots stF = []
}.

Section Final.
  Variable ex : nat -> nat.
  Variables st0 stm st2 st3 : gstate.
  Variable W : list nat.
  Hypothesis G : GI ex st0.
  Hypothesis P : PM st0 stm.
  Hypothesis S2 : PS stm st2.
  Hypothesis C : CL (with_roots st2 []) (roots st2) W st3.
  Let F := gi_fi _ _ G.
  Let n := nobjs st0.
  Let F3 := aw_FIt ex st0 stm st2 st3 W G P S2 C.
  Let N3 := aw_n st0 stm st2 st3 W P S2 C.
  Let stf := free_list st3 W.

  Lemma W_white v : In v W <-> col (get st2 v) = White.
  Proof. apply (aw_W ex st0 stm st2 st3 W G P S2 C). Qed.

  Lemma W_ok i : In i W -> i < nobjs st3 /\ ex i = 0.
  Proof.
    intros Hi. apply W_white in Hi. destruct (ps_white _ _ S2 i Hi) as (Gi & _).
    split; [rewrite N3; eapply gray_range; eauto|].
    destruct (ex i) eqn:Ei; auto. exfalso.
    apply (white_not_live ex st0 stm st2 G P S2 i Hi). exists i. split; [lia|apply reach_refl].
  Qed.

  Let FLS := free_list_spec ex W st3 F3 W_ok.
  Let Ff : FIt ex stf [] := proj1 FLS.
  Let Rf : frel W st3 stf := proj1 (proj2 FLS).

  Lemma f_n : nobjs stf = n.
  Proof. destruct Rf as (X & _). rewrite X. apply N3. Qed.

  Lemma f_freed v : freed (get stf v) = true <-> freed (get st0 v) = true \/ In v W.
  Proof.
    destruct Rf as (_ & H). destruct (H v) as (_ & _ & X & _). rewrite X.
    rewrite (aw_freed st0 stm st2 st3 W P S2 C v). tauto.
  Qed.

  Lemma f_edges v : edges (get stf v) = if freed (get stf v) then [] else edges (get st0 v).
  Proof.
    destruct Rf as (_ & H). destruct (H v) as (_ & _ & _ & X & _). rewrite X.
    rewrite (aw_edges st0 stm st2 st3 W P S2 C v). reflexivity.
  Qed.

  Lemma f_dtor v : dtor_runs (get stf v) = dtor_runs (get st0 v) +
     (if freed (get st0 v) then 0 else if freed (get stf v) then 1 else 0).
  Proof.
    destruct Rf as (_ & H). destruct (H v) as (_ & _ & _ & _ & X). rewrite X.
    rewrite (aw_freed st0 stm st2 st3 W P S2 C v).
    destruct (aw_obj st0 stm st2 st3 W P S2 C v) as ((_ & _ & _ & _ & D) & _). rewrite D. reflexivity.
  Qed.

  Lemma f_edge_in u t : In t (edges (get stf u)) ->
    u < n /\ freed (get stf u) = false /\ In t (edges (get st0 u)).
  Proof.
    intros Hin. pose proof (has_edges_range _ _ _ Hin) as Hu. rewrite f_n in Hu.
    rewrite f_edges in Hin. destruct (freed (get stf u)); [destruct Hin|auto].
  Qed.

  Lemma no_in_white i : In i W -> in_edges stf i = 0.
  Proof.
    intros Hi. destruct (in_edges stf i) eqn:Z; auto. exfalso.
    destruct (cnt_in_pos (fun _ => true) stf i) as (u & _ & _ & Hin); [unfold in_edges in Z; lia|].
    destruct (f_edge_in u i Hin) as (Hu & Fu & Hin0).
    apply W_white in Hi. pose proof (white_pred ex st0 stm st2 G P S2 u i Hin0 Hi) as Wu.
    apply W_white in Wu. assert (freed (get stf u) = true) by (apply f_freed; auto). congruence.
  Qed.

  Lemma no_in_freed v : freed (get stf v) = true -> v < n -> in_edges stf v = 0.
  Proof.
    intros Fv Hv. apply f_freed in Fv as [F0|Hw]; [|apply no_in_white; auto].
    destruct (in_edges stf v) eqn:Z; auto. exfalso.
    destruct (cnt_in_pos (fun _ => true) stf v) as (u & _ & _ & Hin); [unfold in_edges in Z; lia|].
    destruct (f_edge_in u v Hin) as (Hu & Fu & Hin0).
    pose proof (gi_frc _ _ G v Hv F0) as R0. pose proof (fi_rc _ _ _ F v Hv) as X.
    pose proof (cnt_in_ge (fun _ => true) st0 u v Hu eq_refl Hin0). unfold in_edges in X. lia.
  Qed.

  Lemma f_rc_zero v : freed (get stf v) = true -> v < n -> rc (get stf v) = 0.
  Proof.
    intros Fv Hv. assert (Hv' : v < nobjs stf) by (rewrite f_n; auto).
    rewrite (fi_rc _ _ _ Ff v Hv'). rewrite (no_in_freed v Fv Hv).
    destruct (fi_freed _ _ _ Ff v Hv' Fv) as (_ & ->). reflexivity.
  Qed.

  Lemma live_pres a b : reach (E st0) a b -> glive ex st0 a -> reach (E stf) a b.
  Proof.
    induction 1 as [|u t v Hin R IH]; intros L; [apply reach_refl|].
    assert (Lt : glive ex st0 t).
    { destruct L as (h & Hh & Rh). exists h. split; auto. eapply reach_last; eauto. }
    eapply reach_step; [|apply IH; auto]. unfold E in *. rewrite f_edges.
    destruct (freed (get stf u)) eqn:Fu; auto. exfalso.
    apply f_freed in Fu as [F0|Hw].
    - pose proof (has_edges_range _ _ _ Hin) as Hu.
      destruct (fi_freed _ _ _ F u Hu F0) as (Ed & _). rewrite Ed in Hin. destruct Hin.
    - apply W_white in Hw. apply (white_not_live ex st0 stm st2 G P S2 u Hw L).
  Qed.

  Lemma f_ng v : v < n -> freed (get stf v) = false -> ~ glive ex stf v -> False.
  Proof.
    intros Hv Fv NL.
    assert (F0 : freed (get st0 v) = false).
    { destruct (freed (get st0 v)) eqn:Z; auto. assert (freed (get stf v) = true) by (apply f_freed; auto). congruence. }
    assert (NL0 : ~ glive ex st0 v).
    { intros (h & Hh & R). apply NL. exists h. split; auto. apply live_pres; auto.
      exists h. split; [auto|apply reach_refl]. }
    pose proof (nonlive_white ex st0 stm st2 G P S2 v Hv F0 NL0) as Wv. apply W_white in Wv.
    assert (freed (get stf v) = true) by (apply f_freed; auto). congruence.
  Qed.

  Lemma f_GI : GI ex stf.
  Proof.
    constructor; auto.
    - intros v Hv Fv Rv. exfalso. rewrite f_n in Hv. apply (f_ng v Hv Fv).
      pose proof (fi_rc _ _ _ Ff v ltac:(rewrite f_n; auto)) as X. change (cnt [] v) with 0 in X.
      intros (h & Hh & R). destruct (reach_inv _ _ _ R) as [->|(u & _ & Hin)]; [lia|].
      unfold E in Hin. destruct (f_edge_in u v Hin) as (Hu & _ & _).
      pose proof (cnt_in_ge (fun _ => true) stf u v ltac:(rewrite f_n; auto) eq_refl Hin). unfold in_edges in X. lia.
    - intros v Hv Fv. rewrite f_n in Hv. apply f_rc_zero; auto.
    - intros v Hv Fv NL. exfalso. rewrite f_n in Hv. eapply f_ng; eauto.
  Qed.

  Lemma f_quiet :
    (forall v, v < n -> freed (get st0 v) = false -> ~ glive ex st0 v -> False) -> stf = st3.
  Proof.
    intros NG. apply (proj2 (proj2 FLS)). intros i Hi.
    rewrite (aw_freed st0 stm st2 st3 W P S2 C i).
    destruct (freed (get st0 i)) eqn:Z; auto. exfalso.
    pose proof Hi as Hw. apply W_white in Hw. destruct (W_ok i Hi) as (Hr & _). rewrite N3 in Hr.
    apply (NG i Hr Z). apply (white_not_live ex st0 stm st2 G P S2 i Hw).
  Qed.
End Final.

Lemma FIt_with_tbf ex st : FIt ex st [] -> FIt ex (with_tbf st []) [].
Proof.
  intros F. constructor.
  - exact (fi_exr _ _ _ F).
  - exact (fi_eir _ _ _ F).
  - exact (fi_rc _ _ _ F).
  - exact (fi_freed _ _ _ F).
  - exact (fi_adj _ _ _ F).
  - reflexivity.
  - exact (fi_nodup _ _ _ F).
  - exact (fi_roots _ _ _ F).
  - exact (fi_buf _ _ _ F).
  - exact (fi_col _ _ _ F).
  - exact (fi_purple _ _ _ F).
  - exact (fi_todo _ _ _ F).
Qed.

Lemma GI_with_tbf ex st : GI ex st -> GI ex (with_tbf st []).
Proof.
  intros G. constructor.
  - apply FIt_with_tbf. apply G.
  - exact (gi_zero _ _ G).
  - exact (gi_frc _ _ G).
  - exact (gi_cover _ _ G).
Qed.

Definition cycle (st : gstate) : res gstate :=
  do a <- mark_roots st; do b <- scan_roots a; collect_roots b.

Theorem cycle_spec ex st0 : GI ex st0 -> exists stF, cycle st0 = Ok stF /\ CY ex st0 stF.
Proof.
  intros G. pose proof (gi_fi _ _ G) as F.
  destruct (mark_roots_spec ex st0 G) as (stm & Em & P).
  destruct (scan_roots_spec ex st0 stm G P) as (st2 & Es & S2).
  unfold cycle. rewrite Em. cbn [bind]. rewrite Es. cbn [bind].
  rewrite collect_roots_eq. cbv zeta.
  set (s := with_roots st2 []).
  assert (Eis : eir s).
  { intros u t Hu Hin. change (nobjs s) with (nobjs st2) in *. change (get s u) with (get st2 u) in Hin.
    rewrite (ps_n _ _ S2) in *. destruct (ps_obj _ _ S2 u) as ((_ & _ & _ & X & _) & _). rewrite X in Hin.
    eapply (pm_eir ex st0 stm G P); eauto. }
  assert (C0 : CL s [] [] s).
  { constructor.
    - reflexivity.
    - reflexivity.
    - reflexivity.
    - intros v. split; auto. apply scab_refl.
    - intros v. left; auto.
    - constructor.
    - intros v. split; [intros []|intros (A & B); contradiction].
    - intros r [].
    - intros r [].
    - intros v _. reflexivity. }
  destruct (cr_go_spec s Eis (roots st2) [] [] s C0) as (st3 & W & Eq & C).
  { intros r Hr. change (nobjs s) with (nobjs st2). rewrite (ps_n _ _ S2), (pm_n _ _ P).
    rewrite (ps_rts _ _ S2) in Hr. destruct (pm_roots _ _ P r Hr) as (X & _). apply (fi_roots _ _ _ F r X). }
  cbn [app] in C. rewrite Eq. cbn [bind]. cbv beta iota zeta.
  pose proof (f_GI ex st0 stm st2 st3 W G P S2 C) as Gf.
  pose proof (f_n ex st0 stm st2 st3 W G P S2 C) as Nf.
  remember (free_list st3 W) as stf eqn:Hstf.
  assert (T : to_be_freed stf = []) by (apply (fi_tbf _ _ _ (gi_fi _ _ Gf))).
  rewrite T. cbn [free_list].
  rewrite check_zero_ok.
  2:{ intros i Hi. change (get (with_tbf stf []) i) with (get stf i). subst stf.
      apply (f_rc_zero ex st0 stm st2 st3 W G P S2 C i).
      - apply (f_freed ex st0 stm st2 st3 W G P S2 C i). auto.
      - destruct (W_ok ex st0 stm st2 st3 W G P S2 C i Hi) as (X & _).
        rewrite (aw_n st0 stm st2 st3 W P S2 C) in X. exact X. }
  cbn [bind check_zero]. eexists. split; [reflexivity|].
  constructor; try (change (get (with_tbf stf [])) with (get stf)).
  - apply GI_with_tbf. auto.
  - change (nobjs (with_tbf stf [])) with (nobjs stf). auto.
  - intros v Hv. subst stf. rewrite (f_freed ex st0 stm st2 st3 W G P S2 C v).
    rewrite (W_white ex st0 stm st2 st3 W G P S2 C v). split.
    + intros [X|X]; auto. right. apply (white_not_live ex st0 stm st2 G P S2 v X).
    + intros [X|X]; auto. destruct (freed (get st0 v)) eqn:Z; auto.
      right. apply (nonlive_white ex st0 stm st2 G P S2 v Hv Z X).
  - intros v. subst stf. apply (f_dtor ex st0 stm st2 st3 W G P S2 C v).
  - intros v Fv. subst stf. rewrite (f_edges ex st0 stm st2 st3 W G P S2 C v), Fv. reflexivity.
  - intros v Hv Fv NL. subst stf. apply (f_ng ex st0 stm st2 st3 W G P S2 C v Hv Fv).
    intros L. apply NL. destruct L as (h & Hh & R). exists h. split; auto.
  - intros NG. change (roots (with_tbf stf [])) with (roots stf). subst stf.
    rewrite (f_quiet ex st0 stm st2 st3 W G P S2 C NG). rewrite (c_roots _ _ _ _ C). reflexivity.
Qed.
