(* C08: the collector frees exactly the unreachable objects. Headline theorems. *)
From Coq Require Import List Arith Bool Lia.
Import ListNotations.
From Sodium Require Import Gc GcExactBase GcExactWalks GcExactInv GcExactMut GcExactPhases GcExactCollect GcExactCycle.

Lemma collect_cycles_S f st : collect_cycles (S f) st =
  do st' <- cycle st;
  match roots st', to_be_freed st' with
  | [], [] => Ok st'
  | _, _ => collect_cycles f st'
  end.
Proof.
  unfold cycle. cbn [collect_cycles]. destruct (mark_roots st) as [a| |]; cbn [bind]; auto.
  destruct (scan_roots a) as [b| |]; cbn [bind]; auto.
Qed.

Theorem collect_cycles_spec ex st0 fuel :
  GI ex st0 -> 2 <= fuel ->
  exists stF, collect_cycles fuel st0 = Ok stF /\ GI ex stF /\
    roots stF = [] /\ to_be_freed stF = [] /\ nobjs stF = nobjs st0 /\
    (forall v, v < nobjs st0 -> (freed (get stF v) = true <-> freed (get st0 v) = true \/ ~ glive ex st0 v)) /\
    (forall v, dtor_runs (get stF v) = dtor_runs (get st0 v) +
        (if freed (get st0 v) then 0 else if freed (get stF v) then 1 else 0)) /\
    (forall v, freed (get stF v) = false -> edges (get stF v) = edges (get st0 v)).
Proof.
  intros G Hf. destruct fuel as [|[|f]]; try lia.
  destruct (cycle_spec ex st0 G) as (st1 & E1 & C1).
  rewrite collect_cycles_S, E1. cbn [bind].
  pose proof (fi_tbf _ _ _ (gi_fi _ _ (cy_gi _ _ _ C1))) as T1. rewrite T1.
  destruct (roots st1) as [|r rs] eqn:R1.
  { exists st1. split; auto. split; [apply C1|]. split; auto. split; auto. split; [apply C1|].
    split; [apply C1|]. split; apply C1. }
  pose proof (cy_gi _ _ _ C1) as G1.
  destruct (cycle_spec ex st1 G1) as (st2 & E2 & C2).
  rewrite collect_cycles_S, E2. cbn [bind].
  pose proof (fi_tbf _ _ _ (gi_fi _ _ (cy_gi _ _ _ C2))) as T2. rewrite T2.
  assert (R2 : roots st2 = []).
  { apply (cy_quiet _ _ _ C2). intros v Hv. rewrite (cy_n _ _ _ C1) in Hv. apply (cy_ng _ _ _ C1 v Hv). }
  rewrite R2. exists st2. split; auto. split; [apply C2|]. split; auto. split; auto.
  split; [rewrite (cy_n _ _ _ C2); apply C1|].
  assert (NoNew : forall v, v < nobjs st0 -> freed (get st2 v) = true -> freed (get st1 v) = true).
  { intros v Hv F2. destruct (freed (get st1 v)) eqn:F1; auto. exfalso.
    apply (cy_freed _ _ _ C2 v) in F2; [|rewrite (cy_n _ _ _ C1); auto].
    destruct F2 as [X|X]; [congruence|]. apply (cy_ng _ _ _ C1 v Hv F1 X). }
  assert (Keep : forall v, v < nobjs st0 -> freed (get st1 v) = true -> freed (get st2 v) = true).
  { intros v Hv F1. apply (cy_freed _ _ _ C2 v); [rewrite (cy_n _ _ _ C1); auto|auto]. }
  split; [|split].
  - intros v Hv. rewrite <- (cy_freed _ _ _ C1 v Hv). split; auto.
  - intros v. rewrite (cy_dtor _ _ _ C2 v), (cy_dtor _ _ _ C1 v).
    destruct (Nat.lt_ge_cases v (nobjs st0)) as [Hv|Hv].
    + pose proof (NoNew v Hv) as A. pose proof (Keep v Hv) as B.
      destruct (freed (get st0 v)), (freed (get st1 v)), (freed (get st2 v)); try lia;
        try (specialize (A eq_refl); discriminate); try (specialize (B eq_refl); discriminate).
    + assert (D0 : get st0 v = dummy) by (apply get_oor; auto).
      assert (D1 : get st1 v = dummy) by (apply get_oor; rewrite (cy_n _ _ _ C1); auto).
      assert (D2 : get st2 v = dummy) by (apply get_oor; rewrite (cy_n _ _ _ C2), (cy_n _ _ _ C1); auto).
      rewrite D0, D1, D2. reflexivity.
  - intros v F2. destruct (Nat.lt_ge_cases v (nobjs st0)) as [Hv|Hv].
    + assert (F1 : freed (get st1 v) = false).
      { destruct (freed (get st1 v)) eqn:Z; auto. rewrite (Keep v Hv Z) in F2. discriminate. }
      rewrite (cy_edges _ _ _ C2 v F2). apply (cy_edges _ _ _ C1 v F1).
    + rewrite get_oor in F2; [discriminate|]. rewrite (cy_n _ _ _ C2), (cy_n _ _ _ C1). auto.
Qed.

(* ---------- headline theorems ---------- *)
Theorem sstep_WF s op : WF s -> svalid s op = true -> exists s', sstep s op = Ok s' /\ WF s'.
Proof.
  intros W V. destruct op; try (destruct (sstep_mut s _ W V ltac:(discriminate)) as (s' & E & W' & _); eauto; fail).
  destruct W as (L & G).
  destruct (collect_cycles_spec _ _ (cfuel (g s)) G) as (stF & E & G' & _ & _ & N & _).
  { unfold cfuel. lia. }
  unfold sstep. cbn [svalid negb gstep]. rewrite E. cbn [bind]. eexists. split; [reflexivity|].
  split; cbn [g ext]; [congruence|auto].
Qed.

Theorem collect_exact s s' :
  WF s -> sstep s GCollect = Ok s' ->
  roots (g s') = [] /\ to_be_freed (g s') = [] /\ ext s' = ext s /\ nobjs (g s') = nobjs (g s) /\
  forall o, o < nobjs (g s) ->
    (freed (get (g s') o) = true <-> (freed (get (g s) o) = true \/ ~ live s o)) /\
    dtor_runs (get (g s') o) = dtor_runs (get (g s) o) +
      (if freed (get (g s) o) then 0 else if freed (get (g s') o) then 1 else 0) /\
    (freed (get (g s') o) = false -> edges (get (g s') o) = edges (get (g s) o)).
Proof.
  intros (L & G) E.
  destruct (collect_cycles_spec _ _ (cfuel (g s)) G) as (stF & E' & G' & R & T & N & Fr & Dt & Ed).
  { unfold cfuel. lia. }
  unfold sstep in E. cbn [svalid negb gstep] in E. rewrite E' in E. cbn [bind] in E. injection E as <-.
  cbn [g ext]. repeat split; auto.
  - intros X. apply (Fr o H) in X as [X|X]; auto. right. intros Lv. apply X. apply live_glive. auto.
  - intros [X|X]; apply (Fr o H); auto. right. intros Lv. apply X. apply live_glive. auto.
Qed.

(* a run all of whose operations respect the contract *)
Fixpoint svalid_run (s : sstate) (ops : list gop) : bool :=
  match ops with
  | [] => true
  | op :: t => svalid s op && match sstep s op with Ok s1 => svalid_run s1 t | _ => false end
  end.

Theorem reachable_states ops : forall s0 s,
  WF s0 -> srun s0 ops = Ok s -> svalid_run s0 ops = true -> WF s.
Proof.
  induction ops as [|op t IH]; intros s0 s W E V; cbn [srun svalid_run] in *.
  - injection E as <-. auto.
  - apply andb_true_iff in V as (V1 & V2).
    destruct (sstep_WF s0 op W V1) as (s1 & E1 & W1). rewrite E1 in *. cbn [bind] in E. eauto.
Qed.

Corollary reachable_WF ops s : srun sinit ops = Ok s -> svalid_run sinit ops = true -> WF s.
Proof. apply reachable_states. apply WF_init. Qed.

Corollary never_stuck ops : svalid_run sinit ops = true -> exists s, srun sinit ops = Ok s /\ WF s.
Proof.
  assert (H : forall s0, WF s0 -> svalid_run s0 ops = true -> exists s, srun s0 ops = Ok s /\ WF s);
    [|apply H; apply WF_init].
  induction ops as [|op t IH]; intros s0 W V; cbn [srun svalid_run] in *; [eauto|].
  apply andb_true_iff in V as (V1 & V2).
  destruct (sstep_WF s0 op W V1) as (s1 & E1 & W1). rewrite E1 in *. cbn [bind]. eauto.
Qed.

(* ---------- destructors run at most once, and exactly once for freed objects ---------- *)
Lemma dtor_set st n o' v :
  dtor_runs o' = dtor_runs (get st n) -> dtor_runs (get (set st n o') v) = dtor_runs (get st v).
Proof.
  intros H. destruct (Nat.eq_dec n v) as [->|Ne]; [|rewrite get_set_other; auto].
  destruct (Nat.lt_ge_cases v (nobjs st)); [rewrite get_set_same; auto|rewrite get_set_oor; auto].
Qed.

Lemma nobjs_dec_ref st t : nobjs (dec_ref st t) = nobjs st.
Proof.
  unfold dec_ref. destruct (Nat.eqb (rc (get st t)) 0); auto. unfold possible_root.
  destruct (color_eqb _ _); [apply nobjs_set|]. destruct (buffered _);
    rewrite ?nobjs_with_roots, !nobjs_set; auto.
Qed.

Lemma dtor_dec_ref st t v : dtor_runs (get (dec_ref st t) v) = dtor_runs (get st v).
Proof.
  unfold dec_ref. destruct (Nat.eqb (rc (get st t)) 0); auto.
  set (st1 := set st t (set_rc (get st t) (pred (rc (get st t))))).
  assert (D1 : forall w, dtor_runs (get st1 w) = dtor_runs (get st w)) by (intros; apply dtor_set; reflexivity).
  unfold possible_root. destruct (color_eqb _ _); auto.
  destruct (buffered _); rewrite ?get_with_roots; rewrite dtor_set; auto.
Qed.

Lemma gstep_dtor st op st' :
  op <> GCollect -> gstep st op = Ok st' ->
  (forall v, v < nobjs st -> dtor_runs (get st' v) = dtor_runs (get st v)) /\
  (nobjs st' = nobjs st \/ (nobjs st' = S (nobjs st) /\ get st' (nobjs st) = new_obj)).
Proof.
  intros Hop E. destruct op as [|o|o|a b|a i|o|]; cbn [gstep] in E; try congruence.
  - injection E as <-. unfold gc_new. cbn [fst]. split.
    + intros v Hv. unfold get. cbn [objs]. rewrite app_nth1; auto.
    + right. split; [unfold nobjs; cbn [objs]; rewrite app_length; cbn; lia|].
      unfold get. cbn [objs]. rewrite app_nth2; [|unfold nobjs; lia]. unfold nobjs. rewrite Nat.sub_diag. reflexivity.
  - unfold inc_ref in E. destruct (freed (get st o)); [discriminate|]. injection E as <-.
    split; [intros; apply dtor_set; reflexivity|left; apply nobjs_set].
  - injection E as <-. split; [intros; apply dtor_dec_ref|left; apply nobjs_dec_ref].
  - unfold inc_ref in E. destruct (freed (get st b)); [discriminate|]. cbn [bind] in E. injection E as <-.
    split; [|left; rewrite !nobjs_set; auto].
    intros v Hv. rewrite dtor_set; [apply dtor_set|]; reflexivity.
  - destruct (nth_error _ _); injection E as <-; [|auto].
    split; [|left; rewrite nobjs_dec_ref, nobjs_set; auto].
    intros v Hv. rewrite dtor_dec_ref. apply dtor_set. reflexivity.
  - unfold inc_ref_if_alive in E. destruct (_ && _); injection E as <-; [|auto].
    split; [|left; rewrite nobjs_dec_ref, nobjs_set; auto].
    intros v Hv. rewrite dtor_dec_ref. apply dtor_set. reflexivity.
Qed.

Definition DT (s : sstate) : Prop :=
  forall o, o < nobjs (g s) -> dtor_runs (get (g s) o) = if freed (get (g s) o) then 1 else 0.

Lemma sstep_DT s op s' : WF s -> DT s -> svalid s op = true -> sstep s op = Ok s' -> DT s'.
Proof.
  intros W D V E.
  assert (Dec : op = GCollect \/ op <> GCollect) by (destruct op; auto; right; discriminate).
  destruct Dec as [->|Hop].
  - destruct (collect_exact s s' W E) as (_ & _ & _ & N & H). intros o Ho. rewrite N in Ho.
    destruct (H o Ho) as (Fr & Dt & _). rewrite Dt, (D o Ho).
    destruct (freed (get (g s) o)) eqn:F0.
    + assert (X : freed (get (g s') o) = true) by (apply Fr; auto). rewrite X. reflexivity.
    + destruct (freed (get (g s') o)); reflexivity.
  - pose proof (mutator_never_frees s op s' W V Hop E) as Fr.
    unfold sstep in E. rewrite V in E. cbn [negb] in E.
    destruct (gstep (g s) op) as [g1| |] eqn:Eg; cbn [bind] in E; try discriminate.
    injection E as <-. cbn [g] in *.
    destruct (gstep_dtor _ _ _ Hop Eg) as (Dt & Nn). intros o Ho. cbn [g] in Ho |- *.
    destruct (Nat.lt_ge_cases o (nobjs (g s))) as [Lt|Ge].
    + rewrite (Dt o Lt), (Fr o Lt). apply D; auto.
    + destruct Nn as [Nn|(Nn & Gn)]; [lia|]. assert (o = nobjs (g s)) by lia. subst o.
      rewrite Gn. reflexivity.
Qed.

Theorem dtor_exact ops : forall s,
  srun sinit ops = Ok s -> svalid_run sinit ops = true ->
  forall o, o < nobjs (g s) ->
    dtor_runs (get (g s) o) <= 1 /\ (dtor_runs (get (g s) o) = 1 <-> freed (get (g s) o) = true).
Proof.
  assert (H : forall s0 s, WF s0 -> DT s0 -> srun s0 ops = Ok s -> svalid_run s0 ops = true -> DT s).
  { induction ops as [|op t IH]; intros s0 s W D E V; cbn [srun svalid_run] in *.
    - injection E as <-. auto.
    - apply andb_true_iff in V as (V1 & V2).
      destruct (sstep_WF s0 op W V1) as (s1 & E1 & W1). rewrite E1 in *. cbn [bind] in E.
      apply (IH s1 s W1 (sstep_DT s0 op s1 W D V1 E1) E V2). }
  intros s E V o Ho.
  assert (D : DT s).
  { eapply (H sinit); eauto; [apply WF_init|]. intros x Hx. cbn in Hx. lia. }
  rewrite (D o Ho). destruct (freed (get (g s) o)); split; try lia; split; intros; try lia; try discriminate; auto.
Qed.

Corollary dtor_at_most_once ops s :
  srun sinit ops = Ok s -> svalid_run sinit ops = true ->
  forall o, dtor_runs (get (g s) o) <= 1.
Proof.
  intros E V o. destruct (Nat.lt_ge_cases o (nobjs (g s))) as [Lt|Ge].
  - apply (dtor_exact ops s E V o Lt).
  - rewrite get_oor; auto.
Qed.

(* the contents of WF in plain form *)
Theorem WF_facts s : WF s ->
  length (ext s) = nobjs (g s) /\
  to_be_freed (g s) = [] /\ NoDup (roots (g s)) /\
  (forall r, In r (roots (g s)) -> r < nobjs (g s)) /\
  (forall o, o < nobjs (g s) ->
     let ob := get (g s) o in
     (forall t, In t (edges ob) -> t < nobjs (g s)) /\
     rc ob = ext_of s o + in_edges (g s) o /\
     (freed ob = true -> rc ob = 0 /\ edges ob = [] /\ ext_of s o = 0) /\
     adj ob = 0 /\ visited ob = false /\
     (col ob = Black \/ col ob = Purple) /\
     (freed ob = false -> (In o (roots (g s)) <-> buffered ob = true)) /\
     (freed ob = false -> ~ live s o ->
        ~ ~ exists r, In r (roots (g s)) /\ col (get (g s) r) = Purple /\ reach (E (g s)) r o)).
Proof.
  intros (L & G). pose proof (gi_fi _ _ G) as F.
  split; auto. split; [apply F|]. split; [apply F|]. split; [intros r Hr; apply (fi_roots _ _ _ F r Hr)|].
  intros o Ho ob. subst ob.
  split; [intros t Ht; apply (fi_eir _ _ _ F o t Ho Ht)|].
  split; [rewrite (fi_rc _ _ _ F o Ho); change (cnt [] o) with 0; lia|].
  split; [intros Fo; split; [apply (gi_frc _ _ G o Ho Fo)|apply (fi_freed _ _ _ F o Ho Fo)]|].
  split; [apply (fi_adj _ _ _ F)|]. split; [apply (fi_adj _ _ _ F)|]. split; [apply (fi_col _ _ _ F)|].
  split.
  - intros Fo. split; [intros Hr; apply (fi_roots _ _ _ F o Hr)|apply (fi_buf _ _ _ F o Ho Fo)].
  - intros Fo NL NE. apply (gi_cover _ _ G o Ho Fo).
    + intros Lg. apply NL. apply live_glive. auto.
    + intros r Hr Pr Rr. apply NE. eauto.
Qed.

(* the unrestricted form of "nothing is freed outside a collection" *)
Corollary mutator_never_frees_all s op s' :
  WF s -> svalid s op = true -> op <> GCollect -> sstep s op = Ok s' ->
  forall o, freed (get (g s') o) = true -> freed (get (g s) o) = true.
Proof.
  intros W V N E o Fo. destruct (Nat.lt_ge_cases o (nobjs (g s))) as [Lt|Ge].
  - rewrite <- (mutator_never_frees s op s' W V N E o Lt). auto.
  - rewrite get_oor; auto.
Qed.

(* ---------- non-vacuity ---------- *)
Definition example_script : list gop :=
  [GCreate; GCreate; GCreate; GCreate;
   GAddEdge 0 1; GAddEdge 1 0; GAddEdge 1 1; GAddEdge 0 1;   (* cycle 0<->1, self-loop on 1, double edge 0->1 *)
   GAddEdge 2 3; GAddEdge 3 2; GAddEdge 3 3; GAddEdge 2 3;   (* a second component of the same shape *)
   GAddEdge 1 2;                                             (* the first component points into the second *)
   GClone 0; GUpgrade 3;
   GDrop 0; GDrop 0; GDrop 1; GDrop 3;                       (* only the handle on 2 is kept *)
   GCollect].

Example example_valid : svalid_run sinit example_script = true.
Proof. vm_compute. reflexivity. Qed.

(* the collector frees exactly {0,1}: each destructor ran once, 2 and 3 keep their edges,
   the counts of the survivors are handles + incoming edges, and the root buffer is empty *)
Example example_exact :
  match srun sinit example_script with
  | Ok s => map freed (objs (g s)) = [true; true; false; false] /\
            map dtor_runs (objs (g s)) = [1; 1; 0; 0] /\
            map edges (objs (g s)) = [[]; []; [3; 3]; [2; 3]] /\
            map rc (objs (g s)) = [0; 0; 2; 3] /\
            roots (g s) = [] /\ to_be_freed (g s) = [] /\ ext s = [0; 0; 1; 0]
  | _ => False
  end.
Proof. vm_compute. repeat split; reflexivity. Qed.

(* before the final collection nothing was freed although 0 and 1 were already unreachable *)
Example example_before :
  match srun sinit (removelast example_script) with
  | Ok s => map freed (objs (g s)) = [false; false; false; false] /\
            ext s = [0; 0; 1; 0] /\ live s 2 /\ live s 3 /\ ~ live s 0 /\ ~ live s 1
  | _ => False
  end.
Proof.
  destruct (srun sinit (removelast example_script)) as [s| |] eqn:E; try (vm_compute in E; discriminate).
  assert (V : svalid_run sinit (removelast example_script) = true) by (vm_compute; reflexivity).
  pose proof (reachable_WF _ _ E V) as W.
  assert (Es : s = match srun sinit (removelast example_script) with Ok s => s | _ => sinit end) by (rewrite E; auto).
  vm_compute in Es.
  destruct (sstep_WF s GCollect W eq_refl) as (s' & E' & _).
  pose proof (collect_exact s s' W E') as (_ & _ & _ & _ & H).
  assert (Es' : s' = match sstep s GCollect with Ok s => s | _ => sinit end) by (rewrite E'; auto).
  rewrite Es in Es'. vm_compute in Es'.
  assert (L2 : live s 2) by (apply live_ext; subst s; vm_compute; lia).
  assert (L3 : live s 3) by (apply (live_edge s 2 3 L2); subst s; vm_compute; auto).
  split; [subst s; reflexivity|]. split; [subst s; reflexivity|]. split; auto. split; auto.
  assert (N : nobjs (g s) = 4) by (subst s; reflexivity).
  split.
  - destruct (H 0 ltac:(lia)) as (Fr & _). assert (X : freed (get (g s') 0) = true) by (subst s'; reflexivity).
    apply Fr in X as [X|X]; auto. subst s. vm_compute in X. discriminate.
  - destruct (H 1 ltac:(lia)) as (Fr & _). assert (X : freed (get (g s') 1) = true) by (subst s'; reflexivity).
    apply Fr in X as [X|X]; auto. subst s. vm_compute in X. discriminate.
Qed.

Print Assumptions WF_init.
Print Assumptions sstep_WF.
Print Assumptions collect_exact.
Print Assumptions mutator_never_frees.
Print Assumptions reachable_states.
Print Assumptions never_stuck.
Print Assumptions WF_facts.
Print Assumptions mutator_never_frees_all.
Print Assumptions dtor_exact.
Print Assumptions dtor_at_most_once.
Print Assumptions example_exact.
Print Assumptions example_before.
