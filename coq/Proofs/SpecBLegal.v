(* Legal states: the instantaneous dependency graph is acyclic, witnessed by rank functions that
   decrease along every instantaneous dependency. For legal states the result of cur / occ / upd
   (errors included) does not depend on the fuel once it exceeds the rank; in particular the
   top-level fuel [F st] is enough, and the one-step equations hold at [F st] on both sides. *)
From Coq Require Import List ZArith Bool Arith Lia.
Import ListNotations.
From Sodium Require Import Sodium SpecBBase SpecBMono.
Local Open Scope nat_scope.

(* instantaneous dependencies of [cur] on an unresolved cell [h] *)
Definition cur_ok (st : state) (rc : nat -> nat) (h : nat) : Prop :=
  match alookup (cvals st) h with
  | Some _ => True
  | None =>
    match alookup (defs st) h with
    | Some (DHold _) =>
      match alookup (inits st) h with
      | Some _ => True
      | None => match alookup (linit st) h with
                | Some z => match alookup (lazies st) z with
                            | Some (LzCell c', _) => rc c' < rc h
                            | _ => True
                            end
                | None => True
                end
      end
    | Some (DMapC c' _) => rc c' < rc h
    | Some (DLift cs _) => forall c', In c' cs -> rc c' < rc h
    | Some (DSwitchC c') => rc c' < rc h /\ forall n, cur st (F st) c' = EV (VRef n) -> rc n < rc h
    | Some DCLoop => match alookup (loops st) h with Some t => rc t < rc h | None => True end
    | _ => True
    end
  end.

(* instantaneous dependencies of [occ] / [upd] on key [h] *)
Definition occ_ok (st : state) (inj : list (nat * val)) (ro : nat -> nat) (h : nat) : Prop :=
  match alookup (defs st) h with
  | Some (DMap a _) | Some (DFilter a _) | Some (DSnapshot a _ _) | Some (DGate a _)
  | Some (DRouter a _) | Some (DHold a) => ro a < ro h
  | Some (DOnce a) => amem (fired st) h = false -> ro a < ro h
  | Some (DMerge a b _) => ro a < ro h /\ ro b < ro h
  | Some (DUpdates c) | Some (DValue c) | Some (DMapC c _) => ro c < ro h
  | Some (DSwitchS c) => forall n, cur st (F st) c = EV (VRef n) -> ro n < ro h
  | Some DSLoop | Some DCLoop => match alookup (loops st) h with Some t => ro t < ro h | None => True end
  | Some (DRoute r _) => match alookup (defs st) r with Some (DRouter a _) => ro a < ro h | _ => True end
  | Some (DLift cs _) => forall c, In c cs -> ro c < ro h
  | Some (DSwitchC c') =>
    ro c' < ro h /\
    (forall n, upd st inj (F st) c' = EV (Some (VRef n)) -> ro n < ro h) /\
    (forall n, cur st (F st) c' = EV (VRef n) -> ro n < ro h)
  | _ => True
  end.

Definition LegalR (st : state) (inj : list (nat * val)) (rc ro : nat -> nat) : Prop :=
  (forall h d, alookup (defs st) h = Some d -> rc h < F st) /\
  (forall h d, alookup (defs st) h = Some d -> ro h < F st) /\
  (forall h, cur_ok st rc h) /\
  (forall h, occ_ok st inj ro h).

Definition Legal (st : state) (inj : list (nat * val)) : Prop := exists rc ro, LegalR st inj rc ro.

(* ------------------------------------------------------------------ cur *)

Section CurIndep.
  Variable st : state.
  Variable rc : nat -> nat.
  Hypothesis Hb : forall h d, alookup (defs st) h = Some d -> rc h < F st.
  Hypothesis Hok : forall h, cur_ok st rc h.

  Lemma cur_indep_aux : forall n,
      (forall m c, rc c < n -> rc c < m -> cur st n c = cur st m c).
  Proof.
    induction n as [|n IH]; intros m c Hn Hm; [lia|].
    destruct m as [|m]; [lia|].
    rewrite !cur_S. pose proof (Hok c) as Hc. unfold cur_ok in Hc.
    destruct (alookup (cvals st) c) as [v0|]; [reflexivity|].
    unfold def_of. destruct (alookup (defs st) c) as [d|] eqn:Ed; [|reflexivity].
    pose proof (Hb c d Ed) as HbF.
    cbn [ebind]. destruct d; try reflexivity.
    - destruct (alookup (inits st) c); [reflexivity|].
      destruct (alookup (linit st) c) as [z|]; [|reflexivity].
      destruct (alookup (lazies st) z) as [[[v1|c'] z']|]; try reflexivity.
      apply IH; lia.
    - rewrite (IH m c0) by lia. reflexivity.
    - rewrite (emap_ext (cur st n) (cur st m) cs); [reflexivity|].
      intros x Hin. specialize (Hc x Hin). apply IH; lia.
    - destruct Hc as [Hc1 Hc2].
      assert (E1 : cur st n c0 = cur st m c0) by (apply IH; lia).
      assert (E2 : cur st n c0 = cur st (F st) c0).
      { destruct (F st) as [|k] eqn:EF; [lia|]. rewrite <- EF.
        rewrite EF. apply IH; lia. }
      rewrite <- E1. destruct (cur st n c0) as [v|e] eqn:E; [|reflexivity]. cbn [ebind].
      destruct v; try reflexivity.
      specialize (Hc2 h (eq_sym E2)). apply IH; lia.
    - destruct (alookup (loops st) c) as [t|]; [|reflexivity]. apply IH; lia.
  Qed.

  Lemma cur_indep : forall n m c, rc c < n -> rc c < m -> cur st n c = cur st m c.
  Proof. intros n. exact (cur_indep_aux n). Qed.

  (* below the rank bound an undefined key behaves the same at every positive fuel *)
  Lemma cur_undefined : forall n m c, alookup (defs st) c = None -> cur st (S n) c = cur st (S m) c.
  Proof.
    intros n m c Hd. rewrite !cur_S. destruct (alookup (cvals st) c); [reflexivity|].
    unfold def_of. rewrite Hd. reflexivity.
  Qed.

  Lemma cur_indep_F : forall n c, rc c < n -> cur st n c = cur st (F st) c.
  Proof.
    intros n c Hn. destruct (alookup (defs st) c) as [d|] eqn:Ed.
    - apply cur_indep; [exact Hn | exact (Hb c d Ed)].
    - destruct n as [|n]; [lia|]. rewrite F_eq. apply cur_undefined. exact Ed.
  Qed.
End CurIndep.

(* ------------------------------------------------------------------ occ / upd *)

Section OccIndep.
  Variable st : state.
  Variable inj : list (nat * val).
  Variable ro : nat -> nat.
  Hypothesis Hb : forall h d, alookup (defs st) h = Some d -> ro h < F st.
  Hypothesis Hok : forall h, occ_ok st inj ro h.

  Lemma occ_upd_indep_aux : forall n,
      (forall m s, ro s < n -> ro s < m -> occ st inj n s = occ st inj m s) /\
      (forall m c, ro c < n -> ro c < m -> upd st inj n c = upd st inj m c).
  Proof.
    induction n as [|n [IHo IHu]]; [split; intros; lia|].
    split; intros m s Hn Hm; (destruct m as [|m]; [lia|]).
    - rewrite !occ_S. pose proof (Hok s) as Hc. unfold occ_ok in Hc.
      unfold def_of at 1 3. destruct (alookup (defs st) s) as [d|] eqn:Ed; [|reflexivity].
      cbn [ebind]. destruct d; try reflexivity.
      + rewrite (IHo m s0) by lia. reflexivity.
      + rewrite (IHo m s0) by lia. reflexivity.
      + destruct Hc as [Hc1 Hc2]. rewrite (IHo m a), (IHo m b) by lia. reflexivity.
      + rewrite (IHo m s0) by lia. reflexivity.
      + rewrite (IHo m s0) by lia. reflexivity.
      + destruct (amem (fired st) s); [reflexivity|]. specialize (Hc eq_refl). apply IHo; lia.
      + apply IHu; lia.
      + rewrite (IHu m c) by lia. reflexivity.
      + destruct (cur st (F st) c) as [v|e] eqn:E; [|reflexivity]. cbn [ebind].
        destruct v; try reflexivity. specialize (Hc h eq_refl). apply IHo; lia.
      + destruct (alookup (loops st) s) as [t|]; [|reflexivity]. apply IHo; lia.
      + apply IHo; lia.
      + unfold def_of. destruct (alookup (defs st) r) as [dr|]; [|reflexivity]. cbn [ebind].
        destruct dr; try reflexivity. rewrite (IHo m s0) by lia. reflexivity.
    - rewrite !upd_S. pose proof (Hok s) as Hc. unfold occ_ok in Hc.
      unfold def_of. destruct (alookup (defs st) s) as [d|] eqn:Ed; [|reflexivity].
      pose proof (Hb s d Ed) as HbF.
      cbn [ebind]. destruct d; try reflexivity.
      + apply IHo; lia.
      + rewrite (IHu m c) by lia. reflexivity.
      + assert (E1 : emap (upd st inj n) cs = emap (upd st inj m) cs).
        { apply emap_ext. intros x Hin. specialize (Hc x Hin). apply IHu; lia. }
        rewrite E1. destruct (emap (upd st inj m) cs) as [us|e]; [|reflexivity]. cbn [ebind].
        destruct (existsb _ us); [|reflexivity].
        assert (E2 : emap (fun c' => elet o <- upd st inj n c';
                                     match o with Some v => EV v | None => cur st (F st) c' end) cs =
                     emap (fun c' => elet o <- upd st inj m c';
                                     match o with Some v => EV v | None => cur st (F st) c' end) cs).
        { apply emap_ext. intros x Hin. specialize (Hc x Hin). rewrite (IHu m x) by lia. reflexivity. }
        rewrite E2. reflexivity.
      + destruct Hc as [Hc1 [Hc2 Hc3]].
        assert (E1 : upd st inj n c = upd st inj m c) by (apply IHu; lia).
        assert (E2 : upd st inj n c = upd st inj (F st) c).
        { rewrite F_eq. rewrite F_eq in HbF. apply IHu; lia. }
        rewrite <- E1. destruct (upd st inj n c) as [o|e] eqn:E; [|reflexivity]. cbn [ebind].
        destruct o as [v|].
        * destruct v; try reflexivity. specialize (Hc2 h (eq_sym E2)).
          rewrite (IHu m h) by lia. reflexivity.
        * destruct (cur st (F st) c) as [v|e] eqn:Ec; [|reflexivity]. cbn [ebind].
          destruct v; try reflexivity. specialize (Hc3 h eq_refl). apply IHu; lia.
      + destruct (alookup (loops st) s) as [t|]; [|reflexivity]. apply IHu; lia.
  Qed.

  Lemma occ_indep : forall n m s, ro s < n -> ro s < m -> occ st inj n s = occ st inj m s.
  Proof. intros n. exact (proj1 (occ_upd_indep_aux n)). Qed.

  Lemma upd_indep : forall n m c, ro c < n -> ro c < m -> upd st inj n c = upd st inj m c.
  Proof. intros n. exact (proj2 (occ_upd_indep_aux n)). Qed.

  Lemma occ_undefined : forall n m s, alookup (defs st) s = None -> occ st inj (S n) s = occ st inj (S m) s.
  Proof. intros n m s Hd. rewrite !occ_S. unfold def_of. rewrite Hd. reflexivity. Qed.

  Lemma upd_undefined : forall n m s, alookup (defs st) s = None -> upd st inj (S n) s = upd st inj (S m) s.
  Proof. intros n m s Hd. rewrite !upd_S. unfold def_of. rewrite Hd. reflexivity. Qed.

  Lemma occ_indep_F : forall n s, ro s < n -> occ st inj n s = occ st inj (F st) s.
  Proof.
    intros n s Hn. destruct (alookup (defs st) s) as [d|] eqn:Ed.
    - apply occ_indep; [exact Hn | exact (Hb s d Ed)].
    - destruct n as [|n]; [lia|]. rewrite F_eq. apply occ_undefined. exact Ed.
  Qed.

  Lemma upd_indep_F : forall n s, ro s < n -> upd st inj n s = upd st inj (F st) s.
  Proof.
    intros n s Hn. destruct (alookup (defs st) s) as [d|] eqn:Ed.
    - apply upd_indep; [exact Hn | exact (Hb s d Ed)].
    - destruct n as [|n]; [lia|]. rewrite F_eq. apply upd_undefined. exact Ed.
  Qed.

  (* the recursive call made from a defined key [h] at top-level fuel equals the top-level result *)
  Lemma occ_sub_F : forall h d a, alookup (defs st) h = Some d -> ro a < ro h ->
                                  occ st inj (S (length (defs st))) a = occ st inj (F st) a.
  Proof. intros h d a Hd Hlt. apply occ_indep_F. pose proof (Hb h d Hd) as HbF. rewrite F_eq in HbF. lia. Qed.

  Lemma upd_sub_F : forall h d a, alookup (defs st) h = Some d -> ro a < ro h ->
                                  upd st inj (S (length (defs st))) a = upd st inj (F st) a.
  Proof. intros h d a Hd Hlt. apply upd_indep_F. pose proof (Hb h d Hd) as HbF. rewrite F_eq in HbF. lia. Qed.
End OccIndep.
