(* C08 exactness proof: the mutator operations preserve the invariant and never free. *)
From Coq Require Import List Arith Bool Lia.
Import ListNotations.
From Sodium Require Import Gc GcExactBase GcExactWalks GcExactInv.

Lemma upd_nat_length l n v : length (upd_nat l n v) = length l.
Proof. revert n; induction l as [|x t IH]; intros [|k]; cbn [upd_nat length]; auto. Qed.
Lemma nth_upd_nat_same l n v : n < length l -> nth n (upd_nat l n v) 0 = v.
Proof. revert n; induction l as [|x t IH]; intros [|k] H; cbn [upd_nat nth length] in *; try lia; auto. apply IH; lia. Qed.
Lemma nth_upd_nat_other l n m v : n <> m -> nth m (upd_nat l n v) 0 = nth m l 0.
Proof. revert n m; induction l as [|x t IH]; intros [|k] [|j] H; cbn [upd_nat nth]; auto; try lia. Qed.

Lemma ex_range ex st todo h : FIt ex st todo -> ex h > 0 -> h < nobjs st.
Proof. intros F H. destruct (Nat.lt_ge_cases h (nobjs st)); auto. rewrite (fi_exr _ _ _ F h) in H; auto. lia. Qed.

Lemma ex_unfreed ex st todo h : FIt ex st todo -> ex h > 0 -> freed (get st h) = false.
Proof.
  intros F H. pose proof (ex_range _ _ _ _ F H) as Hr.
  destruct (freed (get st h)) eqn:Fh; auto. destruct (fi_freed _ _ _ F h Hr Fh) as (_ & X). lia.
Qed.

(* incrementing a count *)
Lemma inc_spec ex ex' st b todo todo' :
  FIt ex st todo -> b < nobjs st -> freed (get st b) = false ->
  (forall h, nobjs st <= h -> ex' h = 0) ->
  (forall v, v < nobjs st -> freed (get st v) = true -> ex' v = 0) ->
  (forall v, v < nobjs st -> ex' v + cnt todo' v = ex v + cnt todo v + (if Nat.eq_dec v b then 1 else 0)) ->
  (forall t, In t todo' -> t < nobjs st) ->
  FIt ex' (set st b (set_col (set_rc (get st b) (S (rc (get st b)))) Black)) todo'.
Proof.
  intros F Hb Fb Hr Hf Hc Ht.
  remember (set st b (set_col (set_rc (get st b) (S (rc (get st b)))) Black)) as st' eqn:Hst'.
  assert (N' : nobjs st' = nobjs st) by (subst st'; apply nobjs_set).
  assert (Gb : get st' b = set_col (set_rc (get st b) (S (rc (get st b)))) Black)
    by (subst st'; apply get_set_same; auto).
  assert (Go : forall v, v <> b -> get st' v = get st v) by (intros; subst st'; apply get_set_other; auto).
  assert (Ed : forall u, edges (get st' u) = edges (get st u)).
  { intros u. destruct (Nat.eq_dec u b) as [->|Ne]; [rewrite Gb; auto|rewrite Go; auto]. }
  constructor.
  - rewrite N'. auto.
  - eapply eir_ext; eauto. apply (fi_eir _ _ _ F).
  - intros v Hv. rewrite N' in Hv. rewrite (in_edges_ext st st' v N' Ed).
    pose proof (fi_rc _ _ _ F v Hv) as X. pose proof (Hc v Hv) as Y.
    destruct (Nat.eq_dec v b) as [->|Ne].
    + rewrite Gb. cbn [rc set_col set_rc]. lia.
    + rewrite Go by auto. lia.
  - intros v Hv Fv. rewrite N' in Hv. rewrite Ed.
    assert (Fv' : freed (get st v) = true).
    { destruct (Nat.eq_dec v b) as [->|Ne]; [rewrite Gb in Fv; cbn in Fv; congruence|rewrite Go in Fv; auto]. }
    split; [apply (fi_freed _ _ _ F v Hv Fv')|auto].
  - intros v. destruct (Nat.eq_dec v b) as [->|Ne].
    + rewrite Gb. cbn [adj visited set_col set_rc]. apply (fi_adj _ _ _ F).
    + rewrite Go by auto. apply (fi_adj _ _ _ F).
  - subst st'. apply (fi_tbf _ _ _ F).
  - subst st'. apply (fi_nodup _ _ _ F).
  - intros r Hr'. assert (Hr0 : In r (roots st)) by (subst st'; exact Hr').
    rewrite N'. destruct (fi_roots _ _ _ F r Hr0) as (A & B). split; auto.
    destruct (Nat.eq_dec r b) as [->|Ne]; [rewrite Gb; cbn; auto|rewrite Go; auto].
  - intros v Hv Fv Bv. rewrite N' in Hv. assert (X : In v (roots st)); [|subst st'; exact X].
    destruct (Nat.eq_dec v b) as [->|Ne].
    + rewrite Gb in Bv. cbn in Bv. apply (fi_buf _ _ _ F b Hv); auto.
    + rewrite Go in * by auto. apply (fi_buf _ _ _ F v Hv); auto.
  - intros v. destruct (Nat.eq_dec v b) as [->|Ne]; [rewrite Gb; cbn; auto|rewrite Go by auto; apply (fi_col _ _ _ F)].
  - intros v. destruct (Nat.eq_dec v b) as [->|Ne]; [rewrite Gb; cbn; discriminate|rewrite Go by auto; apply (fi_purple _ _ _ F)].
  - intros t Hin. rewrite N'. auto.
Qed.

(* replacing the edge list of an unfreed object *)
Lemma set_edges_spec ex st a es' todo todo' :
  FIt ex st todo -> a < nobjs st -> freed (get st a) = false ->
  (forall t, In t es' -> t < nobjs st) ->
  (forall v, cnt (edges (get st a)) v + cnt todo v = cnt es' v + cnt todo' v) ->
  (forall t, In t todo' -> t < nobjs st) ->
  FIt ex (set st a (set_edges (get st a) es')) todo'.
Proof.
  intros F Ha Fa Hes Hc Ht.
  remember (set st a (set_edges (get st a) es')) as st' eqn:Hst'.
  assert (N' : nobjs st' = nobjs st) by (subst st'; apply nobjs_set).
  assert (Ga : get st' a = set_edges (get st a) es') by (subst st'; apply get_set_same; auto).
  assert (Go : forall v, v <> a -> get st' v = get st v) by (intros; subst st'; apply get_set_other; auto).
  constructor.
  - rewrite N'. apply (fi_exr _ _ _ F).
  - intros u t Hu Hin. rewrite N' in *. destruct (Nat.eq_dec u a) as [->|Ne].
    + rewrite Ga in Hin. cbn in Hin. auto.
    + rewrite Go in Hin by auto. eapply (fi_eir _ _ _ F); eauto.
  - intros v Hv. rewrite N' in Hv.
    pose proof (cnt_in_set (fun _ => true) st a (set_edges (get st a) es') v Ha) as X. cbv beta iota in X.
    cbn [edges set_edges] in X. fold (in_edges st v) in X.
    assert (IE : in_edges st' v + cnt (edges (get st a)) v = in_edges st v + cnt es' v).
    { subst st'. exact X. }
    pose proof (fi_rc _ _ _ F v Hv) as Y. pose proof (Hc v) as Z.
    destruct (Nat.eq_dec v a) as [->|Ne]; [rewrite Ga; cbn [rc set_edges]|rewrite Go by auto]; lia.
  - intros v Hv Fv. rewrite N' in Hv. destruct (Nat.eq_dec v a) as [->|Ne].
    + rewrite Ga in Fv. cbn in Fv. congruence.
    + rewrite Go in * by auto. apply (fi_freed _ _ _ F v Hv Fv).
  - intros v. destruct (Nat.eq_dec v a) as [->|Ne]; [rewrite Ga; cbn [adj visited set_edges]|rewrite Go by auto]; apply (fi_adj _ _ _ F).
  - subst st'. apply (fi_tbf _ _ _ F).
  - subst st'. apply (fi_nodup _ _ _ F).
  - intros r Hr'. assert (Hr0 : In r (roots st)) by (subst st'; exact Hr').
    rewrite N'. destruct (fi_roots _ _ _ F r Hr0) as (A & B). split; auto.
    destruct (Nat.eq_dec r a) as [->|Ne]; [rewrite Ga; cbn; auto|rewrite Go; auto].
  - intros v Hv Fv Bv. rewrite N' in Hv. assert (X : In v (roots st)); [|subst st'; exact X].
    destruct (Nat.eq_dec v a) as [->|Ne].
    + rewrite Ga in Bv. cbn in Bv. apply (fi_buf _ _ _ F a Hv); auto.
    + rewrite Go in * by auto. apply (fi_buf _ _ _ F v Hv); auto.
  - intros v. destruct (Nat.eq_dec v a) as [->|Ne]; [rewrite Ga; cbn [col set_edges]|rewrite Go by auto]; apply (fi_col _ _ _ F).
  - intros v. destruct (Nat.eq_dec v a) as [->|Ne]; [rewrite Ga; cbn [col buffered set_edges]|rewrite Go by auto]; apply (fi_purple _ _ _ F).
  - intros t Hin. rewrite N'. auto.
Qed.

Lemma FIt_ext ex ex' st todo : (forall v, ex v = ex' v) -> FIt ex st todo -> FIt ex' st todo.
Proof.
  intros H F. constructor; try apply F.
  - intros h Hh. rewrite <- H. apply (fi_exr _ _ _ F); auto.
  - intros v Hv. rewrite <- H. apply (fi_rc _ _ _ F); auto.
  - intros v Hv Fv. rewrite <- H. apply (fi_freed _ _ _ F); auto.
Qed.

Lemma glive_ext ex ex' st v : (forall h, ex h = ex' h) -> glive ex st v -> glive ex' st v.
Proof. intros H (h & Hh & R). exists h. rewrite <- H. auto. Qed.

Lemma GI_ext ex ex' st : (forall v, ex v = ex' v) -> GI ex st -> GI ex' st.
Proof.
  intros H G. constructor; try apply G.
  - eapply FIt_ext; eauto. apply G.
  - intros v Hv Fv NL. apply (gi_cover _ _ G v Hv Fv). intros L. apply NL. eapply glive_ext; eauto.
Qed.

Lemma reach_same st st' a b : (forall u, edges (get st' u) = edges (get st u)) -> reach (E st) a b -> reach (E st') a b.
Proof. intros H. apply reach_mono. intros u t. unfold E. rewrite H. auto. Qed.

(* ---- GClone ---- *)
Lemma gclone_GI ex st o :
  GI ex st -> ex o > 0 ->
  exists st', inc_ref st o = Ok st' /\
    GI (fun v => if Nat.eq_dec v o then S (ex o) else ex v) st' /\
    nobjs st' = nobjs st /\ forall v, freed (get st' v) = freed (get st v).
Proof.
  intros G Ho. pose proof (gi_fi _ _ G) as F.
  pose proof (ex_range _ _ _ _ F Ho) as Hr. pose proof (ex_unfreed _ _ _ _ F Ho) as Fo.
  unfold inc_ref. rewrite Fo. eexists. split; [reflexivity|].
  set (ex' := fun v => if Nat.eq_dec v o then S (ex o) else ex v).
  remember (set st o (set_col (set_rc (get st o) (S (rc (get st o)))) Black)) as st' eqn:Hst'.
  assert (N' : nobjs st' = nobjs st) by (subst st'; apply nobjs_set).
  assert (Gb : get st' o = set_col (set_rc (get st o) (S (rc (get st o)))) Black)
    by (subst st'; apply get_set_same; auto).
  assert (Go : forall v, v <> o -> get st' v = get st v) by (intros; subst st'; apply get_set_other; auto).
  assert (Ed : forall u, edges (get st' u) = edges (get st u)).
  { intros u. destruct (Nat.eq_dec u o) as [->|Ne]; [rewrite Gb; auto|rewrite Go; auto]. }
  assert (Fr : forall v, freed (get st' v) = freed (get st v)).
  { intros u. destruct (Nat.eq_dec u o) as [->|Ne]; [rewrite Gb; auto|rewrite Go; auto]. }
  assert (F' : FIt ex' st' []).
  { subst st'. apply (inc_spec ex ex' st o [] [] F Hr Fo).
    - intros h Hh. unfold ex'. destruct (Nat.eq_dec h o); [lia|]. apply (fi_exr _ _ _ F); auto.
    - intros v Hv Fv. unfold ex'. destruct (Nat.eq_dec v o); [congruence|]. apply (fi_freed _ _ _ F v Hv Fv).
    - intros v Hv. unfold ex'. destruct (Nat.eq_dec v o); subst; lia.
    - intros t []. }
  split; [|split; auto]. constructor; auto.
  - intros v Hv Fv Rv. destruct (Nat.eq_dec v o) as [->|Ne].
    + rewrite Gb in Rv. cbn in Rv. lia.
    + rewrite Go in * by auto. rewrite N' in Hv. apply (gi_zero _ _ G); auto.
  - intros v Hv Fv. rewrite N' in Hv. rewrite Fr in Fv. destruct (Nat.eq_dec v o) as [->|Ne]; [congruence|].
    rewrite Go by auto. apply (gi_frc _ _ G); auto.
  - intros v Hv Fv NL Hall. rewrite N' in Hv. rewrite Fr in Fv.
    assert (NL0 : ~ glive ex st v).
    { intros (h & Hh & R). apply NL. exists h. split; [unfold ex'; destruct (Nat.eq_dec h o); lia|].
      eapply reach_same; eauto. }
    apply (gi_cover _ _ G v Hv Fv NL0). intros r Hr0 Pr Rr.
    destruct (Nat.eq_dec r o) as [->|Ne].
    + apply NL0. exists o. auto.
    + apply (Hall r).
      * subst st'. exact Hr0.
      * rewrite Go; auto.
      * eapply reach_same; eauto.
Qed.

(* ---- GDrop ---- *)
Lemma gdrop_GI ex st o :
  GI ex st -> ex o > 0 ->
  GI (fun v => if Nat.eq_dec v o then pred (ex o) else ex v) (dec_ref st o) /\
  nobjs (dec_ref st o) = nobjs st /\ forall v, freed (get (dec_ref st o) v) = freed (get st v).
Proof.
  intros G Ho. pose proof (gi_fi _ _ G) as F.
  pose proof (ex_range _ _ _ _ F Ho) as Hr. pose proof (ex_unfreed _ _ _ _ F Ho) as Fo.
  set (ex' := fun v => if Nat.eq_dec v o then pred (ex o) else ex v).
  assert (F1 : FIt ex' st [o]).
  { constructor; try apply F.
    - intros h Hh. unfold ex'. destruct (Nat.eq_dec h o); [lia|]. apply (fi_exr _ _ _ F); auto.
    - intros v Hv. pose proof (fi_rc _ _ _ F v Hv) as X. rewrite cnt_cons. unfold ex'.
      destruct (Nat.eq_dec v o) as [E1|E1]; destruct (Nat.eq_dec o v) as [E2|E2]; subst; try congruence; cbn in *; lia.
    - intros v Hv Fv. destruct (fi_freed _ _ _ F v Hv Fv). split; auto. unfold ex'.
      destruct (Nat.eq_dec v o); subst; [congruence|auto].
    - intros t [<-|[]]. auto. }
  destruct (dec_ref_spec ex' st o [] F1) as (F' & N' & Go & SC & RC & CP & Rin & Rout & Rt).
  remember (dec_ref st o) as st' eqn:Hst'.
  destruct SC as (Sf & Se & Sd & Sa & Sv).
  assert (Ed : forall u, edges (get st' u) = edges (get st u)).
  { intros u. destruct (Nat.eq_dec u o) as [->|Ne]; [auto|rewrite Go; auto]. }
  assert (Fr : forall v, freed (get st' v) = freed (get st v)).
  { intros u. destruct (Nat.eq_dec u o) as [->|Ne]; [auto|rewrite Go; auto]. }
  split; [|split; auto]. constructor; auto.
  - intros v Hv Fv Rv. destruct (Nat.eq_dec v o) as [->|Ne]; auto.
    rewrite Go in * by auto. rewrite N' in Hv. apply (gi_zero _ _ G); auto.
  - intros v Hv Fv. rewrite N' in Hv. rewrite Fr in Fv. destruct (Nat.eq_dec v o) as [->|Ne]; [congruence|].
    rewrite Go by auto. apply (gi_frc _ _ G); auto.
  - intros v Hv Fv NL Hall. rewrite N' in Hv. rewrite Fr in Fv.
    assert (No : ~ reach (E st) o v).
    { intros R. apply (Hall o); auto. eapply reach_same; eauto. }
    assert (NL0 : ~ glive ex st v).
    { intros (h & Hh & R). destruct (Nat.eq_dec h o) as [->|Ne]; [auto|].
      apply NL. exists h. split; [unfold ex'; destruct (Nat.eq_dec h o); [congruence|lia]|].
      eapply reach_same; eauto. }
    apply (gi_cover _ _ G v Hv Fv NL0). intros r Hr0 Pr Rr.
    apply (Hall r); auto.
    + destruct (Nat.eq_dec r o) as [->|Ne]; [auto|rewrite Go; auto].
    + eapply reach_same; eauto.
Qed.

(* ---- GUpgrade ---- *)
Lemma gupgrade_GI ex st o :
  GI ex st -> o < nobjs st ->
  let st' := (let '(st1, ok) := inc_ref_if_alive st o in if ok then dec_ref st1 o else st1) in
  GI ex st' /\ nobjs st' = nobjs st /\ forall v, freed (get st' v) = freed (get st v).
Proof.
  intros G Hr. pose proof (gi_fi _ _ G) as F. unfold inc_ref_if_alive.
  destruct (negb (Nat.eqb (rc (get st o)) 0) && negb (freed (get st o))) eqn:C; cbv zeta iota beta.
  2:{ auto. }
  apply andb_true_iff in C as (C1 & C2). apply negb_true_iff in C2.
  remember (set st o (set_col (set_rc (get st o) (S (rc (get st o)))) Black)) as st1 eqn:Hst1.
  assert (N1 : nobjs st1 = nobjs st) by (subst st1; apply nobjs_set).
  assert (Gb : get st1 o = set_col (set_rc (get st o) (S (rc (get st o)))) Black)
    by (subst st1; apply get_set_same; auto).
  assert (Go1 : forall v, v <> o -> get st1 v = get st v) by (intros; subst st1; apply get_set_other; auto).
  assert (F1 : FIt ex st1 [o]).
  { subst st1. apply (inc_spec ex ex st o [] [o] F Hr C2).
    - apply (fi_exr _ _ _ F).
    - intros v Hv Fv. apply (fi_freed _ _ _ F v Hv Fv).
    - intros v Hv. rewrite cnt_cons. destruct (Nat.eq_dec v o); destruct (Nat.eq_dec o v); subst; try congruence; cbn; lia.
    - intros t [<-|[]]. auto. }
  destruct (dec_ref_spec ex st1 o [] F1) as (F' & N' & Go & SC & RC & CP & Rin & Rout & Rt).
  remember (dec_ref st1 o) as st' eqn:Hst'.
  destruct SC as (Sf & Se & Sd & Sa & Sv).
  assert (Ed : forall u, edges (get st' u) = edges (get st u)).
  { intros u. destruct (Nat.eq_dec u o) as [->|Ne]; [rewrite Se, Gb; auto|rewrite Go, Go1; auto]. }
  assert (Fr : forall v, freed (get st' v) = freed (get st v)).
  { intros u. destruct (Nat.eq_dec u o) as [->|Ne]; [rewrite Sf, Gb; auto|rewrite Go, Go1; auto]. }
  assert (N'' : nobjs st' = nobjs st) by congruence.
  split; [|split; auto]. constructor; auto.
  - intros v Hv Fv Rv. destruct (Nat.eq_dec v o) as [->|Ne]; auto.
    rewrite Go, Go1 in * by auto. rewrite N'' in Hv. apply (gi_zero _ _ G); auto.
  - intros v Hv Fv. rewrite N'' in Hv. rewrite Fr in Fv. destruct (Nat.eq_dec v o) as [->|Ne]; [congruence|].
    rewrite Go, Go1 by auto. apply (gi_frc _ _ G); auto.
  - intros v Hv Fv NL Hall. rewrite N'' in Hv. rewrite Fr in Fv.
    assert (NL0 : ~ glive ex st v).
    { intros (h & Hh & R). apply NL. exists h. split; auto. eapply reach_same; eauto. }
    apply (gi_cover _ _ G v Hv Fv NL0). intros r Hr0 Pr Rr.
    apply (Hall r).
    + apply Rin. subst st1. exact Hr0.
    + destruct (Nat.eq_dec r o) as [->|Ne]; [auto|rewrite Go, Go1; auto].
    + eapply reach_same; eauto.
Qed.

(* ---- GAddEdge ---- *)
Lemma gaddedge_GI ex st a b :
  GI ex st -> ex a > 0 -> ex b > 0 ->
  exists st1, inc_ref st b = Ok st1 /\
    let st' := set st1 a (set_edges (get st1 a) (edges (get st1 a) ++ [b])) in
    GI ex st' /\ nobjs st' = nobjs st /\ forall v, freed (get st' v) = freed (get st v).
Proof.
  intros G Ha Hb. pose proof (gi_fi _ _ G) as F.
  pose proof (ex_range _ _ _ _ F Ha) as Hra. pose proof (ex_unfreed _ _ _ _ F Ha) as Fa.
  pose proof (ex_range _ _ _ _ F Hb) as Hrb. pose proof (ex_unfreed _ _ _ _ F Hb) as Fb.
  unfold inc_ref. rewrite Fb. eexists. split; [reflexivity|].
  remember (set st b (set_col (set_rc (get st b) (S (rc (get st b)))) Black)) as st1 eqn:Hst1.
  assert (N1 : nobjs st1 = nobjs st) by (subst st1; apply nobjs_set).
  assert (Gb : get st1 b = set_col (set_rc (get st b) (S (rc (get st b)))) Black)
    by (subst st1; apply get_set_same; auto).
  assert (Go1 : forall v, v <> b -> get st1 v = get st v) by (intros; subst st1; apply get_set_other; auto).
  assert (Ed1 : forall u, edges (get st1 u) = edges (get st u)).
  { intros u. destruct (Nat.eq_dec u b) as [->|Ne]; [rewrite Gb; auto|rewrite Go1; auto]. }
  assert (Fr1 : forall u, freed (get st1 u) = freed (get st u)).
  { intros u. destruct (Nat.eq_dec u b) as [->|Ne]; [rewrite Gb; auto|rewrite Go1; auto]. }
  assert (F1 : FIt ex st1 [b]).
  { subst st1. apply (inc_spec ex ex st b [] [b] F Hrb Fb).
    - apply (fi_exr _ _ _ F).
    - intros v Hv Fv. apply (fi_freed _ _ _ F v Hv Fv).
    - intros v Hv. rewrite cnt_cons. destruct (Nat.eq_dec v b); destruct (Nat.eq_dec b v); subst; try congruence; cbn; lia.
    - intros t [<-|[]]. auto. }
  cbv zeta.
  remember (set st1 a (set_edges (get st1 a) (edges (get st1 a) ++ [b]))) as st' eqn:Hst'.
  assert (Hra1 : a < nobjs st1) by lia.
  assert (N' : nobjs st' = nobjs st) by (subst st'; rewrite nobjs_set; auto).
  assert (Ga : get st' a = set_edges (get st1 a) (edges (get st1 a) ++ [b])) by (subst st'; apply get_set_same; auto).
  assert (Go : forall v, v <> a -> get st' v = get st1 v) by (intros; subst st'; apply get_set_other; auto).
  assert (F' : FIt ex st' []).
  { subst st'. apply (set_edges_spec ex st1 a _ [b] [] F1 Hra1).
    - rewrite Fr1; auto.
    - intros t Hin. apply in_app_or in Hin as [Hin|[<-|[]]]; [|lia].
      rewrite Ed1 in Hin. rewrite N1. apply (fi_eir _ _ _ F a t Hra Hin).
    - intros v. rewrite cnt_app. change (cnt [] v) with 0. lia.
    - intros t []. }
  assert (Same : forall v, rc (get st' v) = rc (get st1 v) /\ col (get st' v) = col (get st1 v) /\
                           freed (get st' v) = freed (get st1 v)).
  { intros v. destruct (Nat.eq_dec v a) as [->|Ne]; [rewrite Ga; cbn; auto|rewrite Go; auto]. }
  assert (Fr : forall v, freed (get st' v) = freed (get st v)).
  { intros v. destruct (Same v) as (_ & _ & ->). apply Fr1. }
  assert (Emono : forall u t, In t (E st u) -> In t (E st' u)).
  { intros u t. unfold E. destruct (Nat.eq_dec u a) as [->|Ne].
    - rewrite Ga. cbn [edges set_edges]. rewrite Ed1. intros; apply in_or_app; auto.
    - rewrite Go, Ed1; auto. }
  split; [|split; auto]. constructor; auto.
  - intros v Hv Fv Rv. destruct (Same v) as (Rc & Cl & _). rewrite Rc in Rv. rewrite Cl. rewrite Fr in Fv.
    destruct (Nat.eq_dec v b) as [->|Ne].
    + rewrite Gb in Rv. cbn in Rv. lia.
    + rewrite Go1 in * by auto. rewrite N' in Hv. apply (gi_zero _ _ G); auto.
  - intros v Hv Fv. rewrite N' in Hv. rewrite Fr in Fv. destruct (Same v) as (-> & _).
    destruct (Nat.eq_dec v b) as [->|Ne]; [congruence|].
    rewrite Go1 by auto. apply (gi_frc _ _ G); auto.
  - intros v Hv Fv NL Hall. rewrite N' in Hv. rewrite Fr in Fv.
    assert (NL0 : ~ glive ex st v).
    { intros (h & Hh & R). apply NL. exists h. split; auto. eapply reach_mono; eauto. }
    apply (gi_cover _ _ G v Hv Fv NL0). intros r Hr0 Pr Rr.
    destruct (Nat.eq_dec r b) as [->|Ne].
    + apply NL0. exists b. auto.
    + apply (Hall r).
      * subst st' st1. exact Hr0.
      * destruct (Same r) as (_ & -> & _). rewrite Go1; auto.
      * eapply reach_mono; eauto.
Qed.

(* ---- GRemoveEdge ---- *)
Lemma cnt_remove_nth l i b v : nth_error l i = Some b -> cnt l v = cnt (remove_nth l i) v + cnt [b] v.
Proof.
  revert i; induction l as [|x t IH]; intros [|k] H; cbn [nth_error remove_nth] in *; try discriminate.
  - injection H as ->. rewrite !cnt_cons. change (cnt [] v) with 0. lia.
  - rewrite (cnt_cons x t), (cnt_cons x (remove_nth t k)), (IH k H). lia.
Qed.

Lemma in_remove_nth {A} (l : list A) i t : In t (remove_nth l i) -> In t l.
Proof. revert i; induction l as [|x l IH]; intros [|k]; cbn [remove_nth In]; auto. intros [->|H]; eauto. Qed.

Lemma in_remove_or l i (b t : nat) : nth_error l i = Some b -> In t l -> In t (remove_nth l i) \/ t = b.
Proof.
  revert i; induction l as [|x l IH]; intros [|k] H Hin; cbn [nth_error remove_nth In] in *; try discriminate.
  - injection H as ->. destruct Hin; auto.
  - destruct Hin as [->|Hin]; auto. destruct (IH k H Hin); auto.
Qed.

Lemma gremove_GI ex st a i b :
  GI ex st -> ex a > 0 -> nth_error (edges (get st a)) i = Some b ->
  let st' := dec_ref (set st a (set_edges (get st a) (remove_nth (edges (get st a)) i))) b in
  GI ex st' /\ nobjs st' = nobjs st /\ forall v, freed (get st' v) = freed (get st v).
Proof.
  intros G Ha Hn. pose proof (gi_fi _ _ G) as F.
  pose proof (ex_range _ _ _ _ F Ha) as Hra. pose proof (ex_unfreed _ _ _ _ F Ha) as Fa.
  assert (Hinb : In b (edges (get st a))) by (eapply nth_error_In; eauto).
  assert (Hrb : b < nobjs st) by (eapply (fi_eir _ _ _ F); eauto).
  assert (Fb : freed (get st b) = false).
  { destruct (freed (get st b)) eqn:X; auto. pose proof (gi_frc _ _ G b Hrb X) as Z.
    pose proof (fi_rc _ _ _ F b Hrb) as Y.
    pose proof (cnt_in_ge (fun _ => true) st a b Hra eq_refl Hinb). unfold in_edges in Y. lia. }
  remember (set st a (set_edges (get st a) (remove_nth (edges (get st a)) i))) as st1 eqn:Hst1.
  assert (N1 : nobjs st1 = nobjs st) by (subst st1; apply nobjs_set).
  assert (Ga1 : get st1 a = set_edges (get st a) (remove_nth (edges (get st a)) i)) by (subst st1; apply get_set_same; auto).
  assert (Go1 : forall v, v <> a -> get st1 v = get st v) by (intros; subst st1; apply get_set_other; auto).
  assert (F1 : FIt ex st1 [b]).
  { subst st1. apply (set_edges_spec ex st a _ [] [b] F Hra Fa).
    - intros t Hin. apply in_remove_nth in Hin. apply (fi_eir _ _ _ F a t Hra Hin).
    - intros v. rewrite (cnt_remove_nth _ i b v Hn). change (cnt [] v) with 0. lia.
    - intros t [<-|[]]. auto. }
  assert (Same1 : forall v, rc (get st1 v) = rc (get st v) /\ col (get st1 v) = col (get st v) /\
                            freed (get st1 v) = freed (get st v)).
  { intros v. destruct (Nat.eq_dec v a) as [->|Ne]; [rewrite Ga1; cbn; auto|rewrite Go1; auto]. }
  cbv zeta.
  destruct (dec_ref_spec ex st1 b [] F1) as (F' & N' & Go & SC & RC & CP & Rin & Rout & Rt).
  remember (dec_ref st1 b) as st' eqn:Hst'.
  destruct SC as (Sf & Se & Sd & Sa & Sv).
  assert (Ed : forall u, edges (get st' u) = edges (get st1 u)).
  { intros u. destruct (Nat.eq_dec u b) as [->|Ne]; [auto|rewrite Go; auto]. }
  assert (Fr : forall v, freed (get st' v) = freed (get st v)).
  { intros u. destruct (Same1 u) as (_ & _ & <-). destruct (Nat.eq_dec u b) as [->|Ne]; [auto|rewrite Go; auto]. }
  assert (N'' : nobjs st' = nobjs st) by congruence.
  assert (Split : forall h x, reach (E st) h x -> reach (E st') h x \/ reach (E st') b x).
  { intros h x R. induction R as [x|u t x Hin R IH].
    - left. apply reach_refl.
    - destruct IH as [IH|IH]; [|auto].
      destruct (Nat.eq_dec u a) as [->|Ne].
      + unfold E in Hin. destruct (in_remove_or _ i b t Hn Hin) as [X| ->]; [|auto].
        left. eapply reach_step; [|exact IH]. unfold E. rewrite Ed, Ga1. exact X.
      + left. eapply reach_step; [|exact IH]. unfold E in *. rewrite Ed, Go1; auto. }
  assert (Back : forall h x, reach (E st') h x -> reach (E st) h x).
  { intros h x. apply reach_mono. intros u t. unfold E. rewrite Ed.
    destruct (Nat.eq_dec u a) as [->|Ne]; [rewrite Ga1; cbn; apply in_remove_nth|rewrite Go1; auto]. }
  assert (Rb : In b (roots st')). { apply Rt. destruct (Same1 b) as (_ & _ & ->). auto. }
  split; [|split; auto]. constructor; auto.
  - intros v Hv Fv Rv. destruct (Nat.eq_dec v b) as [->|Ne]; auto.
    rewrite Go in * by auto. destruct (Same1 v) as (Rc & Cl & Frr). rewrite Rc in Rv. rewrite Cl. rewrite Frr in Fv.
    rewrite N'' in Hv. apply (gi_zero _ _ G); auto.
  - intros v Hv Fv. rewrite N'' in Hv. rewrite Fr in Fv. destruct (Nat.eq_dec v b) as [->|Ne]; [congruence|].
    rewrite Go by auto. destruct (Same1 v) as (-> & _). apply (gi_frc _ _ G); auto.
  - intros v Hv Fv NL Hall. rewrite N'' in Hv. rewrite Fr in Fv.
    assert (No : ~ reach (E st') b v) by (apply Hall; auto).
    assert (NL0 : ~ glive ex st v).
    { intros (h & Hh & R). destruct (Split h v R) as [X|X]; [|auto]. apply NL. exists h. auto. }
    apply (gi_cover _ _ G v Hv Fv NL0). intros r Hr0 Pr Rr.
    destruct (Split r v Rr) as [X|X]; [|auto].
    apply (Hall r); auto.
    + apply Rin. subst st1. exact Hr0.
    + destruct (Nat.eq_dec r b) as [->|Ne]; [auto|]. rewrite Go by auto. destruct (Same1 r) as (_ & -> & _). auto.
Qed.

(* ---- GCreate ---- *)
Lemma gcreate_GI ex st :
  GI ex st ->
  let st' := fst (gc_new st) in
  GI (fun v => if Nat.eq_dec v (nobjs st) then 1 else ex v) st' /\ nobjs st' = S (nobjs st) /\
  forall v, v < nobjs st -> get st' v = get st v.
Proof.
  intros G. pose proof (gi_fi _ _ G) as F. cbv zeta. unfold gc_new. cbn [fst].
  remember (mkSt (objs st ++ [new_obj]) (roots st) (to_be_freed st) (trace_calls st) (trace_edges st)) as st' eqn:Hst'.
  set (n := nobjs st) in *.
  assert (N' : nobjs st' = S n).
  { subst st'. unfold nobjs. cbn [objs]. rewrite app_length. cbn. unfold n, nobjs. lia. }
  assert (Gl : forall v, v < n -> get st' v = get st v).
  { intros v Hv. subst st'. unfold get. cbn [objs]. apply app_nth1. exact Hv. }
  assert (Gn : get st' n = new_obj).
  { subst st'. unfold get. cbn [objs]. rewrite app_nth2; [|unfold n, nobjs; lia].
    unfold n, nobjs. rewrite Nat.sub_diag. reflexivity. }
  assert (Gh : forall v, n < v -> get st' v = get st v).
  { intros v Hv. rewrite !get_oor; auto; [unfold n in *; lia|lia]. }
  assert (Ed : forall u, edges (get st' u) = edges (get st u)).
  { intros u. destruct (Nat.lt_trichotomy u n) as [L|[->|L]]; [rewrite Gl; auto| |rewrite Gh; auto].
    rewrite Gn, (get_oor st n); [reflexivity|unfold n; lia]. }
  assert (IE : forall v, in_edges st' v = in_edges st v).
  { intros v. unfold in_edges, cnt_in. rewrite N'. cbn [sumf]. fold n. rewrite Gn. cbn [edges new_obj].
    change (cnt [] v) with 0. rewrite Nat.add_0_r. apply sumf_ext. intros i Hi. rewrite Gl; auto. }
  assert (IEn : in_edges st n = 0).
  { unfold in_edges, cnt_in. apply sumf_zero. intros i Hi. unfold cnt. apply count_occ_not_In.
    intros Hin. pose proof (fi_eir _ _ _ F i n Hi Hin). unfold n in *. lia. }
  set (ex' := fun v => if Nat.eq_dec v n then 1 else ex v).
  assert (Exn : ex n = 0) by (apply (fi_exr _ _ _ F); unfold n; lia).
  assert (Rr : forall r, In r (roots st) -> r < n) by (intros r Hr; apply (fi_roots _ _ _ F r Hr)).
  assert (RS : roots st' = roots st) by (subst st'; reflexivity).
  split; [|split; auto].
  assert (F' : FIt ex' st' []).
  { constructor.
    - intros h Hh. rewrite N' in Hh. unfold ex'. destruct (Nat.eq_dec h n); [lia|]. apply (fi_exr _ _ _ F). unfold n in *. lia.
    - intros u t Hu Hin. rewrite N' in *. rewrite Ed in Hin. destruct (Nat.eq_dec u n) as [->|Ne].
      + rewrite (get_oor st n) in Hin by (unfold n; lia). destruct Hin.
      + assert (u < n) by lia. pose proof (fi_eir _ _ _ F u t H Hin). unfold n in *. lia.
    - intros v Hv. rewrite N' in Hv. rewrite IE. change (cnt [] v) with 0. unfold ex'.
      destruct (Nat.eq_dec v n) as [->|Ne].
      + rewrite Gn, IEn. reflexivity.
      + assert (Hv' : v < n) by lia. rewrite Gl by auto. pose proof (fi_rc _ _ _ F v Hv') as X.
        change (cnt [] v) with 0 in X. lia.
    - intros v Hv Fv. rewrite N' in Hv. rewrite Ed. unfold ex'. destruct (Nat.eq_dec v n) as [->|Ne].
      + rewrite Gn in Fv. discriminate.
      + assert (Hv' : v < n) by lia. rewrite Gl in Fv by auto. apply (fi_freed _ _ _ F v Hv' Fv).
    - intros v. destruct (Nat.lt_trichotomy v n) as [L|[->|L]]; [rewrite Gl by auto|rewrite Gn; cbn; auto|rewrite Gh by auto]; apply (fi_adj _ _ _ F).
    - subst st'. apply (fi_tbf _ _ _ F).
    - rewrite RS. apply (fi_nodup _ _ _ F).
    - intros r Hr. rewrite RS in Hr. rewrite N'. pose proof (Rr r Hr). split; [lia|]. rewrite Gl by auto.
      apply (fi_roots _ _ _ F r Hr).
    - intros v Hv Fv Bv. rewrite N' in Hv. rewrite RS. destruct (Nat.eq_dec v n) as [->|Ne].
      + rewrite Gn in Bv. discriminate.
      + assert (Hv' : v < n) by lia. rewrite Gl in * by auto. apply (fi_buf _ _ _ F v Hv'); auto.
    - intros v. destruct (Nat.lt_trichotomy v n) as [L|[->|L]]; [rewrite Gl by auto|rewrite Gn; cbn; auto|rewrite Gh by auto]; apply (fi_col _ _ _ F).
    - intros v. destruct (Nat.lt_trichotomy v n) as [L|[->|L]]; [rewrite Gl by auto|rewrite Gn; cbn; discriminate|rewrite Gh by auto]; apply (fi_purple _ _ _ F).
    - intros t []. }
  constructor; auto.
  - intros v Hv Fv Rv. rewrite N' in Hv. destruct (Nat.eq_dec v n) as [->|Ne].
    + rewrite Gn in Rv. discriminate.
    + assert (Hv' : v < n) by lia. rewrite Gl in * by auto. apply (gi_zero _ _ G); auto.
  - intros v Hv Fv. rewrite N' in Hv. destruct (Nat.eq_dec v n) as [->|Ne].
    + rewrite Gn in Fv. discriminate.
    + assert (Hv' : v < n) by lia. rewrite Gl in * by auto. apply (gi_frc _ _ G); auto.
  - intros v Hv Fv NL Hall. rewrite N' in Hv. destruct (Nat.eq_dec v n) as [->|Ne].
    + apply NL. exists n. split; [unfold ex'; destruct (Nat.eq_dec n n); [lia|congruence]|apply reach_refl].
    + assert (Hv' : v < n) by lia. rewrite Gl in Fv by auto.
      assert (NL0 : ~ glive ex st v).
      { intros (h & Hh & R). apply NL. exists h. split.
        - unfold ex'. destruct (Nat.eq_dec h n); lia.
        - eapply reach_same; eauto. }
      apply (gi_cover _ _ G v Hv' Fv NL0). intros r Hr0 Pr Rr0.
      apply (Hall r).
      * rewrite RS. auto.
      * rewrite Gl; auto.
      * eapply reach_same; eauto.
Qed.

(* ---------- the script level ---------- *)
Lemma ext_of_range s h : length (ext s) <= h -> ext_of s h = 0.
Proof. intros. unfold ext_of. apply nth_overflow. auto. Qed.

Theorem WF_init : WF sinit.
Proof.
  split; [reflexivity|]. cbn [g sinit].
  assert (Gd : forall v, get empty_state v = dummy) by (intros [|v]; reflexivity).
  constructor; [constructor|..].
  - intros h _. unfold ext_of. cbn. destruct h; reflexivity.
  - intros u t Hu. cbn in Hu. lia.
  - intros v Hv. cbn in Hv. lia.
  - intros v Hv. cbn in Hv. lia.
  - intros v. rewrite Gd. auto.
  - reflexivity.
  - constructor.
  - intros r [].
  - intros v Hv. cbn in Hv. lia.
  - intros v. rewrite Gd. auto.
  - intros v. rewrite Gd. discriminate.
  - intros t [].
  - intros v Hv. cbn in Hv. lia.
  - intros v Hv. cbn in Hv. lia.
  - intros v Hv. cbn in Hv. lia.
Qed.

Theorem sstep_mut s op :
  WF s -> svalid s op = true -> op <> GCollect ->
  exists s', sstep s op = Ok s' /\ WF s' /\ nobjs (g s) <= nobjs (g s') /\
    forall o, o < nobjs (g s) -> freed (get (g s') o) = freed (get (g s) o).
Proof.
  intros (L & G) Hv Hop. pose proof (gi_fi _ _ G) as F.
  unfold sstep. rewrite Hv. cbn [negb].
  destruct op as [|o|o|a b|a i|o|]; cbn [svalid] in Hv; cbn [gstep].
  - (* GCreate *)
    destruct (gcreate_GI _ _ G) as (G' & N' & Gl). cbv zeta in *. cbn [bind].
    eexists. split; [reflexivity|]. cbn [g ext]. split; [|split; [lia|intros o Ho; rewrite Gl; auto]].
    split; [cbn [g ext]; rewrite app_length, N'; cbn; lia|]. cbn [g].
    eapply GI_ext; [|exact G']. intros v. cbv beta. unfold ext_of at 2. cbn [ext].
    destruct (Nat.eq_dec v (nobjs (g s))) as [->|Ne].
    + rewrite app_nth2 by lia. rewrite <- L, Nat.sub_diag. reflexivity.
    + destruct (Nat.lt_ge_cases v (length (ext s))).
      * rewrite app_nth1 by auto. reflexivity.
      * rewrite ext_of_range by auto. rewrite nth_overflow; auto. rewrite app_length. cbn. lia.
  - (* GClone *)
    apply Nat.ltb_lt in Hv. destruct (gclone_GI _ _ o G Hv) as (st' & Eq & G' & N' & Fr).
    rewrite Eq. cbn [bind]. eexists. split; [reflexivity|]. cbn [g ext]. split; [|split; [lia|auto]].
    split; [cbn [g ext]; rewrite upd_nat_length; congruence|]. cbn [g].
    eapply GI_ext; [|exact G']. intros v. cbv beta. unfold ext_of at 3. cbn [ext].
    pose proof (ex_range _ _ _ _ F Hv) as Hr.
    destruct (Nat.eq_dec v o) as [->|Ne].
    + rewrite nth_upd_nat_same by lia. reflexivity.
    + rewrite nth_upd_nat_other by auto. reflexivity.
  - (* GDrop *)
    apply Nat.ltb_lt in Hv. destruct (gdrop_GI _ _ o G Hv) as (G' & N' & Fr).
    cbn [bind]. eexists. split; [reflexivity|]. cbn [g ext]. split; [|split; [lia|auto]].
    split; [cbn [g ext]; rewrite upd_nat_length; congruence|]. cbn [g].
    eapply GI_ext; [|exact G']. intros v. cbv beta. unfold ext_of at 3. cbn [ext].
    pose proof (ex_range _ _ _ _ F Hv) as Hr.
    destruct (Nat.eq_dec v o) as [->|Ne].
    + rewrite nth_upd_nat_same by lia. reflexivity.
    + rewrite nth_upd_nat_other by auto. reflexivity.
  - (* GAddEdge *)
    apply andb_true_iff in Hv as (Ha & Hb). apply Nat.ltb_lt in Ha, Hb.
    destruct (gaddedge_GI _ _ a b G Ha Hb) as (st1 & Eq & G' & N' & Fr). cbv zeta in *.
    rewrite Eq. cbn [bind]. eexists. split; [reflexivity|]. cbn [g ext]. split; [|split; [lia|auto]].
    split; [cbn [g ext]; congruence|]. exact G'.
  - (* GRemoveEdge *)
    apply andb_true_iff in Hv as (Ha & Hi). apply Nat.ltb_lt in Ha, Hi.
    destruct (nth_error (edges (get (g s) a)) i) as [b|] eqn:Hn.
    2:{ apply nth_error_None in Hn. lia. }
    destruct (gremove_GI _ _ a i b G Ha Hn) as (G' & N' & Fr). cbv zeta in *.
    cbn [bind]. eexists. split; [reflexivity|]. cbn [g ext]. split; [|split; [lia|auto]].
    split; [cbn [g ext]; congruence|]. exact G'.
  - (* GUpgrade *)
    apply Nat.ltb_lt in Hv. destruct (gupgrade_GI _ _ o G Hv) as (G' & N' & Fr). cbv zeta in *.
    destruct (inc_ref_if_alive (g s) o) as [st1 ok] eqn:Eq.
    destruct ok; cbn [bind]; (eexists; split; [reflexivity|]; cbn [g ext]; split; [|split; [lia|auto]];
      split; [cbn [g ext]; congruence|exact G']).
  - congruence.
Qed.

Theorem mutator_never_frees s op s' :
  WF s -> svalid s op = true -> op <> GCollect -> sstep s op = Ok s' ->
  forall o, o < nobjs (g s) -> freed (get (g s') o) = freed (get (g s) o).
Proof.
  intros W V N Eq. destruct (sstep_mut s op W V N) as (s'' & Eq' & _ & _ & H).
  rewrite Eq in Eq'. injection Eq' as <-. exact H.
Qed.
