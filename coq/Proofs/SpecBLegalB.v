(* A boolean checker for legality (sound), so that concrete states are shown legal by computation. *)
From Coq Require Import List ZArith Bool Arith Lia.
Import ListNotations.
From Sodium Require Import Sodium SpecBBase SpecBMono SpecBLegal.
Local Open Scope nat_scope.

Definition cur_okb (st : state) (rc : nat -> nat) (h : nat) : bool :=
  match alookup (cvals st) h with
  | Some _ => true
  | None =>
    match alookup (defs st) h with
    | Some (DHold _) =>
      match alookup (inits st) h with
      | Some _ => true
      | None => match alookup (linit st) h with
                | Some z => match alookup (lazies st) z with
                            | Some (LzCell c', _) => rc c' <? rc h
                            | _ => true
                            end
                | None => true
                end
      end
    | Some (DMapC c' _) => rc c' <? rc h
    | Some (DLift cs _) => forallb (fun c' => rc c' <? rc h) cs
    | Some (DSwitchC c') =>
      (rc c' <? rc h) && match cur st (F st) c' with EV (VRef n) => rc n <? rc h | _ => true end
    | Some DCLoop => match alookup (loops st) h with Some t => rc t <? rc h | None => true end
    | _ => true
    end
  end.

Definition occ_okb (st : state) (inj : list (nat * val)) (ro : nat -> nat) (h : nat) : bool :=
  match alookup (defs st) h with
  | Some (DMap a _) | Some (DFilter a _) | Some (DSnapshot a _ _) | Some (DGate a _)
  | Some (DRouter a _) | Some (DHold a) => ro a <? ro h
  | Some (DOnce a) => amem (fired st) h || (ro a <? ro h)
  | Some (DMerge a b _) => (ro a <? ro h) && (ro b <? ro h)
  | Some (DUpdates c) | Some (DValue c) | Some (DMapC c _) => ro c <? ro h
  | Some (DSwitchS c) => match cur st (F st) c with EV (VRef n) => ro n <? ro h | _ => true end
  | Some DSLoop | Some DCLoop => match alookup (loops st) h with Some t => ro t <? ro h | None => true end
  | Some (DRoute r _) => match alookup (defs st) r with Some (DRouter a _) => ro a <? ro h | _ => true end
  | Some (DLift cs _) => forallb (fun c => ro c <? ro h) cs
  | Some (DSwitchC c') =>
    (ro c' <? ro h) &&
    match upd st inj (F st) c' with EV (Some (VRef n)) => ro n <? ro h | _ => true end &&
    match cur st (F st) c' with EV (VRef n) => ro n <? ro h | _ => true end
  | _ => true
  end.

Definition legalb (st : state) (inj : list (nat * val)) (rc ro : nat -> nat) : bool :=
  forallb (fun kd => (rc (fst kd) <? F st) && (ro (fst kd) <? F st) &&
                     cur_okb st rc (fst kd) && occ_okb st inj ro (fst kd)) (defs st).

Lemma cur_okb_sound : forall st rc h, cur_okb st rc h = true -> cur_ok st rc h.
Proof.
  intros st rc h H. unfold cur_okb in H. unfold cur_ok.
  destruct (alookup (cvals st) h); [exact I|].
  destruct (alookup (defs st) h) as [d|]; [|exact I].
  destruct d; try exact I.
  - destruct (alookup (inits st) h); [exact I|].
    destruct (alookup (linit st) h) as [z|]; [|exact I].
    destruct (alookup (lazies st) z) as [[[v|c'] i]|]; try exact I. apply Nat.ltb_lt. exact H.
  - apply Nat.ltb_lt. exact H.
  - intros c' Hin. rewrite forallb_forall in H. apply Nat.ltb_lt. exact (H c' Hin).
  - apply andb_true_iff in H. destruct H as [H1 H2]. split; [apply Nat.ltb_lt; exact H1|].
    intros n E. rewrite E in H2. apply Nat.ltb_lt. exact H2.
  - destruct (alookup (loops st) h); [apply Nat.ltb_lt; exact H | exact I].
Qed.

Lemma occ_okb_sound : forall st inj ro h, occ_okb st inj ro h = true -> occ_ok st inj ro h.
Proof.
  intros st inj ro h H. unfold occ_okb in H. unfold occ_ok.
  destruct (alookup (defs st) h) as [d|]; [|exact I].
  destruct d; try exact I; try (apply Nat.ltb_lt; exact H).
  - apply andb_true_iff in H. destruct H as [H1 H2]. split; apply Nat.ltb_lt; assumption.
  - intros E. rewrite E in H. apply Nat.ltb_lt. exact H.
  - intros n E. rewrite E in H. apply Nat.ltb_lt. exact H.
  - destruct (alookup (loops st) h); [apply Nat.ltb_lt; exact H | exact I].
  - destruct (alookup (defs st) r) as [[]|]; try exact I. apply Nat.ltb_lt. exact H.
  - intros c Hin. rewrite forallb_forall in H. apply Nat.ltb_lt. exact (H c Hin).
  - apply andb_true_iff in H. destruct H as [H H3]. apply andb_true_iff in H. destruct H as [H1 H2].
    split; [apply Nat.ltb_lt; exact H1|]. split.
    + intros n E. rewrite E in H2. apply Nat.ltb_lt. exact H2.
    + intros n E. rewrite E in H3. apply Nat.ltb_lt. exact H3.
  - destruct (alookup (loops st) h); [apply Nat.ltb_lt; exact H | exact I].
Qed.

Lemma cur_ok_undefined : forall st rc h, alookup (defs st) h = None -> cur_ok st rc h.
Proof. intros st rc h H. unfold cur_ok. rewrite H. destruct (alookup (cvals st) h); exact I. Qed.

Lemma occ_ok_undefined : forall st inj ro h, alookup (defs st) h = None -> occ_ok st inj ro h.
Proof. intros st inj ro h H. unfold occ_ok. rewrite H. exact I. Qed.

Theorem legalb_sound : forall st inj rc ro, legalb st inj rc ro = true -> LegalR st inj rc ro.
Proof.
  intros st inj rc ro H. unfold legalb in H. rewrite forallb_forall in H.
  assert (G : forall h d, alookup (defs st) h = Some d ->
                          rc h < F st /\ ro h < F st /\ cur_okb st rc h = true /\ occ_okb st inj ro h = true).
  { intros h d Hd. apply alookup_In in Hd. specialize (H _ Hd). simpl in H.
    apply andb_true_iff in H. destruct H as [H H4]. apply andb_true_iff in H. destruct H as [H H3].
    apply andb_true_iff in H. destruct H as [H1 H2].
    repeat split; try assumption; apply Nat.ltb_lt; assumption. }
  split; [intros h d Hd; exact (proj1 (G h d Hd))|].
  split; [intros h d Hd; exact (proj1 (proj2 (G h d Hd)))|].
  split; intros h; destruct (alookup (defs st) h) as [d|] eqn:Hd.
  - apply cur_okb_sound. exact (proj1 (proj2 (proj2 (G h d Hd)))).
  - apply cur_ok_undefined. exact Hd.
  - apply occ_okb_sound. exact (proj2 (proj2 (proj2 (G h d Hd)))).
  - apply occ_ok_undefined. exact Hd.
Qed.

Corollary legalb_Legal : forall st inj rc ro, legalb st inj rc ro = true -> Legal st inj.
Proof. intros st inj rc ro H. exists rc, ro. exact (legalb_sound _ _ _ _ H). Qed.

(* rank functions given by a table *)
Definition rank_of (tbl : list (nat * nat)) (h : nat) : nat :=
  match alookup tbl h with Some r => r | None => 0 end.

(* folding a script from a state, for building examples *)
Fixpoint run_ops (st : state) (ops : list op) : option state :=
  match ops with
  | [] => Some st
  | o :: t => match step [] st o with EV r => run_ops (fst (fst r)) t | EErr _ => None end
  end.
